"""C05 — accepted loop transformations preserve serial semantics.

Correspondence: generated loop programs x every target node x options: the real `validate`
(accept / refuse) of ChunkLoopTrans, LoopFuseTrans, LoopSwapTrans, HoistTrans must equal the Lean
model's (driver C05), and an accepted result exported to MiniF must equal the model's `apply`
output (fresh symbols mapped to the ids the real code created).
Property: original vs. transformed program executed by the Lean MiniF interpreter on the
program's own init block; a difference on an ACCEPTED transformation is confirmed by compiling
both programs with gfortran; a confirmed difference is a failing input."""
import os
import sys

import common
import minif
from common import sx, parse_sx

sys.path.insert(0, os.path.dirname(os.path.abspath(__file__)))
import c05_gen as G  # noqa: E402

FRESH0 = 900   # ids given to the model for fresh symbols when the real code refused

# candidate repairs (fixes/C05-*.patch) present in the tree under test: probed on every run, one
# canonical target per flag (order as in the Lean structure `C05.Fixes`)
FIXES = {"fuseOrder": 0, "chunkDiv": 0, "chunkSelf": 0}
_PROBE_HEAD = ("program p\n  integer :: s0, s1, t, i, j, k, ii, jj\n  integer, dimension(-14:26) :: a, b, c\n"
               "  i = 41\n")
PROBES = {
    "fuseOrder": ("fuse", "  do i = 1, 4\n    a(i) = 1\n  enddo\n  do i = 1, 4\n    b(i) = 2\n  enddo\n", [1, 0], None),
    "chunkDiv": ("chunk", "  do i = 1, 9, 2\n    a(i) = 1\n  enddo\n", [0], {"chunksize": 3}),
    "chunkSelf": ("chunk", "  do i = 1, i - 35\n    a(i) = 1\n  enddo\n", [0], {"chunksize": 2}),
}


def probe_fixes():
    """which repairs does the live code contain?  (a repaired validate refuses the canonical target)"""
    for name, (kind, body, target, opts) in PROBES.items():
        c = run_real(Case(kind, None, target, opts, False, src=_PROBE_HEAD + body + "  print *, a, b\nend program p\n"))
        if c.skip is not None or c.accepted is None:
            raise common.Infra(f"C05 probe {name} did not run: {c.skip}")
        FIXES[name] = 0 if c.accepted else 1


def with_fixes(line):
    return f"(fixes {FIXES['fuseOrder']} {FIXES['chunkDiv']} {FIXES['chunkSelf']} {line})"


# ---------------------------------------------------------------------------
# canonical form of MiniF S-expressions (seq is associative, skip is its unit)
def flat(s):
    if s is None:
        return []
    if s[0] == "skip":
        return []
    if s[0] in ("seqs", "seq"):
        out = []
        for c in s[1:]:
            out += flat(c)
        return out
    if s[0] == "ite":
        return [["ite", s[1], norm(s[2]), norm(s[3])]]
    if s[0] == "loop":
        return [["loop", s[1], s[2], s[3], s[4], norm(s[5])]]
    return [s]


def norm(s):
    return ["seqs"] + flat(s)


# ---------------------------------------------------------------------------
class Case:
    """one (program, transformation, target, options) with everything observed about it"""

    def __init__(self, kind, prog, target, opts=None, litstep=False, src=None):
        self.kind, self.prog, self.target, self.opts, self.litstep = kind, prog, target, opts, litstep
        self.src = src if src is not None else prog.source()
        self.line = None          # model protocol line
        self.accepted = None      # real validate accepted
        self.error = ""           # real error message
        self.real_out = None      # exported real result (normalised)
        self.new_src = None       # transformed program text
        self.orig_prog = self.new_prog = None   # whole-program MiniF
        self.names = None
        self.info = {}
        self.skip = None
        self.invalid = None       # why the transformed tree is not valid Fortran

    def payload(self):
        return {"kind": self.kind, "src": self.src, "target": self.target, "options": self.opts,
                "literal_negative_step": self.litstep}


class InvalidFortran(Exception):
    """the transformed tree is not a valid Fortran program"""


def parse5(src):
    """(FileContainer, program Routine): generated sources may start with the module of callees"""
    from psyclone.psyir.frontend.fortran import FortranReader
    from psyclone.psyir.nodes import Routine
    psyir = FortranReader().psyir_from_source(src)
    progs = [r for r in psyir.walk(Routine) if r.is_program]
    return psyir, progs[0]


def lower_calls(routine):
    """MiniF has no calls: `call bump(x)` / `call addto(x, d)` (module c05_mod of c05_gen) are replaced
    by the assignments their bodies perform, `x = 2 * x` / `x = x + d`.  A call argument is a
    READWRITE access for PSyclone; the model sees the read followed by the write."""
    from psyclone.psyir.nodes import Assignment, BinaryOperation, Call, Literal, Reference
    from psyclone.psyir.symbols import INTEGER_TYPE
    for call in routine.walk(Call):
        if type(call) is not Call:      # IntrinsicCall (MAX, MOD, ...) is an expression
            continue
        name = call.routine.name.lower()
        args = call.arguments if hasattr(call, "arguments") else call.children[1:]
        if not isinstance(args[0], Reference):
            # an expression as actual argument (only a broken transformation produces this):
            # `bump` has no INTENT, gfortran passes a temporary and the call has no effect;
            # for the INTENT(INOUT) dummy of `addto` the program is not valid Fortran
            if name == "bump":
                call.detach()
                continue
            raise InvalidFortran(f"call {name}: expression passed to an INTENT(INOUT) dummy argument")
        if name == "bump" and len(args) == 1:
            new = Assignment.create(args[0].copy(), BinaryOperation.create(
                BinaryOperation.Operator.MUL, Literal("2", INTEGER_TYPE), args[0].copy()))
        elif name == "addto" and len(args) == 2:
            new = Assignment.create(args[0].copy(), BinaryOperation.create(
                BinaryOperation.Operator.ADD, args[0].copy(), args[1].copy()))
        else:
            raise minif.Unsupported("call " + name)
        call.replace_with(new)


def body_loops(routine):
    from psyclone.psyir.nodes import Loop
    return [l for l in routine.walk(Loop) if l.variable.name in G.LOOPVARS]


def literalise_steps(routine):
    """`do i = 9, 1, -2` is read as UnaryOperation(MINUS, Literal): turn it into the negative
    Literal a PSyIR-building script would create (a valid Loop the transformations accept)."""
    from psyclone.psyir.nodes import Literal, UnaryOperation
    from psyclone.psyir.symbols import INTEGER_TYPE
    for l in body_loops(routine):
        st = l.step_expr
        if isinstance(st, UnaryOperation) and st.operator.name == "MINUS" and isinstance(st.children[0], Literal):
            st.replace_with(Literal("-" + st.children[0].value, INTEGER_TYPE))


def find_target(kind, routine, target):
    from psyclone.psyir.nodes import Assignment, Loop
    loops = body_loops(routine)
    if kind in ("chunk", "swap", "hoistbound", "tile2d", "replaceiv"):
        return loops[target[0]]
    if kind == "fuse":
        return loops[target[0]], loops[target[1]]
    if kind == "hoist":
        asg = [a for a in routine.walk(Assignment) if a.ancestor(Loop) is not None
               and a.ancestor(Loop).variable.name in G.LOOPVARS]
        return asg[target[0]]
    raise ValueError(kind)


def enumerate_targets(kind, routine):
    from psyclone.psyir.nodes import Assignment, Loop
    loops = body_loops(routine)
    if kind in ("chunk", "swap", "hoistbound", "tile2d", "replaceiv"):
        return [[k] for k in range(len(loops))]
    if kind == "fuse":
        out = []
        for a in range(len(loops)):
            for b in range(len(loops)):
                if a != b and loops[a].parent is loops[b].parent and abs(loops[a].position - loops[b].position) <= 2:
                    out.append([a, b])
        return out
    asg = [a for a in routine.walk(Assignment) if a.ancestor(Loop) is not None
           and a.ancestor(Loop).variable.name in G.LOOPVARS]
    return [[k] for k in range(len(asg))]


def transformation(kind):
    from psyclone.psyir import transformations as T
    return {"chunk": T.ChunkLoopTrans, "fuse": T.LoopFuseTrans, "swap": T.LoopSwapTrans,
            "hoist": T.HoistTrans, "hoistbound": T.HoistLoopBoundExprTrans,
            "tile2d": T.LoopTiling2DTrans, "replaceiv": T.ReplaceInductionVariablesTrans}[kind]()


def loop_parts(loop, names):
    return [names.id(loop.variable.name), minif.export_expr(loop.start_expr, names),
            minif.export_expr(loop.stop_expr, names), minif.export_expr(loop.step_expr, names)]


def children_sx(nodes, names):
    out = []
    for c in nodes:
        e = minif.export_stmt(c, names)
        if e is not None:
            out.append(e)
    return out


def run_real(case):
    """Run the real transformation on a fresh parse; fill in the model line and observations."""
    from psyclone.psyir.nodes import Loop, Reference
    from psyclone.psyir.transformations import TransformationError
    try:
        psyir, routine = parse5(case.src)
        if case.litstep:
            literalise_steps(routine)
        names = case.names = minif.Names()
        has_calls = "call " in case.src
        if has_calls:
            # model input and the original program come from a second parse with the calls lowered
            _, lowered = parse5(case.src)
            if case.litstep:
                literalise_steps(lowered)
            lower_calls(lowered)
            case.orig_prog = minif.export_stmt(lowered, names)
        else:
            lowered = routine
            case.orig_prog = minif.export_stmt(routine, names)
        tgt = find_target(case.kind, routine, case.target)
        def twin(node):     # the node at the same tree position in the call-free tree
            path = []
            while node is not routine:
                path.append(node.position)
                node = node.parent
            out = lowered
            for k in reversed(path):
                out = out.children[k]
            return out
        mtgt = tuple(twin(t) for t in tgt) if isinstance(tgt, tuple) else twin(tgt)
        trans = transformation(case.kind)
        kind = case.kind
        if kind == "chunk":
            loop = tgt
            model_loop = minif.export_stmt(mtgt, names)
            parent, pos = loop.parent, loop.position
            chunk = 32 if not case.opts else case.opts.get("chunksize", 32)
            case.info = {"step": model_loop[4], "chunk": chunk, "v": loop.variable.name,
                         "hi_mentions_v": loop.variable.name in [r.name for r in loop.stop_expr.walk(Reference)]}
        elif kind == "fuse":
            l1, l2 = tgt
            m1, m2 = minif.export_stmt(mtgt[0], names), minif.export_stmt(mtgt[1], names)
            adjacent = abs(l1.position - l2.position) == 1
            reversed_ = l2.position < l1.position
            case.info = {"reversed": reversed_, "v1": l1.variable.name, "v2": l2.variable.name}
        elif kind == "hoistbound":
            loop = tgt
            model_loop = minif.export_stmt(mtgt, names)
            parent, pos = loop.parent, loop.position
            case.info = {}
        elif kind == "replaceiv":
            loop = tgt
            parent, pos = loop.parent, loop.position
            n_siblings = len(parent.children)
            mloop = mtgt
            hdr = loop_parts(mloop, names)
            kids = children_sx(mloop.loop_body.children, names)
            case.info = {"v": loop.variable.name, "nested": loop.ancestor(Loop) is not None,
                         "bounds": [str(x.debug_string()) for x in loop.children[:3]],
                         "header_vars": sorted({r.name for b in loop.children[:3] for r in b.walk(Reference)})}
        elif kind in ("swap", "tile2d"):
            loop = tgt
            parent, pos = loop.parent, loop.position
            kids = children_sx(mtgt.loop_body.children, names)
            hdr = loop_parts(mtgt, names)
            inner = loop.loop_body.children[0] if loop.loop_body.children else None
            case.info = {"v": loop.variable.name,
                         "vi": inner.variable.name if isinstance(inner, Loop) else None}
            if kind == "tile2d":
                tile = 32 if not case.opts else case.opts.get("tilesize", 32)
                case.info.update({"tile": tile, "steps": [hdr[3]] + ([minif.export_expr(inner.step_expr, names)]
                                                                     if isinstance(inner, Loop) else []),
                                  "hi_mentions_v": any(l.variable.name in [r.name for r in l.stop_expr.walk(Reference)]
                                                       for l in [loop] + ([inner] if isinstance(inner, Loop) else []))})
        else:
            node = tgt
            loop = node.ancestor(Loop)
            parent, pos = loop.parent, loop.position
            direct = node
            while direct.parent is not loop.loop_body:
                direct = direct.parent
            k = next(n for n, x in enumerate(loop.loop_body.children) if x is direct)
            mloop = mtgt.ancestor(Loop)
            kids = list(mloop.loop_body.children)
            hdr = loop_parts(mloop, names)
            pre, post = children_sx(kids[:k], names), children_sx(kids[k + 1:], names)
            s = minif.export_stmt(kids[k], names)
            case.info = {"v": loop.variable.name, "nested": loop.ancestor(Loop) is not None,
                         "bounds": [str(x.debug_string()) for x in loop.children[:3]]}
        n_before = len(names.ids)
        # ---- the real transformation
        try:
            if kind == "fuse":
                trans.apply(l1, l2)
            elif kind in ("chunk", "tile2d"):
                trans.apply(loop, case.opts)
            else:
                trans.apply(tgt)
            case.accepted = True
        except TransformationError as e:
            case.accepted, case.error = False, str(e.value if hasattr(e, "value") else e)
        # ---- observations
        if case.accepted:
            case.new_src = minif.write_program(psyir)
            if has_calls:
                try:
                    lower_calls(routine)
                except InvalidFortran as e:
                    case.invalid = str(e)
            if case.invalid:
                case.real_out = ["invalid-fortran", case.invalid]
            elif kind == "fuse":
                case.real_out = norm(minif.export_stmt(l1, names))
            elif kind == "hoist":
                case.real_out = norm(["seqs", minif.export_stmt(parent.children[pos], names),
                                      minif.export_stmt(parent.children[pos + 1], names)])
            elif kind == "hoistbound":
                case.real_out = norm(["seqs"] + [minif.export_stmt(c, names)
                                                 for c in parent.children[pos:loop.position + 1]])
            elif kind != "replaceiv":
                case.real_out = norm(minif.export_stmt(parent.children[pos], names))
            if kind == "replaceiv" and not case.invalid:
                n_new = len(parent.children) - n_siblings
                case.info["post_assigned"] = [c.lhs.name for c in parent.children[pos + 1:pos + 1 + n_new]]
                case.real_out = norm(["seqs"] + [minif.export_stmt(c, names)
                                                 for c in parent.children[pos:pos + 1 + n_new]])
            if not case.invalid:
                case.new_prog = minif.export_stmt(routine, names)
        # ---- model line
        if kind == "chunk":
            if case.accepted:
                outer = parent.children[pos]
                out_id = names.id(outer.variable.name)
                el_id = names.id(outer.loop_body.children[0].lhs.name)
            else:
                out_id, el_id = FRESH0, FRESH0 + 1
            case.line = sx(["chunk", model_loop, chunk, 0, out_id, el_id])
        elif kind == "replaceiv":
            case.line = sx(["replaceiv"] + hdr + [kids])
        elif kind == "hoistbound":
            ids = []
            for k, b in enumerate([loop.start_expr, loop.stop_expr, loop.step_expr]):
                new = type(b) is Reference and names.ids.get(b.name.lower(), 10 ** 9) >= n_before
                ids.append(names.id(b.name) if new else FRESH0 + k)
            case.line = sx(["hoistbound", model_loop] + ids)
        elif kind == "tile2d":
            if case.accepted:
                outer = parent.children[pos]
                l2 = outer.loop_body.children[1]
                l3 = l2.loop_body.children[0]
                ids = [names.id(outer.variable.name), names.id(outer.loop_body.children[0].lhs.name),
                       names.id(l2.variable.name), names.id(l3.loop_body.children[0].lhs.name)]
            else:
                ids = [FRESH0, FRESH0 + 1, FRESH0 + 2, FRESH0 + 3]
            case.line = sx(["tile2d"] + hdr + [kids, tile] + ids)
        elif kind == "fuse":
            case.line = sx(["fuse", m1, m2, int(adjacent), int(reversed_)])
        elif kind == "swap":
            case.line = sx(["swap"] + hdr + [kids])
        else:
            case.line = sx(["hoist"] + hdr + [pre, s, post])
    except minif.Unsupported as e:
        case.skip = "unsupported: " + str(e)
    except NotImplementedError as e:
        case.skip = "not-implemented: " + str(e)[:60]
    return case


REASON_TEXT = {
    "badOption": "must be a positive integer", "nonLiteralStep": "non-literal step", "stepTooLarge": "larger step",
    "alreadyChunked": "already chunked", "zeroStep": "step size of 0", "boundWritten": "is written to inside the loop body",
    "notAdjacent": "next to each other", "boundsDiffer": "same iteration space", "loopVarUsed": "loop's variable",
    "scalarDep": "Scalar variable", "arrayIndexDep": "different index locations", "arrayNoLoopVar": "does not depend on loop variable",
    "emptyBody": "does not have any statements", "innerNotLoop": "not a valid loop", "notSingleInner": "exactly one inner loop",
    "innerVarInOuterBounds": "is part of the outer loop boundary", "outerVarInInnerBounds": "is part of the inner loop boundary",
    "notAssignment": "directly within a loop", "hoistReadAndWritten": "both read and written",
    "hoistAccessedBefore": "accessed earlier", "hoistOtherWrite": "additional write",
    "hoistReadsWritten": "written somewhere else",
    "stepNotDividing": "does not divide", "boundSelf": "depend on the loop variable",
}


# LoopFuseTrans iterates over a Python set of signatures: which of several dependence errors is
# raised first is not deterministic, so the three dependence classes are compared as one group
_DEP = ["scalarDep", "arrayIndexDep", "arrayNoLoopVar"]
REASON_GROUP = {r: _DEP for r in _DEP}


# ---------------------------------------------------------------------------
# classifiers of the known findings (applied to a confirmed failing input on which the model
# reproduced the acceptance and the result)
def varset(e, acc=None):
    acc = set() if acc is None else acc
    if isinstance(e, list):
        if e and e[0] in ("var", "idx1", "idx2", "assign", "store1", "store2") and isinstance(e[1], int):
            acc.add(e[1])
        if e and e[0] == "loop":
            acc.add(e[1])
        for c in e[1:] if e and isinstance(e[0], str) else e:
            varset(c, acc)
    return acc


def written(e, acc=None):
    acc = set() if acc is None else acc
    if isinstance(e, list) and e:
        if e[0] in ("assign", "store1", "store2", "loop"):
            acc.add(e[1])
        for c in e[1:]:
            written(c, acc)
    return acc


def trip(lo, hi, st):
    if st == 0:
        return 0
    q = abs(hi - lo + st) // abs(st)
    return max(0, q if (hi - lo + st) * st >= 0 else -q)


def static_trip(case):
    """trip count of a top-level hoist loop whose bounds are literals or initial scalars"""
    vals = case.prog.init_vals if case.prog is not None else {}
    out = []
    for b in case.info.get("bounds", []):
        b = b.strip()
        try:
            out.append(int(b))
        except ValueError:
            if b in vals and not case.info.get("nested"):
                out.append(vals[b])
            else:
                return None
    return trip(*out) if len(out) == 3 else None


def classify(case, diff_labels):
    """id of the known finding whose class contains this failing input, or None"""
    lv = set(G.LOOPVARS)
    only_loopvars = all(l in lv for l in diff_labels)
    kind, info = case.kind, case.info
    if kind == "chunk":
        st = info["step"]
        if st[0] == "lit" and st[1] < 0:
            return "C05-chunk-negative-step"
        if st[0] == "lit" and st[1] > 0 and info["chunk"] % st[1] != 0:
            return "C05-chunk-step-not-dividing"
        if info["hi_mentions_v"]:
            return "C05-chunk-stop-mentions-loopvar"
        if only_loopvars and set(diff_labels) <= {info["v"]}:
            return "C05-zero-trip-loop-variable"
        return None
    if kind == "fuse":
        if info["reversed"]:
            return "C05-fuse-reversed-arguments"
        if only_loopvars and set(diff_labels) <= {info["v1"], info["v2"]}:
            return "C05-zero-trip-loop-variable"
        p = parse_sx(case.line)
        b1, b2 = p[1][5], p[2][5]
        shared = (written(b1) & varset(b2)) | (written(b2) & varset(b1))
        if shared:
            return "C05-fuse-dependence"
        return None
    if kind == "swap":
        if only_loopvars and set(diff_labels) <= {info["v"], info["vi"]}:
            return "C05-zero-trip-loop-variable"
        return "C05-swap-dependence"
    if kind == "tile2d":
        for st in info["steps"]:
            if st[0] == "lit" and st[1] < 0:
                return "C05-chunk-negative-step"
            if st[0] == "lit" and st[1] > 0 and info["tile"] % st[1] != 0:
                return "C05-chunk-step-not-dividing"
        if info["hi_mentions_v"]:
            return "C05-chunk-stop-mentions-loopvar"
        if only_loopvars and set(diff_labels) <= {info["v"], info["vi"]}:
            return "C05-zero-trip-loop-variable"
        return "C05-swap-dependence"
    if kind == "hoistbound":
        return None
    if kind == "replaceiv":
        # the post-loop assignment `x = rhs(i - step)` is only right after at least one iteration
        if set(info.get("post_assigned", [])) & set(info.get("header_vars", [])):
            return "C05-replaceiv-header-reference"
        t = static_trip(case)
        if (t is None or t == 0) and info.get("post_assigned"):
            return "C05-replaceiv-zero-trip"
        return None
    if kind == "hoist":
        t = static_trip(case)
        if t is None or t == 0:
            return "C05-hoist-zero-trip"
        return None
    return None


# ---------------------------------------------------------------------------
def gfortran_outputs(case):
    s0, o0 = minif.gfortran_run(case.src)
    s1, o1 = minif.gfortran_run(case.new_src)
    if s0 != "ok" or s1 != "ok":
        return None, (s0, s1, (o0 + o1)[-300:])
    try:
        return (minif.parse_output(o0), minif.parse_output(o1)), None
    except ValueError:
        return None, ("unparsable", o0[-100:], o1[-100:])


def make_cases(chk, n):
    rng = chk.rng
    cases = []
    def opt(kind):
        return {"chunk": {"chunksize": rng.choice([2, 2, 3, 4])}, "tile2d": {"tilesize": rng.choice([2, 2, 3, 4])}}.get(kind)
    systematic = [(p, [("swap", None), ("tile2d", {"tilesize": rng.choice([2, 2, 3, 4])})])
                  for p in G.gen_swap_systematic(rng)] + [(p, [("fuse", None)]) for p in G.gen_fuse_systematic(rng)] \
        + [(p, [(kd, opt(kd)) for kd in kinds]) for p, kinds in G.gen_header_written_systematic(rng)]
    for k in range(n + len(systematic)):
        x = rng.random()
        if k < len(systematic):
            p, kinds = systematic[k]
        elif x < 0.3:
            p, opts = G.gen_chunk(rng)
            kinds = [("chunk", opts), ("hoistbound", None)]
        elif x < 0.55:
            p, kinds = G.gen_fuse(rng), [("fuse", None)]
        elif x < 0.72:
            p, kinds = G.gen_swap(rng), [("swap", None), ("chunk", rng.choice([None, {"chunksize": 2}])),
                                         ("tile2d", rng.choice([None, {"tilesize": 2}, {"tilesize": 2}, {"tilesize": 3},
                                                                {"tilesize": 4}, {"tilesize": 0}])),
                                         ("hoistbound", None)]
        elif x < 0.8:
            p, kinds = G.gen_hoist(rng), [("hoist", None), ("hoistbound", None)]
        elif x < 0.93:
            p, kinds = G.gen_replaceiv(rng), [("replaceiv", None)]
        else:
            p = G.gen_generic(rng)
            kinds = [("chunk", rng.choice([None, {"chunksize": 2}, {"chunksize": 3}])), ("fuse", None),
                     ("swap", None), ("hoist", None), ("hoistbound", None), ("replaceiv", None),
                     ("tile2d", rng.choice([None, {"tilesize": 2}, {"tilesize": 3}]))]
        src = p.source()
        try:
            _, routine = parse5(src)
        except Exception as e:   # generator produced something fparser rejects
            raise common.Infra(f"generated program does not parse: {e}\n{src}")
        for kind, opts in kinds:
            for tgt in enumerate_targets(kind, routine):
                lit = rng.random() < 0.7
                cases.append(Case(kind, p, tgt, opts, litstep=lit, src=src))
    return cases


def evaluate(chk, cases, stats, gf_budget, sample_rate=0.04):
    """correspondence + property on a batch of cases; returns number of failing inputs reported"""
    cases = [run_real(c) for c in cases]
    live = [c for c in cases if c.skip is None]
    stats["skipped"] += len(cases) - len(live)
    model = common.driver("C05", [with_fixes(c.line) for c in live])
    jobs, owners = [], []
    for c in live:
        if c.accepted and c.new_prog is not None:
            q = c.prog.queries(c.names)
            jobs += [(c.orig_prog, [], q), (c.new_prog, [], q)]
            owners.append(c)
    outs = minif.model_exec(jobs) if jobs else []
    exec_res = {id(c): (outs[2 * k], outs[2 * k + 1]) for k, c in enumerate(owners)}
    todo = []
    for c, mo in zip(live, model):
        m = parse_sx(mo) if mo.startswith("(") else mo
        m_acc = isinstance(m, list) and m[0] == "ok"
        agreed = (m_acc == c.accepted)
        what = None
        if not isinstance(m, list):
            raise common.Infra(f"C05 driver answered {mo!r} to {c.line[:200]}")
        if not agreed:
            what = f"{c.kind}: validate disagrees (model {'accepts' if m_acc else 'refuses ' + str(m[1])}, " \
                   f"real {'accepts' if c.accepted else 'refuses: ' + c.error[:80]})"
        elif c.accepted and norm(m[1]) != c.real_out:
            agreed, what = False, f"{c.kind}: apply output differs from the model"
        elif not c.accepted and not any(REASON_TEXT.get(r, "\0") in c.error for r in REASON_GROUP.get(m[1], [m[1]])):
            agreed, what = False, f"{c.kind}: refusal class differs (model {m[1]}, real: {c.error[:80]})"
        stats["kinds"][c.kind] = stats["kinds"].get(c.kind, 0) + 1
        key = c.kind + (":accept" if c.accepted else ":refuse:" + (m[1] if not m_acc else "?"))
        stats["outcomes"][key] = stats["outcomes"].get(key, 0) + 1
        chk.case({"kind": c.kind, "body": c.prog.body, "target": c.target, "options": c.opts, "lit": c.litstep,
                  "accepted": c.accepted}, nontrivial=True, agreed=agreed)
        if what:
            chk.correspondence_broken(what, c.payload(), mo[:600], {"accepted": c.accepted, "error": c.error[:200],
                                                                     "result": sx(c.real_out)[:600] if c.real_out else None})
        if not c.accepted:
            continue
        # ---- the property itself on the real code's result
        if c.new_prog is None:          # transformed tree is not valid Fortran: let gfortran judge
            todo.append((c, None, None, agreed))
            continue
        o, n = exec_res[id(c)]
        if minif.overflowed(o) or minif.overflowed(n):
            stats["overflow_skipped"] += 1
            continue
        labels = c.prog.labels()
        mdiff = [labels[k] for k in range(min(len(o), len(n), len(labels))) if o[k] != n[k]]
        cls = classify(c, mdiff) if (agreed and mdiff) else None
        if mdiff:
            stats["model_level_differences"] += 1
        if mdiff and cls is not None and cls in stats["known_ids"] and chk.rng.random() >= 0.1:
            # model and code agree on this case and it lies in the class of a listed finding (whose
            # committed witness is confirmed with gfortran below): not confirmed individually
            stats["known_class_hits"][cls] = stats["known_class_hits"].get(cls, 0) + 1
            continue
        if not mdiff and chk.rng.random() >= sample_rate:
            continue
        todo.append((c, o, n, agreed))
    # ---- gfortran confirmation (unclassified differences first, then the validation sample)
    todo.sort(key=lambda t: t[1] is not None and t[1] == t[2])
    if len(todo) > gf_budget[0]:
        stats["gfortran_budget_exhausted"] += len(todo) - gf_budget[0]
        todo = todo[:gf_budget[0]]
    gf_budget[0] -= len(todo)
    from concurrent.futures import ThreadPoolExecutor
    with ThreadPoolExecutor(max_workers=6) as ex:
        results = list(ex.map(lambda t: gfortran_outputs(t[0]), todo))
    for (c, o, n, agreed), (res, err) in zip(todo, results):
        stats["gfortran_runs"] += 1
        if res is None:
            if err[0] == "ok" and err[1] == "compile-error":
                # the original compiles, the accepted result does not: a failing input
                stats["failing"] += 1
                if stats["failing"] <= 3:
                    pay = c.payload()
                    pay.update({"kind_of_failure": "failing-input", "transformed": c.new_src,
                                "observed": "transformed program is rejected by gfortran: " + err[2][-300:],
                                "expected": "a program that compiles and prints the same values as the original",
                                "model_agreed": agreed})
                    chk.violation(pay)
                continue
            if err[0] == "compile-error" or err[1] == "compile-error":
                raise common.Infra(f"gfortran rejects a program: {err}\n{c.src}\n{c.new_src}")
            stats["gfortran_trap_skipped"] += 1
            continue
        g0, g1 = res
        if o is None:
            pass
        elif g0 != o or g1 != n:
            stats["oracle_disagreements"] += 1      # MiniF/exporter vs gfortran (e.g. out-of-bounds access)
            stats.setdefault("oracle_disagreement_sample", c.payload())
        else:
            stats["oracle_agreements"] += 1
        if g0 == g1:
            continue
        labels = c.prog.labels()
        diff = [labels[k] for k in range(min(len(g0), len(g1), len(labels))) if g0[k] != g1[k]]
        cls = classify(c, diff) if agreed else None
        if cls is not None and cls in stats["known_ids"]:
            stats["known_class_hits"][cls] = stats["known_class_hits"].get(cls, 0) + 1
            continue
        stats["failing"] += 1
        if stats["failing"] <= 3:
            pay = c.payload()
            pay.update({"kind_of_failure": "failing-input", "transformed": c.new_src,
                        "differing_observables": diff[:10],
                        "observed": [g1[k] for k in range(len(g1)) if k < len(g0) and g0[k] != g1[k]][:10],
                        "expected": [g0[k] for k in range(len(g0)) if k < len(g1) and g0[k] != g1[k]][:10],
                        "model_agreed": agreed, "nearest_class": classify(c, diff)})
            chk.violation(pay)
    return stats["failing"]


UNMODELLED = {}


def prepare_unmodelled(payload):
    """transformations without a Lean model: only the execution oracle (replay of findings)"""
    from psyclone.psyir import transformations as T
    from psyclone.psyir.transformations import TransformationError
    c = Case(payload["kind"], None, payload["target"], payload.get("options"), False, src=payload["src"])
    psyir, routine = minif.parse_program(c.src)
    loop = body_loops(routine)[c.target[0]]
    try:
        getattr(T, UNMODELLED[c.kind])().apply(loop, c.opts)
        c.accepted, c.new_src = True, minif.write_program(psyir)
    except TransformationError as e:
        c.accepted, c.error = False, str(e.value)
    return c


# ---------------------------------------------------------------------------
# FoldConditionalReturnExpressionsTrans: routines with RETURN (own statement type RStmt in the model)
def export_r(node, names):
    """PSyIR statement -> RStmt S-expression (`base` wraps a return-free MiniF statement)"""
    from psyclone.psyir.nodes import CodeBlock, IfBlock, Return
    if isinstance(node, Return):
        return ["ret"]
    if isinstance(node, IfBlock) and node.walk(Return):
        els = export_r_seq(node.else_body.children, names) if node.else_body is not None else ["skip"]
        return ["rite", minif.export_expr(node.condition, names), export_r_seq(node.if_body.children, names), els,
                1 if node.else_body is not None else 0]
    if node.walk(Return):
        raise minif.Unsupported("RETURN inside " + type(node).__name__)
    if isinstance(node, CodeBlock):
        return None
    e = minif.export_stmt(node, names)
    return None if e is None else ["base", e]


def export_r_seq(nodes, names):
    out = [export_r(n, names) for n in nodes]
    return ["rseqs"] + [x for x in out if x is not None]


def flat_r(s):
    if s is None or s[0] == "skip":
        return []
    if s[0] in ("rseqs", "rseq"):
        out = []
        for c in s[1:]:
            out += flat_r(c)
        return out
    if s[0] == "rite":      # the has-else flag only matters to the model's decisions, not to the result
        return [["rite", s[1], norm_r(s[2]), norm_r(s[3])]]
    if s[0] == "base":      # a return-free IfBlock may be exported as MiniF `ite` or kept as `rite`
        return [["rite", x[1], norm_r(["base", x[2]]), norm_r(["base", x[3]])] if x[0] == "ite" else ["base", x]
                for x in flat(s[1])]
    return [s]


def norm_r(s):
    return ["rseqs"] + flat_r(s)


def fold_case(src):
    """run the real transformation on the subroutine `work` of a generated file"""
    from psyclone.psyir.backend.fortran import FortranWriter
    from psyclone.psyir.frontend.fortran import FortranReader
    from psyclone.psyir.nodes import Call, Routine
    from psyclone.psyir.transformations import FoldConditionalReturnExpressionsTrans, TransformationError
    psyir = FortranReader().psyir_from_source(src)
    work = [r for r in psyir.walk(Routine) if r.name == "work"][0]
    prog = [r for r in psyir.walk(Routine) if r.is_program][0]
    names = minif.Names()
    init = []
    for c in prog.children:
        if isinstance(c, Call):
            break
        e = minif.export_stmt(c, names)
        if e is not None:
            init.append(["base", e])
    before = export_r_seq(work.children, names)
    res = {"names": names, "line": sx(["fold", before[1:]]), "orig": ["rseqs"] + init + [before]}
    try:
        FoldConditionalReturnExpressionsTrans().apply(work)
        res["accepted"] = True
    except TransformationError as e:
        res["accepted"], res["error"] = False, str(e.value)
        return res
    after = export_r_seq(work.children, names)
    res["real_out"] = norm_r(after)
    res["new"] = ["rseqs"] + init + [after]
    res["new_src"] = FortranWriter()(psyir)
    return res


def fold_queries(names, scalars, arrays):
    q = [(names.id(s),) for s in scalars]
    for a in arrays:
        q += [(names.id(a), i) for i in range(minif.A_LO, minif.A_HI + 1)]
    return q


def evaluate_fold(chk, n, stats):
    """correspondence (foldApply) + property (execR, gfortran) for FoldConditionalReturnExpressionsTrans"""
    cases = []
    for _ in range(n):
        src, scalars, arrays, body = G.gen_foldret(chk.rng)
        try:
            r = fold_case(src)
        except minif.Unsupported as e:
            stats["skipped"] += 1
            continue
        r.update({"src": src, "scalars": scalars, "arrays": arrays, "body": body})
        cases.append(r)
    if not cases:
        return
    model = common.driver("C05", [r["line"] for r in cases])
    lines, owners = [], []
    for r in cases:
        if r["accepted"]:
            q = [list(x) for x in fold_queries(r["names"], r["scalars"], r["arrays"])]
            lines += [sx(["execr", r["orig"], q]), sx(["execr", r["new"], q])]
            owners.append(r)
    outs = common.driver("C05", lines) if lines else []
    todo = []
    for k, r in enumerate(owners):
        r["o"] = [int(t) for t in outs[2 * k].strip("()").split()]
        r["n"] = [int(t) for t in outs[2 * k + 1].strip("()").split()]
    for r, mo in zip(cases, model):
        m = parse_sx(mo) if mo.startswith("(") else mo
        if not isinstance(m, list):
            raise common.Infra(f"C05 driver answered {mo!r} to {r['line'][:200]}")
        m_acc = m[0] == "ok"
        agreed = (m_acc == r["accepted"]) and (not m_acc or norm_r(m[1]) == r["real_out"])
        stats["kinds"]["foldret"] = stats["kinds"].get("foldret", 0) + 1
        key = "foldret:" + ("accept" if r["accepted"] else "refuse")
        stats["outcomes"][key] = stats["outcomes"].get(key, 0) + 1
        case = {"kind": "foldret", "body": r["body"]}
        chk.case(case, nontrivial=True, agreed=agreed)
        pay = {"kind": "foldret", "src": r["src"], "target": [0], "options": None, "literal_negative_step": False}
        if not agreed:
            chk.correspondence_broken("foldret: result differs from foldApply", pay, mo[:600],
                                      sx(r.get("real_out"))[:600] if r.get("real_out") else r.get("error"))
        if not r["accepted"]:
            continue
        differs = r["o"] != r["n"]
        if differs:
            stats["model_level_differences"] += 1
        if differs or chk.rng.random() < 0.08:
            todo.append((r, pay, agreed))
    from concurrent.futures import ThreadPoolExecutor

    def gf(t):
        r = t[0]
        return minif.gfortran_run(r["src"]), minif.gfortran_run(r["new_src"])
    with ThreadPoolExecutor(max_workers=6) as ex:
        results = list(ex.map(gf, todo))
    for (r, pay, agreed), ((s0, o0), (s1, o1)) in zip(todo, results):
        stats["gfortran_runs"] += 1
        if s0 != "ok":
            if s0 == "compile-error":
                raise common.Infra(f"gfortran rejects a generated program: {o0[-300:]}\n{r['src']}")
            stats["gfortran_trap_skipped"] += 1
            continue
        if s1 != "ok":
            g0, g1 = minif.parse_output(o0), None
        else:
            g0, g1 = minif.parse_output(o0), minif.parse_output(o1)
            if g0 == r["o"] and g1 == r["n"]:
                stats["oracle_agreements"] += 1
            elif not minif.overflowed(r["o"]) and not minif.overflowed(r["n"]):
                stats["oracle_disagreements"] += 1
                stats.setdefault("oracle_disagreement_sample", pay)
        if g1 is not None and g0 == g1:
            continue
        stats["failing"] += 1
        if stats["failing"] <= 3:
            pay = dict(pay, kind_of_failure="failing-input", transformed=r["new_src"], model_agreed=agreed,
                       observed=("transformed program fails: " + s1 + " " + o1[-200:]) if g1 is None else
                       [(k, a, b) for k, (a, b) in enumerate(zip(g0, g1)) if a != b][:6],
                       expected="same printed values as the original")
            chk.violation(pay)


def replay_fold(payload):
    r = fold_case(payload["src"])
    if not r["accepted"]:
        return False, "refused: " + r.get("error", "")[:200]
    (s0, o0), (s1, o1) = minif.gfortran_run(payload["src"]), minif.gfortran_run(r["new_src"])
    if s0 != "ok":
        return False, f"gfortran on the original: {s0}"
    if s1 != "ok":
        return True, f"accepted; the transformed program fails ({s1}): {o1[-200:]}"
    g0, g1 = minif.parse_output(o0), minif.parse_output(o1)
    diff = [(k, a, b) for k, (a, b) in enumerate(zip(g0, g1)) if a != b]
    if diff:
        return True, f"accepted; outputs differ at {len(diff)} positions, first: {diff[:4]}"
    return False, "accepted; outputs equal"


def prepare_replay(payload):
    if payload["kind"] in UNMODELLED:
        return prepare_unmodelled(payload)
    c = Case(payload["kind"], None, payload["target"], payload.get("options"),
             payload.get("literal_negative_step", False), src=payload["src"])
    return run_real(c)          # fparser is not thread-safe: always sequential


def judge_replay(c, gf):
    if c.skip:
        return False, "skipped: " + c.skip
    if not c.accepted:
        return False, "refused: " + c.error[:200]
    res, err = gf
    if res is None and err[0] == "ok" and err[1] == "compile-error":
        return True, "accepted; the transformed program is rejected by gfortran: " + err[2][-200:]
    if res is None:
        return False, f"gfortran: {err}"
    g0, g1 = res
    diff = [(k, a, b) for k, (a, b) in enumerate(zip(g0, g1)) if a != b]
    if diff:
        return True, f"accepted; outputs differ at {len(diff)} positions, first (index, original, transformed): {diff[:4]}"
    return False, "accepted; outputs equal"


def replay_case(payload):
    """re-run one stored input against the real code; returns (failing, text)"""
    if payload["kind"] == "foldret":
        return replay_fold(payload)
    c = prepare_replay(payload)
    return judge_replay(c, gfortran_outputs(c) if (c.skip is None and c.accepted) else (None, None))


def run(chk):
    chk.cov["rule"] = ("generated loop programs (literal/scalar/array bounds, steps 1..4 and negative, zero-trip and "
                       "single-trip loops, nested loops, conditionals) x every target of ChunkLoopTrans (chunksize "
                       "default/1..6/invalid), LoopFuseTrans (adjacent, reversed and non-adjacent sibling pairs), "
                       "HoistLoopBoundExprTrans, LoopTiling2DTrans (tilesize default/2..4/invalid), LoopSwapTrans (random nests plus, on every run, one nest per position at which a start/stop/step of one loop "
                       "references the other loop variable, and rectangular controls), HoistTrans; non-trivial = every case (each has a loop target); distinct by "
                       "canonical JSON of body+target+options")
    chk.assumptions += [
        "SymbolicMaths.equal on loop bounds is modelled as syntactic equality (generator emits identical or "
        "numerically different bound texts)",
        "symbols created by a transformation are fresh (checked per case: ids are taken from the real result)",
        "programs stay inside MiniF: integer scalars, rank<=2 arrays, no CodeBlocks inside loops, 32-bit range",
        "FoldConditionalReturnExpressionsTrans: routines whose RETURNs are not inside loops (own statement type RStmt)",
        "calls occur only in the ReplaceInductionVariablesTrans family (module c05_mod); a READWRITE call argument is "
        "modelled as read + write"]
    chk.cov["trusted_base"] = ["Lean 4.33.0 kernel", "axioms propext/Classical.choice/Quot.sound only (audited)",
                               "MiniF semantics (validated against gfortran on every differing case and a sample)",
                               "harness/minif.py exporter, harness/props/c05.py correspondence and classifiers"]
    chk.lean()
    probe_fixes()
    chk.cov["repairs_present_in_tree"] = dict(FIXES)
    known = common.known_findings("C05")
    stats = {"kinds": {}, "outcomes": {}, "skipped": 0, "overflow_skipped": 0, "gfortran_runs": 0,
             "gfortran_trap_skipped": 0, "gfortran_budget_exhausted": 0, "oracle_disagreements": 0,
             "oracle_agreements": 0, "model_level_differences": 0,
             "failing": 0, "known_class_hits": {}, "known_ids": [e["id"] for e in known]}
    thorough = chk.tier == "thorough"
    n = 900 if thorough else 85
    gf_budget = [400 if thorough else 24]
    # corpus of past failures first
    cdir = os.path.join(common.ROOT, "corpus", "C05")
    corpus = []
    if os.path.isdir(cdir):
        import json
        for f in sorted(os.listdir(cdir)):
            if f.endswith(".json"):
                pl = json.load(open(os.path.join(cdir, f)))
                if pl["kind"] == "foldret":
                    continue
                prog = G.P5(["s0", "s1", "t"], ["a", "b", "c"], ["m"] if ":: m" in pl["src"] else [], [], [], {})
                c = Case(pl["kind"], prog, pl["target"], pl.get("options"),
                         pl.get("literal_negative_step", False), src=pl["src"])
                corpus.append(c)
    evaluate(chk, corpus + make_cases(chk, n), stats, gf_budget)
    evaluate_fold(chk, 400 if thorough else 50, stats)
    if chk.broken and not chk.violations:
        # something no longer checks: search intensively for an input on which the property itself fails
        gf_budget[0] += 300
        evaluate(chk, make_cases(chk, 3 * n), stats, gf_budget, sample_rate=0.0)
        stats["intensive_search"] = True
    # known findings: replay the committed witnesses
    from concurrent.futures import ThreadPoolExecutor
    prepared = [prepare_replay(e["witness"]) for e in known]
    with ThreadPoolExecutor(max_workers=6) as ex:
        gfs = list(ex.map(lambda c: gfortran_outputs(c) if (c.skip is None and c.accepted) else (None, None), prepared))
    for e, c, gf in zip(known, prepared, gfs):
        failing, text = judge_replay(c, gf)
        if failing:
            chk.known(e["what"])
    stats.pop("known_ids")
    chk.cov["distribution"] = stats


def replay(payload):
    if "src" not in payload:
        print("replay file holds no failing input (broken proof obligation / correspondence):")
        for b in payload.get("broken", []):
            print(" -", b.get("what"))
        return 1
    failing, text = replay_case(payload)
    print("kind:", payload["kind"], "target:", payload["target"], "options:", payload.get("options"))
    print(payload["src"])
    print("expected: transformed program prints the same values as the original, or the transformation refuses")
    print("observed:", text)
    return 1 if failing else 0
