#!/venv/bin/python
"""Entry point:  run.py Cxx [--tier quick|thorough] [--replay FILE]"""
import argparse
import importlib
import json
import os
import sys
import traceback

sys.path.insert(0, os.path.dirname(os.path.abspath(__file__)))
import common  # noqa: E402


def main():
    ap = argparse.ArgumentParser()
    ap.add_argument("prop")
    ap.add_argument("--tier", default=os.environ.get("VERIF_TIER", "quick"))
    ap.add_argument("--replay")
    a = ap.parse_args()
    seed = int(os.environ.get("VERIF_SEED", "0") or 0)
    os.chdir(common.ROOT)
    mod = importlib.import_module("props." + a.prop.lower())
    try:
        if a.replay:
            payload = json.load(open(a.replay))
            return mod.replay(payload)
        chk = common.Check(a.prop, a.tier, seed)
        mod.run(chk)
        return chk.finish()
    except common.Infra as e:
        print(f"INFRASTRUCTURE ERROR ({a.prop}): {e}", file=sys.stderr)
        return 2
    except Exception:
        traceback.print_exc()
        print(f"INFRASTRUCTURE ERROR ({a.prop}): unexpected harness exception", file=sys.stderr)
        return 2


if __name__ == "__main__":
    sys.exit(main())
