#!/usr/bin/env python3
"""Coordinator tool: setreg.py Cxx < json {"text":..., "note":..., "technique":..., "status":...}
updates harness/registry.json and stores the DESIGN status paragraph in harness/reports/Cxx.status.md"""
import json, sys, os
root = os.path.dirname(os.path.dirname(os.path.abspath(__file__)))
pid = sys.argv[1]
d = json.load(sys.stdin)
p = os.path.join(root, "harness", "registry.json")
reg = json.load(open(p))
for k in ("text", "note", "technique"):
    if d.get(k):
        reg["checks"][pid][k] = d[k]
json.dump(reg, open(p, "w"), indent=1, ensure_ascii=False)
if d.get("status"):
    open(os.path.join(root, "harness", "reports", pid + ".status.md"), "w").write(d["status"].strip() + "\n")
print("updated", pid)
