#!/venv/bin/python
"""Coordinator tool (round 3+): take patch.diff + demo_* from a finished seed worktree (or from
seeded/<id><suffix>/ when already copied), and on a FRESH worktree of /repo HEAD
  1. run the demonstration without the change (must exit 0),
  2. apply the change, run the demonstration again (must exit non-zero),
  3. run `./check <pid>` with VERIF_REPO pointing at the changed worktree,
record everything in seeded/<id><suffix>/meta.json and remove the scratch worktrees.
usage: collect_seed3.py Cxx <suffix> "<what it needs to manifest>" [source-dir]"""
import json, os, shutil, subprocess, sys
pid, suffix, needs = sys.argv[1], sys.argv[2], sys.argv[3]
src = sys.argv[4] if len(sys.argv) > 4 else f"/tmp/seed-{pid}{suffix}"
dst = f"/verif/seeded/{pid}{suffix}"
os.makedirs(dst, exist_ok=True)
if os.path.isdir(src) and os.path.exists(f"{src}/patch.diff"):
    shutil.copy(f"{src}/patch.diff", dst)
    for f in os.listdir(src):
        if f.startswith("demo_"):
            shutil.copy(os.path.join(src, f), dst)
wt = f"/tmp/cseed-{pid}{suffix}"
subprocess.run(["git", "-C", "/repo", "worktree", "remove", "--force", wt], capture_output=True)
subprocess.run(["git", "-C", "/repo", "worktree", "add", "--detach", wt, "HEAD", "-q"], check=True)
head = subprocess.run(["git", "-C", "/repo", "rev-parse", "--short", "HEAD"], capture_output=True, text=True).stdout.strip()
env = dict(os.environ, PYTHONPATH=f"{wt}/src", PSYCLONE_CONFIG=f"{wt}/config/psyclone.cfg")
env.pop("SVALAT_PSYCLONE_VERIF", None)
demos = sorted((f for f in os.listdir(dst) if f.startswith("demo_")), key=lambda f: (not f.endswith(".py"), f))
local = os.path.join(wt, demos[0])
open(local, "w").write(open(os.path.join(dst, demos[0])).read().replace(src, wt))


def run_demo():
    try:
        r = subprocess.run(["/venv/bin/python", local], env=env, cwd=wt, capture_output=True, text=True, timeout=1800)
        return r.returncode, (r.stdout + r.stderr)[-600:]
    except subprocess.TimeoutExpired:
        return "timeout", ""


clean, _ = run_demo()
ap = subprocess.run(["git", "-C", wt, "apply", "--3way", os.path.join(dst, "patch.diff")], capture_output=True, text=True)
if ap.returncode != 0:
    print("PATCH DOES NOT APPLY", ap.stderr)
    sys.exit(2)
subprocess.run(["git", "-C", wt, "reset", "-q"], capture_output=True)
changed, tail = run_demo()
r = subprocess.run(["./check", pid], cwd="/verif", env=dict(os.environ, VERIF_REPO=wt), stdout=subprocess.PIPE, stderr=subprocess.STDOUT, text=True)
lines = [l for l in r.stdout.splitlines() if l.startswith("VIOLATION") or l.startswith(pid + " ")]
meta = {"property": pid, "round": suffix.lstrip("-") or "1",
        "source": "fresh sub-agent given only the property text and a scratch worktree",
        "needs": needs, "demo": demos,
        "confirmed_by_coordinator": {"repo_head": head, "demo_exit_without_change": clean, "demo_exit_with_change": changed,
                                     "demo_tail_with_change": tail[-300:]},
        "ran": f"VERIF_REPO={wt} ./check {pid}  (fresh worktree of /repo {head} with patch.diff applied)",
        "check_exit": r.returncode, "check_output": lines[:6],
        "detected": r.returncode == 1 and any("VIOLATION" in l for l in lines),
        "failing_input_found": any(l.startswith("VIOLATION") and "no-failing-input-found" not in l for l in lines)}
json.dump(meta, open(os.path.join(dst, "meta.json"), "w"), indent=1)
print(json.dumps(meta, indent=1))
# keep replay files the check wrote for this seed
subprocess.run(["git", "-C", "/repo", "worktree", "remove", "--force", wt], capture_output=True)
if os.path.isdir(src) and src.startswith("/tmp/seed-"):
    subprocess.run(["git", "-C", "/repo", "worktree", "remove", "--force", src], capture_output=True)
