#!/usr/bin/env python3
"""usage: mkprompt.py Cxx miss|partial|detected|none  < targets-text (TASK B body on stdin)"""
import sys, os
here = os.path.dirname(os.path.abspath(__file__))
p, mode = sys.argv[1], sys.argv[2]
common = open(os.path.join(here, "build3-common.txt")).read()
missA = open(os.path.join(here, "build3-C09.txt")).read().split("TASK A (first, most important).")[1].split("TASK B")[0]
if mode == "miss":
    a = "\nTASK A (first, most important)." + missA.replace("C09", p)
elif mode == "partial":
    a = "\nTASK A (first, most important)." + missA.replace("C09", p).replace("was NOT detected (exit 0)", "reported it only as `VIOLATION … no-failing-input-found` (a broken proof obligation/correspondence without a concrete failing input)")
elif mode == "detected":
    a = f"\nTASK A.  The round-3 independently seeded change seeded/{p}-3/ was detected with a failing input; nothing to strengthen for it, but re-run it at the end (scratch worktree with the patch) to make sure it is still detected.\n"
else:
    a = f"\nTASK A.  (No round-3 seeded change has arrived for {p} yet; the coordinator may send you one by message while you work — then treat it as described there.)\n"
b = sys.stdin.read()
txt = common + f"\nYOUR PROPERTY: {p}  (replace Cxx/cxx by {p}/{p.lower()} everywhere above)\n" + a + "\nTASK B (deepening).  Targets, in order:\n" + b + f"\n\nTASK C. Self-test (2 new realistic mutations of your own in a scratch worktree, saved as seeded/self-{p}-<n>/), then the final report.\n"
open(os.path.join(here, f"build3-{p}.txt"), "w").write(txt)
print("written", p, len(txt))
