import PsyVerif.Model.MiniFIO
import PsyVerif.Model.AD
open Proto MiniF

/-! Driver of C19.  Program format (all expressions in the MiniF S-expression format):
`stmt := (skip) | (seqs s…) | (asg aref (term…)) | (ite e s s) | (loop v lo hi st s) | (pas x e) | (sec ev cnt aref (term…))`,
`aref := (a i j)`, `term := (neg coef aref)`.
Operations:
* `(adj p)` / `(adjroutine (locals…) p)` → canonical printed adjoint; `(run p (bindings) (queries))` → `active:passive` values
* `(sem p (bindings) (queries))` → values of the model semantics (passive store = active store = bindings)
* `(safe p (bindings))` → 0/1;  `(why p (bindings))` → reasons for `safe` being false;  `(accepted (active ids) p)` → 0/1;  `(touched p (bindings))` → list of locations
* `(mfmatrix <MiniF stmt> (bindings) (locs))` → rows `A e_l` restricted to `locs`, MiniF.exec on
  the store `bindings + e_l` minus MiniF.exec on `bindings` (the affine part cancels) -/

namespace C19

partial def parseARef : Sexp → Option ARef
  | .list [a, i, j] => do some ⟨← a.nat?, ← parseExpr i, ← parseExpr j⟩
  | _ => none

def parseTerm : Sexp → Option Term
  | .list [n, c, r] => do some ⟨(← n.nat?) != 0, ← parseExpr c, ← parseARef r⟩
  | _ => none

partial def parseProg : Sexp → Option Stmt
  | .list [.atom "skip"] => some .skip
  | .list (.atom "seqs" :: ss) => do some (seqs (← ss.mapM parseProg))
  | .list [.atom "asg", l, .list ts] => do some (.assign (← parseARef l) (← ts.mapM parseTerm))
  | .list [.atom "asg", l, .atom _] => do some (.assign (← parseARef l) [])
  | .list [.atom "ite", c, t, f] => do some (.ite (← parseExpr c) (← parseProg t) (← parseProg f))
  | .list [.atom "loop", v, lo, hi, st, b] => do
      some (.loop (← v.nat?) (← parseExpr lo) (← parseExpr hi) (← parseExpr st) (← parseProg b))
  | .list [.atom "pas", x, e] => do some (.passign (← x.nat?) (← parseExpr e))
  | .list [.atom "sec", ev, cnt, l, .list ts] => do
      some (.sec (← ev.nat?) (← parseExpr cnt) (← parseARef l) (← ts.mapM parseTerm))
  | .list [.atom "sec", ev, cnt, l, .atom _] => do some (.sec (← ev.nat?) (← parseExpr cnt) (← parseARef l) [])
  | _ => none

def unName : UnOp → String
  | .neg => "neg" | .plus => "plus" | .not => "not" | .abs => "abs"

def binName : BinOp → String
  | .add => "add" | .sub => "sub" | .mul => "mul" | .div => "div" | .pow => "pow" | .mod => "mod"
  | .min => "min" | .max => "max" | .sign => "sign" | .eq => "eq" | .ne => "ne" | .lt => "lt"
  | .le => "le" | .gt => "gt" | .ge => "ge" | .and => "and" | .or => "or" | .eqv => "eqv"
  | .neqv => "neqv"

def showExpr : Expr → String
  | .lit n => s!"(lit {n})"
  | .var x => s!"(var {x})"
  | .idx1 a i => s!"(idx1 {a} {showExpr i})"
  | .idx2 a i j => s!"(idx2 {a} {showExpr i} {showExpr j})"
  | .un op e => s!"(un {unName op} {showExpr e})"
  | .bin op a b => s!"(bin {binName op} {showExpr a} {showExpr b})"

def showARef (r : ARef) : String := s!"({r.arr} {showExpr r.i} {showExpr r.j})"
def showTerm (t : Term) : String := s!"({if t.neg then 1 else 0} {showExpr t.coef} {showARef t.ref})"

partial def showBlock (p : Stmt) : String :=
  "(seqs" ++ String.join ((flat p).map fun s => " " ++ showStmt s) ++ ")"
where
  showStmt : Stmt → String
    | .assign l ts => s!"(asg {showARef l} {showList showTerm ts})"
    | .ite c t f => s!"(ite {showExpr c} {showBlock t} {showBlock f})"
    | .loop v lo hi st b => s!"(loop {v} {showExpr lo} {showExpr hi} {showExpr st} {showBlock b})"
    | .passign x e => s!"(pas {x} {showExpr e})"
    | .sec ev cnt l ts => s!"(sec {ev} {showExpr cnt} {showARef l} {showList showTerm ts})"
    | s => showBlock s

/-- why `safe` fails: `alias` (hidden alias), `spurious` (reversed zero-trip loop), `sec` (section
statement not accepted by `_array_ranges_match` or not conformable) — driver-side mirror of `safe` -/
partial def why : Stmt → Store → List String
  | .seq a b, ρ => why a ρ ++ why b ρ
  | .assign l ts, ρ => if noHiddenAlias l ts ρ then [] else ["alias"]
  | .ite c t f, ρ => if eval c ρ ≠ 0 then why t ρ else why f ρ
  | .loop v lo hi st b, ρ =>
      (if isUnitLit st || !spurious (eval lo ρ) (eval hi ρ) (eval st ρ) then [] else ["spurious"]) ++
      (iters (eval lo ρ) (eval hi ρ) (eval st ρ)).flatMap fun i => why b (ρ.set (v, 0, 0) i)
  | .sec ev cnt l ts, ρ => if secOK l ts && secInj ev cnt l ts ρ then [] else ["sec"]
  | _, _ => []

def showLoc (l : Loc) : String := s!"({l.1} {l.2.1} {l.2.2})"

@[noinline] def answer (σ : Store) (qs : List Loc) : String :=
  showList (fun l => toString (σ l)) qs

/-- values after `run`: active arrays from the active store, everything else from the passive store -/
@[noinline] def answer2 (r : Store × Store) (qs : List Loc) : String :=
  showList (fun l => toString (r.2 l) ++ ":" ++ toString (r.1 l)) qs

@[noinline] def row (base σ : Store) (qs : List Loc) : String :=
  showList (fun l => toString (σ l - base l)) qs

def mfmatrix (st : MiniF.Stmt) (init : List (Loc × Int)) (locs : List Loc) : String :=
  let base := exec st (storeOf init)
  showList (fun l => row base (exec st (storeOf ((l, (storeOf init) l + 1) :: init))) locs) locs

def handle (s : Sexp) : String :=
  match s with
  | .list [.atom "adj", p] =>
    match parseProg p with | none => "bad-prog" | some q => showBlock (adjoint q)
  | .list [.atom "adjroutine", ls, p] =>
    match parseProg p with | none => "bad-prog" | some q => showBlock (adjointRoutine ls.natList q)
  | .list [.atom "sem", p, init, qs] =>
    match parseProg p with
    | none => "bad-prog"
    | some q => let ρ := storeOf (parseBindings init)
                answer (sem q ρ ρ) (qs.items.filterMap parseLoc)
  | .list [.atom "run", p, init, qs] =>
    match parseProg p with
    | none => "bad-prog"
    | some q => let ρ := storeOf (parseBindings init)
                answer2 (run q ρ ρ) (qs.items.filterMap parseLoc)
  | .list [.atom "safe", p, init] =>
    match parseProg p with
    | none => "bad-prog"
    | some q => if safe q (storeOf (parseBindings init)) then "1" else "0"
  | .list [.atom "why", p, init] =>
    match parseProg p with
    | none => "bad-prog"
    | some q =>
      let ρ := storeOf (parseBindings init)
      let w := (why q ρ).eraseDups
      if safe q ρ != w.isEmpty then "bad-why" else showList id w
  | .list [.atom "scoped", p] =>
    match parseProg p with
    | none => "bad-prog"
    | some q => if wellScoped q && pureAD q then "1" else "0"
  | .list [.atom "accepted", a, p] =>
    match parseProg p with
    | none => "bad-prog"
    | some q => if Accepted a.natList q then "1" else "0"
  | .list [.atom "touched", p, init] =>
    match parseProg p with
    | none => "bad-prog"
    | some q => showList showLoc (touched q (storeOf (parseBindings init))).eraseDups
  | .list [.atom "mfmatrix", p, init, locs] =>
    match MiniF.parseStmt p with
    | none => "bad-stmt"
    | some st => mfmatrix st (parseBindings init) (locs.items.filterMap parseLoc)
  | _ => "bad-op"

end C19

def main : IO Unit := run C19.handle
