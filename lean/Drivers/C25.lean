import PsyVerif.Model.Proto
import PsyVerif.Model.GOcean
import PsyVerif.Gen.GOBounds
open Proto C25

/-! Line protocol of the C25 model.

* `(parse <bound>)`                         → `(start k)` | `(stop k)` | `(lit k)` | `none`
* `(henv g ex ey)`                          → the environment of the dl_esm_inf convention
* `(case (adds (A n off pt its b1 b2 b3 b4)*) (kerns (off pt its)*) (env ex ey nx ny (8 ints)*5)
         (steps (F (path) p) | (W tag (path) p len) | (C) ...) (pinned 0|1))`
  → `(adds ok|refuse|outside ...) (build ok|parse|gen) (steps 0|1 ...) (cb 0|1) (trace (k i j) ...)` -/

def showBnd : Option Bnd → String
  | none => "none"
  | some ⟨.lit, k⟩ => s!"(lit {k})"
  | some ⟨.start, k⟩ => s!"(start {k})"
  | some ⟨.stop, k⟩ => s!"(stop {k})"

def atomStr : Sexp → String
  | .atom s => s
  | _ => ""

def getNat (s : Sexp) : Nat := (s.nat?).getD 0
def getInt (s : Sexp) : Int := (s.int?).getD 0

def field (name : String) (xs : List Sexp) : List Sexp :=
  match xs.find? (fun x => match x with
      | .list (.atom n :: _) => n == name
      | _ => false) with
  | some (.list (_ :: r)) => r
  | _ => []

def rectOfInts : List Int → Rect × Rect
  | [a, b, c, d, e, f, g, h] => (⟨a, b, c, d⟩, ⟨e, f, g, h⟩)
  | _ => (⟨0, -1, 0, -1⟩, ⟨0, -1, 0, -1⟩)

def mkEnv (xs : List Sexp) : Env :=
  match xs with
  | ex :: ey :: nx :: ny :: rs =>
    let rects := rs.map (fun r => rectOfInts r.intList)
    { ex := getInt ex, ey := getInt ey, nx := getInt nx, ny := getInt ny,
      fint := fun pt => (rects.getD pt (⟨0, -1, 0, -1⟩, ⟨0, -1, 0, -1⟩)).1,
      fwhole := fun pt => (rects.getD pt (⟨0, -1, 0, -1⟩, ⟨0, -1, 0, -1⟩)).2 }
  | _ => hEnv 0 0 0

def showRect (r : Rect) : String := s!"{r.jlo} {r.jhi} {r.ilo} {r.ihi}"

def showEnv (e : Env) : String :=
  s!"({e.ex} {e.ey} {e.nx} {e.ny} " ++
    " ".intercalate ((List.range 5).map fun pt => s!"({showRect (e.fint pt)} {showRect (e.fwhole pt)})") ++ ")"

def mkStep : Sexp → Option Step
  | .list [.atom "F", path, p] => some (.fuse path.natList (getNat p))
  | .list [.atom "W", tag, path, p, len] => some (.wrap (getNat tag) path.natList (getNat p) (getNat len))
  | .list [.atom "C"] => some .const
  | _ => none

def doAdds : Table → List Nat → List Sexp → List String → Table × List Nat × List String
  | t, v, [], acc => (t, v, acc.reverse)
  | t, v, a :: r, acc =>
    match a with
    | .list (.atom "A" :: n :: off :: pt :: its :: bs) =>
      match addBounds t v (getNat n) ⟨getNat off, getNat pt, getNat its⟩ (bs.map fun b => (atomStr b).toList) with
      | .ok t' v' => doAdds t' v' r ("ok" :: acc)
      | .refuse => doAdds t v r ("refuse" :: acc)
      | .outside => doAdds t v r ("outside" :: acc)
    | _ => doAdds t v r ("bad" :: acc)

def showCall (c : Call) : String := s!"({c.1} {c.2.1} {c.2.2})"

def handleCase (xs : List Sexp) : String :=
  let (t, valid, addRes) := doAdds Gen.table Gen.validIteratesOver (field "adds" xs) []
  let ks : List Key := (field "kerns" xs).filterMap fun k =>
    match k.natList with
    | [a, b, c] => some ⟨a, b, c⟩
    | _ => none
  let head := "(adds " ++ " ".intercalate addRes ++ ")"
  match buildChecked t valid ks with
  | .parseError => head ++ " (build parse)"
  | .generationError => head ++ " (build gen)"
  | .ok root =>
    let env := mkEnv (field "env" xs)
    let pinned := (field "pinned" xs).map getNat == [1]
    let steps := (field "steps" xs).filterMap mkStep
    let (s, flags) := runSteps (if pinned then fuseValidPinned else fuseValid) t ⟨false, root⟩ steps
    let tr := exec t env s.cb s.root 0 0
    head ++ " (build ok) (steps " ++ " ".intercalate (flags.map fun b => if b then "1" else "0") ++
      s!") (cb {if s.cb then 1 else 0}) (trace " ++ " ".intercalate (tr.map showCall) ++ ")"

def handle (s : Sexp) : String :=
  match s with
  | .list [.atom "parse", b] => showBnd (parseBnd (atomStr b).toList)
  | .list [.atom "henv", g, ex, ey] => showEnv (hEnv (getNat g) (getInt ex) (getInt ey))
  | .list (.atom "case" :: xs) => handleCase xs
  | _ => "bad-request"

def main : IO Unit := run handle
