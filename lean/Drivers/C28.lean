import PsyVerif.Model.Proto
import PsyVerif.Model.PSyData
open Proto
open C28

/-! Line protocol of the C28 model.

stmt  := skip | b0 | b1 | (exit n) | (cycle n) | ret | retcb | (goto n) | (label n) | (start v) | (stop v)
       | (if BLOCK BLOCK) | (do psy BLOCK) | (dir d BLOCK) | (reg v kind name BLOCK)
BLOCK := (b stmt ...)            kind := 0 profile | 1 extract | 2 nanTest | 3 readOnly
name  := - | (m r)               psy := 0 | 1 (a PSyIR Loop node)
d     := 0 ompParallel | 1 ompDo | 2 ompParallelDo | 3 accParallel | 4 accLoop | 5 accKernels
frame := (pre-stmts  how  post-stmts)
         with how := (if0 ELSE-BLOCK) | (if1 THEN-BLOCK) | (do psy) | (dir d) | (reg v kind name)
opts  := (typeCheck prefixOK nameOK)  (0/1 each)

commands:
  (apply (frame ...) (pre ...) (mid ...) (post ...) kind name opts clash)
                                                        -> (fixed-verdict pinned-verdict BLOCK-after-apply | -)
  (gencode module ((name base) ...))                    -> (gname ...)
  (lower routine BLOCK)                                 -> (BLOCK-lowered (names ...))
  (explore BLOCK B D)                                   -> (ok runs) | (bad (oracle ...) (trace ...) outcome)
  (run BLOCK (oracle ...))                              -> ((trace ...) outcome)
  (names (req ...))   req := (u m r) | (a module base)  -> (gname ...)
-/

def kindOf : Nat → Option Kind
  | 0 => some .profile | 1 => some .extract | 2 => some .nanTest | 3 => some .readOnly | _ => none

def dirOf : Nat → Option Dir
  | 0 => some .ompParallel | 1 => some .ompDo | 2 => some .ompParallelDo
  | 3 => some .accParallel | 4 => some .accLoop | 5 => some .accKernels | _ => none

def dirNum : Dir → Nat
  | .ompParallel => 0 | .ompDo => 1 | .ompParallelDo => 2 | .accParallel => 3 | .accLoop => 4
  | .accKernels => 5

def parseName : Sexp → Option (Option (Nat × Nat))
  | .atom "-" => some none
  | .list [a, b] => do let m ← a.nat?; let r ← b.nat?; pure (some (m, r))
  | _ => none

def parseRInfo (v k n : Sexp) : Option RInfo := do
  let var ← v.nat?
  let kind ← kindOf (← k.nat?)
  let name ← parseName n
  pure ⟨var, kind, name⟩

mutual
partial def parseStmt : Sexp → Option Stmt
  | .atom "skip" => some .skip
  | .atom "b0" => some (.basic false)
  | .atom "b1" => some (.basic true)
  | .list [.atom "exit", n] => n.nat?.map .exit
  | .list [.atom "cycle", n] => n.nat?.map .cycle
  | .atom "ret" => some (.ret false)
  | .atom "retcb" => some (.ret true)
  | .list [.atom "goto", n] => n.nat?.map .goto
  | .list [.atom "label", n] => n.nat?.map .label
  | .list [.atom "start", n] => n.nat?.map (fun v => .emit (.start v))
  | .list [.atom "stop", n] => n.nat?.map (fun v => .emit (.stop v))
  | .list [.atom "if", a, b] => do pure (.ite (← parseBlock a) (← parseBlock b))
  | .list [.atom "do", p, a] => do pure (.loop ((← p.nat?) != 0) (← parseBlock a))
  | .list [.atom "dir", d, a] => do pure (.dir (← dirOf (← d.nat?)) (← parseBlock a))
  | .list [.atom "reg", v, k, n, a] => do pure (.region (← parseRInfo v k n) (← parseBlock a))
  | s@(.list (.atom "b" :: _)) => parseBlock s
  | _ => none
partial def parseStmts : List Sexp → Option (List Stmt)
  | [] => some []
  | x :: rest => do pure ((← parseStmt x) :: (← parseStmts rest))
partial def parseBlock : Sexp → Option Stmt
  | .list (.atom "b" :: xs) => (parseStmts xs).map seqs
  | _ => none
end

def parseList : Sexp → Option (List Stmt)
  | .list xs => parseStmts xs
  | _ => none

partial def flat : Stmt → List Stmt
  | .seq a b => flat a ++ flat b
  | .skip => []
  | s => [s]

def prName : Option (Nat × Nat) → String
  | none => "-"
  | some (m, r) => s!"({m} {r})"

mutual
partial def pr : Stmt → String
  | .skip => "skip"
  | .basic false => "b0"
  | .basic true => "b1"
  | .exit n => s!"(exit {n})"
  | .cycle n => s!"(cycle {n})"
  | .ret false => "ret"
  | .ret true => "retcb"
  | .goto l => s!"(goto {l})"
  | .label l => s!"(label {l})"
  | .emit (.start v) => s!"(start {v})"
  | .emit (.stop v) => s!"(stop {v})"
  | .ite a b => s!"(if {blk a} {blk b})"
  | .loop p a => s!"(do {if p then 1 else 0} {blk a})"
  | .dir d a => s!"(dir {dirNum d} {blk a})"
  | .region r a => s!"(reg {r.var} {kindNum r.kind} {prName r.name} {blk a})"
  | s@(.seq _ _) => blk s
partial def blk (s : Stmt) : String :=
  "(b" ++ String.join ((flat s).map fun x => " " ++ pr x) ++ ")"
end

def prVerdict : Verdict → String
  | .ok => "ok" | .empty => "empty" | .transfer => "transfer" | .excluded => "excluded"
  | .directive => "directive" | .option => "option" | .clash => "clash"

/-- One frame: the hole's Schedule is a child of a compound statement that sits between `pre`
and `post` in its own Schedule. -/
def frameCtx (pre : List Stmt) (how : Ctx → Ctx) (post : List Stmt) (inner : Ctx) : Ctx :=
  pre.foldr (fun p c => Ctx.seqR p c) (Ctx.seqL (how inner) (seqs post))

def parseHow : Sexp → Option (Ctx → Ctx)
  | .list [.atom "do", p] => do let b ← p.nat?; pure (fun c => Ctx.loopB (b != 0) c)
  | .list [.atom "dir", d] => do let dd ← dirOf (← d.nat?); pure (fun c => Ctx.dirB dd c)
  | .list [.atom "if0", e] => do let b ← parseBlock e; pure (fun c => Ctx.iteT c b)
  | .list [.atom "if1", t] => do let a ← parseBlock t; pure (fun c => Ctx.iteE a c)
  | .list [.atom "reg", v, k, n] => do let r ← parseRInfo v k n; pure (fun c => Ctx.regionB r c)
  | _ => none

partial def parseFrames : List Sexp → Option Ctx
  | [] => some .hole
  | .list [pre, how, post] :: rest => do
    let inner ← parseFrames rest
    pure (frameCtx (← parseList pre) (← parseHow how) (← parseList post) inner)
  | _ => none

def prEv : Ev → String
  | .start v => s!"(s {v})"
  | .stop v => s!"(e {v})"

def prOut : Out → String
  | .normal => "normal" | .exiting n => s!"(exiting {n})" | .cycling n => s!"(cycling {n})"
  | .returning => "returning"
  | .jumping l => s!"(jumping {l})"

def oracleOf (xs : Array Nat) : Nat → Nat := fun k => xs.getD k 0

/-- All executions whose first `D` oracle answers range over `0..B` (later answers are 0):
depth-first over the answers actually asked for. -/
partial def explore (p : Stmt) (B D : Nat) (xs : Array Nat) (count : Nat) :
    Nat × Option (Array Nat × Res) :=
  let r := run (oracleOf xs) p
  if r.k ≤ xs.size || xs.size ≥ D then
    if dyckCheck [] r.ev then (count + 1, none) else (count + 1, some (xs, r))
  else Id.run do
    let mut cnt := count
    for v in [0:B+1] do
      let (c', bad) := explore p B D (xs.push v) cnt
      cnt := c'
      if bad.isSome then return (cnt, bad)
    return (cnt, none)

def prGName : GName → String
  | .user m r => s!"(u {m} {r})"
  | .gen m b i => s!"(g {m} {b} {i})"

def prRName : RName → String
  | .user m r => s!"(u {m} {r})"
  | .auto m i => s!"(a {m} {i})"

def parseReq : Sexp → Option Req
  | .list [.atom "u", m, r] => do pure (.user (← m.nat?) (← r.nat?))
  | .list [.atom "a", m, b] => do pure (.auto (← m.nat?) (← b.nat?))
  | _ => none

def handleOpt : Sexp → Option String
  | .list [.atom "apply", .list frames, pre, mid, post, k, n, o, cl] => do
    let c ← parseFrames frames
    let pre ← parseList pre
    let mid ← parseList mid
    let post ← parseList post
    let kind ← kindOf (← k.nat?)
    let name ← parseName n
    let opts : Opts ← (match o.natList with
      | [a, b, d] => some { typeCheck := a != 0, prefixOK := b != 0, nameOK := d != 0 }
      | _ => none)
    let clash := (← cl.nat?) != 0
    let pinned := match applyAtPinned c pre mid post kind name opts clash with
      | .ok _ => "ok" | .error e => prVerdict e
    match applyAt c pre mid post kind name opts clash with
    | .ok q => pure s!"(ok {pinned} {blk q})"
    | .error e => pure s!"({prVerdict e} {pinned} -)"
  | .list [.atom "lower", routine, b] => do
    let p ← parseBlock b
    let rt ← routine.nat?
    pure s!"({blk (lower p)} {showList prRName (loweredNames rt p)})"
  | .list [.atom "explore", b, bb, dd] => do
    let p ← parseBlock b
    let B ← bb.nat?
    let D ← dd.nat?
    match explore p B D #[] 0 with
    | (n, none) => pure s!"(ok {n})"
    | (_, some (xs, r)) =>
      pure s!"(bad {showList toString xs.toList} {showList prEv r.ev} {prOut r.out})"
  | .list [.atom "run", b, o] => do
    let p ← parseBlock b
    let r := run (oracleOf o.natList.toArray) p
    pure s!"({showList prEv r.ev} {prOut r.out})"
  | .list [.atom "gencode", m, .list nodes] => do
    let ns ← nodes.mapM fun x => match x with
      | .list [n, b] => do pure ((← parseName n), (← b.nat?))
      | _ => none
    pure (showList prGName (genCodeNames (← m.nat?) ns))
  | .list [.atom "names", .list reqs] => do
    let rs ← reqs.mapM parseReq
    pure (showList prGName (uniqueNames [] rs))
  | _ => none

def handle (s : Sexp) : String := (handleOpt s).getD "bad-input"

def main : IO Unit := run handle
