import PsyVerif.Model.Proto
import PsyVerif.Model.Decls
import PsyVerif.Model.DeclsIO
open Proto Decls

/-- `(decls <unit>)`  → names of the declared symbols in written order, or the refusal;
`(params (name dep…)…)` → order of `_gen_parameter_decls`;
`(merge (outer…) ((id name kind)…) (((id name kind)…)…))` → merged routine table. -/
def handle (s : Sexp) : String :=
  match s with
  | .list [.atom "decls", u] =>
    match parseUnit u with
    | none => "bad-unit"
    | some u =>
      match genDecls u with
      | .error e => s!"(err {showErr e})"
      | .ok ds => "(ok " ++ " ".intercalate (ds.map fun d => toString d.name) ++ ")"
  | .list [.atom "params", .list es] =>
    let g : PGraph := es.filterMap fun e => match e.natList with | m :: ds => some (m, ds) | [] => none
    match orderParams g with
    | none => "none"
    | some out => showNats out
  | .list [.atom "merge", outer, .list self, .list inner] =>
    let o : List (List Nat) := outer.items.map Sexp.natList
    let sf := self.filterMap parseMSym
    let inn := inner.map fun t => t.items.filterMap parseMSym
    showMSyms (mergeScopes freshName C16.lower o [] sf inn)
  -- `(mergecb (outer…) (cbSelf…) ((id name kind (cb…))…) (((id name kind (cb…))…)…))`
  | .list [.atom "mergecb", outer, cbs, .list self, .list inner] =>
    let o : List (List Nat) := outer.items.map Sexp.natList
    let cb : List (List Nat) := cbs.items.map Sexp.natList
    let sf := self.filterMap parseMSym
    let inn := inner.map fun t => t.items.filterMap parseMSym
    showMSyms (mergeScopes freshName C16.lower o cb sf inn)
  | _ => "bad-command"

def main : IO _root_.Unit := run handle
