import PsyVerif.Model.Proto
import PsyVerif.Model.Halo
open Proto C22

/-! Line protocol of the C22 model.

`(place A (kern ...) (op ...))`  A = compute_annexed_dofs 0/1
   kern = `(k dof (field access disc stencil) ...)`  access 0 read 1 write 2 readwrite 3 inc 4 readinc;
          stencil = `x` | `(l n)` | `(v id)`
   op   = `(rc i d)` (d = 0: maximum depth) | `(col i)` | `(async i)` | `(move i j)`   (indices into the flat schedule)
   → `(ok item ...)` | `(refused n)` (the n-th op is refused by the model)
   item = `(h kind f (depth ...) chk)` | `(l lvl col)` | `(sd f)` | `(sc f depth)`
          kind 0 sync 1 start 2 finish; depth = `(lit var max m1 annexedOnly)` var = `x` | id; lvl = `o` | `a` | `(h d)` | `m`
`(exec A Hmax (litem ...))` litem = `(h kind f (depth ...) chk)` | `(l kern lvl col)` | `(sd f)` | `(sc f depth)`
   → `(ok n (fail ...))` n = number of (field, H, env, cont, initial state) combinations executed;
     one `(fail reason f H (env ...) cont ann cd recorded step)` per distinct (reason, field, step). -/

def b2s (b : Bool) : String := if b then "1" else "0"
def sBool (s : Sexp) : Bool := s.nat?.getD 0 == 1

def parseAccess (n : Nat) : Access :=
  match n with
  | 0 => .read | 1 => .write | 2 => .readwrite | 3 => .inc | _ => .readinc

def parseArg (s : Sexp) : Option Arg :=
  match s with
  | .list [f, acc, d, st] =>
    let sten : Option Extent := match st with
      | .list [.atom "l", n] => some (.lit (n.nat?.getD 0))
      | .list [.atom "v", n] => some (.var (n.nat?.getD 0))
      | _ => none
    some ⟨f.nat?.getD 0, parseAccess (acc.nat?.getD 0), sBool d, sten⟩
  | _ => none

def parseKern (s : Sexp) : Kern :=
  match s with
  | .list (.atom "k" :: dof :: args) => ⟨sBool dof, args.filterMap parseArg⟩
  | _ => ⟨false, []⟩

def parseLevel (s : Sexp) : Level :=
  match s with
  | .atom "o" => .owned
  | .atom "a" => .annexed
  | .atom "m" => .haloMax
  | .list [.atom "h", d] => .halo (d.nat?.getD 0)
  | _ => .owned

def showLevel : Level → String
  | .owned => "o" | .annexed => "a" | .haloMax => "m" | .halo d => s!"(h {d})"

def parseDepth (s : Sexp) : HaloDepth :=
  match s with
  | .list [l, v, m, m1, a] => ⟨l.nat?.getD 0, v.nat?, sBool m, sBool m1, sBool a⟩
  | _ => ⟨0, none, false, false, false⟩

def showDepth (d : HaloDepth) : String :=
  let v := match d.var with | some v => toString v | none => "x"
  s!"({d.lit} {v} {b2s d.maxDepth} {b2s d.maxM1} {b2s d.annexedOnly})"

def kindNum : HexKind → Nat | .sync => 0 | .start => 1 | .finish => 2
def parseKind (n : Nat) : HexKind := match n with | 0 => .sync | 1 => .start | _ => .finish

def showLItem : LItem → String
  | .hex kind f ds chk => s!"(h {kindNum kind} {f} {showList showDepth ds} {b2s chk})"
  | .loop _ b => s!"(l {showLevel b.lvl} {b2s b.coloured})"
  | .setDirty f => s!"(sd {f})"
  | .setClean f d => s!"(sc {f} {showDepth d})"

def parseLItem (s : Sexp) : Option LItem :=
  match s with
  | .list [.atom "h", kind, f, .list ds, chk] =>
    some (.hex (parseKind (kind.nat?.getD 0)) (f.nat?.getD 0) (ds.map parseDepth) (sBool chk))
  | .list [.atom "l", k, lvl, col] => some (.loop (parseKern k) ⟨parseLevel lvl, sBool col⟩)
  | .list [.atom "sd", f] => some (.setDirty (f.nat?.getD 0))
  | .list [.atom "sc", f, d] => some (.setClean (f.nat?.getD 0) (parseDepth d))
  | _ => none

inductive Op where
  | rc (i d : Nat) | col (i : Nat) | async (i : Nat) | move (i j : Nat) | bad

def parseOp (s : Sexp) : Op :=
  match s with
  | .list [.atom "rc", i, d] => .rc (i.nat?.getD 0) (d.nat?.getD 0)
  | .list [.atom "col", i] => .col (i.nat?.getD 0)
  | .list [.atom "async", i] => .async (i.nat?.getD 0)
  | .list [.atom "move", i, j] => .move (i.nat?.getD 0) (j.nat?.getD 0)
  | _ => .bad

def applyOp (cfg : Cfg) (s : Sched) : Op → Option Sched
  | .rc i d => rcEdit cfg s i (if d == 0 then none else some d)
  | .col i => colourEdit s i
  | .async i => asyncEdit s i
  | .move i j => moveEdit s i j
  | .bad => none

def applyOps (cfg : Cfg) : Sched → List Op → Nat → Except Nat Sched
  | s, [], _ => .ok s
  | s, o :: os, n =>
    match applyOp cfg s o with
    | some s' => applyOps cfg s' os (n + 1)
    | none => .error n

/-! ### exhaustive abstract execution -/

def fieldsOf (prog : List LItem) : List Nat :=
  (prog.foldl (fun acc x => match x with
    | .hex _ f _ _ => f :: acc
    | .loop k _ => k.args.map (·.field) ++ acc
    | .setDirty f => f :: acc
    | .setClean f _ => f :: acc) []).eraseDups.reverse

def varsOf (prog : List LItem) : List Nat :=
  (prog.foldl (fun acc x => match x with
    | .hex _ _ ds _ => ds.filterMap (·.var) ++ acc
    | .loop k _ => k.args.filterMap (fun a => match a.stencil with | some (.var v) => some v | _ => none) ++ acc
    | .setClean _ d => d.var.toList ++ acc
    | _ => acc) []).eraseDups.reverse

/-- all assignments of 1..2 to the variables -/
def envs : List Nat → List (List (Nat × Nat))
  | [] => [[]]
  | v :: vs => (envs vs).flatMap fun e => [(v, 1) :: e, (v, 2) :: e]

def envFn (e : List (Nat × Nat)) (v : Nat) : Nat :=
  match e.find? (fun p => p.1 == v) with
  | some p => p.2
  | none => 1

def failName : Failure → String
  | .dirtyRead => "dirtyRead" | .recordedTooClean => "recordedTooClean" | .asyncPairing => "asyncPairing"

/-- run for the harness: a dirty read is recorded and execution continues (so that one failure
does not mask later ones); any other failure stops the run.  Returns (failure, step index) list. -/
def runAll (H : Nat) (env : Nat → Nat) (cont : Bool) (f : Nat) :
    List LItem → RState → Nat → List (Failure × Nat)
  | [], s, n => match runF H env cont f [] s with
    | .error e => [(e, n)]
    | .ok _ => []
  | x :: xs, s, n => match stepF H env cont f s x with
    | .error .dirtyRead =>
      -- continue as if the read had been satisfied
      let s' : RState := match x with
        | .loop k b => match argOf k f with
          | some a => if a.access.writes then { s with act := specAfter H cont k b a s.act } else s
          | none => s
        | _ => s
      (Failure.dirtyRead, n) :: runAll H env cont f xs s' (n + 1)
    | .error e => [(e, n)]
    | .ok s' => runAll H env cont f xs s' (n + 1)

def initStates (cfg : Cfg) (cont : Bool) (H : Nat) : List RState :=
  ([false, true].flatMap fun ann => (List.range (H + 1)).flatMap fun cd =>
    (List.range (cd + 1)).map fun r => (⟨r, ⟨ann, cd⟩, none⟩ : RState)).filter (wfState cfg cont)

/-- all distinct (reason, field, step) failures with the first witness of each -/
def execAll (cfg : Cfg) (hmax : Nat) (prog : List LItem) : String := Id.run do
  let fields := fieldsOf prog
  let es := envs (varsOf prog)
  let mut n := 0
  let mut seen : List (String × Nat × Nat) := []
  let mut out : List String := []
  for f in fields do
    for H in (List.range hmax).map (· + 1) do
      for e in es do
       if deepEnough H (envFn e) prog then
        for cont in [false, true] do
          if consistentF cont f prog then
            for s in initStates cfg cont H do
              n := n + 1
              for (err, idx) in runAll H (envFn e) cont f prog s 0 do
                let key := (failName err, f, idx)
                if !seen.contains key then
                  seen := key :: seen
                  out := s!"(fail {failName err} {f} {H} {showList (fun p => s!"({p.1} {p.2})") e} {b2s cont} {b2s s.act.ann} {s.act.cd} {s.recorded} {idx})" :: out
  return s!"(ok {n} {showList id out.reverse})"

def handle (s : Sexp) : String :=
  match s with
  | .list [.atom "place", a, .list ks, .list ops] =>
    let cfg : Cfg := ⟨sBool a⟩
    let s0 := placeInvoke cfg (ks.map parseKern)
    match applyOps cfg s0 (ops.map parseOp) 0 with
    | .error n => s!"(refused {n})"
    | .ok s1 => "(ok " ++ " ".intercalate ((lower cfg s1).map showLItem) ++ ")"
  | .list [.atom "exec", a, h, .list items] =>
    execAll ⟨sBool a⟩ (h.nat?.getD 3) (items.filterMap parseLItem)
  | _ => "bad-command"

def main : IO Unit := run handle
