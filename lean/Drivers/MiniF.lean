import PsyVerif.Model.MiniFIO
open Proto MiniF

@[noinline] def answer (σ : Store) (qs : List Loc) : String :=
  showList (fun l => toString (σ l)) qs

/-- `(exec <stmt> (<bindings>) (<query locs>))` → values at the queried locations after
running the statement from the store given by the bindings (all other locations 0). -/
def handle (s : Sexp) : String :=
  match s with
  | .list [.atom "exec", p, init, qs] =>
    match parseStmt p with
    | none => "bad-stmt"
    | some st =>
      answer (exec st (storeOf (parseBindings init))) (qs.items.filterMap parseLoc)
  | .list [.atom "eval", e, init] =>
    match parseExpr e with
    | none => "bad-expr"
    | some ex => toString (eval ex (storeOf (parseBindings init)))
  | _ => "bad-op"

def main : IO Unit := run handle
