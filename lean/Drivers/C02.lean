import PsyVerif.Model.Proto
import PsyVerif.Model.ExprIO
import PsyVerif.Model.ExprIOCanon
import PsyVerif.Gen.IntrinsicArgs
open Proto C02

/-! Line protocol of the C02 model.
* `(w M <expr>)`  → `error` if the writer refuses, else the token list of `render M top` (M: 0 pinned, 1 narrow, 2 wide)
* `(x <expr>)`    → `1`/`0` : `exposed top` (known-finding class of the narrow writer)
* `(p <tok> ...)` → the tree `parse` returns, or `none`
* `(n <expr>)`    → `norm`, or `none`
* `(c <expr>)`    → `1`/`0` : litsCanonical
* `(r <tok> ...)` → the tree `read liveCfg` returns (grammar + canonicalisation of intrinsic arguments), or `none`
* `(kn <expr>)`   → `(norm e).bind (canonTree liveCfg)`: what the full reader gives back for the written tree, or `none`
* `(e2e M <expr>)` → `error` if the writer refuses, else `read liveCfg (render M top e)` (tree or `none`): the model's
                     end-to-end prediction of what is read back
* `(m <expr>)`    → `1`/`0` : mmsCanonical liveCfg
* `(cm <args>)`   → `canonMMS liveCfg` on an argument list: `(ok <args>)` or `(err generation|internal|notImplemented|index)`
-/

def liveCfg : IntrCfg := ⟨C02.Gen.mmsFns, C02.Gen.kwArray, C02.Gen.kwDim, C02.Gen.kwMask⟩

def unops : List UnOp := [.minus, .plus, .not]
def binops : List BinOp :=
  [.add, .sub, .mul, .div, .rem, .pow, .eq, .ne, .gt, .lt, .ge, .le, .and, .or, .eqv, .neqv]
def optoks : List OpTok :=
  [.plus, .minus, .star, .slash, .pow, .eq, .ne, .lt, .le, .gt, .ge, .not, .and, .or, .eqv, .neqv, .bad]
def charqs : List CharQ := [.plain, .sq, .dq, .both, .doubled]

def idx {α} [DecidableEq α] (xs : List α) (x : α) : Nat := xs.idxOf x

def rdPrec : Sexp → Option Prec
  | .atom "u" => some .undef
  | .atom "s" => some .single
  | .atom "d" => some .double
  | .list [.atom "k", n] => n.nat?.map .kindInt
  | .list [.atom "y", n] => n.nat?.map .kindSym
  | _ => none

def shPrec : Prec → String
  | .undef => "u" | .single => "s" | .double => "d"
  | .kindInt n => s!"(k {n})" | .kindSym n => s!"(y {n})"

def rdSign : Sexp → Option Sign
  | .atom "0" => some .none | .atom "1" => some .plus | .atom "2" => some .minus | _ => none
def shSign : Sign → String
  | .none => "0" | .plus => "1" | .minus => "2"

def rdBool : Sexp → Option Bool
  | .atom "0" => some false | .atom "1" => some true | _ => none
def shBool (b : Bool) : String := if b then "1" else "0"

def rdLit : List Sexp → Option Lit
  | [.atom "int", s, d, p] => do pure (.int (← rdSign s) (← d.nat?) (← rdPrec p))
  | [.atom "real", s, d, dot, ex, p] => do
    pure (.real (← rdSign s) (← d.nat?) (← rdBool dot) (← rdBool ex) (← rdPrec p))
  | [.atom "bool", b, p] => do pure (.bool (← rdBool b) (← rdPrec p))
  | [.atom "char", t, q, p] => do pure (.char (← t.nat?) (← charqs[(← q.nat?)]?) (← rdPrec p))
  | _ => none

def shLit : Lit → String
  | .int s d p => s!"(lit int {shSign s} {d} {shPrec p})"
  | .real s d dot ex p => s!"(lit real {shSign s} {d} {shBool dot} {shBool ex} {shPrec p})"
  | .bool b p => s!"(lit bool {shBool b} {shPrec p})"
  | .char t q p => s!"(lit char {t} {idx charqs q} {shPrec p})"

partial def rdExpr : Sexp → Option Expr
  | .atom "nil" => some .nil
  | .list (.atom "lit" :: r) => (rdLit r).map .lit
  | .list [.atom "un", u, e] => do pure (.un (← unops[(← u.nat?)]?) (← rdExpr e))
  | .list [.atom "bin", b, l, r] => do pure (.bin (← binops[(← b.nat?)]?) (← rdExpr l) (← rdExpr r))
  | .list [.atom "part", n, a, nx] => do pure (.part (← n.nat?) (← rdExpr a) (← rdExpr nx))
  | .list [.atom "call", f, a] => do pure (.call (← f.nat?) (← rdExpr a))
  | .list [.atom "cons", kw, e, r] => do pure (.cons kw.nat? (← rdExpr e) (← rdExpr r))
  | _ => none

def shExpr : Expr → String
  | .nil => "nil"
  | .lit l => shLit l
  | .un u e => s!"(un {idx unops u} {shExpr e})"
  | .bin b l r => s!"(bin {idx binops b} {shExpr l} {shExpr r})"
  | .part n a nx => s!"(part {n} {shExpr a} {shExpr nx})"
  | .call f a => s!"(call {f} {shExpr a})"
  | .cons kw e r => s!"(cons {match kw with | some k => toString k | none => "_"} {shExpr e} {shExpr r})"

def rdSuffix : Sexp → Option Suffix
  | .atom "_" => some .none
  | .list [.atom "k", n] => n.nat?.map .int
  | .list [.atom "y", n] => n.nat?.map .sym
  | _ => none
def shSuffix : Suffix → String
  | .none => "_" | .int n => s!"(k {n})" | .sym n => s!"(y {n})"

def letters : List ExpLetter := [.none, .e, .d]
def modes : List WMode := [.pinned, .narrow, .wide]

def rdTok : Sexp → Option Tok
  | .atom "lp" => some .lp | .atom "rp" => some .rp | .atom "comma" => some .comma | .atom "pct" => some .pct
  | .list [.atom "op", n] => do pure (.op (← optoks[(← n.nat?)]?))
  | .list [.atom "name", n] => n.nat?.map .name
  | .list [.atom "fn", n] => n.nat?.map .fn
  | .list [.atom "kw", n] => n.nat?.map .kw
  | .list [.atom "num", d, dot, l, k] => do
    pure (.lit (.num (← d.nat?) (← rdBool dot) (← letters[(← l.nat?)]?) (← rdSuffix k)))
  | .list [.atom "bool", b, k] => do pure (.lit (.bool (← rdBool b) (← rdSuffix k)))
  | .list [.atom "char", t, q, k] => do pure (.lit (.char (← t.nat?) (← charqs[(← q.nat?)]?) (← rdSuffix k)))
  | _ => none

def shTok : Tok → String
  | .lp => "lp" | .rp => "rp" | .comma => "comma" | .pct => "pct"
  | .op o => s!"(op {idx optoks o})"
  | .name n => s!"(name {n})" | .fn n => s!"(fn {n})" | .kw n => s!"(kw {n})"
  | .lit (.num d dot l k) => s!"(num {d} {shBool dot} {idx letters l} {shSuffix k})"
  | .lit (.bool b k) => s!"(bool {shBool b} {shSuffix k})"
  | .lit (.char t q k) => s!"(char {t} {idx charqs q} {shSuffix k})"

def handle (s : Sexp) : String :=
  match s with
  | .list [.atom "w", f, e] =>
    match f.nat? >>= (modes[·]?), rdExpr e with
    | some m, some e =>
      if wf .expr e then showList shTok (render m .top e) else "error"
    | _, _ => "bad-input"
  | .list (.atom "p" :: ts) =>
    match ts.mapM rdTok with
    | some ts => (match parse ts with | some e => shExpr e | none => "none")
    | none => "bad-input"
  | .list [.atom "n", e] =>
    match rdExpr e with
    | some e => (match norm e with | some e' => shExpr e' | none => "none")
    | none => "bad-input"
  | .list [.atom "x", e] =>
    match rdExpr e with
    | some e => shBool (exposed .top e)
    | none => "bad-input"
  | .list [.atom "c", e] =>
    match rdExpr e with
    | some e => shBool (litsCanonical e)
    | none => "bad-input"
  | .list (.atom "r" :: ts) =>
    match ts.mapM rdTok with
    | some ts => (match read liveCfg ts with | some e => shExpr e | none => "none")
    | none => "bad-input"
  | .list [.atom "kn", e] =>
    match rdExpr e with
    | some e => (match (norm e).bind (canonTree liveCfg) with | some e' => shExpr e' | none => "none")
    | none => "bad-input"
  | .list [.atom "e2e", f, e] =>
    match f.nat? >>= (modes[·]?), rdExpr e with
    | some m, some e =>
      if wf .expr e then (match read liveCfg (render m .top e) with | some e' => shExpr e' | none => "none")
      else "error"
    | _, _ => "bad-input"
  | .list [.atom "m", e] =>
    match rdExpr e with
    | some e => shBool (mmsCanonical liveCfg e)
    | none => "bad-input"
  | .list [.atom "cm", e] =>
    match rdExpr e with
    | some e =>
      (match canonMMS liveCfg e with
       | .ok a => s!"(ok {shExpr a})"
       | .err .generation => "(err generation)"
       | .err .internal => "(err internal)"
       | .err .notImplemented => "(err notImplemented)"
       | .err .index => "(err index)")
    | none => "bad-input"
  | _ => "bad-input"

def main : IO Unit := run handle
