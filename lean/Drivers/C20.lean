import PsyVerif.Model.Proto
import PsyVerif.Model.Builtins
open Proto C20

/-! Line protocol of the C20 model driver.
  `(run   (code (<init stmts>) <lo> <body>) <ub> <nargs> <ndofs> (env (flds (v..)..) (scals v..) (rnd v..)))`
  `(apply <doc> <n> <nargs> <ndofs> (env ...))`
  `(prog ((init <stmt>) | (loop <lo> <ub> (<stmts>)) ...) <nargs> <ndofs> (env ...))`   -- fused invoke
  `(def <expr> <df> (env ...))`   -- definedAt
answer: `(flds (v ..) ..) (scals v ..)` of the final state, values as `n` or `n/d`. -/

def parseRat (s : String) : Rat :=
  match s.splitOn "/" with
  | [n] => ((n.toInt?.getD 0 : Int) : Rat)
  | [n, d] => ((n.toInt?.getD 0 : Int) : Rat) / ((d.toInt?.getD 1 : Int) : Rat)
  | _ => 0

def showRat (q : Rat) : String :=
  if q.den == 1 then toString q.num else toString q.num ++ "/" ++ toString q.den

def atomStr : Sexp → String
  | .atom s => s
  | _ => ""

partial def parseExpr : Sexp → Expr
  | .list [.atom "fld", i] => .fld (i.nat?.getD 0)
  | .list [.atom "scal", i] => .scal (i.nat?.getD 0)
  | .list [.atom "unk", i] => .unk (i.nat?.getD 0)
  | .list [.atom "lit", n, d] => .lit (n.int?.getD 0) (d.nat?.getD 1)
  | .list [.atom "add", a, b] => .add (parseExpr a) (parseExpr b)
  | .list [.atom "sub", a, b] => .sub (parseExpr a) (parseExpr b)
  | .list [.atom "mul", a, b] => .mul (parseExpr a) (parseExpr b)
  | .list [.atom "div", a, b] => .div (parseExpr a) (parseExpr b)
  | .list [.atom "pow", a, b] => .pow (parseExpr a) (parseExpr b)
  | .list [.atom "sign", a, b] => .sign (parseExpr a) (parseExpr b)
  | .list [.atom "min", a, b] => .min (parseExpr a) (parseExpr b)
  | .list [.atom "max", a, b] => .max (parseExpr a) (parseExpr b)
  | .list [.atom "mod", a, b] => .mod (parseExpr a) (parseExpr b)
  | .list [.atom "neg", a] => .neg (parseExpr a)
  | .list [.atom "abs", a] => .abs (parseExpr a)
  | .list [.atom "toInt", a] => .toInt (parseExpr a)
  | .list [.atom "toReal", a] => .toReal (parseExpr a)
  | _ => .unk 0

def parseStmt : Sexp → Stmt
  | .list [.atom "fassign", t, e] => .fassign (t.nat?.getD 0) (parseExpr e)
  | .list [.atom "sassign", t, e] => .sassign (t.nat?.getD 0) (parseExpr e)
  | .list [.atom "rand", t] => .rand (t.nat?.getD 0)
  | _ => .rand 99

def parseDoc : Sexp → Doc
  | .list [.atom "arrayAssign", t, e] => .arrayAssign (t.nat?.getD 0) (parseExpr e)
  | .list [.atom "sum", t, e] => .sum (t.nat?.getD 0) (parseExpr e)
  | .list [.atom "randomFill", t] => .randomFill (t.nat?.getD 0)
  | _ => .randomFill 99

def ratList (s : Sexp) : List Rat := s.items.map fun x => parseRat (atomStr x)

def parseEnv : Sexp → Env
  | .list [.atom "env", .list (.atom "flds" :: rows), .list (.atom "scals" :: sc), .list (.atom "rnd" :: rn)] =>
    let table : List (List Rat) := rows.map ratList
    let scs : List Rat := sc.map fun x => parseRat (atomStr x)
    let rns : List Rat := rn.map fun x => parseRat (atomStr x)
    { fld := fun i df => if df = 0 then 0 else (table.getD i []).getD (df - 1) 0
      scal := fun i => scs.getD i 0
      rnd := fun df => if df = 0 then 0 else rns.getD (df - 1) 0
      unk := fun _ => 0 }
  | _ => { fld := fun _ _ => 0, scal := fun _ => 0, rnd := fun _ => 0, unk := fun _ => 0 }

def showEnv (env : Env) (nargs ndofs : Nat) : String :=
  let rows := (List.range nargs).map fun i =>
    showList showRat ((List.range ndofs).map fun d => env.fld i (d + 1))
  "(flds " ++ " ".intercalate rows ++ ") (scals " ++
    " ".intercalate ((List.range nargs).map fun i => showRat (env.scal i)) ++ ")"

def handle (s : Sexp) : String :=
  match s with
  | .list [.atom "run", .list [.atom "code", .list inits, lo, body], ub, nargs, ndofs, env] =>
    let c : Code := ⟨inits.map parseStmt, lo.nat?.getD 0, parseStmt body⟩
    showEnv (c.run (ub.nat?.getD 0) (parseEnv env)) (nargs.nat?.getD 0) (ndofs.nat?.getD 0)
  | .list [.atom "apply", d, n, nargs, ndofs, env] =>
    showEnv ((parseDoc d).apply (n.nat?.getD 0) (parseEnv env)) (nargs.nat?.getD 0) (ndofs.nat?.getD 0)
  | .list [.atom "prog", .list items, nargs, ndofs, env] =>
    let its : List Item := items.map fun it =>
      match it with
      | .list [.atom "init", st] => Item.init (parseStmt st)
      | .list [.atom "loop", lo, ub, .list body] => Item.loop (lo.nat?.getD 0) (ub.nat?.getD 0) (body.map parseStmt)
      | _ => Item.init (.rand 99)
    showEnv (runProg its (parseEnv env)) (nargs.nat?.getD 0) (ndofs.nat?.getD 0)
  | .list [.atom "def", e, df, env] =>
    toString (definedAt (parseEnv env) (df.nat?.getD 0) (parseExpr e))
  | _ => "bad-request"

def main : IO Unit := run handle
