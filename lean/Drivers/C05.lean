import PsyVerif.Model.MiniFIO
import PsyVerif.Model.LoopTrans
open Proto MiniF C05

def unName : UnOp → String
  | .neg => "neg" | .plus => "plus" | .not => "not" | .abs => "abs"

def binName : BinOp → String
  | .add => "add" | .sub => "sub" | .mul => "mul" | .div => "div" | .pow => "pow" | .mod => "mod"
  | .min => "min" | .max => "max" | .sign => "sign" | .eq => "eq" | .ne => "ne" | .lt => "lt"
  | .le => "le" | .gt => "gt" | .ge => "ge" | .and => "and" | .or => "or" | .eqv => "eqv" | .neqv => "neqv"

def showE : Expr → String
  | .lit n => s!"(lit {n})"
  | .var x => s!"(var {x})"
  | .idx1 a i => s!"(idx1 {a} {showE i})"
  | .idx2 a i j => s!"(idx2 {a} {showE i} {showE j})"
  | .un op e => s!"(un {unName op} {showE e})"
  | .bin op a b => s!"(bin {binName op} {showE a} {showE b})"

def showS : Stmt → String
  | .skip => "(skip)"
  | .seq a b => s!"(seq {showS a} {showS b})"
  | .assign x e => s!"(assign {x} {showE e})"
  | .store1 a i e => s!"(store1 {a} {showE i} {showE e})"
  | .store2 a i j e => s!"(store2 {a} {showE i} {showE j} {showE e})"
  | .ite c t f => s!"(ite {showE c} {showS t} {showS f})"
  | .loop v lo hi st b => s!"(loop {v} {showE lo} {showE hi} {showE st} {showS b})"

partial def parseR : Sexp → Option RStmt
  | .list [.atom "skip"] => some .skip
  | .list [.atom "ret"] => some .ret
  | .list [.atom "base", s] => (parseStmt s).map .base
  | .list [.atom "rseq", a, b] => do some (.seq (← parseR a) (← parseR b))
  | .list (.atom "rseqs" :: ss) => do
      let xs ← ss.mapM parseR
      some (seqsR xs)
  | .list [.atom "rite", c, t, f, e] => do
      some (.ite (← parseExpr c) (← parseR t) (← parseR f) ((← e.nat?) != 0))
  | _ => none

def showR : RStmt → String
  | .skip => "(skip)"
  | .seq a b => s!"(rseq {showR a} {showR b})"
  | .base s => s!"(base {showS s})"
  | .ret => "(ret)"
  | .ite c t f e => s!"(rite {showE c} {showR t} {showR f} {if e then 1 else 0})"

@[noinline] def answerStore (σ : Store) (qs : List Loc) : String :=
  showList (fun l => toString (σ l)) qs

def answer (r : Except Refusal Unit) (out : Stmt) : String :=
  match r with
  | .ok () => s!"(ok {showS out})"
  | .error e => s!"(refuse {e.name})"

def loopOf (s : Sexp) : Option LoopN :=
  match parseStmt s with
  | some (.loop v lo hi st b) => some ⟨v, lo, hi, st, b⟩
  | _ => none

def stmtList (s : Sexp) : Option (List Stmt) :=
  match s with
  | .list xs => xs.mapM parseStmt
  | _ => none

/-- protocol:
`(chunk <loop> chunksize chunked out el)`, `(fuse <loop1> <loop2> adjacent reversed)`,
`(swap v <lo> <hi> <st> (<child>…))`, `(hoist v <lo> <hi> <st> (<pre>…) <stmt> (<post>…))`
→ `(ok <stmt>)` or `(refuse <class>)` -/
def handleF (f : Fixes) (s : Sexp) : String :=
  match s with
  | .list [.atom "chunk", l, c, ch, o, e] =>
    match loopOf l, c.int?, ch.nat?, o.nat?, e.nat? with
    | some l, some c, some ch, some o, some e =>
      let t : ChunkTarget := ⟨l, c, ch != 0, o, e⟩
      answer (chunkValidateF f t) (chunkApply t)
    | _, _, _, _, _ => "bad-chunk"
  | .list [.atom "fuse", l1, l2, adj, rev] =>
    match loopOf l1, loopOf l2, adj.nat?, rev.nat? with
    | some l1, some l2, some adj, some rev =>
      let t : FuseTarget := ⟨l1, l2, adj != 0, rev != 0⟩
      answer (fuseValidateF f t) (fuseApply t)
    | _, _, _, _ => "bad-fuse"
  | .list [.atom "swap", v, lo, hi, st, body] =>
    match v.nat?, parseExpr lo, parseExpr hi, parseExpr st, stmtList body with
    | some v, some lo, some hi, some st, some body =>
      let t : SwapTarget := ⟨v, lo, hi, st, body⟩
      answer (swapValidate t) (swapApply t)
    | _, _, _, _, _ => "bad-swap"
  | .list [.atom "hoist", v, lo, hi, st, pre, stmt, post] =>
    match v.nat?, parseExpr lo, parseExpr hi, parseExpr st, stmtList pre, parseStmt stmt, stmtList post with
    | some v, some lo, some hi, some st, some pre, some stmt, some post =>
      let t : HoistTarget := ⟨v, lo, hi, st, pre, stmt, post⟩
      answer (hoistValidate t) (hoistApply t)
    | _, _, _, _, _, _, _ => "bad-hoist"
  | .list [.atom "hoistbound", l, a, b, c] =>
    match loopOf l, a.nat?, b.nat?, c.nat? with
    | some l, some a, some b, some c =>
      let t : HoistBoundTarget := ⟨l, a, b, c⟩
      answer (hoistBoundValidate t) (hoistBoundApply t)
    | _, _, _, _ => "bad-hoistbound"
  | .list [.atom "tile2d", v, lo, hi, st, body, tile, oo, eo, oi, ei] =>
    match v.nat?, parseExpr lo, parseExpr hi, parseExpr st, stmtList body, tile.int?, oo.nat?, eo.nat?, oi.nat?, ei.nat? with
    | some v, some lo, some hi, some st, some body, some tile, some oo, some eo, some oi, some ei =>
      let t : TileTarget := ⟨v, lo, hi, st, body, tile, oo, eo, oi, ei⟩
      answer (tileValidateF f t) (tileApply t)
    | _, _, _, _, _, _, _, _, _, _ => "bad-tile2d"
  | .list [.atom "replaceiv", v, lo, hi, st, body] =>
    match v.nat?, parseExpr lo, parseExpr hi, parseExpr st, stmtList body with
    | some v, some lo, some hi, some st, some body =>
      let t : ReplaceIVTarget := ⟨v, lo, hi, st, body⟩
      answer (replaceIVValidate t) (replaceIVApply t)
    | _, _, _, _, _ => "bad-replaceiv"
  | .list [.atom "fold", .list ss] =>
    match ss.mapM parseR with
    | some body =>
      match foldValidate body with
      | .ok () => "(ok (rseqs " ++ " ".intercalate ((foldApply body).map showR) ++ "))"
      | .error e => s!"(refuse {e.name})"
    | none => "bad-fold"
  | .list [.atom "execr", r, qs] =>
    match parseR r with
    | some r => answerStore (execR r (storeOf [])).1 (qs.items.filterMap parseLoc)
    | none => "bad-rstmt"
  | _ => "bad-op"

/-- `(fixes fuseOrder chunkDiv chunkSelf <line>)`: the line under the given repair flags (probed
from the live code by the harness); a bare line is answered by the pinned model -/
def handle (s : Sexp) : String :=
  match s with
  | .list [.atom "fixes", a, b, c, cmd] =>
    match a.nat?, b.nat?, c.nat? with
    | some a, some b, some c => handleF ⟨a != 0, b != 0, c != 0⟩ cmd
    | _, _, _ => "bad-fixes"
  | _ => handleF {} s

def main : IO Unit := run handle
