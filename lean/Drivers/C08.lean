import PsyVerif.Model.MiniFIO
import PsyVerif.Model.DepTools
import PsyVerif.Model.DepSig
open Proto MiniF

/-- `((id base member ...) ...)` -/
def sigTab (s : Sexp) : C08.SigTab :=
  s.items.filterMap fun e =>
    match e.natList with
    | x :: b :: path => some (x, ⟨b, path⟩)
    | _ => none

def pairs (s : Sexp) : List (Nat × Nat) :=
  s.items.filterMap fun e =>
    match e.natList with
    | [a, b] => some (a, b)
    | _ => none

def showEv (e : C08.Ev) : String :=
  s!"({if e.1 then 1 else 0} {e.2.1} {e.2.2.1} {e.2.2.2})"

@[noinline] def traces (v : Nat) (body : Stmt) (lo hi st : Expr) (σ : Store) (cap : Nat) : String :=
  let l := eval lo σ
  let s := eval st σ
  let n := min (trip l (eval hi σ) s) cap
  showList (fun t => showList showEv t) (C08.iterTraces v body l s n 0 σ)

/--
* `(par <loop> ((id cand) ...))` → `(<parallelisable> <inFragment> ((code var) ...) (<privatisable scalars>))`
* `(trace <prefix stmt> <loop> <cap>)` → per-iteration event lists `((w x i j) ...)` of the loop executed
  sequentially from the store the prefix produces out of the all-zero store
* `(sigok ((id base member ...) ...) <loop>)` → `1` iff `C08.sigTabOk` and every variable of the loop is listed
* `(fresh (<taken>))` → candidate chosen by the fixed `d_<var>` loop -/
def handle (s : Sexp) : String :=
  match s with
  | .list [.atom "partw", lv, w, o] =>
    -- literal while-loop `_partition` on two subscript lists: `(partw (lvars) (w-subs) (o-subs))`
    match (w.items.mapM parseExpr), (o.items.mapM parseExpr) with
    | some ws, some os =>
      match C08.partitionW lv.natList ws os with
      | some ps => showList (fun q => "(" ++ showList toString q.1 ++ " " ++ showList toString q.2 ++ ")") ps
      | none => "out-of-fuel"
    | _, _ => "bad-subs"
  | .list [.atom "par", l, dn, ord] =>
    match parseStmt l with
    | some (.loop v lo hi st body) =>
      let dnames := pairs dn
      let par := C08.canParallelise dnames v lo hi st body
      let frag := C08.inFragment v lo hi st body
      let msgs := C08.messages dnames v lo hi st body
      let priv := (C08.wvars body).eraseDups.filter (C08.privScalar body)
      let first := match C08.firstMessage ord.natList msgs with
        | some m => s!"(({m.1} {m.2}))"
        | none => "()"
      "(" ++ (if par then "1" else "0") ++ " " ++ (if frag then "1" else "0") ++ " "
        ++ showList (fun m => s!"({m.1} {m.2})") msgs ++ " " ++ showList toString priv ++ " " ++ first ++ ")"
    | _ => "bad-loop"
  | .list [.atom "par", l, dn] =>
    match parseStmt l with
    | some (.loop v lo hi st body) =>
      let dnames := pairs dn
      let par := C08.canParallelise dnames v lo hi st body
      let frag := C08.inFragment v lo hi st body
      let msgs := C08.messages dnames v lo hi st body
      let priv := (C08.wvars body).eraseDups.filter (C08.privScalar body)
      "(" ++ (if par then "1" else "0") ++ " " ++ (if frag then "1" else "0") ++ " "
        ++ showList (fun m => s!"({m.1} {m.2})") msgs ++ " " ++ showList toString priv ++ ")"
    | _ => "bad-loop"
  | .list [.atom "trace", pre, l, cap] =>
    match parseStmt pre, parseStmt l with
    | some p, some (.loop v lo hi st body) =>
      traces v body lo hi st (exec p (storeOf [])) ((cap.nat?).getD 16)
    | _, _ => "bad-loop"
  | .list [.atom "sigok", tab, l] =>
    -- the signature table is a bijection without prefix overlaps and covers every variable of the loop
    match parseStmt l with
    | some (.loop v lo hi st body) =>
      let t := sigTab tab
      let vars := v :: (C08.evars lo ++ C08.evars hi ++ C08.evars st ++ C08.rvars body ++ C08.wvars body)
      if C08.sigTabOk t && C08.sigCovers t vars then "1" else "0"
    | _ => "bad-loop"
  | .list [.atom "fresh", t] =>
    match C08.freshD t.natList with
    | some n => toString n
    | none => "none"
  | _ => "bad-op"

def main : IO Unit := run handle
