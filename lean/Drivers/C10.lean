import PsyVerif.Model.Proto
import PsyVerif.Model.Directives
open Proto
open C10

/-- Protocol.
* eval:  `((kind n child ...) ...)` (a forest) →
  `<writer outcome> <coreOk> <rectOk> <mixOk> <nowaitOk> <loopsNonEmpty> <kind of first core/rect/mix breaker or ->`
* apply: `(A <forest> (region kind n (path) lo len))`, `(A <forest> (loopDir kind n (path) idx))`,
  `(A <forest> (leaf kind n (path) idx))` → the resulting forest in the same syntax, or `none`.
* module eval: `(C <forest> <forest> …)` → the same seven fields for the module (`writerC`, …).
* module apply: `(AC (C <forest> …) <routine index> <op>)` → `(C <forest> …)` or `none`. -/
def kindOf (name : String) (n : Nat) : Option Kind :=
  match name with
  | "stmt" => some .stmt | "astmt" => some .astmt | "codeBlock" => some .codeBlock | "block" => some .block | "loop" => some (.loop n)
  | "ompParallel" => some .ompParallel | "ompDo" => some (.ompDo n)
  | "ompParallelDo" => some (.ompParallelDo n) | "ompTeamsDPD" => some (.ompTeamsDPD n)
  | "ompLoop" => some (.ompLoop n)
  | "ompSingle" => some (.ompSingle (n != 0)) | "ompMaster" => some .ompMaster
  | "ompTaskloop" => some .ompTaskloop | "ompTask" => some .ompTask | "ompTaskwait" => some .ompTaskwait
  | "ompTarget" => some .ompTarget | "ompAtomic" => some .ompAtomic | "ompSimd" => some .ompSimd
  | "ompDeclareTarget" => some .ompDeclareTarget
  | "accParallel" => some .accParallel
  | "accKernels" => some .accKernels | "accData" => some .accData
  | "accLoop" => some (.accLoop n) | "accAtomic" => some .accAtomic
  | "accEnterData" => some .accEnterData | "accUpdate" => some .accUpdate | "accRoutine" => some .accRoutine
  | _ => none

def kindName : Kind → String × Nat
  | .stmt => ("stmt", 0) | .astmt => ("astmt", 0) | .codeBlock => ("codeBlock", 0) | .block => ("block", 0) | .loop d => ("loop", d)
  | .ompParallel => ("ompParallel", 0) | .ompDo c => ("ompDo", c) | .ompParallelDo c => ("ompParallelDo", c)
  | .ompTeamsDPD c => ("ompTeamsDPD", c) | .ompLoop c => ("ompLoop", c)
  | .ompSingle nw => ("ompSingle", if nw then 1 else 0) | .ompMaster => ("ompMaster", 0)
  | .ompTaskloop => ("ompTaskloop", 0) | .ompTask => ("ompTask", 0) | .ompTaskwait => ("ompTaskwait", 0)
  | .ompTarget => ("ompTarget", 0) | .ompAtomic => ("ompAtomic", 0) | .ompSimd => ("ompSimd", 0)
  | .ompDeclareTarget => ("ompDeclareTarget", 0)
  | .accParallel => ("accParallel", 0) | .accKernels => ("accKernels", 0) | .accData => ("accData", 0)
  | .accLoop c => ("accLoop", c) | .accAtomic => ("accAtomic", 0) | .accEnterData => ("accEnterData", 0)
  | .accUpdate => ("accUpdate", 0) | .accRoutine => ("accRoutine", 0)

partial def forestOf : List Sexp → Option Forest
  | [] => some .nil
  | .list (.atom name :: num :: kids) :: rest => do
    let n ← num.nat?
    let k ← kindOf name n
    let body ← forestOf kids
    let tl ← forestOf rest
    pure (.cons k body tl)
  | _ => none

partial def showForest : Forest → List String
  | .nil => []
  | .cons k body rest =>
    let (nm, n) := kindName k
    let kids := showForest body
    (if kids.isEmpty then s!"({nm} {n})" else s!"({nm} {n} {" ".intercalate kids})") :: showForest rest

def b (x : Bool) : String := if x then "1" else "0"

/-- kind of the first node (visitor order) that breaks a guarded rule, for grouping failing inputs -/
def firstBad (ar : Env) (pos : Pos) (ctx : Ctx) : Forest → Option String
  | .nil => none
  | .cons k body rest =>
    if !(nodeCore ar pos ctx k body && nodeRect k body && nodeMix ctx k) then some (kindName k).1
    else match (if isLeaf k then none else firstBad ar .first (k :: ctx) body) with
      | some x => some x
      | none => firstBad ar (pos.next k) ctx rest

def evalForest (t : Forest) : String :=
  let o := match writer t with
    | .accept => "accept" | .genError => "genError" | .crash => "crash"
  let ar := envOf t
  s!"{o} {b (coreOk ar .first [] t)} {b (rectOk t)} {b (mixOk [] t)} {b (nowaitOk t)} {b (loopsNonEmpty t)} {(firstBad ar .first [] t).getD "-"}"

def opOf : Sexp → Option Op
  | .list [.atom "region", .atom name, num, path, lo, len] => do
    let k ← kindOf name (← num.nat?)
    pure (.region k path.natList (← lo.nat?) (← len.nat?))
  | .list [.atom "loopDir", .atom name, num, path, idx] => do
    let k ← kindOf name (← num.nat?)
    pure (.loopDir k path.natList (← idx.nat?))
  | .list [.atom "leaf", .atom name, num, path, idx] => do
    let k ← kindOf name (← num.nat?)
    pure (.leaf k path.natList (← idx.nat?))
  | _ => none

partial def containerOf : List Sexp → Option Container
  | [] => some []
  | .list xs :: rest => do
    let r ← forestOf xs
    let tl ← containerOf rest
    pure (r :: tl)
  | _ => none

def firstBadC : Container → Option String
  | [] => none
  | r :: rs => match firstBad (envOf r) .first [] r with
    | some x => some x
    | none => firstBadC rs

/-- `(C <forest> <forest> …)`: a module, one forest per routine; same seven fields as `evalForest`,
computed by `writerC` / `coreOkC` / … (every routine with its own `envOf`). -/
def evalContainer (c : Container) : String :=
  let o := match writerC c with
    | .accept => "accept" | .genError => "genError" | .crash => "crash"
  s!"{o} {b (coreOkC c)} {b (rectOkC c)} {b (mixOkC c)} {b (nowaitOkC c)} {b (loopsNonEmptyC c)} {(firstBadC c).getD "-"}"

def showContainer (c : Container) : String :=
  "(C" ++ String.join (c.map fun r => " (" ++ " ".intercalate (showForest r) ++ ")") ++ ")"

def handle (s : Sexp) : String :=
  match s with
  | .list [.atom "A", .list xs, op] =>
    match forestOf xs, opOf op with
    | some t, some o =>
      match applyOp o t with
      | some t' => "(" ++ " ".intercalate (showForest t') ++ ")"
      | none => "none"
    | _, _ => "bad-apply"
  | .list [.atom "AC", .list (.atom "C" :: rs), ri, op] =>
    match containerOf rs, ri.nat?, opOf op with
    | some c, some i, some o =>
      match applyCOp ⟨i, o⟩ c with
      | some c' => showContainer c'
      | none => "none"
    | _, _, _ => "bad-apply"
  | .list (.atom "C" :: rs) =>
    match containerOf rs with
    | none => "bad-container"
    | some c => evalContainer c
  | .list xs =>
    match forestOf xs with
    | none => "bad-forest"
    | some t => evalForest t
  | _ => "bad-forest"

def main : IO Unit := run handle
