import PsyVerif.Model.Proto
import PsyVerif.Model.Directives
open Proto

/-- input: a forest `((kind n child ...) ...)`; output: `<writer outcome> <coreOk> <rectOk> <mixOk> <loopsNonEmpty> <kind of first core-rule breaker or ->`. -/
def kindOf (name : String) (n : Nat) : Option C10.Kind :=
  match name with
  | "stmt" => some .stmt | "block" => some .block | "loop" => some (.loop n)
  | "ompParallel" => some .ompParallel | "ompDo" => some (.ompDo n)
  | "ompParallelDo" => some (.ompParallelDo n) | "ompLoop" => some (.ompLoop n)
  | "ompSingle" => some .ompSingle | "ompMaster" => some .ompMaster
  | "ompTaskloop" => some .ompTaskloop | "ompTaskwait" => some .ompTaskwait
  | "ompTarget" => some .ompTarget | "accParallel" => some .accParallel
  | "accKernels" => some .accKernels | "accData" => some .accData
  | "accLoop" => some (.accLoop n) | "accEnterData" => some .accEnterData
  | _ => none

partial def forestOf : List Sexp → Option C10.Forest
  | [] => some .nil
  | .list (.atom name :: num :: kids) :: rest => do
    let n ← num.nat?
    let k ← kindOf name n
    let body ← forestOf kids
    let tl ← forestOf rest
    pure (.cons k body tl)
  | _ => none

def b (x : Bool) : String := if x then "1" else "0"

def kindName : C10.Kind → String
  | .stmt => "stmt" | .block => "block" | .loop _ => "loop" | .ompParallel => "ompParallel"
  | .ompDo _ => "ompDo" | .ompParallelDo _ => "ompParallelDo" | .ompLoop _ => "ompLoop"
  | .ompSingle => "ompSingle" | .ompMaster => "ompMaster" | .ompTaskloop => "ompTaskloop"
  | .ompTaskwait => "ompTaskwait" | .ompTarget => "ompTarget" | .accParallel => "accParallel"
  | .accKernels => "accKernels" | .accData => "accData" | .accLoop _ => "accLoop"
  | .accEnterData => "accEnterData"

/-- kind of the first node (visitor order) that breaks a core rule, for grouping failing inputs -/
def firstBad (ctx : C10.Ctx) : C10.Forest → Option String
  | .nil => none
  | .cons k body rest =>
    if !C10.nodeCore ctx k body then some (kindName k)
    else match firstBad (k :: ctx) body with
      | some x => some x
      | none => firstBad ctx rest

def handle (s : Sexp) : String :=
  match s with
  | .list xs =>
    match forestOf xs with
    | none => "bad-forest"
    | some t =>
      let o := match C10.writer [] t with
        | .accept => "accept" | .genError => "genError" | .crash => "crash"
      s!"{o} {b (C10.coreOk [] t)} {b (C10.rectOk t)} {b (C10.mixOk [] t)} {b (C10.loopsNonEmpty t)} {(firstBad [] t).getD "-"}"
  | _ => "bad-forest"

def main : IO Unit := run handle
