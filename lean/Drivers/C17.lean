import PsyVerif.Model.Proto
import PsyVerif.Model.SymMaths
open Proto C17

/-! Line protocol of the C17 model.
Expressions: `(lit n) (var v) (neg a) (add a b) (sub a b) (mul a b) (div a b) (pow a k) (mod a b) (min a b)
(max a b) (arr1 f i) (arr2 f i j) (arr3 f i j k) (powe a b)`.
Requests:
* `(eq brk e1 e2)`        → `<modelEqual> <modelNever> <in the domain of normQ>`
* `(expand brk e)`        → polynomial `((num den v1 v2 …) …)` or `none`
* `(solve brk x e1 e2)`   → `independent` | `empty` | `unknown` | `(one <polynomial>)`
* `(ev e (z0 z1 …))`      → `<defined> <evalF>` with scalar `v ↦ z_v` and the fixed array functions below
* `(evq brk e (z0 z1 …))` → `num/den`, `evalQ (toSym brk e)` at the lifted valuation
* `(frag brk e)`          → `<frag> <isPoly>` -/

partial def toExpr : Sexp → Option IExpr
  | .list [.atom "lit", n] => n.int?.map .lit
  | .list [.atom "var", v] => v.nat?.map .var
  | .list [.atom "neg", a] => (toExpr a).map .neg
  | .list [.atom "pow", a, k] => do some (.pow (← toExpr a) (← k.nat?))
  | .list [.atom "arr1", f, i] => do some (.arr1 (← f.nat?) (← toExpr i))
  | .list [.atom "arr2", f, i, j] => do some (.arr2 (← f.nat?) (← toExpr i) (← toExpr j))
  | .list [.atom "arr3", f, i, j, k] => do some (.arr3 (← f.nat?) (← toExpr i) (← toExpr j) (← toExpr k))
  | .list [.atom op, a, b] => do
    let x ← toExpr a
    let y ← toExpr b
    match op with
    | "add" => some (.add x y)
    | "sub" => some (.sub x y)
    | "mul" => some (.mul x y)
    | "div" => some (.div x y)
    | "mod" => some (.mod x y)
    | "min" => some (.min x y)
    | "max" => some (.max x y)
    | "powe" => some (.powe x y)
    | _ => none
  | _ => none

def testF1 (f : Nat) (z : Int) : Int := (f + 2) * z * z - 3 * z + f + 1
def testF2 (f : Nat) (y z : Int) : Int := (f + 1) * y - 2 * z * y + z + f

def testF3 (f : Nat) (x y z : Int) : Int := (f + 1) * x + 2 * y * z - 3 * z + x * y + f

def envOf (zs : List Int) : Env :=
  { var := fun v => zs.getD v 0, f1 := testF1, f2 := testF2, f3 := testF3 }

def showPoly (p : Poly) : String :=
  showList (fun t => "(" ++ " ".intercalate (toString t.2.num :: toString t.2.den :: t.1.map toString) ++ ")") p

def b2s (b : Bool) : String := if b then "1" else "0"

def handle (s : Sexp) : String :=
  match s with
  | .list [.atom "eq", brk, a, b] =>
    match toExpr a, toExpr b with
    | some x, some y =>
      let k := brk.nat? == some 1
      b2s (modelEqual k x y) ++ " " ++ b2s (modelNever k x y) ++ " " ++
        b2s ((normQ (.sub (toSym k x) (toSym k y))).isSome)
    | _, _ => "bad-expr"
  | .list [.atom "expand", brk, a] =>
    match toExpr a with
    | some x => match modelExpand (brk.nat? == some 1) x with
      | some p => showPoly p
      | none => "none"
    | none => "bad-expr"
  | .list [.atom "solve", brk, xv, a, b] =>
    match toExpr a, toExpr b, xv.nat? with
    | some x, some y, some v =>
      match modelSolve (brk.nat? == some 1) v x y with
      | .independent => "independent"
      | .empty => "empty"
      | .unknown => "unknown"
      | .one p => "(one " ++ showPoly p ++ ")"
    | _, _, _ => "bad-expr"
  | .list [.atom "ev", a, zs] =>
    match toExpr a with
    | some x => let ρ := envOf zs.intList; b2s (defined x ρ) ++ " " ++ toString (evalF x ρ)
    | none => "bad-expr"
  | .list [.atom "evq", brk, a, zs] =>
    match toExpr a with
    | some x =>
      let q := evalQ (toSym (brk.nat? == some 1) x) (liftEnv (envOf zs.intList))
      toString q.num ++ "/" ++ toString q.den
    | none => "bad-expr"
  | .list [.atom "frag", brk, a] =>
    match toExpr a with
    | some x => b2s (frag (brk.nat? == some 1) x) ++ " " ++ b2s (isPoly x)
    | none => "bad-expr"
  | _ => "bad-request"

def main : IO Unit := run handle
