import PsyVerif.Model.RegionDataIO
open Proto MiniF RegionData

def sortNat (l : List Nat) : List Nat := (l.toArray.qsort (· < ·)).toList
def showNats (l : List Nat) : String := showList toString (sortNat l)
def b01 (b : Bool) : String := if b then "1" else "0"

@[noinline] def answer (σ : Store) (qs : List Loc) : String :=
  showList (fun l => toString (σ l)) qs

@[noinline] def perturb (σ : Store) (P : List Nat) (delta : Int) : Store :=
  ⟨fun l => if P.contains l.1 then σ l + delta + 31 * (l.1 : Int) + 3 * l.2.1 + 7 * l.2.2 else σ l⟩

@[noinline] def replay (σ : Store) (region : RStmt) (P : List Nat) (delta : Int) (qs : List Loc) : String :=
  let τ := perturb σ P delta
  "(" ++ answer σ qs ++ " " ++ answer (rexec driverFuel region σ) qs ++ " " ++ answer (rexec driverFuel region τ) qs ++ ")"

/-- `(inout <stmt>)` → `((inputs) (outputs) WholeFirstWrites OutputsDefined covered)`;
`(replay <prefix> <region> (<perturbed vars>) <delta> (<queries>))` → values at the queries
before the region, after it, and after it when started from the perturbed store;
`(extract (<items>))` → `(accept|refuse (inputs) (outputs))` (ExtractTrans decision, and the plain
get_in_out_parameters lists; a CodeBlock item `(x (opaque ...))` contributes READWRITE of its names);
`(calls (<non-local vars>) (<callee body> ...))` → `((inputsCalls) (outputsCalls))`. -/
def handle (s : Sexp) : String :=
  match s with
  | .list [.atom "inout", p] =>
    match parseRStmt p with
    | none => "bad-stmt"
    | some st =>
      "(" ++ showNats (inputs st) ++ " " ++ showNats (outputs st) ++ " "
        ++ b01 (decide (WholeFirstWrites st)) ++ " " ++ b01 (outDefined st) ++ " " ++ b01 (covered st) ++ ")"
  | .list [.atom "replay", pre, reg, pv, d, qs] =>
    match parseRStmt pre, parseRStmt reg, d.int? with
    | some pr, some rg, some delta =>
      replay (rexec driverFuel pr (storeOf [])) rg pv.natList delta (qs.items.filterMap parseLoc)
    | _, _, _ => "bad-stmt"
  | .list [.atom "extract", its] =>
    match its.items.mapM parseItem with
    | none => "bad-stmt"
    | some items =>
      let io := inOutItems items
      "(" ++ (match extractTrans items with | none => "refuse" | some _ => "accept") ++ " "
        ++ showNats io.1 ++ " " ++ showNats io.2 ++ ")"
  | .list [.atom "calls", g, bodies] =>
    match bodies.items.mapM parseRStmt with
    | none => "bad-stmt"
    | some bs => "(" ++ showNats (inputsCalls g.natList bs) ++ " " ++ showNats (outputsCalls g.natList bs) ++ ")"
  | _ => "bad-op"

def main : IO Unit := run handle
