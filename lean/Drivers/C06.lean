import PsyVerif.Model.MiniFIO
import PsyVerif.Model.ArrayLower
import PsyVerif.Model.SameRange
open Proto MiniF C06

def unName : UnOp → String
  | .neg => "neg" | .plus => "plus" | .not => "not" | .abs => "abs"

def binName : BinOp → String
  | .add => "add" | .sub => "sub" | .mul => "mul" | .div => "div" | .pow => "pow" | .mod => "mod"
  | .min => "min" | .max => "max" | .sign => "sign" | .eq => "eq" | .ne => "ne" | .lt => "lt"
  | .le => "le" | .gt => "gt" | .ge => "ge" | .and => "and" | .or => "or" | .eqv => "eqv" | .neqv => "neqv"

def showExpr : Expr → String
  | .lit n => s!"(lit {n})"
  | .var x => s!"(var {x})"
  | .idx1 a i => s!"(idx1 {a} {showExpr i})"
  | .idx2 a i j => s!"(idx2 {a} {showExpr i} {showExpr j})"
  | .un op e => s!"(un {unName op} {showExpr e})"
  | .bin op a b => s!"(bin {binName op} {showExpr a} {showExpr b})"

def showStmt : Stmt → String
  | .skip => "(skip)"
  | .seq a b => s!"(seq {showStmt a} {showStmt b})"
  | .assign x e => s!"(assign {x} {showExpr e})"
  | .store1 a i e => s!"(store1 {a} {showExpr i} {showExpr e})"
  | .store2 a i j e => s!"(store2 {a} {showExpr i} {showExpr j} {showExpr e})"
  | .ite c t f => s!"(ite {showExpr c} {showStmt t} {showStmt f})"
  | .loop v lo hi st b => s!"(loop {v} {showExpr lo} {showExpr hi} {showExpr st} {showStmt b})"

def parseFix : Sexp → Option Fix
  | .list [.atom "r1"] => some .r1
  | .list [.atom "row", j] => do some (.row (← parseExpr j))
  | .list [.atom "col", i] => do some (.col (← parseExpr i))
  | _ => none

def parseSec : Sexp → Option Sec
  | .list [.atom "sec", a, f, lo, hi, st] => do
      some ⟨← a.nat?, ← parseFix f, ← parseExpr lo, ← parseExpr hi, ← parseExpr st⟩
  | _ => none

partial def parseAExpr : Sexp → Option AExpr
  | .list [.atom "sc", e] => do some (.sc (← parseExpr e))
  | .list [.atom "asec", s] => do some (.sec (← parseSec s))
  | .list [.atom "un", .atom op, e] => do some (.un (← unOpOf op) (← parseAExpr e))
  | .list [.atom "bin", .atom op, a, b] => do some (.bin (← binOpOf op) (← parseAExpr a) (← parseAExpr b))
  | _ => none

def parseSec2 : Sexp → Option Sec2
  | .list [.atom "sec2", a, lo1, hi1, st1, lo2, hi2, st2] => do
      some ⟨← a.nat?, ← parseExpr lo1, ← parseExpr hi1, ← parseExpr st1, ← parseExpr lo2, ← parseExpr hi2, ← parseExpr st2⟩
  | _ => none

partial def parseAExpr2 : Sexp → Option AExpr2
  | .list [.atom "sc", e] => do some (.sc (← parseExpr e))
  | .list [.atom "asec2", s] => do some (.sec (← parseSec2 s))
  | .list [.atom "un", .atom op, e] => do some (.un (← unOpOf op) (← parseAExpr2 e))
  | .list [.atom "bin", .atom op, a, b] => do some (.bin (← binOpOf op) (← parseAExpr2 a) (← parseAExpr2 b))
  | _ => none

def showFix : Fix → String
  | .r1 => "(r1)"
  | .row j => s!"(row {showExpr j})"
  | .col i => s!"(col {showExpr i})"

def showSec (s : Sec) : String :=
  s!"(sec {s.arr} {showFix s.fix} {showExpr s.lo} {showExpr s.hi} {showExpr s.st})"

def parseTgt : Sexp → Option Tgt
  | .list [.atom "sc", x] => do some (.sc (← x.nat?))
  | .list [.atom "e1", a, i] => do some (.e1 (← a.nat?) (← parseExpr i))
  | .list [.atom "e2", a, i, j] => do some (.e2 (← a.nat?) (← parseExpr i) (← parseExpr j))
  | _ => none

def parseAsg : Sexp → Option Asg
  | .list [.atom "asg", t, e] => do some ⟨← parseTgt t, ← parseExpr e⟩
  | _ => none

def parseKind : Sexp → Option RedKind
  | .atom "sum" => some .sum | .atom "product" => some .product
  | .atom "minval" => some .minval | .atom "maxval" => some .maxval
  | _ => none

def parseVec : Sexp → Option Vec
  | .list [.atom "vec", a, lb, ub] => do some ⟨← a.nat?, ← lb.int?, ← ub.int?⟩
  | _ => none

def parseMat : Sexp → Option Mat
  | .list [.atom "mat", a, l1, u1, l2, u2] => do some ⟨← a.nat?, ← l1.int?, ← u1.int?, ← l2.int?, ← u2.int?⟩
  | _ => none

def refusalName : Refusal → String
  | .notElemental => "notElemental" | .overlap => "overlap" | .stride => "stride"
  | .dim => "dim" | .noArray => "noArray" | .notSupported => "notSupported"

def showRes : Except Refusal Stmt → String
  | .ok s => s!"(ok {showStmt s})"
  | .error r => s!"(refuse {refusalName r})"

/-! ## accesses (`Model/SameRange.lean`) -/

def parseDim : Sexp → Option DimDecl
  | .list [.atom "bounds", lo, hi] => do some (.bounds (← parseExpr lo) (← parseExpr hi))
  | .list [.atom "lowerOnly", lo, g] => do some (.lowerOnly (← parseExpr lo) (← parseExpr g))
  | .list [.atom "attribute", g] => do some (.attribute (← parseExpr g))
  | .list [.atom "deferred", gl, gh] => do some (.deferred (← parseExpr gl) (← parseExpr gh))
  | _ => none

def parseBnd : Sexp → Option Bnd
  | .list [.atom "lb", a, d] => do some (.lb (← a.nat?) (← d.nat?))
  | .list [.atom "ub", a, d] => do some (.ub (← a.nat?) (← d.nat?))
  | .list [.atom "e", x] => do some (.e (← parseExpr x))
  | _ => none

def parseIdx : Sexp → Option Idx
  | .list [.atom "rng", s, t, p] => do some (.rng (← parseBnd s) (← parseBnd t) (← parseExpr p))
  | .list [.atom "at", x] => do some (.at (← parseExpr x))
  | _ => none

def parseAcc : Sexp → Option Acc
  | .list [.atom "acc", a, .list (.atom "shape" :: ds), .list (.atom "idx" :: is)] => do
      some ⟨← a.nat?, ← ds.mapM parseDim, ← is.mapM parseIdx⟩
  | _ => none

/-- elementwise expression over ACCESSES: the sections are `Acc.toSec`, the accesses are collected -/
partial def parseAExprA (D : Decls) : Sexp → Option (AExpr × List Acc)
  | .list [.atom "sc", e] => do some (.sc (← parseExpr e), [])
  | .list [.atom "aacc", a] => do
      let acc ← parseAcc a
      some (.sec (← acc.toSec D), [acc])
  | .list [.atom "un", .atom op, e] => do
      let (x, l) ← parseAExprA D e
      some (.un (← unOpOf op) x, l)
  | .list [.atom "bin", .atom op, a, b] => do
      let (x, l1) ← parseAExprA D a
      let (y, l2) ← parseAExprA D b
      some (.bin (← binOpOf op) x y, l1 ++ l2)
  | _ => none

partial def accsOf : Sexp → List Acc
  | .list [.atom "aacc", a] => (parseAcc a).toList
  | .list xs => xs.flatMap accsOf
  | _ => []

def tri : Option Bool → String
  | none => "crash" | some true => "t" | some false => "f"

def bad : String := "bad-input"

def handle (s : Sexp) : String :=
  match s with
  | .list [.atom "aa", idx, lhs, rhs, badCall] =>
    (do let a : AAIn := ⟨← parseSec lhs, ← parseAExpr rhs, (← badCall.nat?) != 0, false⟩
        some (showRes (transAA (← idx.nat?) a))).getD bad
  | .list [.atom "abs", res, tmp, x, asg] =>
    (do let r ← res.nat?; let t ← tmp.nat?; let x ← parseExpr x; let a ← parseAsg asg
        some s!"({showStmt (abs2code r t x a)} {showStmt (absOrig r x a)})").getD bad
  | .list [.atom "sign", res, tmp, ares, atmp, a, b, asg] =>
    (do let r ← res.nat?; let t ← tmp.nat?; let ar ← ares.nat?; let at' ← atmp.nat?
        let a ← parseExpr a; let b ← parseExpr b; let s ← parseAsg asg
        some s!"({showStmt (sign2code r t ar at' a b s)} {showStmt (signOrig r a b s)})").getD bad
  | .list [.atom "minmax", isMax, res, tmp, .list (a :: rest), asg] =>
    (do let m := (← isMax.nat?) != 0; let r ← res.nat?; let t ← tmp.nat?
        let a ← parseExpr a; let rest ← rest.mapM parseExpr; let s ← parseAsg asg
        some s!"({showStmt (minmax2code m r t a rest s)} {showStmt (minmaxOrig m r a rest s)})").getD bad
  | .list [.atom "red", idx, tmp, kind, expr, mask, dim, tgt, hole, ctx, huge] =>
    (do let mask ← (match mask with
          | .list [.atom "none"] => some none
          | m => (parseAExpr m).map some)
        let r : RedIn := ⟨← parseKind kind, ← parseAExpr expr, mask, (← dim.nat?) != 0, ← parseTgt tgt,
          ← hole.nat?, ← parseExpr ctx, ← huge.int?⟩
        some (showRes (transRed (← idx.nat?) (← tmp.nat?) r))).getD bad
  | .list [.atom "dot", res, i, v1, v2, asg] =>
    (do some (showStmt (dot2code (← res.nat?) (← i.nat?) (← parseVec v1) (← parseVec v2) (← parseAsg asg)))).getD bad
  | .list [.atom "matvec", i, j, r, a, x] =>
    (do some (showStmt (matvecCode (← i.nat?) (← j.nat?) (← parseVec r) (← parseMat a) (← parseVec x)))).getD bad
  | .list [.atom "aa2", idx2, idx1, lhs, rhs] =>
    (do let a : AAIn2 := ⟨← parseSec2 lhs, ← parseAExpr2 rhs⟩
        some (showRes (transAA2 (← idx2.nat?) (← idx1.nat?) a))).getD bad
  | .list [.atom "dots", res, i, s1, s2, asg] =>
    (do some (showStmt (dot2codeS (← res.nat?) (← i.nat?) (← parseSec s1) (← parseSec s2) (← parseAsg asg)))).getD bad
  | .list [.atom "matmat", i, j, ii, r, a, b] =>
    (do some (showStmt (matmatCode (← i.nat?) (← j.nat?) (← ii.nat?) (← parseMat r) (← parseMat a) (← parseMat b)))).getD bad
  | .list (.atom "ref2ranges" :: vs) =>
    (do let vs ← vs.mapM parseVec
        some (showList (fun v => showSec (ref2range v)) vs)).getD bad
  | .list [.atom "acc", idx, arr, index, rhs, hole] =>
    (do let a : AccIn := ⟨← arr.nat?, ← parseExpr index, ← parseExpr rhs, ← hole.nat?⟩
        some s!"({showStmt (applyAcc (← idx.nat?) a)} {showStmt (accOrig a)})").getD bad
  | .list [.atom "sr", fixed, sameStmt, a1, i1, a2, i2] =>
    (do let f := (← fixed.nat?) != 0; let ss := (← sameStmt.nat?) != 0
        let a1 ← parseAcc a1; let a2 ← parseAcc a2; let i1 ← i1.nat?; let i2 ← i2.nat?
        some s!"(sr {tri (some (isLower linEq a1 i1))} {tri (some (isLower linEq a2 i2))} {tri (isUpper linEq a1 i1)} {tri (isUpper linEq a2 i2)} {tri (isFullRange linEq a1 i1)} {tri (isFullRange linEq a2 i2)} {tri (sameRange f linEq ss a1 i1 a2 i2)})").getD bad
  | .list [.atom "eq", a, b] =>
    (do some (tri (some (linEq (← parseExpr a) (← parseExpr b))))).getD bad
  | .list [.atom "aaD", fixed, idx, lhs, rhs] =>
    (do let f := (← fixed.nat?) != 0
        let l ← parseAcc lhs
        let all : List Acc := l :: accsOf rhs
        let D : Decls := fun a => ((all.find? (fun (x : Acc) => x.arr == a)).map Acc.shape).getD []
        let (e, accs) ← parseAExprA D rhs
        let a : AAIn := ⟨← l.toSec D, e, false, false⟩
        some (showRes (transAAacc D f linEq (← idx.nat?) l accs a))).getD bad
  | _ => "bad-op"

def main : IO Unit := run handle
