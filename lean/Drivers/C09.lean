import PsyVerif.Model.MiniFIO
import PsyVerif.Model.OMP
import PsyVerif.Model.OMPPairs
open Proto MiniF C09

/-- all permutations of a list -/
def perms : List Nat → List (List Nat)
  | [] => [[]]
  | x :: xs => (perms xs).flatMap fun p =>
      (List.range (p.length + 1)).map fun i => p.take i ++ x :: p.drop i

/-- thread assignments up to renaming of threads (restricted growth strings, reversed):
every partition of `n` positions into threads -/
def assigns : Nat → List (List Nat × Nat)
  | 0 => [([], 0)]
  | n+1 => (assigns n).flatMap fun (a, mx) =>
      (List.range (mx + 1)).map fun th => (th :: a, if th == mx then mx + 1 else mx)

/-- the schedules tried for `n` iterations -/
def schedules (n : Nat) : List (List (Nat × Nat)) :=
  let its := List.range n
  let ps : List (List Nat) :=
    if n ≤ 5 then perms its
    else [its, its.reverse, its.filter (· % 2 == 0) ++ its.filter (· % 2 == 1),
          its.filter (· % 2 == 1) ++ its.filter (· % 2 == 0),
          its.drop (n / 2) ++ its.take (n / 2), (its.drop (n / 2)).reverse ++ its.take (n / 2)]
  let asg : List (Nat → Nat → Nat) :=   -- position in the order, iteration ↦ thread
    [fun _ _ => 0, fun _ k => k % 2, fun _ k => k % 3, fun _ k => k, fun _ k => if 2 * k < n then 0 else 1,
     fun p _ => p % 2, fun p _ => p % 3, fun _ k => k * 4 / n, fun _ k => k % 8]
  if n ≤ 4 then
    ps.flatMap fun p => (assigns n).map fun (a, _) => a.reverse.zip p
  else
    ps.flatMap fun p => asg.map fun f => (List.range n).zip p |>.map fun (pos, k) => (f pos k, k)

def showSched (s : List (Nat × Nat)) : String :=
  showList (fun (t, k) => "(" ++ toString t ++ " " ++ toString k ++ ")") s

/-- first schedule on which the shared result differs from the serial one -/
@[noinline] def search (P : ParDo) (σ ser : Store) (qs : List Loc) : String :=
  let shared := qs.filter fun l => !P.privs.contains l.1
  let want := shared.map fun l => ser l
  let rec go : List (List (Nat × Nat)) → Nat → String
    | [], n => "(ok " ++ toString n ++ ")"
    | s :: rest, n =>
      match execOMP P s σ with
      | none => "(poison " ++ showSched s ++ ")"
      | some τ =>
        let got := shared.map fun l => τ l
        if got == want then go rest (n + 1)
        else
          let bad := ((shared.zip (got.zip want)).filter fun (_, g, w) => g != w).take 6
          "(differs " ++ showSched s ++ " " ++ showList (fun ((x, i, j), g, w) =>
            "(" ++ toString x ++ " " ++ toString i ++ " " ++ toString j ++ " " ++ toString g ++ " " ++ toString w ++ ")") bad ++ ")"
  go (schedules (P.trips σ)) 0

/-- first shared location written by one iteration and accessed by another (variable id) -/
def conflictVar (P : ParDo) (σ : Store) : Int :=
  let n := P.trips σ
  let hits := (List.range n).flatMap fun k => (List.range n).flatMap fun k' =>
    if k == k' then [] else
      (P.iterFp σ k).2.filter fun l =>
        !P.privs.contains l.1 && ((P.iterFp σ k').1.contains l || (P.iterFp σ k').2.contains l)
  match hits with
  | [] => -1
  | l :: _ => l.1

/-- first privatised scalar read by an iteration before that iteration has written it -/
def exposedVar (P : ParDo) (σ : Store) : Int :=
  let hits := (List.range (P.trips σ)).flatMap fun k =>
    (P.iterFp σ k).1.filter fun l => !(l.1 == P.v) && P.privs.contains l.1
  match hits with
  | [] => -1
  | l :: _ => l.1

def b01 (b : Bool) : String := if b then "1" else "0"

/-- `(omp <loop> (<priv ids>) (<firstprivate ids>) (<bindings>) (<queries>))` →
`((p..) (f..) (s..) trips indep uncond conflictVar exposedVar (serial values) verdict staticIndep staticUncond
inPairFragment validateModel pairsIndep)`:
the model's inferred clause sets, then the behaviour of the loop under the GIVEN clause lists. -/
def handle (s : Sexp) : String :=
  match s with
  | .list [.atom "omp", p, pr, fpr, init, qs] =>
    match parseStmt p with
    | some (.loop v lo hi st b) =>
      let sh := inferSharing (.loop v lo hi st b)
      let P : ParDo := ⟨v, lo, hi, st, b, pr.natList, fpr.natList⟩
      let σ := storeOf (parseBindings init)
      let q := qs.items.filterMap parseLoc
      let ser := exec P.serial σ
      "(" ++ showList toString sh.priv ++ " " ++ showList toString sh.fpriv ++ " " ++ showList toString sh.sync
        ++ " " ++ toString (P.trips σ) ++ " " ++ b01 (iterIndepB P σ) ++ " " ++ b01 (scalarsUncondB P σ)
        ++ " " ++ toString (conflictVar P σ) ++ " " ++ toString (exposedVar P σ)
        ++ " " ++ showList (fun l => toString (ser l)) q ++ " " ++ search P σ ser q
        ++ " " ++ b01 (staticIndepB P) ++ " " ++ b01 (staticUncondB P)
        ++ " " ++ b01 (inPairFragment P) ++ " " ++ b01 (validateModel v lo hi st b) ++ " " ++ b01 (pairsIndepB P) ++ ")"
    | _ => "bad-loop"
  | .list [.atom "sharing", p] =>
    match parseStmt p with
    | some (.loop v lo hi st b) =>
      let sh := inferSharing (.loop v lo hi st b)
      let P : ParDo := ⟨v, lo, hi, st, b, sh.priv, sh.fpriv⟩
      "(" ++ showList toString sh.priv ++ " " ++ showList toString sh.fpriv ++ " " ++ showList toString sh.sync
        ++ " " ++ b01 (inPairFragment P) ++ " " ++ b01 (validateModel v lo hi st b) ++ ")"
    | _ => "bad-loop"
  | _ => "bad-op"

def main : IO Unit := run handle
