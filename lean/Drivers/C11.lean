import PsyVerif.Model.MiniFIO
import PsyVerif.Model.Access
import PsyVerif.Gen.Intrinsics
open Proto C11

/-! Line protocol for C11.
`(acc <pinned|fixed1|fixed3|fixed|fixed5|ideal> <stmt>)` → `none` | `(<end-location> (var kind loc nidx) ...)`
`(trace <stmt> (<bindings>) ((site mask) ...))` → `((r x i j) (w x i j) ...)`: events of `execT` from the
store given by the bindings; the callee at call site `site` stores `old+1` into its p-th by-reference argument
iff bit p of `mask` is set (sites not listed: every argument).  `(call p m f args..)`: `m` = `n` (callee definition
not available) or the mask of its non-INTENT(IN) dummies.  `(cb f (names..) (rd..) dv)`: expression CodeBlock, `dv` = `n` or the
designated variable.  DO WHILE loops are traced for at most 3 iterations. -/

def spineOf : List C11.Expr → C11.Expr
  | [] => .nil
  | e :: r => .cons e (spineOf r)

def boolOf : Sexp → Option Bool
  | .atom "1" => some true
  | .atom "0" => some false
  | _ => none

partial def parseE : Sexp → Option C11.Expr
  | .list [.atom "lit", n] => n.int?.map .lit
  | .list [.atom "var", x] => x.nat?.map .var
  | .list [.atom "idx1", a, i] => do some (.idx1 (← a.nat?) (← parseE i))
  | .list [.atom "idx2", a, i, j] => do some (.idx2 (← a.nat?) (← parseE i) (← parseE j))
  | .list (.atom "idxs" :: a :: n :: es) => do some (.idxs (← a.nat?) (← n.nat?) (spineOf (← es.mapM parseE)))
  | .list [.atom "un", .atom op, e] => do some (.un (← MiniF.unOpOf op) (← parseE e))
  | .list [.atom "bin", .atom op, a, b] => do some (.bin (← MiniF.binOpOf op) (← parseE a) (← parseE b))
  | .list (.atom "intr" :: k :: es) => do some (.intr (← k.nat?) (spineOf (← es.mapM parseE)))
  | .list (.atom "fcall" :: p :: f :: es) => do some (.fcall (← boolOf p) (← f.nat?) (spineOf (← es.mapM parseE)))
  | .list [.atom "cb", f, ns, rd, dv] => do some (.cb (← f.nat?) ns.natList rd.natList dv.nat?)
  | .list (.atom "tup" :: es) => do some (spineOf (← es.mapM parseE))
  | _ => none

def seqsS : List C11.Stmt → C11.Stmt
  | [] => .skip
  | [s] => s
  | s :: rest => .seq s (seqsS rest)

partial def parseS : Sexp → Option C11.Stmt
  | .list [.atom "skip"] => some .skip
  | .list (.atom "seqs" :: ss) => do some (seqsS (← ss.mapM parseS))
  | .list [.atom "asg", l, r] => do some (.asg (← parseE l) (← parseE r))
  | .list [.atom "ifthen", c, t] => do some (.ifThen (← parseE c) (← parseS t))
  | .list [.atom "ite", c, t, f] => do some (.ite (← parseE c) (← parseS t) (← parseS f))
  | .list [.atom "loop", v, lo, hi, st, b] => do
      some (.loop (← v.nat?) (← parseE lo) (← parseE hi) (← parseE st) (← parseS b))
  | .list [.atom "while", c, b] => do some (.while (← parseE c) (← parseS b))
  | .list [.atom "ret"] => some .ret
  | .list [.atom "opaque", f, ns, rd, wr] => do some (.opaque (← f.nat?) ns.natList rd.natList wr.natList)
  | .list (.atom "call" :: p :: m :: f :: es) => do
      some (.call (← boolOf p) m.nat? (← f.nat?) (spineOf (← es.mapM parseE)))
  | .list (.atom "icall" :: k :: f :: es) => do some (.icall (← k.nat?) (← f.nat?) (spineOf (← es.mapM parseE)))
  | _ => none

def kindStr : Kind → String
  | .read => "R" | .write => "W" | .readwrite => "RW"

def showAcc (a : Access) : String := s!"({a.var} {kindStr a.kind} {a.loc} {a.nidx})"

def ruleOf : String → Option Rule
  | "pinned" => some pinnedRule
  | "fixed1" => some fixed1Rule
  | "fixed3" => some fixed3Rule
  | "fixed" => some fixedRule
  | "fixed5" => some fixed5Rule
  | "ideal" => some idealRule
  | _ => none

def showEvent : Event → String
  | .rd (x, i, j) => s!"(r {x} {i} {j})"
  | .wr (x, i, j) => s!"(w {x} {i} {j})"

def oracleOf (masks : List (Nat × Nat)) : Oracle where
  fval _ vs := vs.foldl (· + ·) 1
  ival k vs := vs.foldl (· + ·) (Int.ofNat k % 3)
  upd f vs p :=
    let m := match masks.find? (·.1 == f) with
      | some (_, m) => m
      | none => 2 ^ 62 - 1
    if (m / 2 ^ p) % 2 == 1 then some (C11.nth vs p + 1) else none
  fuel := 3

@[noinline] def showTrace (q : MiniF.Store × List Event) : String :=
  "(" ++ " ".intercalate (q.2.map showEvent) ++ ")"

def handle (s : Sexp) : String :=
  match s with
  | .list [.atom "acc", .atom r, p] =>
    match ruleOf r, parseS p with
    | some rule, some st =>
      match accS ⟨rule, C11.Gen.attrs⟩ st false 0 with
      | none => "none"
      | some res => "(" ++ toString res.2 ++ (res.1.foldl (fun acc a => acc ++ " " ++ showAcc a) "") ++ ")"
    | _, _ => "bad-stmt"
  | .list [.atom "trace", p, init, masks] =>
    match parseS p with
    | none => "bad-stmt"
    | some st =>
      let ms := masks.items.filterMap fun m =>
        match m.natList with
        | [f, k] => some (f, k)
        | _ => none
      showTrace (execT (oracleOf ms) C11.Gen.attrs st (MiniF.storeOf (MiniF.parseBindings init)))
  | _ => "bad-op"

def main : IO Unit := run handle
