import PsyVerif.Model.Proto
import PsyVerif.Model.Atomic
import PsyVerif.Model.AtomicTiling
open Proto

/-! C26 driver.  One request per line:
  `(omp mode reprod thIdx nThreads valid)`      mode 0 = pinned program, 1 = fixed program
  `(red mode increment valid a2lvalid)`
  `(a2l verbose c1 c2)`
  `(tile <options> <syms> <tags> <nest>)`       see `C26.Tiling`
Booleans are 0/1.  Answer: `(accepted? …final state…)`. -/

def b (n : Nat) : Bool := n != 0
def sb (x : Bool) : String := if x then "1" else "0"
def so (o : C26.Outcome) : String := match o with | .accepted => "1" | .refused => "0"

instance : Inhabited C26.Tiling.Stmt := ⟨.nil⟩

open C26.Tiling in
partial def parseStmt : Sexp → Stmt
  | .list [.atom "L", w, cb, imp, next] =>
    .leaf w.natList (b (cb.nat?.getD 0)) (b (imp.nat?.getD 0)) (parseStmt next)
  | .list [.atom "D", .list [v, st, sp, step, ch, tb], body, next] =>
    let stp : Step := match step with
      | .list [.atom "lit", k] => .lit (k.int?.getD 0)
      | .list (.atom "expr" :: vs) => .expr ((Sexp.list vs).natList)
      | _ => .expr []
    .loop { var := v.nat?.getD 0, start := st.natList, stop := sp.natList, step := stp,
            chunked := b (ch.nat?.getD 0), tab := b (tb.nat?.getD 0) } (parseStmt body) (parseStmt next)
  | _ => .nil

def showNats (xs : List Nat) : String := showList toString xs

open C26.Tiling in
def showStmt : Stmt → String
  | .nil => "()"
  | .leaf w cb imp next => s!"(L {showNats w} {sb cb} {sb imp} {showStmt next})"
  | .loop h body next =>
    let stp := match h.step with
      | .lit k => s!"(lit {k})"
      | .expr vs => "(expr" ++ String.join (vs.map fun v => " " ++ toString v) ++ ")"
    s!"(D ({h.var} {showNats h.start} {showNats h.stop} {stp} {sb h.chunked} {sb h.tab}) {showStmt body} {showStmt next})"

open C26.Tiling in
def handleTile (prog : Opts → C26.Prog St) (rest : List Sexp) : String :=
  match rest with
  | [.list [.atom "opt", size, extra], .list [.atom "tab", bound, .list tags], nest] =>
    let sz : OptVal := match size with
      | .atom "absent" => .absent
      | .list [.atom "int", k] => .int (k.int?.getD 0)
      | _ => .other
    let assoc : List (Nat × Nat) := tags.filterMap fun e =>
      match e.natList with | [k, v] => some (k, v) | _ => none
    let tab : Tab := { bound := bound.nat?.getD 0, tags := fun k => (assoc.find? (·.1 == k)).map (·.2) }
    let r := C26.run (prog ⟨sz, b (extra.nat?.getD 0)⟩) ⟨parseStmt nest, tab⟩
    s!"({so r.2} {r.1.tab.bound} {showStmt r.1.nest})"
  | _ => "bad-tile"

def handle (s : Sexp) : String :=
  match s with
  | .list (.atom "omp" :: rest) =>
    match (Sexp.list rest).natList with
    | [mode, reprod, th, nt, valid] =>
      let v : C26.OmpState → Bool := fun _ => b valid
      let p := if mode == 0 then C26.ompLoopPinned (b reprod) v else C26.ompLoopFixed (b reprod) v
      let r := C26.run p ⟨b th, b nt, false⟩
      s!"({so r.2} {sb r.1.thIdx} {sb r.1.nThreads} {sb r.1.wrapped})"
    | _ => "bad-omp"
  | .list (.atom "red" :: rest) =>
    match (Sexp.list rest).natList with
    | [mode, inc, valid, a2l] =>
      let v : C26.RedState → Bool := fun _ => b valid
      let a : C26.RedState → Bool := fun _ => b a2l
      let p := if mode == 0 then C26.reductionPinned (b inc) v a else C26.reductionFixed (b inc) v a
      let r := C26.run p ⟨0, false, false⟩
      s!"({so r.2} {r.1.tree} {sb r.1.tmpVar} {sb r.1.idxVars})"
    | _ => "bad-red"
  | .list (.atom "a2l" :: rest) =>
    match (Sexp.list rest).natList with
    | [verbose, c1, c2] =>
      let r := C26.run (C26.a2lVerbose (b verbose) (fun _ => b c1) (fun _ => b c2)) ⟨false, false⟩
      s!"({so r.2} {sb r.1.comment} {sb r.1.loops})"
    | _ => "bad-a2l"
  | .list [.atom "alg", mode, rootOk, .list flags] =>
    -- state = which invokes have been raised; invoke i is valid iff flag i
    let fl := (Sexp.list flags).natList
    let steps : List (C26.Step (List Bool)) := (List.range fl.length).map fun i =>
      ⟨fun _ => b (fl.getD i 0), fun st => st.set i true⟩
    let v : List Bool → Bool := fun _ => b (rootOk.nat?.getD 0)
    let p := if mode.nat?.getD 0 == 0 then C26.algTransPinned v steps else C26.algTransFixed v steps
    let r := C26.run p (fl.map fun _ => false)
    s!"({so r.2} {showList sb r.1})"
  | .list (.atom "ext" :: rest) =>
    match (Sexp.list rest).natList with
    | [mode, drv, nodesOk, valid, counter] =>
      let n : C26.ExtractState → Bool := fun _ => b nodesOk
      let v : C26.ExtractState → Bool := fun _ => b valid
      let p := if mode == 0 then C26.extractPinned (b drv) n v else C26.extractFixed (b drv) n v
      let r := C26.run p ⟨counter, false, false⟩
      s!"({so r.2} {r.1.counter} {sb r.1.driver} {sb r.1.region})"
    | _ => "bad-ext"
  | .list (.atom "kmi" :: rest) =>
    match (Sexp.list rest).natList with
    | [ex, same, valid] =>
      let r := C26.run (C26.kernelModuleInline (b ex) (b same) (fun _ => b valid)) ⟨false, false⟩
      s!"({so r.2} {sb r.1.prepared} {sb r.1.inlined})"
    | _ => "bad-kmi"
  | .list (.atom "sign" :: rest) =>
    match (Sexp.list rest).natList with
    | [valid] =>
      let r := C26.run (C26.sign2code (fun _ => b valid)) ⟨false, false, false, false, false⟩
      s!"({so r.2} {sb r.1.expanded} {sb r.1.finished})"
    | _ => "bad-sign"
  | .list (.atom "tile" :: rest) => handleTile C26.Tiling.tilingProg rest
  | .list (.atom "chunk" :: rest) => handleTile C26.Tiling.chunkTransProg rest
  | .list (.atom "swap" :: rest) => handleTile (fun _ => C26.Tiling.swapTransProg) rest
  | _ => "bad-request"

def main : IO Unit := run handle
