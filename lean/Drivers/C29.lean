import PsyVerif.Model.Proto
import PsyVerif.Model.KernOut
open Proto C29

/-! Line protocol of the C29 model.

* `(exec RUNS FS0 SCHED)` with `RUNS = ((mode base kern) …)` (mode 0 = multiple, 1 = single),
  `FS0 = ((base idx) | (base idx body cbase) | (base idx body cbase ctag) …)` (empty file / content
  without suffix / content with suffix) and `SCHED = (r r …)`.
  Answer: `((runs (label i x tag) …) (files (base idx E|(body cbase tag)) …) (trace (label i) …))`
  where `trace` lists, per schedule entry, the program counter of the run *before* its step.
* `(enum GRAN RUNS FS0)`: all maximal schedules; GRAN 0 = every atomic step is a scheduling point,
  GRAN 1 = local steps are glued to the preceding file-system step. -/

def mkCfg (s : Sexp) : List Cfg :=
  s.items.filterMap fun e =>
    match e.natList with
    | [m, b, k] => some ⟨if m = 1 then .single else .multiple, b, k⟩
    | _ => none

def mkFS0 (s : Sexp) : List (Name × File) :=
  s.items.filterMap fun e =>
    match e.natList with
    | [b, i] => some (⟨b, i⟩, ⟨none, none, []⟩)
    | [b, i, body, cb] => some (⟨b, i⟩, ⟨some ⟨body, cb, none⟩, none, []⟩)
    | [b, i, body, cb, t] => some (⟨b, i⟩, ⟨some ⟨body, cb, some t⟩, none, []⟩)
    | _ => none

def fsOf (l : List (Name × File)) : FS := fun nm => (l.find? (fun p => p.1 = nm)).map Prod.snd

def showTag : Option Nat → String
  | none => "-"
  | some t => toString t

def showContent : Option Content → String
  | none => "E"
  | some c => s!"({c.body} {c.base} {showTag c.tag})"

def showRes : Res → String
  | .wrote => "wrote"
  | .reused => "reused"
  | .failed => "failed"

def showPC : PC → String
  | .create i => s!"create {i} -"
  | .rename i fd => s!"rename {i} {if fd then 1 else 0}"
  | .render i fd => s!"render {i} {if fd then 1 else 0}"
  | .write i => s!"write {i} -"
  | .close i => s!"close {i} -"
  | .readback i => s!"readback {i} -"
  | .compare i got => s!"compare {i} {showContent got}"
  | .done i r => s!"done {i} {showRes r}"

def pcLabel : PC → String
  | .create i => s!"(create {i})"
  | .rename i _ => s!"(rename {i})"
  | .render i _ => s!"(render {i})"
  | .write i => s!"(write {i})"
  | .close i => s!"(close {i})"
  | .readback i => s!"(readback {i})"
  | .compare i _ => s!"(compare {i})"
  | .done i _ => s!"(done {i})"

def dedup (l : List Nat) : List Nat := l.foldl (fun acc x => if acc.contains x then acc else acc ++ [x]) []

def showState (cfgs : List Cfg) (fs0 : List (Name × File)) (s : State) : String :=
  let n := cfgs.length
  let runs := (List.range n).map fun r =>
    let l := s.loc r
    s!"({showPC l.pc} {showTag l.tag})"
  let bases := dedup (cfgs.map (·.base) ++ fs0.map (·.1.base))
  let maxIdx := n + fs0.length + 1
  let files := bases.flatMap fun b =>
    (List.range (maxIdx + 1)).filterMap fun i =>
      match s.fs ⟨b, i⟩ with
      | none => none
      | some f =>
        some s!"({b} {i} {showContent f.data} {showTag f.owner} {showList toString f.writers})"
  s!"(runs {" ".intercalate runs}) (files {" ".intercalate files})"

def execCmd (cfgs : List Cfg) (fs0 : List (Name × File)) (sched : List Nat) : String :=
  let cfg := cfgOf cfgs
  let (s, tr) := sched.foldl (fun (acc : State × List String) r =>
      (step cfg acc.1 r, pcLabel (acc.1.loc r).pc :: acc.2)) (init (fsOf fs0), [])
  s!"({showState cfgs fs0 s} (trace {" ".intercalate tr.reverse}))"

/-- one scheduling unit of run `r`: one step, then (gran 1) its local steps. -/
partial def macroStep (cfg : RunId → Cfg) (gran : Nat) (s : State) (r : RunId) : State × List Nat :=
  let s1 := step cfg s r
  if gran = 0 then (s1, [r]) else
    let rec go (s : State) (acc : List Nat) : State × List Nat :=
      if (s.loc r).pc.isLocal then go (step cfg s r) (r :: acc) else (s, acc)
    go s1 [r]

partial def enumAll (cfg : RunId → Cfg) (n gran : Nat) (s : State) (pref : List Nat)
    (acc : Array String) (limit : Nat) : Array String :=
  if acc.size ≥ limit then acc else
  let live := (List.range n).filter fun r => !(s.loc r).pc.isDone
  if live.isEmpty then acc.push (showList toString pref.reverse) else
    live.foldl (fun acc r =>
      let (s', steps) := macroStep cfg gran s r
      -- guard against runaway create loops (cannot happen with a finite fs0)
      if pref.length > 400 then acc else enumAll cfg n gran s' (steps ++ pref) acc limit) acc

def handle (s : Sexp) : String :=
  match s.items with
  | [.atom "exec", runs, fs0, sched] => execCmd (mkCfg runs) (mkFS0 fs0) sched.natList
  | [.atom "enum", g, runs, fs0] =>
    let cfgs := mkCfg runs
    let r := enumAll (cfgOf cfgs) cfgs.length (g.nat?.getD 0) (init (fsOf (mkFS0 fs0))) [] #[] 2000000
    "(" ++ " ".intercalate r.toList ++ ")"
  | _ => "bad-command"

def main : IO Unit := Proto.run handle
