import PsyVerif.Model.Proto
import PsyVerif.Model.SymTab
open Proto C16

/-! Line protocol: one history per line
`(hist (nodes (scoping anc…)…) (tabs node…) (intr name…) (ops op…))`; answer: for every op
`outcome|dump of all tables`, joined by ` # `. -/

def nameOf : Sexp → Name
  | .atom "~" => []
  | .atom s => s.toList.map Char.toNat
  | _ => []

def optName : Sexp → Option Name
  | .atom "~" => none
  | s => some (nameOf s)

def natOf (s : Sexp) : Nat := s.nat?.getD 0
def optNat : Sexp → Option Nat
  | .atom "~" => none
  | s => s.nat?
def boolOf (s : Sexp) : Bool := natOf s != 0

def kindOf : Sexp → Kind
  | .atom "data" => .data
  | .atom "routine" => .routine
  | .atom "container" => .container
  | .atom "intrinsic" => .intrinsic
  | .atom "datatype" => .datatype
  | _ => .generic

def optKind : Sexp → Option Kind
  | .atom "~" => none
  | s => some (kindOf s)

def ifaceOf : Sexp → Iface
  | .atom "arg" => .argument
  | .atom "unres" => .unresolved
  | .atom "static" => .static
  | .atom "common" => .commonblock
  | .list [.atom "imp", c, n, o] => .imp (natOf c) (nameOf n) (optName o)
  | _ => .automatic

def opOf (intr : List Name) : Sexp → Option Op
  | .list [.atom "create"] => some .create
  | .list [.atom "add", t, n, k, i, w, g] => some (.add (natOf t) ⟨nameOf n, kindOf k, ifaceOf i, boolOf w⟩ (optName g))
  | .list [.atom "new", t, r, g, sh, k, al, i, w] =>
    some (.newSymbol (natOf t) (nameOf r) (optName g) (boolOf sh) (kindOf k) (boolOf al) (ifaceOf i) (boolOf w))
  | .list [.atom "next", t, r, sh, o] => some (.nextName (natOf t) (nameOf r) (boolOf sh) (optNat o))
  | .list [.atom "lookup", t, n, l] => some (.lookup (natOf t) (nameOf n) (optNat l))
  | .list [.atom "ltag", t, g, l] => some (.lookupTag (natOf t) (nameOf g) (optNat l))
  | .list [.atom "foc", t, n, k, i] => some (.findOrCreate (natOf t) (nameOf n) (optKind k) (ifaceOf i))
  | .list [.atom "foct", t, g, r, k, i] => some (.findOrCreateTag (natOf t) (nameOf g) (nameOf r) (optKind k) (ifaceOf i))
  | .list [.atom "rename", t, i, n] => some (.rename (natOf t) (natOf i) (nameOf n))
  | .list [.atom "remove", t, i] => some (.remove (natOf t) (natOf i))
  | .list [.atom "swap", t, i, n, k, f, w] => some (.swap (natOf t) (natOf i) ⟨nameOf n, kindOf k, ifaceOf f, boolOf w⟩)
  | .list [.atom "args", t, is] => some (.setArgs (natOf t) is.natList)
  | .list [.atom "swapprops", t, i, j] => some (.swapProps (natOf t) (natOf i) (natOf j))
  | .list [.atom "merge", t, o, sk] => some (.merge (natOf t) (natOf o) sk.natList intr)
  | .list [.atom "attach", t, n] => some (.attach (natOf t) (natOf n))
  | .list [.atom "detach", t] => some (.detach (natOf t))
  | _ => none

def showName (n : Name) : String := if n.isEmpty then "~" else String.ofList (n.map Char.ofNat)

def showKind : Kind → String
  | .generic => "generic" | .data => "data" | .routine => "routine" | .container => "container"
  | .intrinsic => "intrinsic" | .datatype => "datatype"

def showIface : Iface → String
  | .automatic => "auto" | .argument => "arg" | .unresolved => "unres" | .static => "static"
  | .commonblock => "common"
  | .imp c n o => s!"imp({c}/{showName n}/{showName (o.getD [])})"

def showErr : Err → String
  | .key => "Key" | .value => "Value" | .symbol => "Symbol" | .type => "Type" | .notimpl => "NotImpl"
  | .internal => "Internal"

def showOutcome : Outcome → String
  | .ok => "ok" | .sym i => s!"sym:{i}" | .name n => s!"name:{showName n}" | .err e => s!"err:{showErr e}"
  | .unsupported => "unsupported"

def showSym (p : Name × Sym) : String :=
  s!"{showName p.1}={p.2.id}:{showName p.2.name}:{showKind p.2.kind}:{showIface p.2.iface}:{if p.2.wild then 1 else 0}"

def showTable (t : Table) : String :=
  let nd := match t.node with | some n => toString n | none => "-"
  s!"@{nd}[{",".intercalate (t.ents.map showSym)}]" ++ "{" ++
  ",".intercalate (t.tags.map fun p => s!"{showName p.1}={p.2}") ++ "}(" ++
  ",".intercalate (t.args.map toString) ++ ")"

def showState (st : State) : String := ";".intercalate (st.tabs.map showTable)

def runOps (intr : List Name) : State → List Sexp → List String → List String
  | _, [], acc => acc.reverse
  | st, o :: r, acc =>
    match opOf intr o with
    | none => (("bad-op" :: acc).reverse)
    | some op =>
      let (out, st') := step st op
      runOps intr st' r ((showOutcome out ++ "|" ++ showState st') :: acc)

def handle : Sexp → String
  | .list [.atom "hist", .list (.atom "nodes" :: ns), .list (.atom "tabs" :: ts), .list (.atom "intr" :: is),
           .list (.atom "ops" :: ops)] =>
    let nodes : List NodeInfo := ns.map fun n =>
      match n with
      | .list (s :: anc) => ⟨anc.filterMap Sexp.nat?, boolOf s⟩
      | _ => ⟨[], false⟩
    let tabs : List Table := ts.map fun t => { node := optNat t }
    let st : State := { tabs := tabs, nodes := nodes, next := 0 }
    " # ".intercalate (runOps (is.map nameOf) st ops [])
  | _ => "bad-line"

def main : IO Unit := run handle
