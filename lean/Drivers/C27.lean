import PsyVerif.Model.Proto
import PsyVerif.Model.Topo
import PsyVerif.Model.ModClosure
open Proto

def graphOf (s : Sexp) : C27.Graph := s.items.filterMap fun e =>
  match e.natList with
  | m :: ds => some (m, ds)
  | [] => none

def showGraph (g : C27.Graph) : String :=
  showList (fun (e : Nat × List Nat) => showList toString (e.1 :: e.2)) g

/-- input: `((m d1 d2 ...) (m' ...) ...)`; output: the sorted module list.
`(closure FILES IGNORES INIT ORACLE)`: output `(MAP SORTED)` where MAP is the result of
`get_all_dependencies_recursively` in dict order under the given pop oracle and SORTED
the result of sorting it. -/
def handle (s : Sexp) : String :=
  match s with
  | .list [.atom "closure", files, ign, ini, orc] =>
    let w : C27.World := { files := graphOf files, ignores := ign.natList }
    let g := C27.closure w ini.natList orc.natList
    "(" ++ showGraph g ++ " " ++ showList toString (C27.sortModules g) ++ ")"
  | _ => showList toString (C27.sortModules (graphOf s))

def main : IO Unit := run handle
