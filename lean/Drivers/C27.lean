import PsyVerif.Model.Proto
import PsyVerif.Model.Topo
open Proto

/-- input: `((m d1 d2 ...) (m' ...) ...)`; output: the sorted module list. -/
def handle (s : Sexp) : String :=
  let g : C27.Graph := s.items.filterMap fun e =>
    match e.natList with
    | m :: ds => some (m, ds)
    | [] => none
  showList toString (C27.sortModules g)

def main : IO Unit := run handle
