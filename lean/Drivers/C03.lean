import PsyVerif.Model.Proto
import PsyVerif.Model.Decls
import PsyVerif.Model.DeclsIO
import PsyVerif.Model.ExprIO
open Proto Decls

/-! ### expressions inside statements / initial values (model: `C02.parse`, `C02.render .narrow`) -/
namespace XText
open C02

def optoks : List OpTok :=
  [.plus, .minus, .star, .slash, .pow, .eq, .ne, .lt, .le, .gt, .ge, .not, .and, .or, .eqv, .neqv]
def opStr : OpTok → String
  | .plus => "+" | .minus => "-" | .star => "*" | .slash => "/" | .pow => "**" | .eq => "==" | .ne => "/="
  | .lt => "<" | .le => "<=" | .gt => ">" | .ge => ">=" | .not => ".not." | .and => ".and." | .or => ".or."
  | .eqv => ".eqv." | .neqv => ".neqv." | .bad => "?"

/-- `lp` `rp` `(n k)` name v<k>  `(o k)` operator  `(i d)` integer literal  `(t b)` logical literal -/
def rdTok : Sexp → Option Tok
  | .atom "lp" => some .lp
  | .atom "rp" => some .rp
  | .list [.atom "n", k] => k.nat?.map .name
  | .list [.atom "o", k] => do pure (.op (← optoks[(← k.nat?)]?))
  | .list [.atom "i", d] => d.nat?.map fun d => .lit (.num d false .none .none)
  | .list [.atom "t", b] => b.nat?.map fun b => .lit (.bool (b != 0) .none)
  | _ => none

def shTok : Tok → String
  | .lp => "(" | .rp => ")" | .comma => "," | .pct => "%"
  | .op o => opStr o
  | .name n => s!"v{n}" | .fn n => s!"f{n}" | .kw n => s!"k{n}="
  | .lit (.num d _ _ _) => toString d
  | .lit (.bool b _) => if b then ".true." else ".false."
  | .lit (.char _ _ _) => "'c'"

def shToks (ts : List Tok) : String := String.join (ts.map shTok)

/-- `(exprtext (<tok> ...))` → `none` (source not a sentence of the grammar) or `w1|w2` where
`w1 = render (parse src)` and `w2 = render (parse w1)` (`unreadable` if `w1` does not parse), followed by
`|1` / `|0`: the tree is in the class `C02.exposed` (sign kept bare in front of `*` `/`). -/
def exprText (ts : List Tok) : String :=
  match parse ts with
  | none => "none"
  | some e =>
    let w1 := render .narrow .top e
    let x := if exposed .top e then "|1" else "|0"
    match parse w1 with
    | none => shToks w1 ++ "|unreadable" ++ x
    | some e2 => shToks w1 ++ "|" ++ shToks (render .narrow .top e2) ++ x

end XText

/-- `(write <unit>)` → items of the first write (fixed code);  `(writepinned <unit>)` likewise for
the pinned access-statement order;  `(reread <unit>)` → symbol table (name, class) after reading
the written text back;  `(exprtext (<tok> ...))` see `XText.exprText`;  `(roundtrip <unit>)` / `(roundtrippinned <unit>)` → `same` / `diff` / refusal. -/
def handle (s : Sexp) : String :=
  match s with
  | .list [.atom "exprtext", .list toks] =>
    match toks.mapM XText.rdTok with
    | none => "bad-tokens"
    | some ts => XText.exprText ts
  | .list [.atom cmd, u] =>
    match parseUnit u with
    | none => "bad-unit"
    | some u =>
      if cmd == "write" then showItems (writeUnit u)
      else if cmd == "writepinned" then showItems (writeUnitPinned u)
      else if cmd == "reread" then
        match writeUnit u with
        | .error e => s!"(err {showErr e})"
        | .ok items =>
          match readBack u items with
          | .error e => s!"(err {showErr e})"
          | .ok u' => "(ok " ++ " ".intercalate (u'.syms.map fun x => s!"({x.name} {showClsTag x.cls})") ++ ")"
      else if cmd == "roundtrip" || cmd == "roundtrippinned" then
        let w := if cmd == "roundtrip" then writeUnit else writeUnitPinned
        match w u, roundTrip w u with
        | .error e, _ => s!"(err {showErr e})"
        | .ok _, .error e => s!"(err2 {showErr e})"
        | .ok a, .ok b => if a == b then "same" else "diff"
      else "bad-command"
  | _ => "bad-command"

def main : IO _root_.Unit := run handle
