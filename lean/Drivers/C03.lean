import PsyVerif.Model.Proto
import PsyVerif.Model.Decls
import PsyVerif.Model.DeclsIO
open Proto Decls

/-- `(write <unit>)` → items of the first write (fixed code);  `(writepinned <unit>)` likewise for
the pinned access-statement order;  `(reread <unit>)` → symbol table (name, class) after reading
the written text back;  `(roundtrip <unit>)` / `(roundtrippinned <unit>)` → `same` / `diff` / refusal. -/
def handle (s : Sexp) : String :=
  match s with
  | .list [.atom cmd, u] =>
    match parseUnit u with
    | none => "bad-unit"
    | some u =>
      if cmd == "write" then showItems (writeUnit u)
      else if cmd == "writepinned" then showItems (writeUnitPinned u)
      else if cmd == "reread" then
        match writeUnit u with
        | .error e => s!"(err {showErr e})"
        | .ok items =>
          match readBack u items with
          | .error e => s!"(err {showErr e})"
          | .ok u' => "(ok " ++ " ".intercalate (u'.syms.map fun x => s!"({x.name} {showClsTag x.cls})") ++ ")"
      else if cmd == "roundtrip" || cmd == "roundtrippinned" then
        let w := if cmd == "roundtrip" then writeUnit else writeUnitPinned
        match w u, roundTrip w u with
        | .error e, _ => s!"(err {showErr e})"
        | .ok _, .error e => s!"(err2 {showErr e})"
        | .ok a, .ok b => if a == b then "same" else "diff"
      else "bad-command"
  | _ => "bad-command"

def main : IO _root_.Unit := run handle
