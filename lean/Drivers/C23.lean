import PsyVerif.Model.Proto
import PsyVerif.Model.Colour
import PsyVerif.Gen.Access
open Proto C23

/-! Line protocol of the C23 model.
input : `(forest steps)`
  forest = `(node ...)`, node = `(h)` | `(g)` | `(o)` | `(k coded (acc fs) ...)` | `(l type fsid forest)` | `(d kind forest)`
  steps  = `((c i) | (p t seq gang vector collapse typecheck i) | (r t typecheck loopcheck i0 i1 ...) ...)`  t: 0 ompParallelDo/1 ompDo/2 accLoop/3 generic OMPLoopTrans/4 generic OMPParallelLoopTrans; region 0 omp/1 accpar/2 acckernels
output: `((a1 a2 ...) gen safe1model forest)` with forest printed with the loop's fsDisc flag (0/1). -/

partial def parseForest (xs : List Sexp) : Forest :=
  match xs with
  | [] => .nil
  | x :: rest =>
    let nx := parseForest rest
    match x with
    | .list (.atom "h" :: _) => .halo nx
    | .list (.atom "g" :: _) => .gsum nx
    | .list (.atom "k" :: c :: args) =>
      .kern (c.nat?.getD 0 == 1) (args.map fun a => match a.natList with
        | [p, q] => (p, q)
        | _ => (0, 0)) nx
    | .list [.atom "l", ty, fs, .list body] =>
      .loop (ty.nat?.getD 99) (Gen.fsDisc (fs.nat?.getD 99)) (parseForest body) nx
    | .list [.atom "d", k, .list body] => .dir (k.nat?.getD 99) (parseForest body) nx
    | _ => .other nx

partial def showForest : Forest → List String
  | .nil => []
  | .halo nx => "(h)" :: showForest nx
  | .gsum nx => "(g)" :: showForest nx
  | .other nx => "(o)" :: showForest nx
  | .kern c args nx =>
    ("(k " ++ (if c then "1" else "0") ++ String.join (args.map fun a => s!" ({a.1} {a.2})") ++ ")") :: showForest nx
  | .loop ty fd b nx => s!"(l {ty} {if fd then 1 else 0} ({" ".intercalate (showForest b)}))" :: showForest nx
  | .dir k b nx => s!"(d {k} ({" ".intercalate (showForest b)}))" :: showForest nx

/-- steps: `(c i)` | `(p t seq gang vector collapse typecheck i)` | `(r t typecheck loopcheck i0 i1 ...)` -/
def parseStep (s : Sexp) : Option Step :=
  match s with
  | .list [.atom "c", i] => i.nat?.map Step.colour
  | .list [.atom "p", t, sq, g, v, cl, tc, i] =>
    let o : LoopOpts := { sequential := sq.nat? == some 1, gang := g.nat? == some 1, vector := v.nat? == some 1,
                          collapse := cl.nat?.getD 0, typeCheck := tc.nat? == some 1 }
    match t.nat?, i.nat? with
    | some 0, some i => some (.parLoop .ompParallelDo o i)
    | some 1, some i => some (.parLoop .ompDo o i)
    | some 2, some i => some (.parLoop .accLoop o i)
    | some 3, some i => some (.parLoop .genOmpDo o i)
    | some 4, some i => some (.parLoop .genOmpParallelDo o i)
    | _, _ => none
  | .list (.atom "r" :: t :: tc :: lc :: tg) =>
    let targets := tg.filterMap Sexp.nat?
    let o : RegionOpts := { typeCheck := tc.nat? == some 1, loopCheck := lc.nat? == some 1 }
    match t.nat? with
    | some 0 => some (.region .ompParallel o targets)
    | some 1 => some (.region .accParallel o targets)
    | some 2 => some (.region .accKernels o targets)
    | _ => none
  | _ => none

def b2s (b : Bool) : String := if b then "1" else "0"

def handle (s : Sexp) : String :=
  match s with
  | .list [.list f, .list steps] =>
    let s0 := parseForest f
    match steps.mapM parseStep with
    | none => "bad-steps"
    | some sts =>
      let (s1, res) := runSkip Gen.tables s0 sts
      s!"(({" ".intercalate (res.map b2s)}) {b2s (genOK Gen.tables s1)} {b2s (safe1 false s1)} ({" ".intercalate (showForest s1)}))"
  | _ => "bad-input"

def main : IO Unit := run handle
