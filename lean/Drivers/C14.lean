import PsyVerif.Model.Proto
import PsyVerif.Model.Tree
import PsyVerif.Gen.NodeKinds
open Proto C14

/-- node record `(kind parent ctor (children...))`, parent `-1` = None -/
def mkHeap (nodes : List Sexp) : Heap :=
  let recs : List (Nat × Int × Nat × List Nat) := nodes.map fun n =>
    match n.items with
    | [k, p, c, ch] => (k.nat?.getD 0, p.int?.getD (-1), c.nat?.getD 0, ch.natList)
    | _ => (0, -1, 0, [])
  let arr := recs.toArray
  { kind := fun i => (arr.getD i (0, -1, 0, [])).1
    children := fun i => (arr.getD i (0, -1, 0, [])).2.2.2
    parent := fun i => let p := (arr.getD i (0, -1, 0, [])).2.1; if p < 0 then none else some p.toNat
    ctor := fun i => (arr.getD i (0, -1, 0, [])).2.2.1 != 0
    size := arr.size }

def parseOp (s : Sexp) : Option Op :=
  match s.items with
  | [.atom "append", p, x] => do pure (.append (← p.nat?) (← x.nat?))
  | [.atom "insert", p, i, x] => do pure (.insert (← p.nat?) (← i.int?) (← x.nat?))
  | [.atom "addchild", p, x] => do pure (.addchild (← p.nat?) (← x.nat?) none)
  | [.atom "addchild", p, x, i] => do pure (.addchild (← p.nat?) (← x.nat?) (some (← i.int?)))
  | [.atom "extend", p, xs] => do pure (.extend (← p.nat?) xs.natList)
  | [.atom "iadd", p, xs] => do pure (.iadd (← p.nat?) xs.natList)
  | [.atom "setitem", p, i, x] => do pure (.setitem (← p.nat?) (← i.int?) (← x.nat?))
  | [.atom "delitem", p, i] => do pure (.delitem (← p.nat?) (← i.int?))
  | [.atom "pop", p, i] => do pure (.pop (← p.nat?) (← i.int?))
  | [.atom "remove", p, x] => do pure (.remove (← p.nat?) (← x.nat?))
  | [.atom "reverse", p] => do pure (.reverse (← p.nat?))
  | [.atom "clear", p] => do pure (.clear (← p.nat?))
  | [.atom "sort", p] => do pure (.sort (← p.nat?))
  | [.atom "imul", p] => do pure (.imul (← p.nat?))
  | [.atom "setchildren", p, xs] => do pure (.setChildren (← p.nat?) xs.natList)
  | [.atom "popall", p] => do pure (.popAll (← p.nat?))
  | [.atom "detach", x] => do pure (.detach (← x.nat?))
  | [.atom "replace", x, y] => do pure (.replaceWith (← x.nat?) (← y.nat?))
  | _ => none

def showOutcome : Outcome → String
  | .ok => "ok" | .generationError => "GenerationError" | .indexError => "IndexError"
  | .valueError => "ValueError" | .typeError => "TypeError" | .notImplemented => "NotImplementedError"

def showHeap (n : Nat) (h : Heap) : String :=
  showList (fun i =>
    "(" ++ (match h.parent i with | none => "-1" | some p => toString p) ++ " " ++
      (if h.ctor i then "1" else "0") ++ " " ++ showList toString (h.children i) ++ ")")
    (List.range n)

/-- input `((node ...) (op ...))`; output one `(outcome heap)` per operation -/
def handle (s : Sexp) : String :=
  match s.items with
  | [nodes, ops] =>
    let h0 := mkHeap nodes.items
    let n := nodes.items.length
    let rec go (h : Heap) (os : List Sexp) (acc : List String) : List String :=
      match os with
      | [] => acc.reverse
      | o :: rest =>
        match parseOp o with
        | none => ("bad-op" :: acc).reverse
        | some op =>
          let r := step Gen.kinds h op
          go r.1 rest (("(" ++ showOutcome r.2 ++ " " ++ showHeap n r.1 ++ ")") :: acc)
    "(" ++ " ".intercalate (go h0 ops.items []) ++ ")"
  | _ => "bad-line"

def main : IO Unit := run handle
