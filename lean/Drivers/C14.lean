import PsyVerif.Model.Proto
import PsyVerif.Model.Tree
import PsyVerif.Gen.NodeKinds
open Proto C14

/-- node record `(kind parent ctor (children...))`, parent `-1` = None -/
def mkHeap (nodes : List Sexp) : Heap :=
  let recs : List (Nat × Int × Nat × List Nat) := nodes.map fun n =>
    match n.items with
    | [k, p, c, ch] => (k.nat?.getD 0, p.int?.getD (-1), c.nat?.getD 0, ch.natList)
    | [k, p, c, ch, _] => (k.nat?.getD 0, p.int?.getD (-1), c.nat?.getD 0, ch.natList)
    | _ => (0, -1, 0, [])
  let arr := recs.toArray
  { kind := fun i => (arr.getD i (0, -1, 0, [])).1
    children := fun i => (arr.getD i (0, -1, 0, [])).2.2.2
    parent := fun i => let p := (arr.getD i (0, -1, 0, [])).2.1; if p < 0 then none else some p.toNat
    ctor := fun i => (arr.getD i (0, -1, 0, [])).2.2.1 != 0
    size := arr.size }

def parseOp (s : Sexp) : Option Op :=
  match s.items with
  | [.atom "append", p, x] => do pure (.append (← p.nat?) (← x.nat?))
  | [.atom "insert", p, i, x] => do pure (.insert (← p.nat?) (← i.int?) (← x.nat?))
  | [.atom "addchild", p, x] => do pure (.addchild (← p.nat?) (← x.nat?) none)
  | [.atom "addchild", p, x, i] => do pure (.addchild (← p.nat?) (← x.nat?) (some (← i.int?)))
  | [.atom "extend", p, xs] => do pure (.extend (← p.nat?) xs.natList)
  | [.atom "iadd", p, xs] => do pure (.iadd (← p.nat?) xs.natList)
  | [.atom "setitem", p, i, x] => do pure (.setitem (← p.nat?) (← i.int?) (← x.nat?))
  | [.atom "delitem", p, i] => do pure (.delitem (← p.nat?) (← i.int?))
  | [.atom "pop", p, i] => do pure (.pop (← p.nat?) (← i.int?))
  | [.atom "remove", p, x] => do pure (.remove (← p.nat?) (← x.nat?))
  | [.atom "reverse", p] => do pure (.reverse (← p.nat?))
  | [.atom "clear", p] => do pure (.clear (← p.nat?))
  | [.atom "sort", p] => do pure (.sort (← p.nat?))
  | [.atom "imul", p] => do pure (.imul (← p.nat?))
  | [.atom "setchildren", p, xs] => do pure (.setChildren (← p.nat?) xs.natList)
  | [.atom "popall", p] => do pure (.popAll (← p.nat?))
  | [.atom "detach", x] => do pure (.detach (← x.nat?))
  | [.atom "replace", x, y] => do pure (.replaceWith (← x.nat?) (← y.nat?) true)
  | [.atom "replace", x, y, k] => do pure (.replaceWith (← x.nat?) (← y.nat?) ((← k.nat?) != 0))
  | [.atom "appendnamed", p, x] => do pure (.appendNamedArg (← p.nat?) (← x.nat?))
  | [.atom "insertnamed", p, i, x] => do pure (.insertNamedArg (← p.nat?) (← i.int?) (← x.nat?))
  | [.atom "setslice", p] => do pure (.setslice (← p.nat?))
  | [.atom "delslice", p] => do pure (.delslice (← p.nat?))
  | [.atom "setchildren-nonlist", p] => do pure (.setChildrenNonList (← p.nat?))
  | [.atom "replace-nonnode", x] => do pure (.replaceWithNonNode (← x.nat?))
  | [.atom "replace-badflag", x, y] => do pure (.replaceWithBadFlag (← x.nat?) (← y.nat?))
  | _ => none

def showOutcome : Outcome → String
  | .ok => "ok" | .generationError => "GenerationError" | .indexError => "IndexError"
  | .valueError => "ValueError" | .typeError => "TypeError" | .notImplemented => "NotImplementedError"

def showHeap (n : Nat) (h : Heap) : String :=
  showList (fun i =>
    "(" ++ (match h.parent i with | none => "-1" | some p => toString p) ++ " " ++
      (if h.ctor i then "1" else "0") ++ " " ++ showList toString (h.children i) ++ ")")
    (List.range n)

def parseListOp (s : Sexp) : Option ListOp :=
  match s.items with
  | [.atom "append", x] => do pure (.append (← x.nat?))
  | [.atom "insert", i, x] => do pure (.insert (← i.int?) (← x.nat?))
  | [.atom "extend", xs] => pure (.extend xs.natList)
  | [.atom "iadd", xs] => pure (.iadd xs.natList)
  | [.atom "setitem", i, x] => do pure (.setitem (← i.int?) (← x.nat?))
  | [.atom "delitem", i] => do pure (.delitem (← i.int?))
  | [.atom "pop", i] => do pure (.pop (← i.int?))
  | [.atom "remove", x] => do pure (.remove (← x.nat?))
  | [.atom "reverse"] => pure .reverse
  | [.atom "clear"] => pure .clear
  | [.atom "sort"] => pure .sort
  | [.atom "imul"] => pure .imul
  | [.atom "setslice"] => pure .setslice
  | [.atom "delslice"] => pure .delslice
  | _ => none

def parseName (n l : Sexp) : Option (Option ArgName) := do
  let i ← n.int?
  if i < 0 then pure none else pure (some ⟨i.toNat, (← l.nat?) != 0⟩)

inductive DOp where
  | h (o : HOp)      -- node operations that do not look at names, and handle operations
  | c (o : COp)      -- operations involving `_argument_names`

def parseDOp (s : Sexp) : Option DOp :=
  match s.items with
  | [.atom "via", k, l] => do pure (.h (.via (← k.nat?) (← parseListOp l)))
  | [.atom "take", p] => do pure (.h (.take (← p.nat?)))
  | [.atom "replace", x, y] => do pure (.c (.replaceWith (← x.nat?) (← y.nat?) true))
  | [.atom "replace", x, y, k] => do pure (.c (.replaceWith (← x.nat?) (← y.nat?) ((← k.nat?) != 0)))
  | [.atom "appendnamed", p, x] => do pure (.c (.appendNamed (← p.nat?) none (← x.nat?)))
  | [.atom "appendnamed", p, x, n, l] => do pure (.c (.appendNamed (← p.nat?) (← parseName n l) (← x.nat?)))
  | [.atom "insertnamed", p, i, x] => do pure (.c (.insertNamed (← p.nat?) none (← i.int?) (← x.nat?)))
  | [.atom "insertnamed", p, i, x, n, l] =>
    do pure (.c (.insertNamed (← p.nat?) (← parseName n l) (← i.int?) (← x.nat?)))
  | [.atom "replacenamed", p, n, l, y] => do
    match ← parseName n l with
    | none => none
    | some nm => pure (.c (.replaceNamed (← p.nat?) nm (← y.nat?)))
  | [.atom "argnames", p] => do pure (.c (.argumentNames (← p.nat?)))
  | _ => (parseOp s).map fun o => .c (.plain o)

def mkNames (nodes : List Sexp) : Id → List Entry :=
  let arr := (nodes.map fun n =>
    match n.items with
    | [_, _, _, _, nm] => nm.items.filterMap fun e =>
        match e.items with
        | [a, n, l] => do
          let a ← a.nat?
          let i ← n.int?
          pure (a, if i < 0 then none else some ⟨i.toNat, (l.nat?.getD 0) != 0⟩)
        | _ => none
    | _ => []).toArray
  fun i => arr.getD i []

def showNames (n : Nat) (t : Id → List Entry) : String :=
  showList (fun i => showList (fun (e : Entry) =>
      "(" ++ toString e.1 ++ " " ++ (match e.2 with
        | none => "-1 0"
        | some m => toString m.id ++ " " ++ (if m.lower then "1" else "0")) ++ ")") (t i))
    (List.range n)

/-- input `((node ...) (op ...))`, node = `(kind parent ctor (children) ((arg name lower)...))`;
output one `(outcome heap names)` per operation.  The history runs on the named-argument model
`cstep`; ChildrenList methods through handles (`via`) run on the handle model `hstep`, with one
handle per node taken at the start (handle k = node k's list).
`(stale (node ...) p (xs ...) (method args))`: `lst = p.children; p.children = xs; lst.method(args)`
on the PINNED setter model; output `(outcome1 outcome2 heap (stale items))`. -/
def handle (s : Sexp) : String :=
  match s.items with
  | [.atom "stale", nodes, p, xs, l] =>
    let h0 := mkHeap nodes.items
    let n := nodes.items.length
    match parseListOp l with
    | none => "bad-op"
    | some lop =>
      let r1 := hstepPinned Gen.kinds ⟨h0, []⟩ (.cur (.setChildren (p.nat?.getD 0) xs.natList))
      let r2 := hstepPinned Gen.kinds r1.1 (.viaStale 0 lop)
      "(" ++ showOutcome r1.2 ++ " " ++ showOutcome r2.2 ++ " " ++ showHeap n r2.1.heap ++ " " ++
        showList toString ((r2.1.stale.head?.map (·.items)).getD []) ++ ")"
  | [nodes, ops] =>
    let n := nodes.items.length
    let handles := List.range n
    let rec go (st : CState) (os : List Sexp) (acc : List String) : List String :=
      match os with
      | [] => acc.reverse
      | o :: rest =>
        match parseDOp o with
        | none => ("bad-op" :: acc).reverse
        | some op =>
          let r : CState × Outcome := match op with
            | .c co => cstep Gen.kinds st co
            | .h ho => let r := hstep Gen.kinds ⟨st.heap, handles⟩ ho; ({ st with heap := r.1.heap }, r.2)
          go r.1 rest (("(" ++ showOutcome r.2 ++ " " ++ showHeap n r.1.heap ++ " " ++
            showNames n r.1.names ++ ")") :: acc)
    "(" ++ " ".intercalate (go ⟨mkHeap nodes.items, mkNames nodes.items⟩ ops.items []) ++ ")"
  | _ => "bad-line"

def main : IO Unit := run handle
