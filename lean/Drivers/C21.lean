import PsyVerif.Model.Proto
import PsyVerif.Model.ArgOrder
import PsyVerif.Model.ArgOrderDoc
import PsyVerif.Gen.ArgOrder
open Proto C21

/-! input  `(md <operates_on> (<arg>…) ((fs basis diff diffFirst)…) (<shape>…) (<target fs>…) (<refprop>…) (<meshprop>…) <bc>)`
    with `<arg>` = `(f dt vec acc fs stencil mesh)` | `(o acc to from)` | `(c acc to from)` | `(s dt acc)`, all codes numeric;
    output `call=<refusal>|atom:ty:kind:rank,…;pinned=|…;stub=<refusal>|atom:ty:kind:rank:intent,…;doc=<scope>|atom,…` -/

def nth {α} (xs : List α) (i : Nat) (d : α) : α := (xs[i]?).getD d

def dtOf (n : Nat) : DType := nth [.real, .integer, .logical] n .real
def accOf (n : Nat) : Access := nth [.read, .write, .readwrite, .inc, .readinc, .sum] n .read
def stOf (n : Nat) : Stencil := nth [.none, .x1d, .y1d, .xory1d, .cross, .region, .cross2d] n .none
def meshOf (n : Nat) : MeshArg := nth [.none, .coarse, .fine] n .none
def shapeOf (n : Nat) : Shape := nth [.xyoz, .face, .edge, .evaluator] n .xyoz
def opOnOf (n : Nat) : OpOn := nth [.cellColumn, .domain, .dof] n .cellColumn
def refOf (n : Nat) : RefProp := nth [.normalsH, .normalsV, .normalsF, .outH, .outV, .outF] n .normalsH
def bcOf (n : Nat) : Bc := nth [.none, .field, .operator] n .none

def argOf (s : Sexp) : Option Arg :=
  match s.items with
  | .atom "f" :: rest =>
    match rest.filterMap Sexp.nat? with
    | [dt, vec, acc, fs, st, m] => some (.field (dtOf dt) vec (accOf acc) fs (stOf st) (meshOf m))
    | _ => none
  | .atom "o" :: rest =>
    match rest.filterMap Sexp.nat? with
    | [acc, t, f] => some (.op (accOf acc) t f)
    | _ => none
  | .atom "c" :: rest =>
    match rest.filterMap Sexp.nat? with
    | [acc, t, f] => some (.cma (accOf acc) t f)
    | _ => none
  | .atom "s" :: rest =>
    match rest.filterMap Sexp.nat? with
    | [dt, acc] => some (.scalar (dtOf dt) (accOf acc))
    | _ => none
  | _ => none

def funcOf (s : Sexp) : Option Func :=
  match s.natList with
  | [fs, b, d, df] => some { fs := fs, basis := b != 0, diff := d != 0, diffFirst := df != 0 }
  | _ => none

def listOf (s : Sexp) : List Sexp := match s with | .list xs => xs | _ => []

def mdOf (s : Sexp) : Option Metadata :=
  match s with
  | .list [.atom "md", oo, args, funcs, shapes, targets, refs, meshes, bc] =>
    some { operatesOn := opOnOf (oo.nat?.getD 0)
           args := (listOf args).filterMap argOf
           funcs := (listOf funcs).filterMap funcOf
           shapes := ((listOf shapes).filterMap Sexp.nat?).map shapeOf
           targets := (listOf targets).filterMap Sexp.nat?
           refelem := ((listOf refs).filterMap Sexp.nat?).map refOf
           mesh := ((listOf meshes).filterMap Sexp.nat?).map fun _ => MeshProp.adjacentFace
           bc := bcOf (bc.nat?.getD 0) }
  | _ => none

def dtName : DType → String | .real => "real" | .integer => "integer" | .logical => "logical"
def accName : Access → String
  | .read => "read" | .write => "write" | .readwrite => "readwrite" | .inc => "inc"
  | .readinc => "readinc" | .sum => "sum"
def parName : CmaPar → String
  | .nrow => "nrow" | .ncol => "ncol" | .bandwidth => "bandwidth" | .alpha => "alpha" | .beta => "beta"
  | .gammaM => "gammaM" | .gammaP => "gammaP"
def refName : RefProp → String
  | .normalsH => "normalsH" | .normalsV => "normalsV" | .normalsF => "normalsF"
  | .outH => "outH" | .outV => "outV" | .outF => "outF"

def atomName : Atom → String
  | .cell => "cell" | .nlayers => "nlayers" | .ncell2dNoHalos => "ncell2dNoHalos" | .ncell2d => "ncell2d"
  | .cellMap => "cellMap" | .ncpcX => "ncpcX" | .ncpcY => "ncpcY" | .ncellF => "ncellF"
  | .fieldData dt a => s!"fieldData.{dtName dt}.{accName a}"
  | .stencilSize => "stencilSize" | .stencilSize2d => "stencilSize2d" | .maxBranch => "maxBranch"
  | .direction => "direction" | .stencilMap => "stencilMap" | .stencilMap2d => "stencilMap2d"
  | .opNcell3d => "opNcell3d" | .opData a => s!"opData.{accName a}" | .opProxy => "opProxy"
  | .cmaMatrix a => s!"cmaMatrix.{accName a}" | .cmaParam p => s!"cmaParam.{parName p}"
  | .scalar dt a => s!"scalar.{dtName dt}.{accName a}"
  | .ndf => "ndf" | .undf => "undf" | .dofmap => "dofmap" | .dofmapWhole => "dofmapWhole"
  | .bandedMap => "bandedMap" | .indirectionMap => "indirectionMap"
  | .basisQuad => "basisQuad" | .basisEval => "basisEval" | .diffBasisQuad => "diffBasisQuad"
  | .diffBasisEval => "diffBasisEval" | .boundaryDofs => "boundaryDofs"
  | .nfacesRe .h => "nfacesRe.h" | .nfacesRe .v => "nfacesRe.v" | .nfacesRe .all => "nfacesRe.all"
  | .refArray p => s!"refArray.{refName p}"
  | .adjacentFace => "adjacentFace"
  | .npXy => "npXy" | .npZ => "npZ" | .weightsXy => "weightsXy" | .weightsZ => "weightsZ"
  | .nfacesQr => "nfacesQr" | .nedgesQr => "nedgesQr" | .npXyz => "npXyz" | .weightsXyz => "weightsXyz"

def tyName : Ty → String | .integer => "integer" | .real => "real" | .logical => "logical" | .other => "other"
def kindName : Kind → String
  | .i_def => "i_def" | .r_def => "r_def" | .l_def => "l_def" | .r_solver => "r_solver" | .other => "other"
def intentName : Intent → String | .in_ => "in" | .inout => "inout" | .out => "out" | .none => ""
def sigName : Option Sig → String
  | some s => s!"{tyName s.ty}:{kindName s.kind}:{s.rank}"
  | none => "unobserved:-:0"

def refusalName : Option Refusal → String
  | none => "" | some .opBcArgCount => "opBcArgCount" | some .opBcNotOperator => "opBcNotOperator"
  | some .opBcAccess => "opBcAccess" | some .fieldBcNotField => "fieldBcNotField"
  | some .fieldBcNoAnySpace1 => "fieldBcNoAnySpace1"
def stubRefusalName : Option StubRefusal → String
  | none => "" | some .notCellColumn => "notCellColumn" | some .intergrid => "intergrid"
  | some .basisOnAnySpace => "basisOnAnySpace" | some (.generate r) => refusalName (some r)

def secName : DocSection → String
  | .general => "general" | .cmaAssembly => "cmaAssembly" | .cmaApply => "cmaApply"
  | .cmaMatrixMatrix => "cmaMatrixMatrix" | .interGrid => "interGrid" | .domain => "domain"

def handle (s : Sexp) : String :=
  match mdOf s with
  | none => "bad-metadata"
  | some md =>
    let callS (xs : List Atom) := ",".intercalate (xs.map fun a => s!"{atomName a}:{sigName (Gen.callSig a)}")
    let stubS (xs : List Atom) :=
      ",".intercalate (xs.map fun a => s!"{atomName a}:{sigName (Gen.stubSig a)}:{intentName (Gen.stubIntent a)}")
    let docS := match docSection md with
      | some sec => secName sec ++ "|" ++ ",".intercalate ((docOrderOf md sec).map atomName)
      | none => "out-of-scope|"
    s!"call={refusalName (callRefusal md)}|{callS (callArgs md)};pinned=|{callS (callArgsPinned md)};" ++
    s!"stub={stubRefusalName (stubRefusal md)}|{stubS (stubArgs md)};doc={docS};" ++
    s!"acc={if accRefuses md then "multipleCoarseArgs" else ""}|{",".intercalate ((accArgs md).map atomName)}"

def main : IO Unit := run handle
