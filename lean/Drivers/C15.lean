import PsyVerif.Model.Proto
import PsyVerif.Model.Copy
import PsyVerif.Model.CopyCase
open Proto C15

/-! Driver of the C15 model.  One line =
`(mode (nsym nnode nif) (sym ...) (access ...) (tree ...) r (edit ...) (lower ...))` with
`lower` = for every name id the id of its lower-cased spelling (`SymbolTable._normalize`; optional,
identity when absent); in the mode `deployed` the copy is computed BY NAME (`C15.copyL`: dict reads
with normalised names, as the code does), in the other modes positionally (`C15.copy`); a fifth
answer item says whether all tables of the copied subtree have distinct keys (`tablesKeyedB`);
`sym = (name (link ...) (tree ...) (tree ...) iface fresh)` (direct links, expression forest of the
datatype, expression forest of the initial value), `tree = (id kind sym tsym table (child ...))`,
`sym`/`tsym` = `-1` for None, `table` = `-` or a list of symbol ids; `mode` = `deployed`, `pinned`
(no repair) or `dtonly` (datatype repair only).  The answer is the world after `copy r` and the
world after the edits, each dumped in the same format, followed by two flags: view of the copy =
view of the original subtree at copy time, views of the original trees kept. -/

def optOf (s : Sexp) : Option Nat :=
  match s.int? with
  | some i => if i < 0 then none else some i.toNat
  | none => none

instance : Inhabited Forest := ⟨.nil⟩

partial def mkForest : List Sexp → Forest
  | [] => .nil
  | t :: rest =>
    match t.items with
    | [i, k, s, ts, tab, kids] =>
      let table : Option (List Nat) := match tab with
        | .atom _ => none
        | .list xs => some (xs.filterMap Sexp.nat?)
      .cons ⟨i.nat?.getD 0, k.nat?.getD 0, optOf s, optOf ts, table, none⟩ (mkForest kids.items) (mkForest rest)
    | _ => mkForest rest

def forestOf (s : Sexp) : Forest :=
  match s with
  | .list xs => mkForest xs
  | _ => .nil

structure SymRec where
  name : Nat := 0
  links : List Nat := []
  bounds : Forest := .nil
  init : Forest := .nil
  iface : Nat := 0
  fresh : Bool := false

def mkWorld (hdr syms acc trees : Sexp) : World :=
  let recs : Array SymRec := (syms.items.map fun s =>
    match s.items with
    | [n, l, b, i, f, fr] =>
      { name := n.nat?.getD 0, links := l.natList, bounds := forestOf b, init := forestOf i,
        iface := f.nat?.getD 0, fresh := fr.nat?.getD 0 != 0 }
    | _ => {}).toArray
  let accs : Array Nat := acc.natList.toArray
  let (ns, nn, ni) := match hdr.items with
    | [a, b, c] => (a.nat?.getD 0, b.nat?.getD 0, c.nat?.getD 0)
    | _ => (0, 0, 0)
  { name := fun i => (recs.getD i {}).name
    links := fun i => (recs.getD i {}).links
    bounds := fun i => (recs.getD i {}).bounds
    init := fun i => (recs.getD i {}).init
    iface := fun i => (recs.getD i {}).iface
    freshIface := fun i => (recs.getD i {}).fresh
    access := fun i => accs.getD i 0
    attrVal := fun _ => 0
    nsym := ns, nnode := nn, nif := ni
    trees := trees.items.map fun t => mkForest [t] }

def parseEdit (s : Sexp) : Option Edit :=
  match s.items with
  | [.atom "rename", p, a, n] => do pure (.rename (← p.nat?) (← a.nat?) (← n.nat?))
  | [.atom "setdecl", a, l, b, i] => do pure (.setDecl (← a.nat?) l.natList (forestOf b) (forestOf i))
  | [.atom "addsym", p, n, l, b, i, f] =>
    do pure (.addSym (← p.nat?) (← n.nat?) l.natList (forestOf b) (forestOf i) ((← f.nat?) != 0))
  | [.atom "setaccess", i, v] => do pure (.setAccess (← i.nat?) (← v.nat?))
  | [.atom "setiface", a, v] => do pure (.setIface (← a.nat?) (← v.nat?))
  | [.atom "setfresh", a, b] => do pure (.setFresh (← a.nat?) ((← b.nat?) != 0))
  | [.atom "removesym", p, a] => do pure (.removeSym (← p.nat?) (← a.nat?))
  | [.atom "setsym", p, a] => do pure (.setSym (← p.nat?) (optOf a))
  | [.atom "settsym", p, a] => do pure (.setTSym (← p.nat?) (optOf a))
  | [.atom "detach", x] => do pure (.detach (← x.nat?))
  | [.atom "attach", p, i, x] => do pure (.attach (← p.nat?) (← i.nat?) (← x.nat?))
  | _ => none

def showOpt : Option Nat → String
  | none => "-1"
  | some x => toString x

partial def showForest : Forest → List String
  | .nil => []
  | .cons n k r =>
    ("(" ++ toString n.id ++ " " ++ toString n.kind ++ " " ++ showOpt n.sym ++ " " ++ showOpt n.tsym ++ " " ++
      (match n.table with | none => "-" | some l => showList toString l) ++ " (" ++
      " ".intercalate (showForest k) ++ "))") :: showForest r

def showF (f : Forest) : String := "(" ++ " ".intercalate (showForest f) ++ ")"

@[noinline] def showWorld (W : World) : String :=
  "((" ++ toString W.nsym ++ " " ++ toString W.nnode ++ " " ++ toString W.nif ++ ") " ++
    showList (fun s => "(" ++ toString (W.name s) ++ " " ++ showList toString (W.links s) ++ " " ++
      showF (W.bounds s) ++ " " ++ showF (W.init s) ++ " " ++
      toString (W.iface s) ++ " " ++ (if W.freshIface s then "1" else "0") ++ ")") (List.range W.nsym) ++ " " ++
    showList (fun i => toString (W.access i)) (List.range W.nif) ++
    " (" ++ " ".intercalate (W.trees.flatMap showForest) ++ "))"

/-- freeze the symbol store into arrays so that later queries do not re-run closures -/
@[noinline] def freeze (W : World) : World :=
  let recs : Array SymRec := ((List.range W.nsym).map fun s =>
    ({ name := W.name s, links := W.links s, bounds := W.bounds s, init := W.init s,
       iface := W.iface s, fresh := W.freshIface s } : SymRec)).toArray
  let acc := ((List.range W.nif).map W.access).toArray
  { W with name := fun i => (recs.getD i {}).name, links := fun i => (recs.getD i {}).links,
           bounds := fun i => (recs.getD i {}).bounds, init := fun i => (recs.getD i {}).init,
           iface := fun i => (recs.getD i {}).iface, freshIface := fun i => (recs.getD i {}).fresh,
           access := fun i => acc.getD i 0 }

def handleLine (mode hdr syms acc trees r edits : Sexp) (low : Option Sexp) : String :=
    let m : Mode := match mode with
      | .atom "pinned" => ⟨false, false⟩
      | .atom "dtonly" => ⟨true, false⟩
      | _ => deployed
    let byName : Bool := match mode with
      | .atom "pinned" => false
      | .atom "dtonly" => false
      | .atom "positional" => false
      | _ => true
    let lowTab : Array Nat := match low with
      | some l => l.natList.toArray
      | none => #[]
    let lower : Nat → Nat := fun i => if i < lowTab.size then lowTab.getD i i else i
    let W := mkWorld hdr syms acc trees
    let root := r.nat?.getD 0
    let W1 := freeze (if byName then copyL lower true W root else copy m W root)
    let C := if byName then copyTreeL lower W root else copyTree m W root
    let keyed := tablesKeyedB lower W (findIn root W.trees)
    match edits.items.mapM parseEdit with
    | none => "bad-edit"
    | some es =>
      let W2 := freeze (run W1 es)
      let copyKept := decide (view W2 C = view W (findIn root W.trees)) && W2.trees.contains C
      let origKept := W.trees.all fun t => decide (view W2 t = view W t) && W2.trees.contains t
      "(" ++ showWorld W1 ++ " " ++ showWorld W2 ++ " " ++ (if copyKept then "1" else "0") ++ " " ++
        (if origKept then "1" else "0") ++ " " ++ (if keyed then "1" else "0") ++ ")"

def handle (s : Sexp) : String :=
  match s.items with
  | [mode, hdr, syms, acc, trees, r, edits] => handleLine mode hdr syms acc trees r edits none
  | [mode, hdr, syms, acc, trees, r, edits, low] => handleLine mode hdr syms acc trees r edits (some low)
  | _ => "bad-line"

def main : IO Unit := run handle
