import PsyVerif.Model.Proto
import PsyVerif.Model.Copy
open Proto C15

/-! Driver of the C15 model.  One line =
`(mode (nsym nnode nif) ((name (dep ...) iface fresh) ...) (access ...) (tree ...) r (edit ...))` with
`tree = (id kind sym tsym table (child ...))`, `sym`/`tsym` = `-1` for None, `table` = `-` or a list
of symbol ids; `mode` = `deployed`, `fixed` or `pinned`.  The answer is the world after
`copy r` and the world after the edits, each dumped as
`((nsym nnode nif) ((name (dep ...) iface fresh) ...) (access ...) (tree ...))`, followed by two flags:
view of the copy = view of the original subtree at copy time, views of the original trees kept. -/

def optOf (s : Sexp) : Option Nat :=
  match s.int? with
  | some i => if i < 0 then none else some i.toNat
  | none => none

instance : Inhabited Forest := ⟨.nil⟩

partial def mkForest : List Sexp → Forest
  | [] => .nil
  | t :: rest =>
    match t.items with
    | [i, k, s, ts, tab, kids] =>
      let table : Option (List Nat) := match tab with
        | .atom _ => none
        | .list xs => some (xs.filterMap Sexp.nat?)
      .cons ⟨i.nat?.getD 0, k.nat?.getD 0, optOf s, optOf ts, table⟩ (mkForest kids.items) (mkForest rest)
    | _ => mkForest rest

def mkWorld (hdr syms acc trees : Sexp) : World :=
  let recs : Array (Nat × List Nat × Nat × Bool) := (syms.items.map fun s =>
    match s.items with
    | [n, d, i, f] => (n.nat?.getD 0, d.natList, i.nat?.getD 0, f.nat?.getD 0 != 0)
    | _ => (0, [], 0, false)).toArray
  let accs : Array Nat := acc.natList.toArray
  let (ns, nn, ni) := match hdr.items with
    | [a, b, c] => (a.nat?.getD 0, b.nat?.getD 0, c.nat?.getD 0)
    | _ => (0, 0, 0)
  { name := fun i => (recs.getD i (0, [], 0, false)).1
    deps := fun i => (recs.getD i (0, [], 0, false)).2.1
    iface := fun i => (recs.getD i (0, [], 0, false)).2.2.1
    freshIface := fun i => (recs.getD i (0, [], 0, false)).2.2.2
    access := fun i => accs.getD i 0
    nsym := ns, nnode := nn, nif := ni
    trees := trees.items.map fun t => mkForest [t] }

def parseEdit (s : Sexp) : Option Edit :=
  match s.items with
  | [.atom "rename", p, a, n] => do pure (.rename (← p.nat?) (← a.nat?) (← n.nat?))
  | [.atom "setdeps", a, ds] => do pure (.setDeps (← a.nat?) ds.natList)
  | [.atom "addsym", p, n, ds, f] => do pure (.addSym (← p.nat?) (← n.nat?) ds.natList ((← f.nat?) != 0))
  | [.atom "setaccess", i, v] => do pure (.setAccess (← i.nat?) (← v.nat?))
  | [.atom "removesym", p, a] => do pure (.removeSym (← p.nat?) (← a.nat?))
  | [.atom "setsym", p, a] => do pure (.setSym (← p.nat?) (optOf a))
  | [.atom "settsym", p, a] => do pure (.setTSym (← p.nat?) (optOf a))
  | [.atom "detach", x] => do pure (.detach (← x.nat?))
  | [.atom "attach", p, i, x] => do pure (.attach (← p.nat?) (← i.nat?) (← x.nat?))
  | _ => none

def showOpt : Option Nat → String
  | none => "-1"
  | some x => toString x

partial def showForest : Forest → List String
  | .nil => []
  | .cons n k r =>
    ("(" ++ toString n.id ++ " " ++ toString n.kind ++ " " ++ showOpt n.sym ++ " " ++ showOpt n.tsym ++ " " ++
      (match n.table with | none => "-" | some l => showList toString l) ++ " (" ++
      " ".intercalate (showForest k) ++ "))") :: showForest r

@[noinline] def showWorld (W : World) : String :=
  "((" ++ toString W.nsym ++ " " ++ toString W.nnode ++ " " ++ toString W.nif ++ ") " ++
    showList (fun s => "(" ++ toString (W.name s) ++ " " ++ showList toString (W.deps s) ++ " " ++
      toString (W.iface s) ++ " " ++ (if W.freshIface s then "1" else "0") ++ ")") (List.range W.nsym) ++ " " ++
    showList (fun i => toString (W.access i)) (List.range W.nif) ++
    " (" ++ " ".intercalate (W.trees.flatMap showForest) ++ "))"

/-- freeze the symbol store into arrays so that later queries do not re-run closures -/
@[noinline] def freeze (W : World) : World :=
  let names := ((List.range W.nsym).map W.name).toArray
  let deps := ((List.range W.nsym).map W.deps).toArray
  let ifs := ((List.range W.nsym).map W.iface).toArray
  let frs := ((List.range W.nsym).map W.freshIface).toArray
  let acc := ((List.range W.nif).map W.access).toArray
  { W with name := fun i => names.getD i 0, deps := fun i => deps.getD i [],
           iface := fun i => ifs.getD i 0, freshIface := fun i => frs.getD i false,
           access := fun i => acc.getD i 0 }

def handle (s : Sexp) : String :=
  match s.items with
  | [mode, hdr, syms, acc, trees, r, edits] =>
    let fx := match mode with
      | .atom "fixed" => true
      | .atom "pinned" => false
      | _ => deployed
    let W := mkWorld hdr syms acc trees
    let root := r.nat?.getD 0
    let W1 := freeze (copy fx W root)
    let C := copyTree fx W root
    match edits.items.mapM parseEdit with
    | none => "bad-edit"
    | some es =>
      let W2 := freeze (run W1 es)
      let copyKept := decide (view W2 C = view W (findIn root W.trees)) && W2.trees.contains C
      let origKept := W.trees.all fun t => decide (view W2 t = view W t) && W2.trees.contains t
      "(" ++ showWorld W1 ++ " " ++ showWorld W2 ++ " " ++ (if copyKept then "1" else "0") ++ " " ++
        (if origKept then "1" else "0") ++ ")"
  | _ => "bad-line"

def main : IO Unit := run handle
