import PsyVerif.Model.RegionDataIO
open Proto MiniF RegionData

def sortNat (l : List Nat) : List Nat := (l.toArray.qsort (· < ·)).toList
def showNats (l : List Nat) : String := showList toString (sortNat l)
def b01 (b : Bool) : String := if b then "1" else "0"
def showClauses (c : Clauses) : String := showNats c.cin ++ " " ++ showNats c.cout ++ " " ++ showNats c.cpy

@[noinline] def answer (σ : Store) (qs : List Loc) : String :=
  showList (fun l => toString (σ l)) qs

/-- contents of freshly allocated device memory: a different junk value in every cell -/
def junk (g : Int) : Store := ⟨fun l => g + 1009 * (l.1 : Int) + 13 * l.2.1 + 101 * l.2.2⟩

@[noinline] def runAcc (σ : Store) (c : Clauses) (region : RStmt) (g : Int) (qs : List Loc) : String :=
  "(" ++ answer (execACC driverFuel c region σ (junk g)) qs ++ " " ++ answer (rexec driverFuel region σ) qs ++ ")"

/-- `(clauses <stmt>)` → `((copyin) (copyout) (copy) FullyWrittenOrRead CopyoutNotRead CopyoutCovered covered)`;
`(trans <hasEnterData> ((<member> <parent>) ...) (<items>))` → `refuse` or the clause lists;
`(execacc <prefix> <region> (cin) (cout) (cpy) <g> (<queries>))` → host values after the data
region run with the GIVEN clause lists and device junk `g`, and after host execution. -/
def handle (s : Sexp) : String :=
  match s with
  | .list [.atom "clauses", p] =>
    match parseRStmt p with
    | none => "bad-stmt"
    | some st =>
      "(" ++ showClauses (clauses st) ++ " " ++ b01 (decide (FullyWrittenOrRead st)) ++ " "
        ++ b01 (copyoutNotRead st) ++ " " ++ b01 (decide (CopyoutCovered st)) ++ " " ++ b01 (covered st) ++ ")"
  | .list [.atom "trans", he, par, its] =>
    match its.items.mapM parseItem with
    | none => "bad-stmt"
    | some items =>
      let pairs : List (Nat × Nat) := par.items.filterMap fun q =>
        match q.natList with
        | [m, p] => some (m, p)
        | _ => none
      match accDataTransP (he.nat? == some 1) pairs items with
      | none => "refuse"
      | some c => "(" ++ showClauses c ++ ")"
  | .list [.atom "execacc", pre, reg, ci, co, cp, g, qs] =>
    match parseRStmt pre, parseRStmt reg, g.int? with
    | some pr, some rg, some gv =>
      runAcc (rexec driverFuel pr (storeOf [])) ⟨ci.natList, co.natList, cp.natList⟩ rg gv (qs.items.filterMap parseLoc)
    | _, _, _ => "bad-stmt"
  | _ => "bad-op"

def main : IO Unit := run handle
