import PsyVerif.Model.Proto
import PsyVerif.Model.MiniFIO
import PsyVerif.Model.Frontend
open Proto MiniF C01

/-! Driver of the C01 model.
`(cmp <env> <src> <lowered>)`: lower the source AST with the model and compare (modulo `seq`
association) with the exported PSyIR; answers `same g` or `diff g <model> <impl>` where `g`
is `good env src` (every WHERE refused or elemental).
`(lower <env> <src>)`: the lowered program. -/

def optInt (s : Sexp) : Option (Option Int) :=
  match s with
  | .atom "none" => some none
  | _ => s.int?.map some

def parseSec (lo hi st : Sexp) : Option Sec := do
  some ⟨← optInt lo, ← optInt hi, ← optInt st⟩

def redOf : String → Option Red
  | "sum" => some .sum | "maxval" => some .maxval | "minval" => some .minval | "product" => some .product
  | _ => none

partial def parseA : Sexp → Option AExpr
  | .list [.atom "scal", e] => (parseExpr e).map .scal
  | .list [.atom "sec", a, lo, hi, st] => do some (.sec (← a.nat?) (← parseSec lo hi st))
  | .list [.atom "sec2", a, lo, hi, st, lo2, hi2, st2] => do
    some (.sec2 (← a.nat?) (← parseSec lo hi st) (← parseSec lo2 hi2 st2))
  | .list [.atom "un", .atom op, e] => do some (.un (← unOpOf op) (← parseA e))
  | .list [.atom "bin", .atom op, a, b] => do some (.bin (← binOpOf op) (← parseA a) (← parseA b))
  | .list [.atom "sum", a] => a.nat?.map (.red .sum)
  | .list [.atom "sumdim", a] => a.nat?.map (.redDim .sum)
  | .list [.atom "red", .atom k, a] => do some (.red (← redOf k) (← a.nat?))
  | .list [.atom "reddim", .atom k, a] => do some (.redDim (← redOf k) (← a.nat?))
  | _ => none

def parseWA : Sexp → Option WAssign
  | .list [.atom "wa", a, .list [.atom "sec", lo, hi, st], rhs] => do
    some ⟨← a.nat?, ← parseSec lo hi st, ← parseA rhs, none⟩
  | .list [.atom "wa2", a, .list [.atom "sec", lo, hi, st], .list [.atom "sec", lo2, hi2, st2], rhs] => do
    some ⟨← a.nat?, ← parseSec lo hi st, ← parseA rhs, some (← parseSec lo2 hi2 st2)⟩
  | _ => none

partial def parseCl : Sexp → Option WClauses
  | .list [.atom "nil"] => some .nil
  | .list [.atom "masked", m, .list ws, rest] => do
    some (.masked (← parseA m) (← ws.mapM parseWA) (← parseCl rest))
  | .list [.atom "final", .list ws] => do some (.final (← ws.mapM parseWA))
  | _ => none

def parseCV : Sexp → Option CaseVal
  | .list [.atom "val", c] => c.int?.map .val
  | .list [.atom "range", lo, hi] => do some (.range (← optInt lo) (← optInt hi))
  | _ => none

partial def parseSrc : Sexp → Option Src
  | .list [.atom "skip"] => some .skip
  | .list (.atom "seqs" :: ss) => do some (Src.seqs (← ss.mapM parseSrc))
  | .list [.atom "assign", x, e] => do some (.assign (← x.nat?) (← parseExpr e))
  | .list [.atom "store1", a, i, e] => do some (.store1 (← a.nat?) (← parseExpr i) (← parseExpr e))
  | .list [.atom "store2", a, i, j, e] => do
    some (.store2 (← a.nat?) (← parseExpr i) (← parseExpr j) (← parseExpr e))
  | .list [.atom "ite", c, t, f] => do some (.ifc (← parseExpr c) (← parseSrc t) (← parseSrc f))
  | .list [.atom "loop", v, lo, hi, st, b] => do
    some (.doc (← v.nat?) (← parseExpr lo) (← parseExpr hi) (some (← parseExpr st)) (← parseSrc b))
  | .list [.atom "do", v, lo, hi, st, b] => do
    let st' ← match st with
      | .atom "none" => some none
      | e => (parseExpr e).map some
    some (.doc (← v.nat?) (← parseExpr lo) (← parseExpr hi) st' (← parseSrc b))
  | .list [.atom "select", lg, sel, ch] => do
    some (.selectCase ((← lg.nat?) != 0) (← parseExpr sel) (← parseSrc ch))
  | .list [.atom "case", .list vals, body, rest] => do
    some (.caseItem (← vals.mapM parseCV) (← parseSrc body) (← parseSrc rest))
  | .list [.atom "default", body, rest] => do some (.caseDefault (← parseSrc body) (← parseSrc rest))
  | .list [.atom "caseend"] => some .caseEnd
  | .list [.atom "where", tag, wv, cl] => do some (.whereC (← tag.nat?) (← wv.nat?) (← parseCl cl))
  | .list [.atom "arr", tag, a, .list [.atom "sec", lo, hi, st], rhs] => do
    some (.arrAssign (← tag.nat?) (← a.nat?) (← parseSec lo hi st) (← parseA rhs))
  | .list [.atom "cb", tag] => do some (.codeBlock (.whereC (← tag.nat?) 0 .nil))
  | .list [.atom "while", c, b] => do
    let c' ← match c with
      | .atom "none" => some none
      | e => (parseExpr e).map some
    some (.doWhile c' (← parseSrc b))
  | .list [.atom "named", tag, name, inner] => do some (.namedDo (← tag.nat?) (← name.nat?) (← parseSrc inner))
  | .list [.atom "namedif", name, inner] => do some (.namedIf (← name.nat?) (← parseSrc inner))
  | .list [.atom "jump", tag, kind, name] => do
    let n ← match name with
      | .atom "none" => some none
      | e => e.nat?.map some
    some (.jump (← tag.nat?) (← kind.nat?) n)
  | _ => none

def parseEnv (s : Sexp) : Env :=
  s.items.filterMap fun e =>
    match e with
    | .list [a, lo, hi, t] => do some (← a.nat?, ⟨← lo.int?, ← hi.int?, (← t.nat?) != 0, 0, 0⟩)
    | .list [a, lo, hi, t, lo2, hi2] => do
      some (← a.nat?, ⟨← lo.int?, ← hi.int?, (← t.nat?) != 0, ← lo2.int?, ← hi2.int?⟩)
    | _ => none

def showUn : UnOp → String
  | .neg => "neg" | .plus => "plus" | .not => "not" | .abs => "abs"

def showBin : BinOp → String
  | .add => "add" | .sub => "sub" | .mul => "mul" | .div => "div" | .pow => "pow" | .mod => "mod"
  | .min => "min" | .max => "max" | .sign => "sign" | .eq => "eq" | .ne => "ne" | .lt => "lt"
  | .le => "le" | .gt => "gt" | .ge => "ge" | .and => "and" | .or => "or" | .eqv => "eqv" | .neqv => "neqv"

def showE : Expr → String
  | .lit n => s!"(lit {n})"
  | .var x => s!"(var {x})"
  | .idx1 a i => s!"(idx1 {a} {showE i})"
  | .idx2 a i j => s!"(idx2 {a} {showE i} {showE j})"
  | .un op e => s!"(un {showUn op} {showE e})"
  | .bin op a b => s!"(bin {showBin op} {showE a} {showE b})"

def tagOf : Src → Nat
  | .whereC t _ _ => t
  | .arrAssign t _ _ _ => t
  | .namedDo t _ _ => t
  | .jump t _ _ => t
  | _ => 0

def showS : Src → String
  | .skip => "(skip)"
  | .seq a b => s!"(seq {showS a} {showS b})"
  | .assign x e => s!"(assign {x} {showE e})"
  | .store1 a i e => s!"(store1 {a} {showE i} {showE e})"
  | .store2 a i j e => s!"(store2 {a} {showE i} {showE j} {showE e})"
  | .ifc c t f => s!"(ite {showE c} {showS t} {showS f})"
  | .doc v lo hi (some st) b => s!"(loop {v} {showE lo} {showE hi} {showE st} {showS b})"
  | .doc v lo hi none b => s!"(loop {v} {showE lo} {showE hi} none {showS b})"
  | .codeBlock s => s!"(cb {tagOf s})"
  | .selectCase _ _ _ => "(select)"
  | .caseItem _ _ _ => "(case)"
  | .caseDefault _ _ => "(default)"
  | .caseEnd => "(caseend)"
  | .whereC t _ _ => s!"(where {t})"
  | .arrAssign t _ _ _ => s!"(arr {t})"
  | .doWhile (some c) b => s!"(while {showE c} {showS b})"
  | .doWhile none b => s!"(while none {showS b})"
  | .namedDo t _ _ => s!"(named {t})"
  | .namedIf _ _ => "(namedif)"
  | .jump t _ _ => s!"(jump {t})"

def b01 (b : Bool) : String := if b then "1" else "0"

def handle (s : Sexp) : String :=
  match s with
  | .list [.atom "cmp", env, src, impl] =>
    match parseSrc src, parseSrc impl with
    | some p, some q =>
      let e := parseEnv env
      let m := showS (norm (lower e p))
      let i := showS (norm q)
      let g := b01 (good e p && wf p false)
      if m == i then s!"same {g}" else s!"diff {g} {m} {i}"
    | none, _ => "bad-src"
    | _, none => "bad-impl"
  | .list [.atom "lower", env, src] =>
    match parseSrc src with
    | some p => showS (norm (lower (parseEnv env) p))
    | none => "bad-src"
  | _ => "bad-op"

def main : IO Unit := run handle
