import PsyVerif.Model.MiniFIO
import PsyVerif.Model.Inline
import PsyVerif.Model.InlineIdx
/-! Driver for C07.
`(inline <call>)` → `(ok <stmt> <legal> <wellscoped> <stable>)` | `(refuse <reason>)`
`(run <cstmt> (<bindings>) (<queries>))` → `((values after the program with CALLs, callee locals in `farFrame`) (values after inlineAll))`
call   ::= `(call (localNames) (outerNames) ((name rank lo1 lo2) ...) (locals) (statics) <stmt> (<actual> ...) [nReturns lastIsReturn])`
actual ::= `(var y)` `(elem1 a e)` `(elem2 a e e)` `(expr e)` `(sec1 a st u)` `(sec2 a st1 st2 u)` `(col a st1 j u)` `(row a i st2 u)`
`(idxmap (<aidx> ...) (lo ...) (<expr> ...))` → `(ok <expr> ...)` | `(none)`   (`updateIdx`: `_update_actual_indices` on an element reference)
`(assoc (<aidx> ...) (lo ...) (k ...) (<bindings>))` → `(ok n ...)` | `(none)`          (`assocElem`: Fortran's association rule)
`(checkidx frank (<aidx> ...))` → `(ok)` | `(refuse <reason>)`                           (`checkIdx`: the array-argument checks of validate)
aidx   ::= `(ix dlo e)` | `(sec dlo none step)` | `(sec dlo e step)`
cstmt  ::= `(base <stmt>)` | <call> | `(fcall <call> res <stmt>)` | `(cseq c ...)` | `(cite e c c)` | `(cloop v lo hi st c)` -/
open Proto MiniF C07

def unName : UnOp → String
  | .neg => "neg" | .plus => "plus" | .not => "not" | .abs => "abs"

def binName : BinOp → String
  | .add => "add" | .sub => "sub" | .mul => "mul" | .div => "div" | .pow => "pow" | .mod => "mod"
  | .min => "min" | .max => "max" | .sign => "sign" | .eq => "eq" | .ne => "ne" | .lt => "lt"
  | .le => "le" | .gt => "gt" | .ge => "ge" | .and => "and" | .or => "or" | .eqv => "eqv" | .neqv => "neqv"

def showExpr : Expr → String
  | .lit n => s!"(lit {n})"
  | .var x => s!"(var {x})"
  | .idx1 a i => s!"(idx1 {a} {showExpr i})"
  | .idx2 a i j => s!"(idx2 {a} {showExpr i} {showExpr j})"
  | .un op e => s!"(un {unName op} {showExpr e})"
  | .bin op a b => s!"(bin {binName op} {showExpr a} {showExpr b})"

def showStmt : Stmt → String
  | .skip => "(skip)"
  | .seq a b => s!"(seq {showStmt a} {showStmt b})"
  | .assign x e => s!"(assign {x} {showExpr e})"
  | .store1 a i e => s!"(store1 {a} {showExpr i} {showExpr e})"
  | .store2 a i j e => s!"(store2 {a} {showExpr i} {showExpr j} {showExpr e})"
  | .ite c t f => s!"(ite {showExpr c} {showStmt t} {showStmt f})"
  | .loop v lo hi st b => s!"(loop {v} {showExpr lo} {showExpr hi} {showExpr st} {showStmt b})"

def flag (s : Sexp) : Bool := s.nat? != some 0

def parseActual : Sexp → Option Actual
  | .list [.atom "var", y] => do some (.var (← y.nat?))
  | .list [.atom "elem1", a, i] => do some (.elem1 (← a.nat?) (← parseExpr i))
  | .list [.atom "elem2", a, i, j] => do some (.elem2 (← a.nat?) (← parseExpr i) (← parseExpr j))
  | .list [.atom "expr", e] => do some (.expr (← parseExpr e))
  | .list [.atom "sec1", a, st, u] => do some (.sec1 (← a.nat?) (← parseExpr st) (flag u))
  | .list [.atom "sec2", a, s1, s2, u] => do some (.sec2 (← a.nat?) (← parseExpr s1) (← parseExpr s2) (flag u))
  | .list [.atom "col", a, s1, j, u] => do some (.col (← a.nat?) (← parseExpr s1) (← parseExpr j) (flag u))
  | .list [.atom "row", a, i, s2, u] => do some (.row (← a.nat?) (← parseExpr i) (← parseExpr s2) (flag u))
  | _ => none

def parseAIdx : Sexp → Option AIdx
  | .list [.atom "ix", d, e] => do some (.ix (← d.int?) (← parseExpr e))
  | .list [.atom "sec", d, .atom "none", stp] => do some (.sec (← d.int?) none (← stp.int?))
  | .list [.atom "sec", d, e, stp] => do some (.sec (← d.int?) (some (← parseExpr e)) (← stp.int?))
  | _ => none

def parseParam : Sexp → Option Param
  | .list [n, r, l1, l2] => do some ⟨← n.nat?, ← r.nat?, ← l1.int?, ← l2.int?⟩
  | _ => none

def parseCall : Sexp → Option Call
  | .list [.atom "call", ln, on, ps, ls, ss, body, as] => do
    some { localNames := ln.natList, outerNames := on.natList, params := ← ps.items.mapM parseParam,
           locals := ls.natList, statics := ss.natList, body := ← parseStmt body,
           actuals := ← as.items.mapM parseActual }
  | .list [.atom "call", ln, on, ps, ls, ss, body, as, nret, lastret] => do
    some { localNames := ln.natList, outerNames := on.natList, params := ← ps.items.mapM parseParam,
           locals := ls.natList, statics := ss.natList, body := ← parseStmt body,
           actuals := ← as.items.mapM parseActual, nReturns := ← nret.nat?, lastIsReturn := flag lastret }
  | _ => none

def cseqs : List CStmt → CStmt
  | [] => .base .skip
  | [s] => s
  | s :: rest => .seq s (cseqs rest)

partial def parseC : Sexp → Option CStmt
  | .list [.atom "base", s] => do some (.base (← parseStmt s))
  | .list (.atom "call" :: r) => do some (.call (← parseCall (.list (.atom "call" :: r))))
  | .list [.atom "fcall", c, res, st] => do some (.fcall (← parseCall c) (← res.nat?) (← parseStmt st))
  | .list (.atom "cseq" :: ss) => do some (cseqs (← ss.mapM parseC))
  | .list [.atom "cite", c, t, f] => do some (.ite (← parseExpr c) (← parseC t) (← parseC f))
  | .list [.atom "cloop", v, lo, hi, st, b] => do
    some (.loop (← v.nat?) (← parseExpr lo) (← parseExpr hi) (← parseExpr st) (← parseC b))
  | _ => none

def refName : Refusal → String
  | .earlyReturn => "earlyReturn" | .static => "static" | .container => "container" | .nargs => "nargs" | .loopVarActual => "loopVarActual"
  | .arrayExpr => "arrayExpr" | .unknownType => "unknownType" | .rank => "rank" | .stride => "stride"

def b01 (b : Bool) : String := if b then "1" else "0"

@[noinline] def answer (σ τ : Store) (qs : List Loc) : String :=
  "(" ++ showList (fun l => toString (σ l)) qs ++ " " ++ showList (fun l => toString (τ l)) qs ++ ")"

def handle (s : Sexp) : String :=
  match s with
  | .list [.atom "inline", cs] =>
    match parseCall cs with
    | none => "bad-call"
    | some c =>
      match C07.inline c with
      | .error r => s!"(refuse {refName r})"
      | .ok st => s!"(ok {showStmt st} {b01 (decide (Legal c))} {b01 (decide (WellScoped c))} " ++
          s!"{b01 (decide (IndexStable c))})"
  | .list [.atom "inline", cs, res, st] =>
    -- function reference: `(inline <call> <result name> <statement using it>)`
    match parseCall cs, res.nat?, parseStmt st with
    | some c, some r, some use =>
      match C07.inline c with
      | .error e => s!"(refuse {refName e})"
      | .ok _ => s!"(ok {showStmt (inlineAll (.fcall c r use))} {b01 (decide (Legal c))} {b01 (decide (WellScoped c))} " ++
          s!"{b01 (decide (IndexStable c))})"
    | _, _, _ => "bad-call"
  | .list [.atom "run", p, init, qs] =>
    match parseC p with
    | none => "bad-prog"
    | some prog =>
      let σ := storeOf (parseBindings init)
      answer (execC farFrame prog σ) (exec (inlineAll prog) σ) (qs.items.filterMap parseLoc)
  | .list [.atom "idxmap", as, los, ks] =>
    match as.items.mapM parseAIdx, ks.items.mapM parseExpr with
    | some as, some ks =>
      match updateIdx as los.intList ks with
      | some out => "(ok " ++ " ".intercalate (out.map showExpr) ++ ")"
      | none => "(none)"
    | _, _ => "bad-idxmap"
  | .list [.atom "checkidx", frank, as] =>
    match as.items.mapM parseAIdx, frank.nat? with
    | some as, some fr =>
      match checkIdx fr as with
      | some r => s!"(refuse {refName r})"
      | none => "(ok)"
    | _, _ => "bad-checkidx"
  | .list [.atom "assoc", as, los, ks, init] =>
    match as.items.mapM parseAIdx with
    | some as =>
      match assocElem (storeOf (parseBindings init)) as los.intList ks.intList with
      | some out => "(ok " ++ " ".intercalate (out.map toString) ++ ")"
      | none => "(none)"
    | none => "bad-assoc"
  | _ => "bad-op"

def main : IO Unit := run handle
