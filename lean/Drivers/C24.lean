import PsyVerif.Model.Proto
import PsyVerif.Model.InvokeFile
open Proto

/-! input: one algorithm file `(decl decl ...)`, decl = `(label heads body internals)` with
label `(0)` none | `(1 l)` plain | `(2 l)` "invoke_"+l | `(3 i)` "invoke_<i>" | `(4 i k)` "invoke_<i>_<k>" | `(5 l)`;
heads `(h ...)`: 0 = built-in, n > 0 = user kernel with type-name id n;
body `((slot ...) ...)`, slot = `(role kind x y cls)`: role 0 data / 1 extent / 2 direction / 3 qr, kind 0 literal
(x = text id) / 1 variable (x = text id, y = root id) / 2 direction constant (x = id);
internals `((proxied text ids) ((root k proxyroot) ...) (space roots))`.
output: `refused` | `crashed` | `(inv ...)`, inv =
`(nameA nameB (actuals) (actualsB) ((root k) ...dummies) ((karg ...) ...) ((root k) ...clashes))`,
name = `(L l)` | `(I i)` | `(K i k)` | `(O l)`, karg = `(L v)` | `(S root k)` | `(D c)`. -/

def roleOf : Nat → C24.Role
  | 0 => .data
  | 1 => .extent
  | 2 => .direction
  | _ => .qr

def slotOf (s : Sexp) : Option C24.Slot :=
  match s.natList with
  | [r, 0, x, _, c] => some ⟨roleOf r, .lit x, c⟩
  | [r, 1, x, y, c] => some ⟨roleOf r, .var x y, c⟩
  | [r, 2, x, _, c] => some ⟨roleOf r, .dirconst x, c⟩
  | _ => none

def labelOf (s : Sexp) : Option C24.LabelForm :=
  match s.natList with
  | [1, l] => some (.plain l)
  | [2, l] => some (.pre l)
  | [3, i] => some (.preIdx i)
  | [4, i, k] => some (.preIdxKern i k)
  | [5, l] => some (.preDigits l)
  | _ => none

def internalsOf (s : Sexp) : C24.Internals :=
  match s.items with
  | [p, t, sp] =>
    { proxied := p.natList,
      proxyRoot := t.items.filterMap fun e => match e.natList with
        | [r, k, r'] => some ((r, k), r')
        | _ => none,
      spaceRoots := sp.natList }
  | _ => { proxied := [], proxyRoot := [], spaceRoots := [] }

def declOf (s : Sexp) : Option (C24.InvokeDecl × C24.Internals) :=
  match s.items with
  | [lab, heads, body, ints] =>
    some ({ label := labelOf lab,
            heads := heads.natList.map fun h => if h = 0 then none else some h,
            body := body.items.map fun k => k.items.filterMap slotOf }, internalsOf ints)
  | _ => none

def showName (n : C24.Name) : String := s!"({n.1} {n.2})"

def showRName : C24.RName → String
  | .lab l => s!"(L {l})"
  | .idx i => s!"(I {i})"
  | .idxKern i k => s!"(K {i} {k})"
  | .other l => s!"(O {l})"

def showKArg : C24.KArg → String
  | .lit v => s!"(L {v})"
  | .sym n => s!"(S {n.1} {n.2})"
  | .dirconst c => s!"(D {c})"

def showInvoke (idx : Nat) (d : C24.InvokeDecl) (I : C24.Internals) : String :=
  match C24.generate [] d.body with
  | .ok o =>
    let st := C24.tableOf [] d.body
    "(" ++ showRName (C24.routineName idx d) ++ " " ++ showRName (C24.routineNameB idx d) ++ " "
      ++ showList toString o.actuals ++ " " ++ showList toString (C24.actualsB d.body) ++ " "
      ++ showList showName o.dummies ++ " " ++ showList (showList showKArg) o.kcalls ++ " "
      ++ showList showName (C24.clashes st d.body I) ++ ")"
  | _ => "()"

def handle (s : Sexp) : String :=
  let ds := s.items.filterMap declOf
  match C24.genFile [] (ds.map Prod.fst) with
  | .refused => "refused"
  | .crashed => "crashed"
  | .ok _ =>
    let rec go (i : Nat) : List (C24.InvokeDecl × C24.Internals) → List String
      | [] => []
      | (d, I) :: rest => showInvoke i d I :: go (i + 1) rest
    "(" ++ " ".intercalate (go 0 ds) ++ ")"

def main : IO Unit := run handle
