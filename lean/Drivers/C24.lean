import PsyVerif.Model.Proto
import PsyVerif.Model.Invoke
open Proto

/-! input: one invoke `((slot ...) (slot ...) ...)`, one inner list per kernel call,
slot = `(role kind x y)` with role 0 data / 1 extent / 2 direction / 3 qr, kind 0 literal (x = text id) /
1 variable (x = text id, y = root id) / 2 direction constant (x = id).
output: `refused` or `((actual texts) ((root k) ...dummies) ((karg ...) ...))` with
karg = `(L v)` | `(S root k)` | `(D c)`. -/

def roleOf : Nat → C24.Role
  | 0 => .data
  | 1 => .extent
  | 2 => .direction
  | _ => .qr

def slotOf (s : Sexp) : Option C24.Slot :=
  match s.natList with
  | [r, 0, x, _] => some ⟨roleOf r, .lit x⟩
  | [r, 1, x, y] => some ⟨roleOf r, .var x y⟩
  | [r, 2, x, _] => some ⟨roleOf r, .dirconst x⟩
  | _ => none

def showName (n : C24.Name) : String := s!"({n.1} {n.2})"

def showKArg : C24.KArg → String
  | .lit v => s!"(L {v})"
  | .sym n => s!"(S {n.1} {n.2})"
  | .dirconst c => s!"(D {c})"

def handle (s : Sexp) : String :=
  let inv : C24.Invoke := s.items.map fun k => k.items.filterMap slotOf
  match C24.generate [] inv with
  | none => "refused"
  | some o =>
    "(" ++ showList toString o.actuals ++ " " ++ showList showName o.dummies ++ " "
      ++ showList (showList showKArg) o.kcalls ++ ")"

def main : IO Unit := run handle
