import PsyVerif.Model.Proto
import PsyVerif.Model.LineLenFixed
open Proto

/-! protocol (characters are code points):
`(proc L (c c …) (c …) …)`  → `(ok (c …) (c …) …)` | `(err internal)` | `(err fuel)`
`(logical (c …) (c …) …)`   → `((s c …) (c c …) (d k (c …) (c …)) …)`
`(safe L (c …) …)`        → 0/1 (side condition `SafeFile`)
`(procF …)`, `(safeF …)`, `(breakableF …)`: the same for the FIXED-mode model (`processF`, `SafeFileF`, `BreakableF`)
`(breakable L (c …) …)`   → 0/1 (every line satisfies `Breakable`)
`(type (c …))`              → line type number
`(long L (c …) …)`          → 0/1 -/

def showLine (l : List Nat) : String := showList toString l

def showItem : C18.Item → String
  | .stmt t => "(s " ++ " ".intercalate (t.map toString) ++ ")"
  | .comment t => "(c " ++ " ".intercalate (t.map toString) ++ ")"
  | .dir k toks => "(d " ++ toString k ++ " " ++ " ".intercalate (toks.map showLine) ++ ")"

def handle (s : Sexp) : String :=
  match s.items with
  | .atom "proc" :: l :: ls =>
    match C18.process (l.nat?.getD 0) (ls.map Sexp.natList) with
    | .ok out => "(ok " ++ " ".intercalate (out.map showLine) ++ ")"
    | .error .internal => "(err internal)"
    | .error .fuel => "(err fuel)"
  | .atom "procF" :: l :: ls =>
    match C18.processF (l.nat?.getD 0) (ls.map Sexp.natList) with
    | .ok out => "(ok " ++ " ".intercalate (out.map showLine) ++ ")"
    | .error .internal => "(err internal)"
    | .error .fuel => "(err fuel)"
  | .atom "safeF" :: l :: ls => if C18.SafeFileF (l.nat?.getD 0) C18.St.init (ls.map Sexp.natList) then "1" else "0"
  | .atom "breakableF" :: l :: ls => if (ls.map Sexp.natList).all (C18.BreakableF (l.nat?.getD 0)) then "1" else "0"
  | .atom "logical" :: ls => showList showItem (C18.logical (ls.map Sexp.natList))
  | .atom "safe" :: l :: ls => if C18.SafeFile (l.nat?.getD 0) C18.St.init (ls.map Sexp.natList) then "1" else "0"
  | .atom "breakable" :: l :: ls => if (ls.map Sexp.natList).all (C18.Breakable (l.nat?.getD 0)) then "1" else "0"
  | .atom "type" :: l :: _ => toString (C18.lineType l.natList)
  | .atom "long" :: l :: ls => if C18.longLines (l.nat?.getD 0) (ls.map Sexp.natList) then "1" else "0"
  | _ => "bad-request"

def main : IO Unit := run handle
