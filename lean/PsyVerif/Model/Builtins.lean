/-! C20: LFRic built-ins.  Expression AST shared by the *lowered code* of a built-in
(`LFRicBuiltIn.lower_to_language_level`, exported by `harness/props/c20_extract.py`) and by its
*documented formula* (the `::` block of its section in `doc/user_guide/dynamo0p3.rst`), an
evaluator over exact rationals, the semantics of the generated DoF loop
(`DO df = loop0_start, loop0_stop, 1` with the zero-initialisation of a reduction variable in front),
and the array-level meaning of the documentation formulas.  Core Lean only.

Arguments are identified by their 0-based position in the built-in's argument list.
Numeric domain: exact rationals (core `Rat`); integer-valued fields/scalars are the rationals with
denominator 1 (closed under every operation an integer built-in uses).  `definedAt` says where an
expression is inside the exactly-representable domain (no division by zero, `**` only with an
integer-valued exponent and not `0 ** negative`). -/
namespace C20

inductive Expr where
  | fld (i : Nat)               -- `f_i(df)`: element `df` of the field in argument position `i`
  | scal (i : Nat)              -- scalar in argument position `i`
  | lit (n : Int) (d : Nat)     -- literal `n/d`
  | add (a b : Expr)
  | sub (a b : Expr)
  | mul (a b : Expr)
  | div (a b : Expr)
  | pow (a b : Expr)
  | neg (a : Expr)
  | abs (a : Expr)
  | sign (a b : Expr)           -- Fortran SIGN(a, b): |a| with the sign of b
  | min (a b : Expr)
  | max (a b : Expr)
  | toInt (a : Expr)            -- INT(a): truncation towards zero
  | toReal (a : Expr)           -- REAL(a, kind): identity on the exact domain
  | mod (a b : Expr)            -- MOD(a, b) = a - INT(a/b)*b
  | unk (k : Nat)               -- construct the exporter does not understand (opaque value)
  deriving DecidableEq, Repr, Inhabited

/-- Values of the arguments of one built-in call, plus the oracle of `RANDOM_NUMBER`. -/
structure Env where
  fld : Nat → Nat → Rat         -- argument position → DoF index (1-based) → value
  scal : Nat → Rat
  rnd : Nat → Rat               -- the value RANDOM_NUMBER delivers for DoF `df`
  unk : Nat → Rat

def trunc (q : Rat) : Rat := ((q.num.tdiv (q.den : Int) : Int) : Rat)
def fabs (q : Rat) : Rat := if q < 0 then -q else q
def fsign (a b : Rat) : Rat := if b < 0 then -(fabs a) else fabs a
def fmin (a b : Rat) : Rat := if b < a then b else a
def fmax (a b : Rat) : Rat := if a < b then b else a
def fmod (a b : Rat) : Rat := a - trunc (a / b) * b
/-- `x ** y` for an integer-valued `y` (0 outside that domain, see `definedAt`). -/
def fpow (x y : Rat) : Rat :=
  if y.den = 1 then (if 0 ≤ y.num then x ^ y.num.toNat else (x ^ y.num.natAbs)⁻¹) else 0

def eval (env : Env) (df : Nat) : Expr → Rat
  | .fld i => env.fld i df
  | .scal i => env.scal i
  | .lit n d => (n : Rat) / (d : Rat)
  | .add a b => eval env df a + eval env df b
  | .sub a b => eval env df a - eval env df b
  | .mul a b => eval env df a * eval env df b
  | .div a b => eval env df a / eval env df b
  | .pow a b => fpow (eval env df a) (eval env df b)
  | .neg a => - eval env df a
  | .abs a => fabs (eval env df a)
  | .sign a b => fsign (eval env df a) (eval env df b)
  | .min a b => fmin (eval env df a) (eval env df b)
  | .max a b => fmax (eval env df a) (eval env df b)
  | .toInt a => trunc (eval env df a)
  | .toReal a => eval env df a
  | .mod a b => fmod (eval env df a) (eval env df b)
  | .unk k => env.unk k

/-- Inside the exactly-representable domain? -/
def definedAt (env : Env) (df : Nat) : Expr → Bool
  | .fld _ | .scal _ | .unk _ => true
  | .lit _ d => d != 0
  | .add a b | .sub a b | .mul a b | .sign a b | .min a b | .max a b =>
      definedAt env df a && definedAt env df b
  | .div a b | .mod a b => definedAt env df a && definedAt env df b && (eval env df b != 0)
  | .pow a b => definedAt env df a && definedAt env df b &&
      ((eval env df b).den == 1) && (decide (0 ≤ (eval env df b).num) || eval env df a != 0)
  | .neg a | .abs a | .toInt a | .toReal a => definedAt env df a

/-- Does the expression read scalar `t`? -/
def usesScal (t : Nat) : Expr → Bool
  | .scal i => i == t
  | .fld _ | .lit _ _ | .unk _ => false
  | .add a b | .sub a b | .mul a b | .div a b | .pow a b | .sign a b | .min a b | .max a b | .mod a b =>
      usesScal t a || usesScal t b
  | .neg a | .abs a | .toInt a | .toReal a => usesScal t a

/-- Syntactic criterion: the value is an integer whenever the arguments marked by `isInt` are
integer-valued (`INT(..)` always is; `/`, `**`, `MOD` and unknown constructs are not accepted). -/
def intValued (isInt : Nat → Bool) : Expr → Bool
  | .fld i | .scal i => isInt i
  | .lit _ d => d == 1
  | .add a b | .sub a b | .mul a b | .sign a b | .min a b | .max a b =>
      intValued isInt a && intValued isInt b
  | .neg a | .abs a | .toReal a => intValued isInt a
  | .toInt _ => true
  | .div _ _ | .pow _ _ | .mod _ _ | .unk _ => false

/-! ## The generated code: one statement inside a DoF loop -/

inductive Stmt where
  | fassign (t : Nat) (e : Expr)   -- `f_t(df) = e`
  | sassign (t : Nat) (e : Expr)   -- `s_t = e`
  | rand (t : Nat)                 -- `call random_number(f_t(df))`
  deriving DecidableEq, Repr, Inhabited

def setFld (env : Env) (t df : Nat) (v : Rat) : Env :=
  { env with fld := fun i d => if i = t ∧ d = df then v else env.fld i d }

def setScal (env : Env) (t : Nat) (v : Rat) : Env :=
  { env with scal := fun i => if i = t then v else env.scal i }

def exec (s : Stmt) (df : Nat) (env : Env) : Env :=
  match s with
  | .fassign t e => setFld env t df (eval env df e)
  | .sassign t e => setScal env t (eval env df e)
  | .rand t => setFld env t df (env.rnd df)

/-- `DO df = lo, lo+n-1` : `n` iterations in increasing order. -/
def loopN (body : Stmt) (lo : Nat) : Nat → Env → Env
  | 0, env => env
  | n+1, env => exec body (lo + n) (loopN body lo n env)

/-- The DoF indices the loop visits, in order. -/
def visits (lo : Nat) : Nat → List Nat
  | 0 => []
  | n+1 => visits lo n ++ [lo + n]

/-- Generated code of one built-in: statements in front of the loop (zero-initialisation of a
reduction variable), the loop's lower bound, its body.  The upper bound is a run-time value. -/
structure Code where
  init : List Stmt
  lo : Nat
  body : Stmt
  deriving DecidableEq, Repr, Inhabited

def execAll : List Stmt → Env → Env
  | [], env => env
  | s :: rest, env => execAll rest (exec s 0 env)

/-- Fortran `DO df = lo, ub, 1`: `max 0 (ub - lo + 1)` iterations. -/
def Code.run (c : Code) (ub : Nat) (env : Env) : Env :=
  loopN c.body c.lo (ub + 1 - c.lo) (execAll c.init env)

/-! ## Fused loops (LFRicLoopFuseTrans): several statements per DoF -/

def execList : List Stmt → Nat → Env → Env
  | [], _, env => env
  | s :: rest, df, env => execList rest df (exec s df env)

/-- `DO df = lo, lo+n-1` with a statement list as body. -/
def loopL (body : List Stmt) (lo : Nat) : Nat → Env → Env
  | 0, env => env
  | n+1, env => execList body (lo + n) (loopL body lo n env)

/-- One item of a generated invoke subroutine: a scalar initialisation or a DoF loop. -/
inductive Item where
  | init (s : Stmt)
  | loop (lo ub : Nat) (body : List Stmt)
  deriving Repr, Inhabited

def runProg : List Item → Env → Env
  | [], env => env
  | .init s :: rest, env => runProg rest (exec s 0 env)
  | .loop lo ub body :: rest, env => runProg rest (loopL body lo (ub + 1 - lo) env)

def Stmt.readsScal (t : Nat) : Stmt → Bool
  | .fassign _ e | .sassign _ e => usesScal t e
  | .rand _ => false

def Stmt.writesScal (t : Nat) : Stmt → Bool
  | .sassign u _ => u == t
  | _ => false

/-- Scalar independence of the bodies of two loops that are to be fused: a scalar written by one statement
(a reduction variable) is neither read nor written by the other.  Field dependences need no condition: a
statement at DoF `df` reads and writes element `df` only. -/
def scalIndep (s1 s2 : Stmt) : Prop :=
  ∀ t, (s1.writesScal t = true → s2.readsScal t = false ∧ s2.writesScal t = false)
     ∧ (s2.writesScal t = true → s1.readsScal t = false)

/-! ## The documentation formulas (Fortran array syntax over the DoFs `1..n`) -/

inductive Doc where
  | arrayAssign (t : Nat) (e : Expr)   -- `f_t(:) = e(:)`
  | sum (t : Nat) (e : Expr)           -- `s_t = SUM(e(:))`
  | randomFill (t : Nat)               -- `do df = 1, ndofs; f_t(df) = RAND(); end do`
  deriving DecidableEq, Repr, Inhabited

def dofs (n : Nat) : List Nat := List.range' 1 n

def sumOver (f : Nat → Rat) (l : List Nat) : Rat := (l.map f).sum

/-- Meaning of a documented formula applied to the DoFs `1..n`: every right-hand side is evaluated
on the values *before* the operation (array semantics). -/
def Doc.apply (d : Doc) (n : Nat) (env : Env) : Env :=
  match d with
  | .arrayAssign t e =>
      { env with fld := fun i df => if i = t ∧ 1 ≤ df ∧ df ≤ n then eval env df e else env.fld i df }
  | .sum t e =>
      { env with scal := fun i => if i = t then sumOver (fun df => eval env df e) (dofs n) else env.scal i }
  | .randomFill t =>
      { env with fld := fun i df => if i = t ∧ 1 ≤ df ∧ df ≤ n then env.rnd df else env.fld i df }

/-! ## Loop bounds and the DoF layout of a partition -/

inductive Bound where
  | undf | owned | annexed
  | halo (depth : Nat)
  | const (n : Nat)
  | other (k : Nat)
  deriving DecidableEq, Repr, Inhabited

/-- DoF numbering on one partition (developer guide, "dofs ... sequentially indexed ... starting at 1,
so that local dofs occur first, then annexed dofs, then halo dofs"): owned = `1..owned`,
annexed = `owned+1..annexed`, all = `1..undf`. -/
structure Layout where
  owned : Nat
  annexed : Nat
  undf : Nat
  halo : Nat → Nat

def Bound.value (L : Layout) : Bound → Nat
  | .undf => L.undf
  | .owned => L.owned
  | .annexed => L.annexed
  | .halo d => L.halo d
  | .const n => n
  | .other _ => 0

/-- The documented DoF range of a built-in loop: all DoFs without distributed memory; owned DoFs with
distributed memory; owned and annexed DoFs when COMPUTE_ANNEXED_DOFS is set — except for
reductions, which sum over owned DoFs only (the partial sums are then combined by a global sum). -/
def docBound (dm annexed reduction : Bool) : Bound :=
  if !dm then .undf else if annexed && !reduction then .annexed else .owned

/-- Argument metadata: kind (0 field / 1 scalar), data type (0 real / 1 integer),
access (0 read, 1 write, 2 readwrite, 3 sum, 9 other). -/
structure Arg where
  kind : Nat
  dtype : Nat
  access : Nat
  deriving DecidableEq, Repr, Inhabited

structure Builtin where
  id : Nat
  args : List Arg
  code : Code
  doc : Doc
  ub : List Bound          -- upper bound under (dm,annexed) = (F,F), (F,T), (T,F), (T,T)
  variants : List Code     -- the code generated under each of the four settings (`code` = the first)
  deriving Repr, Inhabited

def Builtin.isReduction (b : Builtin) : Bool := b.args.any (fun a => a.access == 3)

/-- position of the single argument that is written (write/readwrite/sum) -/
def Builtin.written (b : Builtin) : List Nat :=
  (List.range b.args.length).filter fun i => (b.args.getD i default).access ∈ [1, 2, 3]

def Builtin.isIntArg (b : Builtin) (i : Nat) : Bool := (b.args.getD i default).dtype == 1

def Doc.target : Doc → Nat
  | .arrayAssign t _ | .sum t _ | .randomFill t => t

def Stmt.target : Stmt → Nat
  | .fassign t _ | .sassign t _ | .rand t => t

def settingIdx (dm annexed : Bool) : Nat := (if dm then 2 else 0) + (if annexed then 1 else 0)

def Builtin.bound (b : Builtin) (dm annexed : Bool) : Bound := b.ub.getD (settingIdx dm annexed) (.other 0)

end C20
