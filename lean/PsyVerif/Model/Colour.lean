/-! # C23 model — LFRic schedules, colouring and OpenMP/OpenACC parallelisation

Abstract state: the statement-level tree of an LFRic `InvokeSchedule` in first-child /
next-sibling form (`Forest`), so that every function below is structurally recursive and
kernel-reducible.  Nodes are addressed by their pre-order index among statement nodes
(what `harness/props/c23_lfric.statement_nodes` enumerates on the real schedule).

The functions mirror (FIXED code, see fixes/C23-readinc.patch):
* `PSyLoop.has_inc_arg`                          → `hasInc`   (table `incAcc` comes from the live code)
* `Dynamo0p3ColourTrans.apply`                   → `colourG`
* `DynamoOMPParallelLoopTrans.validate/apply`    → `parLoopG .ompParallelDo`
* `Dynamo0p3OMPLoopTrans.validate/apply`         → `parLoopG .ompDo`
* `ACCLoopTrans` (`ParallelLoopTrans.validate`, `LFRicLoop.independent_iterations`) → `parLoopG .accLoop`
* `OMPParallelTrans`, `ACCParallelTrans`, `ACCKernelsTrans` (`RegionTrans.validate`) → `regionG`
* generation-time refusals `LFRicLoop.gen_code` / `LFRicKern.validate_global_constraints` → `genOK`
Core Lean only. -/
namespace C23

/-- kernel argument: (AccessType value, function-space id) -/
abbrev Arg := Nat × Nat

/-- loop types: 0 = "" (cells), 1 = colours, 2 = colour, 3 = dof, 4 = null -/
abbrev LoopType := Nat
def ltCells : LoopType := 0
def ltColours : LoopType := 1
def ltColour : LoopType := 2
def ltDof : LoopType := 3
def ltNull : LoopType := 4

/-- directive kinds (read off the EMITTED directive): 0 omp parallel, 1 omp do, 2 omp parallel do,
3 acc loop without a `seq` clause (gang/vector/independent/...: parallel), 4 acc parallel, 5 acc kernels,
6 acc loop carrying the `seq` clause (serial), ≥7 other -/
abbrev DirKind := Nat
def dOmpParallel : DirKind := 0
def dOmpDo : DirKind := 1
def dOmpParallelDo : DirKind := 2
def dAccLoop : DirKind := 3
def dAccParallel : DirKind := 4
def dAccKernels : DirKind := 5
def dAccLoopSeq : DirKind := 6

def isOmpDir (k : DirKind) : Bool := k == 0 || k == 1 || k == 2
def isAccDir (k : DirKind) : Bool := k == 3 || k == 4 || k == 5 || k == 6
/-- directives whose child loop is executed in parallel -/
def isParLoopDir (k : DirKind) : Bool := k == 1 || k == 2 || k == 3
/-- `Node.is_openmp_parallel`: an `OMPParallelDirective` (or its subclass `OMPParallelDoDirective`) -/
def isOmpParallelRegion (k : DirKind) : Bool := k == 0 || k == 2

/-- Statement-level tree of a schedule, first-child / next-sibling. -/
inductive Forest where
  | nil
  | halo (next : Forest)                                    -- HaloExchange
  | gsum (next : Forest)                                    -- GlobalSum
  | other (next : Forest)                                   -- anything else (opaque)
  | kern (coded : Bool) (args : List Arg) (next : Forest)   -- CodedKern / BuiltIn call
  | loop (ty : LoopType) (fsDisc : Bool) (body : Forest) (next : Forest)
  | dir (k : DirKind) (body : Forest) (next : Forest)
  deriving Repr, DecidableEq, Inhabited

open Forest

/-- number of statement nodes -/
def size : Forest → Nat
  | nil => 0
  | halo nx | gsum nx | other nx | kern _ _ nx => 1 + size nx
  | loop _ _ b nx | dir _ b nx => 1 + size b + size nx

/-- The access tables of the live code (filled by the translator, `Gen/Access.lean`). -/
structure Tables where
  /-- accesses for which `PSyLoop.has_inc_arg` answers True -/
  incAcc : Nat → Bool
  /-- accesses for which `Kern.incremented_arg` finds an argument -/
  incrementedAcc : Nat → Bool
  /-- accesses that are reductions (`AccessType.get_valid_reduction_modes`) -/
  redAcc : Nat → Bool

section
variable (T : Tables)

/-- `PSyLoop.has_inc_arg` evaluated on everything below (and beside) a node: some *coded* kernel has an
argument whose access is in the `incAcc` table. -/
def hasInc : Forest → Bool
  | nil => false
  | halo nx | gsum nx | other nx => hasInc nx
  | kern coded args nx => (coded && args.any (fun a => T.incAcc a.1)) || hasInc nx
  | loop _ _ b nx | dir _ b nx => hasInc b || hasInc nx

/-- some kernel call (coded or built-in) has a reduction argument -/
def hasReduction : Forest → Bool
  | nil => false
  | halo nx | gsum nx | other nx => hasReduction nx
  | kern _ args nx => args.any (fun a => T.redAcc a.1) || hasReduction nx
  | loop _ _ b nx | dir _ b nx => hasReduction b || hasReduction nx
end

def hasHalo : Forest → Bool
  | nil => false
  | halo _ => true
  | gsum nx | other nx | kern _ _ nx => hasHalo nx
  | loop _ _ b nx | dir _ b nx => hasHalo b || hasHalo nx

def hasAccDir : Forest → Bool
  | nil => false
  | halo nx | gsum nx | other nx | kern _ _ nx => hasAccDir nx
  | loop _ _ b nx => hasAccDir b || hasAccDir nx
  | dir k b nx => isAccDir k || hasAccDir b || hasAccDir nx

def hasLoop : Forest → Bool
  | nil => false
  | halo nx | gsum nx | other nx | kern _ _ nx => hasLoop nx
  | loop _ _ _ _ => true
  | dir _ b nx => hasLoop b || hasLoop nx

/-- What a transformation sees of the position of its target. -/
structure Ctx where
  /-- some ancestor is an OpenMP directive (`node.ancestor(OMPDirective)`) -/
  inOmp : Bool
  /-- the parent is a directive that parallelises its child loop -/
  parPar : Bool
  deriving Repr, DecidableEq

def Ctx.top : Ctx := ⟨false, false⟩
def Ctx.loopBody (c : Ctx) : Ctx := ⟨c.inOmp, false⟩
def Ctx.dirBody (c : Ctx) (k : DirKind) : Ctx := ⟨c.inOmp || isOmpDir k, isParLoopDir k⟩

/-- Apply `g` to the sub-forest that starts at pre-order index `i` (the addressed node followed by its next
siblings).  `none` = index out of range or `g` refused. -/
def atIdx (g : Ctx → Forest → Option Forest) : Forest → Nat → Ctx → Option Forest
  | nil, _, _ => none
  | halo nx, i, c => if i = 0 then g c (halo nx) else (atIdx g nx (i - 1) c).map halo
  | gsum nx, i, c => if i = 0 then g c (gsum nx) else (atIdx g nx (i - 1) c).map gsum
  | other nx, i, c => if i = 0 then g c (other nx) else (atIdx g nx (i - 1) c).map other
  | kern cd as nx, i, c => if i = 0 then g c (kern cd as nx) else (atIdx g nx (i - 1) c).map (kern cd as)
  | loop ty fd b nx, i, c =>
    if i = 0 then g c (loop ty fd b nx)
    else if i - 1 < size b then (atIdx g b (i - 1) c.loopBody).map (fun b' => loop ty fd b' nx)
    else (atIdx g nx (i - 1 - size b) c).map (loop ty fd b)
  | dir k b nx, i, c =>
    if i = 0 then g c (dir k b nx)
    else if i - 1 < size b then (atIdx g b (i - 1) (c.dirBody k)).map (fun b' => dir k b' nx)
    else (atIdx g nx (i - 1 - size b) c).map (dir k b)

/-- size of the first node of a forest (node with its subtree) -/
def headSize : Forest → Nat
  | nil => 0
  | halo _ | gsum _ | other _ | kern _ _ _ => 1
  | loop _ _ b _ | dir _ b _ => 1 + size b

/-- split off the first `n` sibling nodes: `(those nodes terminated by nil, the rest)` -/
def splitSibs : Nat → Forest → Option (Forest × Forest)
  | 0, f => some (nil, f)
  | _ + 1, nil => none
  | n + 1, halo nx => (splitSibs n nx).map fun (t, r) => (halo t, r)
  | n + 1, gsum nx => (splitSibs n nx).map fun (t, r) => (gsum t, r)
  | n + 1, other nx => (splitSibs n nx).map fun (t, r) => (other t, r)
  | n + 1, kern cd as nx => (splitSibs n nx).map fun (t, r) => (kern cd as t, r)
  | n + 1, loop ty fd b nx => (splitSibs n nx).map fun (t, r) => (loop ty fd b t, r)
  | n + 1, dir k b nx => (splitSibs n nx).map fun (t, r) => (dir k b t, r)

/-- pre-order indices of the first `n` siblings of a forest whose first node has index `i` -/
def sibIdx : Nat → Nat → Forest → List Nat
  | 0, _, _ => []
  | _ + 1, _, nil => []
  | n + 1, i, halo nx | n + 1, i, gsum nx | n + 1, i, other nx | n + 1, i, kern _ _ nx => i :: sibIdx n (i + 1) nx
  | n + 1, i, loop _ _ b nx | n + 1, i, dir _ b nx => i :: sibIdx n (i + 1 + size b) nx

/-! ## The transformations (validate + apply as one total function on the addressed sub-forest) -/

inductive LoopTrans where
  | ompParallelDo   -- DynamoOMPParallelLoopTrans
  | ompDo           -- Dynamo0p3OMPLoopTrans
  | accLoop         -- ACCLoopTrans
  | genOmpDo        -- generic psyir OMPLoopTrans (no LFRic-specific validate, no "force")
  | genOmpParallelDo -- generic OMPParallelLoopTrans
  deriving Repr, DecidableEq

def LoopTrans.dirKind : LoopTrans → DirKind
  | .ompParallelDo => dOmpParallelDo
  | .ompDo => dOmpDo
  | .accLoop => dAccLoop
  | .genOmpDo => dOmpDo
  | .genOmpParallelDo => dOmpParallelDo

/-- `excluded_node_types` contains HaloExchange (ParallelLoopTrans default; ACCLoopTrans overrides it) -/
def LoopTrans.excludesHalo : LoopTrans → Bool
  | .accLoop => false
  | _ => true

/-- the transformation does not pass "force" and therefore asks `LFRicLoop.independent_iterations` -/
def LoopTrans.usesDA : LoopTrans → Bool
  | .accLoop | .genOmpDo | .genOmpParallelDo => true
  | _ => false

inductive RegionTrans where
  | ompParallel | accParallel | accKernels
  deriving Repr, DecidableEq

def RegionTrans.dirKind : RegionTrans → DirKind
  | .ompParallel => dOmpParallel
  | .accParallel => dAccParallel
  | .accKernels => dAccKernels

/-- the LFRic-specific transformations: own `has_inc_arg` check that no option switches off, and "force" -/
def LoopTrans.isDynamo : LoopTrans → Bool
  | .ompParallelDo | .ompDo => true
  | _ => false

/-- generic OpenMP loop transformations (psyir `OMPLoopTrans`, `OMPParallelLoopTrans`) -/
def LoopTrans.isGenericOmp : LoopTrans → Bool
  | .genOmpDo | .genOmpParallelDo => true
  | _ => false

/-- The entries of the `options` dictionary that influence validation or the kind of directive emitted.
("force" is excluded by the property; "independent", "reprod", the OpenMP schedule, "default_present" are varied by the
harness but have no influence and are not part of the model.) -/
structure LoopOpts where
  /-- options["sequential"] -/
  sequential : Bool := false
  /-- options["gang"], options["vector"] (ACCLoopTrans only) -/
  gang : Bool := false
  vector : Bool := false
  /-- options["collapse"]: 0 = absent/None -/
  collapse : Nat := 0
  /-- options["node-type-check"] -/
  typeCheck : Bool := true
  deriving Repr, DecidableEq

structure RegionOpts where
  /-- options["node-type-check"] -/
  typeCheck : Bool := true
  /-- not options["disable_loop_check"] (ACCKernelsTrans) -/
  loopCheck : Bool := true
  deriving Repr, DecidableEq

/-- Kind of the directive emitted: `ACCLoopDirective.begin_string` writes `seq` alone when `sequential` is set
(seq wins over gang/vector), the OpenMP directives have no serial form. -/
def LoopTrans.emitted (t : LoopTrans) (o : LoopOpts) : DirKind :=
  if t == .accLoop && o.sequential then dAccLoopSeq else t.dirKind

/-- number of perfectly nested loops as counted by `ParallelLoopTrans.validate` for the collapse clause
(`cnode = cnode.loop_body[0]` while it is a Loop), evaluated on the first node of a forest -/
def nestDepth : Forest → Nat
  | loop _ _ b _ => 1 + nestDepth b
  | _ => 0

section
variable (T : Tables)

/-- The loop-parallelising transformations, validate + apply.
`LoopTrans.validate`: target must be a Loop, may not contain excluded node types (halo exchanges, unless
ACCLoopTrans or node-type-check is off), may not be a 'null' loop.  `ParallelLoopTrans.validate`: a loop over colours is
refused unless options["sequential"]; collapse must be >= 2 and <= the nest depth; then, unless "sequential" (or "force",
which the two LFRic-specific transformations set themselves), `LFRicLoop.independent_iterations` is asked: it refuses a
loop that is not over a single colour and has an INC argument, and dof loops with a reduction.  The two LFRic-specific
transformations have their own `has_inc_arg` check that no option switches off.
NOTE the generic OpenMP transformations also honour "sequential" (skipping both checks) although the directive they
emit is always parallel - see the known finding C23-sequential-generic-omp.
ASSUMPTION (checked by the harness on every case): the generic dependence analysis called first by
`independent_iterations` answers False and does not raise for a cell loop with an INC/READINC kernel. -/
def parLoopG (t : LoopTrans) (o : LoopOpts) (_ : Ctx) : Forest → Option Forest
  | loop ty fd b nx =>
    if ty == ltNull then none
    else if o.typeCheck && t.excludesHalo && hasHalo b then none
    else if !o.sequential && ty == ltColours then none
    else if o.collapse == 1 || o.collapse > 1 + nestDepth b then none
    else if t.isDynamo && ty != ltColour && hasInc T b then none
    else if t.usesDA && !o.sequential && ty != ltColour && hasInc T b then none
    else if t.usesDA && !o.sequential && ty == ltDof && hasReduction T b then none
    else some (dir (t.emitted o) (loop ty fd b nil) nx)
  | _ => none

/-- `Dynamo0p3ColourTrans.apply` -/
def colourG (c : Ctx) : Forest → Option Forest
  | loop ty fd b nx =>
    if ty == ltNull then none
    else if fd then none                      -- discontinuous space: not supported
    else if ty != ltCells then none           -- only loops over cells
    else if c.inOmp then none                 -- not within an OpenMP region
    else some (loop ltColours fd (loop ltColour fd b nil) nx)
  | _ => none

/-- `OMPParallelTrans` / `ACCParallelTrans` / `ACCKernelsTrans` applied to the node list `targets` whose first
element has pre-order index `i0`; the addressed sub-forest starts at that node. -/
def regionG (t : RegionTrans) (o : RegionOpts) (i0 : Nat) (targets : List Nat) (c : Ctx) (f : Forest) : Option Forest :=
  let n := targets.length
  if t == .ompParallel && c.inOmp then none
  else if sibIdx n i0 f != targets then none         -- same parent, consecutive, in order
  else match splitSibs n f with
    | none => none
    | some (taken, rest) =>
      if o.typeCheck && hasHalo taken then none
      else if o.typeCheck && t == .ompParallel && hasAccDir taken then none
      else if o.loopCheck && t == .accKernels && !hasLoop taken then none
      else some (dir t.dirKind taken rest)

inductive Step where
  | colour (i : Nat)
  | parLoop (t : LoopTrans) (o : LoopOpts) (i : Nat)
  | region (t : RegionTrans) (o : RegionOpts) (targets : List Nat)
  deriving Repr, DecidableEq

/-- one transformation: `none` = refused (state unchanged), `some s'` = accepted -/
def step (s : Forest) : Step → Option Forest
  | .colour i => atIdx colourG s i Ctx.top
  | .parLoop t o i => atIdx (parLoopG T t o) s i Ctx.top
  | .region t o targets =>
    match targets with
    | [] => none
    | i0 :: _ => atIdx (regionG t o i0 targets) s i0 Ctx.top

/-- a history in which every step is accepted -/
def run (s : Forest) : List Step → Option Forest
  | [] => some s
  | st :: rest => match step T s st with
    | none => none
    | some s' => run s' rest

/-- a history in which refused steps leave the state unchanged (what a script that catches
`TransformationError` does); also returns the accept/refuse outcome of every step -/
def runSkip (s : Forest) : List Step → Forest × List Bool
  | [] => (s, [])
  | st :: rest => match step T s st with
    | none => let r := runSkip s rest; (r.1, false :: r.2)
    | some s' => let r := runSkip s' rest; (r.1, true :: r.2)

/-- generation-time refusal 1 (`LFRicLoop.gen_code`): a loop over colours inside an OpenMP parallel region -/
def noColoursInOmpPar (inPar : Bool) : Forest → Bool
  | nil => true
  | halo nx | gsum nx | other nx | kern _ _ nx => noColoursInOmpPar inPar nx
  | loop ty _ b nx => !(inPar && ty == ltColours) && noColoursInOmpPar inPar b && noColoursInOmpPar inPar nx
  | dir k b nx => noColoursInOmpPar (inPar || isOmpParallelRegion k) b && noColoursInOmpPar inPar nx

/-- generation-time refusal 2 (`LFRicKern.validate_global_constraints`, called by
`LFRicLoop.lower_to_language_level` on the *direct* children of the loop body only): a coded kernel that is not
inside a 'colour' loop, is inside an OpenMP parallel region and has an incremented argument -/
def kernsOK (inPar coloured direct : Bool) : Forest → Bool
  | nil => true
  | halo nx | gsum nx | other nx => kernsOK inPar coloured direct nx
  | kern coded args nx =>
    !(direct && coded && inPar && !coloured && args.any (fun a => T.incrementedAcc a.1))
      && kernsOK inPar coloured direct nx
  | loop ty _ b nx => kernsOK inPar (coloured || ty == ltColour) true b && kernsOK inPar coloured direct nx
  | dir k b nx => kernsOK (inPar || isOmpParallelRegion k) coloured false b && kernsOK inPar coloured direct nx

/-- the modelled part of generation succeeds (real generation has more reasons to fail) -/
def genOK (s : Forest) : Bool := noColoursInOmpPar false s && kernsOK T false false false s
end

/-- no directive anywhere (a freshly built schedule) -/
def noDirs : Forest → Bool
  | nil => true
  | halo nx | gsum nx | other nx | kern _ _ nx => noDirs nx
  | loop _ _ b nx => noDirs b && noDirs nx
  | dir _ _ _ => false


section SpecLevel
/-! ## Specification-level notions used to state the property (do not depend on PSyclone's tables) -/

/-- Discontinuous function spaces by id (ids fixed in `harness/props/c23_lfric.FS_NAMES`):
0-4 = w3, wtheta, w2v, w2vtrace, w2broken; 23-32 = any_discontinuous_space_1..10.  Everything else
(w0, w1, w2, w2trace, w2h, w2htrace, any_w2, wchi, any_space_1..10, unknown ids) is continuous or unknown. -/
def Spec.fsDisc (i : Nat) : Bool := i ≤ 4 || (23 ≤ i && i ≤ 32)

/-- Access modes that increment shared DoFs: `AccessType.INC = 4`, `AccessType.READINC = 5`. -/
def Spec.incrementing (a : Nat) : Bool := a == 4 || a == 5

/-- some *coded* kernel below/beside has an INC or READINC argument on a continuous or unknown space -/
def sharedInc : Forest → Bool
  | nil => false
  | halo nx | gsum nx | other nx => sharedInc nx
  | kern coded args nx =>
    (coded && args.any (fun a => Spec.incrementing a.1 && !Spec.fsDisc a.2)) || sharedInc nx
  | loop _ _ b nx | dir _ b nx => sharedInc b || sharedInc nx

/-- clause 1: every loop that is the child of a loop-parallelising directive (omp do, omp parallel do, acc loop)
and contains a shared-DoF increment is a loop over the cells of a single colour -/
def safe1 (parPar : Bool) : Forest → Bool
  | nil => true
  | halo nx | gsum nx | other nx | kern _ _ nx => safe1 parPar nx
  | loop ty _ b nx => (!parPar || ty == ltColour || !sharedInc b) && safe1 false b && safe1 parPar nx
  | dir k b nx => safe1 (isParLoopDir k) b && safe1 parPar nx

end SpecLevel

end C23
