/-! Line protocol shared by all model drivers: one S-expression per input line,
one output line per input line.  Core Lean only (drivers are linked as executables). -/
namespace Proto

inductive Sexp where
  | atom (s : String)
  | list (xs : List Sexp)
  deriving Repr, Inhabited

partial def tokenize (s : String) : List String :=
  let rec go (cs : List Char) (cur : String) (acc : List String) : List String :=
    match cs with
    | [] => (if cur.isEmpty then acc else cur :: acc).reverse
    | c :: rest =>
      if c == '(' || c == ')' then
        go rest "" (String.singleton c :: (if cur.isEmpty then acc else cur :: acc))
      else if c == ' ' || c == '\t' || c == '\n' || c == '\r' then
        go rest "" (if cur.isEmpty then acc else cur :: acc)
      else go rest (cur.push c) acc
  go s.toList "" []

partial def parseToks : List String → Option (Sexp × List String)
  | [] => none
  | "(" :: rest =>
    let rec items (ts : List String) (acc : List Sexp) : Option (Sexp × List String) :=
      match ts with
      | [] => none
      | ")" :: r => some (.list acc.reverse, r)
      | _ => match parseToks ts with
        | none => none
        | some (x, r) => items r (x :: acc)
    items rest []
  | ")" :: _ => none
  | t :: rest => some (.atom t, rest)

def parse (s : String) : Option Sexp :=
  match parseToks (tokenize s) with
  | some (x, []) => some x
  | _ => none

def Sexp.int? : Sexp → Option Int
  | .atom s => s.toInt?
  | _ => none

def Sexp.nat? : Sexp → Option Nat
  | .atom s => s.toNat?
  | _ => none

def Sexp.items : Sexp → List Sexp
  | .list xs => xs
  | a => [a]

def Sexp.natList (s : Sexp) : List Nat := s.items.filterMap Sexp.nat?
def Sexp.intList (s : Sexp) : List Int := s.items.filterMap Sexp.int?

def showList {α} (f : α → String) (xs : List α) : String :=
  "(" ++ " ".intercalate (xs.map f) ++ ")"

partial def loop (h : IO.FS.Stream) (out : IO.FS.Stream) (handle : Sexp → String) : IO Unit := do
  let line ← h.getLine
  if line.isEmpty then return ()
  let r := match parse line with
    | some s => handle s
    | none => "bad-line"
  out.putStrLn r
  loop h out handle

def run (handle : Sexp → String) : IO Unit := do
  let stdin ← IO.getStdin
  let stdout ← IO.getStdout
  loop stdin stdout handle
  stdout.flush

end Proto
