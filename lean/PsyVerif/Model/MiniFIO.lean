import PsyVerif.Model.Proto
import PsyVerif.Model.MiniF
/-! S-expression reader for MiniF (used by drivers only; never imported by proofs). -/
namespace MiniF
open Proto

def unOpOf : String → Option UnOp
  | "neg" => some .neg | "plus" => some .plus | "not" => some .not | "abs" => some .abs
  | _ => none

def binOpOf : String → Option BinOp
  | "add" => some .add | "sub" => some .sub | "mul" => some .mul | "div" => some .div
  | "pow" => some .pow | "mod" => some .mod | "min" => some .min | "max" => some .max
  | "sign" => some .sign | "eq" => some .eq | "ne" => some .ne | "lt" => some .lt
  | "le" => some .le | "gt" => some .gt | "ge" => some .ge | "and" => some .and
  | "or" => some .or | "eqv" => some .eqv | "neqv" => some .neqv
  | _ => none

partial def parseExpr : Sexp → Option Expr
  | .list [.atom "lit", n] => n.int?.map .lit
  | .list [.atom "var", x] => x.nat?.map .var
  | .list [.atom "idx1", a, i] => do some (.idx1 (← a.nat?) (← parseExpr i))
  | .list [.atom "idx2", a, i, j] => do some (.idx2 (← a.nat?) (← parseExpr i) (← parseExpr j))
  | .list [.atom "un", .atom op, e] => do some (.un (← unOpOf op) (← parseExpr e))
  | .list [.atom "bin", .atom op, a, b] => do some (.bin (← binOpOf op) (← parseExpr a) (← parseExpr b))
  | _ => none

partial def parseStmt : Sexp → Option Stmt
  | .list [.atom "skip"] => some .skip
  | .list (.atom "seqs" :: ss) => do
      let xs ← ss.mapM parseStmt
      some (seqs xs)
  | .list [.atom "seq", a, b] => do some (.seq (← parseStmt a) (← parseStmt b))
  | .list [.atom "assign", x, e] => do some (.assign (← x.nat?) (← parseExpr e))
  | .list [.atom "store1", a, i, e] => do some (.store1 (← a.nat?) (← parseExpr i) (← parseExpr e))
  | .list [.atom "store2", a, i, j, e] => do
      some (.store2 (← a.nat?) (← parseExpr i) (← parseExpr j) (← parseExpr e))
  | .list [.atom "ite", c, t, f] => do some (.ite (← parseExpr c) (← parseStmt t) (← parseStmt f))
  | .list [.atom "loop", v, lo, hi, st, b] => do
      some (.loop (← v.nat?) (← parseExpr lo) (← parseExpr hi) (← parseExpr st) (← parseStmt b))
  | _ => none

/-- `(x i j ...)` → location -/
def parseLoc (s : Sexp) : Option Loc :=
  match s.items with
  | [x] => do some (← x.nat?, 0, 0)
  | [x, i] => do some (← x.nat?, ← i.int?, 0)
  | [x, i, j] => do some (← x.nat?, ← i.int?, ← j.int?)
  | _ => none

/-- `((x i.. ) v)` bindings -/
def parseBindings (s : Sexp) : List (Loc × Int) :=
  s.items.filterMap fun b =>
    match b with
    | .list [l, v] => do some (← parseLoc l, ← v.int?)
    | _ => none

end MiniF
