import PsyVerif.Model.MiniF
/-! # RegionData — region access summaries, extraction in/out lists, OpenACC data clauses

Shared model of C12 and C13.  It mirrors, for MiniF regions,

* `VariablesAccessInfo(nodes)` (the ordered per-variable access lists) as produced by
  `Assignment/Reference/IfBlock/Loop.reference_accesses` — `sacc`;
* `SingleVariableAccessInfo.is_written_first / is_read / is_written` — `writtenFirst`,
  `isRead`, `isWritten`;
* `CallTreeUtils.get_in_out_parameters` (= `get_input_parameters` + `get_output_parameters`)
  — `inputs`, `outputs`;
* `RegionDirective.create_data_movement_deep_copy_refs` +
  `ACCDataDirective._update_data_movement_clauses` — `clauses`;
* `ACCDataTrans.validate` for the node kinds of the generated inputs — `accDataTrans`;
* an operational model of an OpenACC data region with separate device memory — `execACC`.

Quirks kept: `is_written_first` looks at the first *textual* access only; a loop records
WRITE then READ of its variable *before* the reads of its bounds; an assignment records the
RHS reads, then the LHS subscript reads, then the LHS write.

Unanalysed code (`RStmt.code`): a CodeBlock (since `fix: every name used in a CodeBlock is
reported as a READWRITE access`: `CodeBlock.reference_accesses` = READWRITE of every
`get_symbol_names()` entry), a statement that contains an expression CodeBlock, or a call of
unknown intent (`Call.reference_accesses`: READWRITE of every by-reference argument, READ of its
subscripts).  PSyclone sees only the access list `acc`; `body` is what the code does.  A
READWRITE access is represented by the adjacent pair READ;WRITE whose events carry `rw = true`:
`is_written_first` (the first access is `AccessType.WRITE` — false for READWRITE), `is_read`,
`is_written` (READWRITE is in `all_read_accesses` and `all_write_accesses`) evaluate on the pair
exactly as on the single access, and `has_read_write` = some event has `rw`.
Core Lean only. -/
namespace RegionData
open MiniF

/-- one access: variable id, kind (READ/WRITE), and whether the accessed object is indexed
(an array) — PSyclone takes the latter from the symbol's datatype; in MiniF every array
access is indexed and every scalar access is not -/
structure Ev where
  var : Nat
  write : Bool
  arr : Bool
  /-- the event is one half of a READWRITE access -/
  rw : Bool
  deriving DecidableEq, Repr, Inhabited

/-- `Reference.reference_accesses`: subscript reads first, then the READ of the reference -/
def eacc : Expr → List Ev
  | .lit _ => []
  | .var x => [⟨x, false, false, false⟩]
  | .idx1 a i => eacc i ++ [⟨a, false, true, false⟩]
  | .idx2 a i j => eacc i ++ (eacc j ++ [⟨a, false, true, false⟩])
  | .un _ e => eacc e
  | .bin _ a b => eacc a ++ eacc b

/-- one entry of the access list PSyclone records for unanalysed code -/
inductive Acc where
  | rw (x : Nat) (arr : Bool)      -- READWRITE of a name / by-reference argument
  | rd (e : Expr)                  -- the READs of an analysed sub-expression (`Reference.reference_accesses`)
  | wr (x : Nat) (arr : Bool)      -- WRITE (the left-hand side of an assignment whose RHS holds a CodeBlock)
  deriving DecidableEq, Repr, Inhabited

def accEv : Acc → List Ev
  | .rw x arr => [⟨x, false, arr, true⟩, ⟨x, true, arr, true⟩]
  | .rd e => eacc e
  | .wr x arr => [⟨x, true, arr, false⟩]

def accEvs : List Acc → List Ev
  | [] => []
  | a :: r => accEv a ++ accEvs r

/-- MiniF statements plus `DO WHILE` (PSyIR `WhileLoop`), which `MiniF.Stmt` lacks, plus
unanalysed code `code acc body` (CodeBlock / call of unknown intent) -/
inductive RStmt where
  | skip
  | seq (a b : RStmt)
  | assign (x : Nat) (e : Expr)
  | store1 (a : Nat) (i : Expr) (e : Expr)
  | store2 (a : Nat) (i j : Expr) (e : Expr)
  | ite (c : Expr) (t f : RStmt)
  | loop (v : Nat) (lo hi step : Expr) (body : RStmt)
  | whileDo (c : Expr) (body : RStmt)
  | code (acc : List Acc) (body : RStmt)
  deriving DecidableEq, Repr, Inhabited

/-- `DO WHILE (c) body`: the condition is evaluated before every iteration; at most `n`
iterations (fuel — the theorems hold for every fuel, the drivers use a bound no generated
loop reaches) -/
def whileN (c : Expr) (f : Store → Store) : Nat → Store → Store
  | 0, σ => σ
  | n+1, σ => if eval c σ ≠ 0 then whileN c f n (f σ) else σ

/-- execution; agrees with `MiniF.exec` on the common part (`rexec_ofStmt`) -/
def rexec (fuel : Nat) : RStmt → Store → Store
  | .skip, σ => σ
  | .seq a b, σ => rexec fuel b (rexec fuel a σ)
  | .assign x e, σ => σ.set (x, 0, 0) (eval e σ)
  | .store1 a i e, σ => σ.set (a, eval i σ, 0) (eval e σ)
  | .store2 a i j e, σ => σ.set (a, eval i σ, eval j σ) (eval e σ)
  | .ite c t f, σ => if eval c σ ≠ 0 then rexec fuel t σ else rexec fuel f σ
  | .loop v lo hi step body, σ =>
      runIters (rexec fuel body) v (eval lo σ) (eval step σ)
        (trip (eval lo σ) (eval hi σ) (eval step σ)) 0 σ
  | .whileDo c body, σ => whileN c (rexec fuel body) fuel σ
  | .code _ body, σ => rexec fuel body σ

def ofStmt : Stmt → RStmt
  | .skip => .skip
  | .seq a b => .seq (ofStmt a) (ofStmt b)
  | .assign x e => .assign x e
  | .store1 a i e => .store1 a i e
  | .store2 a i j e => .store2 a i j e
  | .ite c t f => .ite c (ofStmt t) (ofStmt f)
  | .loop v lo hi st b => .loop v lo hi st (ofStmt b)

/-- sequence of a statement list (as `MiniF.seqs`) -/
def rseqs : List RStmt → RStmt
  | [] => .skip
  | [s] => s
  | s :: rest => .seq s (rseqs rest)

/-- ordered access list of a statement (what `VariablesAccessInfo` collects) -/
def sacc : RStmt → List Ev
  | .skip => []
  | .seq a b => sacc a ++ sacc b
  | .assign x e => eacc e ++ [⟨x, true, false, false⟩]
  | .store1 a i e => eacc e ++ (eacc i ++ [⟨a, true, true, false⟩])
  | .store2 a i j e => eacc e ++ (eacc i ++ (eacc j ++ [⟨a, true, true, false⟩]))
  | .ite c t f => eacc c ++ (sacc t ++ sacc f)
  | .loop v lo hi st b =>
      ⟨v, true, false, false⟩ :: ⟨v, false, false, false⟩ :: (eacc lo ++ (eacc hi ++ (eacc st ++ sacc b)))
  | .whileDo c b => eacc c ++ sacc b      -- `WhileLoop.reference_accesses`: condition, then body
  | .code acc _ => accEvs acc           -- only the recorded access list; the code itself is not analysed

/-- every access of `body` is announced by an access of the same variable and kind in `evs`
(an array access by an array access) -/
def coveredBy (evs : List Ev) (body : RStmt) : Bool :=
  (sacc body).all (fun e => evs.any (fun e' => e'.var == e.var && e'.write == e.write && (e'.arr || !e.arr)))

/-- hypothesis about unanalysed code, explicit in every theorem that needs it: the recorded
access list of each `code` announces everything its code does — for a CodeBlock: the code uses
no variable whose name does not occur in it (`get_symbol_names` returns every `Name` of the parse
tree); for a call of unknown intent: the callee touches nothing but its by-reference arguments
(no global state).  Trivially true of `code`-free statements (`covered_ofStmt`). -/
def covered : RStmt → Bool
  | .skip => true
  | .seq a b => covered a && covered b
  | .assign _ _ => true
  | .store1 _ _ _ => true
  | .store2 _ _ _ _ => true
  | .ite _ t f => covered t && covered f
  | .loop _ _ _ _ b => covered b
  | .whileDo _ b => covered b
  | .code acc body => coveredBy (accEvs acc) body && covered body

/-- access summary of a region given as a list of consecutive statements -/
def accSummary (region : List RStmt) : List Ev := sacc (rseqs region)

/-! ## `SingleVariableAccessInfo` queries -/

def firstOf (evs : List Ev) (x : Nat) : Option Ev := evs.find? (fun e => e.var == x)

/-- `is_written_first`: the first access in textual order is a WRITE -/
def writtenFirst (evs : List Ev) (x : Nat) : Bool :=
  match firstOf evs x with
  | some e => e.write
  | none => false

def isRead (evs : List Ev) (x : Nat) : Bool := evs.any (fun e => e.var == x && !e.write)
def isWritten (evs : List Ev) (x : Nat) : Bool := evs.any (fun e => e.var == x && e.write)
def isArr (evs : List Ev) (x : Nat) : Bool := evs.any (fun e => e.var == x && e.arr)
/-- `has_read_write`: some access is READWRITE -/
def hasRW (evs : List Ev) (x : Nat) : Bool := evs.any (fun e => e.var == x && e.rw)

def dedup : List Nat → List Nat
  | [] => []
  | x :: xs => if (dedup xs).contains x then dedup xs else x :: dedup xs

/-- `all_signatures` (as a duplicate-free list; the real one is sorted by name, the
harness compares as sets) -/
def varsOf (evs : List Ev) : List Nat := dedup (evs.map (·.var))

/-! ## C12: `get_in_out_parameters` -/

/-- `get_input_parameters`: every signature whose first access is not a WRITE -/
def inputsE (evs : List Ev) : List Nat := (varsOf evs).filter (fun x => !writtenFirst evs x)
/-- `get_output_parameters`: every signature that is written -/
def outputsE (evs : List Ev) : List Nat := (varsOf evs).filter (isWritten evs)

def inputs (s : RStmt) : List Nat := inputsE (sacc s)
def outputs (s : RStmt) : List Nat := outputsE (sacc s)
/-- `get_in_out_parameters(region)` -/
def inOut (region : List RStmt) : List Nat × List Nat := (inputs (rseqs region), outputs (rseqs region))

/-! ### regions of calls (`collect_non_local_symbols=True`)

`get_non_local_read_write_info` + `_resolve_calls_and_unknowns`: every routine reached from the
region (a kernel, or a routine it calls) contributes, for each non-local (module) variable it
accesses, its OWN `SingleVariableAccessInfo`; the variable is an output iff some routine
writes it, and an input iff in some routine its first access is not a write.  The per-routine
summaries are merged as sets — the order of the calls plays no role.  `G` are the non-local
variables (callee locals and arguments are not reported by this path). -/

def unionMap (f : RStmt → List Nat) : List RStmt → List Nat
  | [] => []
  | b :: r => f b ++ unionMap f r

def inputsCalls (G : List Nat) (bodies : List RStmt) : List Nat :=
  (dedup (unionMap inputs bodies)).filter G.contains
def outputsCalls (G : List Nat) (bodies : List RStmt) : List Nat :=
  (dedup (unionMap outputs bodies)).filter G.contains

/-! ### the decidable side conditions of the partial theorems

`chk K s (D, DA)` walks the statement.  `K` are the recorded inputs; `D` the scalars that have
been assigned *unconditionally, earlier in an enclosing statement sequence* (or are the
variable of an enclosing / earlier loop, or are assigned in BOTH branches of an earlier IF);
`DA` the array elements `a(i)` (rank 1, index expression `i`) that have been stored
unconditionally earlier in the same sequence, such that nothing `i` depends on has been
written since — a *covering write*: a later read of the textually same `a(i)` sees it.
`chk` fails as soon as something is read that is neither a recorded input, nor such a scalar,
nor such an element, and returns the state after `s`. -/

/-- variables (scalars and arrays) an expression depends on -/
def mentions : Expr → Nat → Bool
  | .lit _, _ => false
  | .var y, x => y == x
  | .idx1 a i, x => a == x || mentions i x
  | .idx2 a i j, x => a == x || mentions i x || mentions j x
  | .un _ e, x => mentions e x
  | .bin _ a b, x => mentions a x || mentions b x

/-- variables a statement may write -/
def rwvars : RStmt → List Nat
  | .skip => []
  | .seq a b => rwvars a ++ rwvars b
  | .assign x _ => [x]
  | .store1 a _ _ => [a]
  | .store2 a _ _ _ => [a]
  | .ite _ t f => rwvars t ++ rwvars f
  | .loop v _ _ _ b => v :: rwvars b
  | .whileDo _ b => rwvars b
  | .code _ b => rwvars b

abbrev Defs := List Nat × List (Nat × Expr)

/-- drop the covered elements whose index depends on a variable in `W` -/
def killA (DA : List (Nat × Expr)) (W : List Nat) : List (Nat × Expr) :=
  DA.filter (fun p => !(W.any (mentions p.2)))

/-- may this expression be evaluated: every scalar is an input or defined, every array
element read is of an input array or is a covered element -/
def okX (K : List Nat) (S : Defs) : Expr → Bool
  | .lit _ => true
  | .var x => K.contains x || S.1.contains x
  | .idx1 a i => okX K S i && (K.contains a || S.2.contains (a, i))
  | .idx2 a i j => okX K S i && okX K S j && K.contains a
  | .un _ e => okX K S e
  | .bin _ a b => okX K S a && okX K S b

def subA (X Y : List (Nat × Expr)) : Bool := X.all Y.contains

def chk (K : List Nat) : RStmt → Defs → Option Defs
  | .skip, S => some S
  | .seq a b, S => (chk K a S).bind (chk K b)
  | .assign x e, S => if okX K S e then some (x :: S.1, killA S.2 [x]) else none
  | .store1 a i e, S =>
      if okX K S i && okX K S e then
        some (S.1, if mentions i a then killA S.2 [a] else (a, i) :: killA S.2 [a])
      else none
  | .store2 a i j e, S =>
      if okX K S i && okX K S j && okX K S e then some (S.1, killA S.2 [a]) else none
  | .ite c t f, S =>
      if okX K S c then
        match chk K t S, chk K f S with
        | some St, some Sf =>
            some (St.1.filter Sf.1.contains, St.2.filter Sf.2.contains)
        | _, _ => none
      else none
  | .loop v lo hi st b, S =>
      let H := killA S.2 (v :: rwvars b)
      if okX K S lo && okX K S hi && okX K S st then
        match chk K b (v :: S.1, H) with
        | some Sb => if subA H Sb.2 then some (v :: S.1, H) else none
        | none => none
      else none
  | .whileDo c b, S =>
      let H := killA S.2 (rwvars b)
      if okX K (S.1, H) c then
        match chk K b (S.1, H) with
        | some Sb => if subA H Sb.2 then some (S.1, H) else none
        | none => none
      else none
  | .code _ b, S => chk K b S     -- the code itself is examined (with the RECORDED inputs `K`)

/-- every variable whose first access is a write and that is read afterwards is, at each of
those reads, a scalar assigned unconditionally before (earlier in an enclosing sequence, in
both branches of an IF, or as a loop variable), or an array element covered by an earlier
unconditional store to the textually same element -/
def WholeFirstWrites (s : RStmt) : Prop := (chk (inputs s) s ([], [])).isSome = true

instance (s : RStmt) : Decidable (WholeFirstWrites s) := by unfold WholeFirstWrites; exact inferInstance

/-- additionally every output is either an input or such a scalar defined unconditionally at
the top level of the region (so that the *whole* recorded output is determined by the inputs) -/
def outDefined (s : RStmt) : Bool :=
  match chk (inputs s) s ([], []) with
  | some S => (outputs s).all (fun x => (inputs s).contains x || (S.1.contains x && !isArr (sacc s) x))
  | none => false

def OutputsDefined (s : RStmt) : Prop := outDefined s = true
instance (s : RStmt) : Decidable (OutputsDefined s) := by unfold OutputsDefined; exact inferInstance

/-! ## C13: data-movement clauses -/

inductive Cl where
  | copyin | copyout | copy
  deriving DecidableEq, Repr, Inhabited

/-- the dictionary `create_data_movement_deep_copy_refs` puts a non-scalar signature in:
`has_read_write` is tested FIRST — a signature with a READWRITE access anywhere goes to `copy`
whatever its first access -/
def clauseOf (evs : List Ev) (x : Nat) : Cl :=
  if hasRW evs x then .copy
  else if isRead evs x then
    if isWritten evs x then
      if writtenFirst evs x then .copyout else .copy
    else .copyin
  else .copyout

/-- the non-scalar signatures (scalars are skipped by the real code) -/
def arraysE (evs : List Ev) : List Nat := (varsOf evs).filter (isArr evs)

structure Clauses where
  cin : List Nat
  cout : List Nat
  cpy : List Nat
  deriving DecidableEq, Repr, Inhabited

def clausesE (evs : List Ev) : Clauses :=
  { cin := (arraysE evs).filter (fun x => clauseOf evs x == .copyin)
    cout := (arraysE evs).filter (fun x => clauseOf evs x == .copyout)
    cpy := (arraysE evs).filter (fun x => clauseOf evs x == .copy) }

def arrays (s : RStmt) : List Nat := arraysE (sacc s)
def clauses (s : RStmt) : Clauses := clausesE (sacc s)

/-! structure members: `g%d(i)` is the signature `g%d` (its own variable id here); for the deep
copy `create_data_movement_deep_copy_refs` puts the parent `g` in front of the member in the
same clause (so `g` can be in several clauses).  Members of a structure are never "scalars"
for the clause computation (the test looks at the datatype of `g`), they are exported as
indexed accesses.  `par` maps a member id to its parent id. -/

def parentsOf (par : List (Nat × Nat)) (l : List Nat) : List Nat :=
  l.filterMap (fun x => (par.find? (fun q => q.1 == x)).map (·.2))

def withParents (par : List (Nat × Nat)) (l : List Nat) : List Nat := dedup (parentsOf par l ++ l)

def clausesP (par : List (Nat × Nat)) (s : RStmt) : Clauses :=
  { cin := withParents par (clauses s).cin
    cout := withParents par (clauses s).cout
    cpy := withParents par (clauses s).cpy }

/-- region items as seen by `ExtractTrans/ACCDataTrans.validate`: a statement, or a top-level
node that is or contains (`walk`) a node of an excluded type (`CodeBlock`, `Return`,
`PSyDataNode`) — `s` is that node as a statement (a CodeBlock: `code`; a RETURN: `skip`) -/
inductive Item where
  | stmt (s : RStmt)
  | excluded (s : RStmt)
  deriving Repr, Inhabited

def itemsStmt : List Item → List RStmt
  | [] => []
  | .stmt s :: r => s :: itemsStmt r
  | .excluded s :: r => s :: itemsStmt r

def hasExcluded : List Item → Bool
  | [] => false
  | .stmt _ :: r => hasExcluded r
  | .excluded _ :: _ => true

/-- plain `get_in_out_parameters` on a node list that may contain CodeBlocks (they contribute
the READWRITE accesses of their names) -/
def inOutItems (items : List Item) : List Nat × List Nat := inOut (itemsStmt items)

/-- `ExtractTrans.apply` (+ `ExtractNode` lowering): `none` = `TransformationError` — among the
generated inputs: a node that is or contains a CodeBlock / Return; otherwise the recorded
input and output lists -/
def extractTrans (items : List Item) : Option (List Nat × List Nat) :=
  if hasExcluded items then none else some (inOutItems items)

/-- `ACCDataTrans.apply`: `none` = `TransformationError` (empty node list, an excluded node
type, or the routine already has an `enter data` directive); otherwise the clauses of the
created directive -/
def accDataTrans (hasEnterData : Bool) (items : List Item) : Option Clauses :=
  if items.isEmpty || hasExcluded items || hasEnterData then none
  else some (clauses (rseqs (itemsStmt items)))

/-- the same with structure members (`par` empty gives `accDataTrans`) -/
def accDataTransP (hasEnterData : Bool) (par : List (Nat × Nat)) (items : List Item) :
    Option Clauses :=
  if items.isEmpty || hasExcluded items || hasEnterData then none
  else some (clausesP par (rseqs (itemsStmt items)))

/-! ### execution with separate device memory

`γ` is the content of freshly allocated device memory: *arbitrary* (the theorems quantify
over it; this is how "poisoned" is expressed without changing the value domain — a result
that depends on `γ` has consumed or copied back an undefined device value).
A variable named in a data clause has a device copy; so has every array the region touches
(an array the region uses must live on the device).  Scalars that are in no clause follow the
compiler's default rules, which PSyclone relies on and the property leaves outside the claim:
they are modelled as shared between host and device. -/

def devInit (c : Clauses) (arrs : List Nat) (σ γ : Store) : Store :=
  ⟨fun l => if c.cin.contains l.1 || c.cpy.contains l.1 then σ l
            else if c.cout.contains l.1 || arrs.contains l.1 then γ l
            else σ l⟩

def hostFinal (c : Clauses) (arrs : List Nat) (σ d : Store) : Store :=
  ⟨fun l => if c.cout.contains l.1 || c.cpy.contains l.1 then d l
            else if c.cin.contains l.1 || arrs.contains l.1 then σ l
            else d l⟩

/-- entry: allocate (contents `γ`), then `copyin`/`copy` host→device; run the region on the
device store; exit: `copyout`/`copy` device→host, element by element, whatever the device holds -/
def execACC (fuel : Nat) (c : Clauses) (s : RStmt) (σ γ : Store) : Store :=
  hostFinal c (arrays s) σ (rexec fuel s (devInit c (arrays s) σ γ))

/-- no touched array is classified `copyout` (never read, or textually written first): in
MiniF arrays are unbounded and only element stores exist, so a region never defines a whole
array; the condition therefore asks every touched array to be read-only or first read -/
def FullyWrittenOrRead (s : RStmt) : Prop := (clauses s).cout = []
instance (s : RStmt) : Decidable (FullyWrittenOrRead s) := by unfold FullyWrittenOrRead; exact inferInstance

/-- weaker: arrays may be `copyout`, but none of those is read in the region -/
def copyoutNotRead (s : RStmt) : Bool := (clauses s).cout.all (fun x => !isRead (sacc s) x)
def CopyoutNotRead (s : RStmt) : Prop := copyoutNotRead s = true
instance (s : RStmt) : Decidable (CopyoutNotRead s) := by unfold CopyoutNotRead; exact inferInstance

/-- weaker than `CopyoutNotRead`: a `copyout` array may be read, but only at elements covered
by an earlier unconditional store of the region (`chk` with the other variables as inputs) -/
def nonCout (s : RStmt) : List Nat :=
  (varsOf (sacc s)).filter (fun x => !(clauses s).cout.contains x)
def CopyoutCovered (s : RStmt) : Prop := (chk (nonCout s) s ([], [])).isSome = true
instance (s : RStmt) : Decidable (CopyoutCovered s) := by unfold CopyoutCovered; exact inferInstance

end RegionData
