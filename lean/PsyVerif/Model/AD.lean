import PsyVerif.Model.MiniF
/-! # C19 — linear tangent-linear programs and PSyAD's adjoint construction

The subset of Fortran that PSyAD's `AssignmentTrans.validate` / `AdjointVisitor` accept, in
*linear form*:  every assignment is `x = Σ_k ± c_k · y_k` where `x`, `y_k` are references to
active variables (scalars or array elements whose subscripts are passive expressions) and the
coefficients `c_k` are passive expressions (`MiniF.Expr`, evaluated in the passive store);
`x = 0.0` is the empty sum.  Statements: sequence, DO loop with arbitrary passive
bounds/step, IF on a passive condition.

`adjoint` mirrors `AdjointVisitor.schedule_node/loop_node/ifblock_node/assignment_node` and
`AssignmentTrans.apply` of `src/psyclone/psyad` statement by statement:

* schedule: active statements are visited in reversed order;
* assignment: for every term `± c·y` whose reference differs (syntactically — the code asks
  `SymbolicMaths.equal`) from the LHS: `y = y ± c·x`, emitted in source order; the terms that
  reference the LHS itself are *deferred* and emitted last as one statement `x = c₁·x ± c₂·x …`
  (nothing at all if the only such term is the bare `+x`); `x = 0.0` if there is none;
* loop: `do v = hi - MOD(hi - lo, step), lo, -step` (just `hi` when the step is the literal
  `1`/`-1`), `-step` built by `negate_expr`;
* IF: same condition, both bodies processed as schedules.

The model follows the FIXED code for two defects this check found in the pinned tree (now
committed in /repo; patches kept as `fixes/C19-assignment-increment-sign.patch`,
`fixes/C19-loop-offset-parenthesise-start.patch`): the sign of the *first* deferred increment
term is kept (the pinned code dropped it: `z = a - z` had the adjoint `a = a + z` and nothing
else), and the offset is `MOD(hi - (lo), step)` as a tree (the pinned code pasted the text
`hi-lo` without parentheses).  `adjAssignPinned` keeps the pinned behaviour of the first defect
for the witness theorem.  Two further defect classes are *modelled as they are* (no local
fix keeps the test-suite's expected strings): the zero-trip case of the offset rule and
run-time aliasing that `SymbolicMaths.equal` cannot see; `safe` excludes exactly those.

Two semantics.  `sem p ρ a` keeps the passive store `ρ` read-only (loop variables are bound
per iteration, passive assignments are no-ops): it is the mathematical reading used by the
transpose theorem.  `run p ρ a` is the Fortran reading (same conventions as `MiniF.exec`): passive
assignments update `ρ`, a DO variable keeps `lo + trip·step` after its loop.  The two agree
on programs without passive assignments whose loop variables are only read inside their loops.

`adjoint` models `schedule_node` faithfully: a right-nested `seq` tree is one schedule; its
*passive* children (no active variable anywhere: passive assignments, and IFs/loops made of
them) are kept, in order, in FRONT of the reversed adjoints of the active children (`pas`,
`act`).  With passive assignments interleaved with active statements this hoisting is not
semantics-preserving (known findings, witnesses in Props).

Array notation: `sec ev cnt lhs ts` is an assignment to an array section that stayed in array
notation after preprocessing.  The exporter introduces an element counter `ev` (0-based,
`cnt` elements) and writes every section subscript `lo:hi:st` as `lo + ev*st`, so `lhs`/`ts` are
the *element* statement; the semantics evaluates every right-hand side in the initial state
before any element is stored (Fortran array assignment).  `AssignmentTrans` in array notation
treats every RHS reference to the LHS *array* as an increment, which is only right because
`_array_ranges_match` accepts such a reference only with identical subscripts (`secOK`).
Core Lean only. -/
namespace C19
open MiniF

/-- reference to an active variable: scalars use `i = j = lit 0`, rank-1 arrays `j = lit 0` -/
structure ARef where
  arr : Nat
  i : Expr
  j : Expr
  deriving DecidableEq, Repr, Inhabited

/-- one term `± coef · ref` of a right-hand side.  `neg` is the operator the code computes by
walking up through the enclosing `SUB` nodes; `coef` is the term with the active reference
replaced by `1` -/
structure Term where
  neg : Bool
  coef : Expr
  ref : ARef
  deriving DecidableEq, Repr, Inhabited

inductive Stmt where
  | skip
  | seq (a b : Stmt)
  | assign (lhs : ARef) (terms : List Term)
  | ite (c : Expr) (t f : Stmt)
  | loop (v : Nat) (lo hi step : Expr) (body : Stmt)
  /-- assignment to a passive scalar -/
  | passign (x : Nat) (e : Expr)
  /-- array-section assignment: element counter `ev`, element count `cnt`, element statement `lhs = Σ ts` -/
  | sec (ev : Nat) (cnt : Expr) (lhs : ARef) (terms : List Term)
  deriving DecidableEq, Repr, Inhabited

/-! ## Semantics -/

def ARef.loc (r : ARef) (ρ : Store) : Loc := (r.arr, eval r.i ρ, eval r.j ρ)

/-- signed value of the coefficient -/
def Term.k (t : Term) (ρ : Store) : Int := if t.neg then -(eval t.coef ρ) else eval t.coef ρ

def Term.val (t : Term) (ρ a : Store) : Int := t.k ρ * a (t.ref.loc ρ)

def rhsVal : List Term → Store → Store → Int
  | [], _, _ => 0
  | t :: ts, ρ, a => t.val ρ a + rhsVal ts ρ a

/-- the values `lo, lo+step, …` taken by a DO variable in `n` trips -/
def iterVals (lo step : Int) : Nat → List Int
  | 0 => []
  | n + 1 => lo :: iterVals (lo + step) step n

/-- Fortran DO loop: bounds and step evaluated once, trip count `MiniF.trip` -/
def iters (lo hi step : Int) : List Int := iterVals lo step (trip lo hi step)

/-- element numbers `0 … n-1` of a section with `n` elements -/
def secIdx (n : Int) : List Int := iterVals 0 1 n.toNat

/-- Fortran array assignment: all right-hand sides are evaluated in the state `a` before the stores -/
def secSem (ev : Nat) (cnt : Expr) (l : ARef) (ts : List Term) (ρ a : Store) : Store :=
  (secIdx (eval cnt ρ)).foldl
    (fun acc e => acc.set (l.loc (ρ.set (ev, 0, 0) e)) (rhsVal ts (ρ.set (ev, 0, 0) e) a)) a

/-- `sem p ρ a`: the active state after running `p` from active state `a`; `ρ` is the passive
store (read-only; the loop variable is bound for the body; passive assignments do nothing). -/
def sem : Stmt → Store → Store → Store
  | .skip, _, a => a
  | .seq p q, ρ, a => sem q ρ (sem p ρ a)
  | .assign l ts, ρ, a => a.set (l.loc ρ) (rhsVal ts ρ a)
  | .ite c t f, ρ, a => if eval c ρ ≠ 0 then sem t ρ a else sem f ρ a
  | .loop v lo hi st b, ρ, a =>
      (iters (eval lo ρ) (eval hi ρ) (eval st ρ)).foldl (fun a i => sem b (ρ.set (v, 0, 0) i) a) a
  | .passign _ _, _, a => a
  | .sec ev cnt l ts, ρ, a => secSem ev cnt l ts ρ a

/-- `run p ρ a`: the Fortran reading.  Passive assignments update the passive store, a DO
variable is set at the start of every iteration and holds `lo + trip·step` after the loop. -/
def run : Stmt → Store → Store → Store × Store
  | .skip, ρ, a => (ρ, a)
  | .seq p q, ρ, a => run q (run p ρ a).1 (run p ρ a).2
  | .assign l ts, ρ, a => (ρ, a.set (l.loc ρ) (rhsVal ts ρ a))
  | .ite c t f, ρ, a => if eval c ρ ≠ 0 then run t ρ a else run f ρ a
  | .loop v lo hi st b, ρ, a =>
      let r := (iters (eval lo ρ) (eval hi ρ) (eval st ρ)).foldl
        (fun s i => run b (s.1.set (v, 0, 0) i) s.2) (ρ, a)
      (r.1.set (v, 0, 0) (eval lo ρ + (trip (eval lo ρ) (eval hi ρ) (eval st ρ) : Int) * eval st ρ), r.2)
  | .passign x e, ρ, a => (ρ.set (x, 0, 0) (eval e ρ), a)
  | .sec ev cnt l ts, ρ, a => (ρ, secSem ev cnt l ts ρ a)

/-! ## The adjoint construction -/

def seqs : List Stmt → Stmt
  | [] => .skip
  | s :: rest => .seq s (seqs rest)

/-- `negate_expr` of `psyad/utils.py` -/
def negate : Expr → Expr
  | .lit n => if n < 0 then .lit (-n) else .un .neg (.lit n)
  | .un .neg e => e
  | e => .bin .mul (.lit (-1)) e

/-- `isinstance(step, Literal) and step.value.strip() in ["1", "-1"]` -/
def isUnitLit : Expr → Bool
  | .lit n => n == 1 || n == -1
  | _ => false

/-- start expression of the reversed loop -/
def revStart (lo hi st : Expr) : Expr :=
  if isUnitLit st then hi else .bin .sub hi (.bin .mod (.bin .sub hi lo) st)

/-- adjoint of one non-increment term `± c·y` of `x = …`:  `y = y ± c·x` -/
def adjTerm (lhs : ARef) (t : Term) : Stmt :=
  .assign t.ref [⟨false, .lit 1, t.ref⟩, ⟨t.neg, t.coef, lhs⟩]

def isInc (lhs : ARef) (t : Term) : Bool := t.ref == lhs

/-- the deferred increment statement of the FIXED code: the first term's sign is folded into
a unary minus, later terms keep their operator -/
def deferredTerms (lhs : ARef) : List Term → List Term
  | [] => []
  | t :: ts => ⟨false, if t.neg then .un .neg t.coef else t.coef, lhs⟩ ::
      ts.map (fun u => ⟨u.neg, u.coef, lhs⟩)

/-- the pinned code: `rhs, _ = deferred_inc.pop(0)` forgets the first operator -/
def deferredTermsPinned (lhs : ARef) : List Term → List Term
  | [] => []
  | t :: ts => ⟨false, t.coef, lhs⟩ :: ts.map (fun u => ⟨u.neg, u.coef, lhs⟩)

def isBareRef (t : Term) : Bool := t.coef == .lit 1

/-- the statement(s) emitted last by `AssignmentTrans.apply` (fixed) for the deferred increment terms -/
def adjTail (lhs : ARef) (incs : List Term) : List Stmt :=
  match incs with
  | [] => [.assign lhs []]
  | [t] => if isBareRef t && !t.neg then [] else [.assign lhs (deferredTerms lhs incs)]
  | _ => [.assign lhs (deferredTerms lhs incs)]

/-- `AssignmentTrans.apply` (fixed): list of statements replacing `lhs = Σ ts` -/
def adjAssign (lhs : ARef) (ts : List Term) : List Stmt :=
  (ts.filter (fun t => !isInc lhs t)).map (adjTerm lhs) ++ adjTail lhs (ts.filter (isInc lhs))

/-- as pinned: the bare-reference shortcut ignores the operator, the first operator is dropped -/
def adjTailPinned (lhs : ARef) (incs : List Term) : List Stmt :=
  match incs with
  | [] => [.assign lhs []]
  | [t] => if isBareRef t then [] else [.assign lhs (deferredTermsPinned lhs incs)]
  | _ => [.assign lhs (deferredTermsPinned lhs incs)]

/-- `AssignmentTrans.apply` as pinned (sign of the first deferred term dropped) -/
def adjAssignPinned (lhs : ARef) (ts : List Term) : List Stmt :=
  (ts.filter (fun t => !isInc lhs t)).map (adjTerm lhs) ++ adjTailPinned lhs (ts.filter (isInc lhs))

/-- array notation: `apply` decides "increment" by the SYMBOL only (`node.lhs.symbol is ref.symbol`) -/
def isIncS (lhs : ARef) (t : Term) : Bool := t.ref.arr == lhs.arr

/-- `_array_ranges_match`: a RHS reference to the LHS array is accepted only with identical subscripts -/
def secOK (lhs : ARef) (ts : List Term) : Bool := ts.all fun t => !(t.ref.arr == lhs.arr) || t.ref == lhs

def adjSecTerm (ev : Nat) (cnt : Expr) (lhs : ARef) (t : Term) : Stmt :=
  .sec ev cnt t.ref [⟨false, .lit 1, t.ref⟩, ⟨t.neg, t.coef, lhs⟩]

def adjSecTail (ev : Nat) (cnt : Expr) (lhs : ARef) (incs : List Term) : List Stmt :=
  match incs with
  | [] => [.sec ev cnt lhs []]
  | [t] => if isBareRef t && !t.neg then [] else [.sec ev cnt lhs (deferredTerms lhs incs)]
  | _ => [.sec ev cnt lhs (deferredTerms lhs incs)]

/-- `AssignmentTrans.apply` on an assignment that is in array notation -/
def adjSec (ev : Nat) (cnt : Expr) (lhs : ARef) (ts : List Term) : List Stmt :=
  (ts.filter (fun t => !isIncS lhs t)).map (adjSecTerm ev cnt lhs) ++ adjSecTail ev cnt lhs (ts.filter (isIncS lhs))

/-- `node_is_passive`: no active variable anywhere in the statement -/
def isPassive : Stmt → Bool
  | .skip => true
  | .seq a b => isPassive a && isPassive b
  | .assign _ _ => false
  | .ite _ t f => isPassive t && isPassive f
  | .loop _ _ _ _ b => isPassive b
  | .passign _ _ => true
  | .sec _ _ _ _ => false

/-- the passive children of a schedule (a `seq` tree), in order: `schedule_node` copies them first -/
def pas : Stmt → Stmt
  | .skip => .skip
  | .seq a b => .seq (pas a) (pas b)
  | s => if isPassive s then s else .skip

/-- the adjoints of the active children of a schedule, in reversed order; IF and loop bodies are
schedules of their own -/
def act : Stmt → Stmt
  | .skip => .skip
  | .seq a b => .seq (act b) (act a)
  | .assign l ts => seqs (adjAssign l ts)
  | .sec ev cnt l ts => seqs (adjSec ev cnt l ts)
  | .passign _ _ => .skip
  | .ite c t f =>
      if isPassive t && isPassive f then .skip
      else .ite c (.seq (pas t) (act t)) (.seq (pas f) (act f))
  | .loop v lo hi st b =>
      if isPassive b then .skip
      else .loop v (revStart lo hi st) lo (negate st) (.seq (pas b) (act b))

/-- `AdjointVisitor.schedule_node`: passive children first, then the reversed adjoints -/
def adjoint (p : Stmt) : Stmt := .seq (pas p) (act p)

/-- `schedule_node` on a Routine: local active scalars are zeroed first -/
def adjointRoutine (locals : List Nat) (p : Stmt) : Stmt :=
  .seq (seqs (locals.map fun x => .assign ⟨x, .lit 0, .lit 0⟩ [])) (adjoint p)

/-! ## The two defect classes that are modelled as they are -/

/-- the offset rule runs one spurious iteration (at `lo`) exactly when the original loop has
zero trips but `hi` is less than one step beyond `lo` on the wrong side -/
def spurious (lo hi s : Int) : Bool :=
  (decide (0 < s) && decide (lo - s < hi) && decide (hi < lo)) ||
  (decide (s < 0) && decide (lo < hi) && decide (hi < lo - s))

/-- no run-time alias between the LHS and a term that the code did not recognise as an increment -/
def noHiddenAlias (lhs : ARef) (ts : List Term) (ρ : Store) : Bool :=
  ts.all fun t => t.ref == lhs || decide (t.ref.loc ρ ≠ lhs.loc ρ)

/-- the locations of a reference for the elements of a section -/
def secLocs (ev : Nat) (cnt : Expr) (r : ARef) (ρ : Store) : List Loc :=
  (secIdx (eval cnt ρ)).map fun e => r.loc (ρ.set (ev, 0, 0) e)

/-- a section statement is conformable: the LHS and every RHS reference address pairwise distinct
elements (a scalar on the RHS of an array assignment, for which PSyAD emits the invalid
`s = s + c*x(:)`, is excluded) -/
def secInj (ev : Nat) (cnt : Expr) (l : ARef) (ts : List Term) (ρ : Store) : Bool :=
  decide (secLocs ev cnt l ρ).Nodup && ts.all fun t => decide (secLocs ev cnt t.ref ρ).Nodup

/-- `safe p ρ`: executing `p` under `ρ` never meets a hidden alias nor a loop whose reversed
bounds are spurious (unit literal steps never are); section statements satisfy the acceptance
rule of `_array_ranges_match` and are conformable. -/
def safe : Stmt → Store → Bool
  | .skip, _ => true
  | .seq a b, ρ => safe a ρ && safe b ρ
  | .assign l ts, ρ => noHiddenAlias l ts ρ
  | .ite c t f, ρ => if eval c ρ ≠ 0 then safe t ρ else safe f ρ
  | .loop v lo hi st b, ρ =>
      (isUnitLit st || !spurious (eval lo ρ) (eval hi ρ) (eval st ρ)) &&
      (iters (eval lo ρ) (eval hi ρ) (eval st ρ)).all fun i => safe b (ρ.set (v, 0, 0) i)
  | .passign _ _, _ => true
  | .sec ev cnt l ts, ρ => secOK l ts && secInj ev cnt l ts ρ

/-- the active locations `p` reads or writes under `ρ` -/
def touched : Stmt → Store → List Loc
  | .skip, _ => []
  | .seq a b, ρ => touched a ρ ++ touched b ρ
  | .assign l ts, ρ => l.loc ρ :: ts.map (fun t => t.ref.loc ρ)
  | .ite c t f, ρ => if eval c ρ ≠ 0 then touched t ρ else touched f ρ
  | .loop v lo hi st b, ρ =>
      (iters (eval lo ρ) (eval hi ρ) (eval st ρ)).flatMap fun i => touched b (ρ.set (v, 0, 0) i)
  | .passign _ _, _ => []
  | .sec ev cnt l ts, ρ =>
      (secIdx (eval cnt ρ)).flatMap fun e =>
        l.loc (ρ.set (ev, 0, 0) e) :: ts.map (fun t => t.ref.loc (ρ.set (ev, 0, 0) e))

/-- arrays (ids) assigned by a program, and the loop variables it binds -/
def lhsArrs : Stmt → List Nat
  | .skip => []
  | .seq a b => lhsArrs a ++ lhsArrs b
  | .assign l _ => [l.arr]
  | .ite _ t f => lhsArrs t ++ lhsArrs f
  | .loop _ _ _ _ b => lhsArrs b
  | .passign _ _ => []
  | .sec _ _ l _ => [l.arr]

def activeArrs : Stmt → List Nat
  | .skip => []
  | .seq a b => activeArrs a ++ activeArrs b
  | .assign l ts => l.arr :: ts.map (fun t => t.ref.arr)
  | .ite _ t f => activeArrs t ++ activeArrs f
  | .loop _ _ _ _ b => activeArrs b
  | .passign _ _ => []
  | .sec _ _ l ts => l.arr :: ts.map (fun t => t.ref.arr)

def loopVars : Stmt → List Nat
  | .skip => []
  | .seq a b => loopVars a ++ loopVars b
  | .assign _ _ => []
  | .ite _ t f => loopVars t ++ loopVars f
  | .loop v _ _ _ b => v :: loopVars b
  | .passign _ _ => []
  | .sec _ _ _ _ => []

/-- passive scalars assigned by a program -/
def passiveAssigned : Stmt → List Nat
  | .skip => []
  | .seq a b => passiveAssigned a ++ passiveAssigned b
  | .assign _ _ => []
  | .ite _ t f => passiveAssigned t ++ passiveAssigned f
  | .loop _ _ _ _ b => passiveAssigned b
  | .passign x _ => [x]
  | .sec _ _ _ _ => []

/-! ## Acceptance: what PSyAD refuses inside this statement language -/

/-- variables (scalars and arrays) an expression reads -/
def exprVars : Expr → List Nat
  | .lit _ => []
  | .var x => [x]
  | .idx1 a i => a :: exprVars i
  | .idx2 a i j => a :: (exprVars i ++ exprVars j)
  | .un _ e => exprVars e
  | .bin _ a b => exprVars a ++ exprVars b

/-- an expression in a passive position mentions no active variable -/
def passiveExpr (A : List Nat) (e : Expr) : Bool := (exprVars e).all fun x => !A.contains x

def refOK (A : List Nat) (r : ARef) : Bool := A.contains r.arr && passiveExpr A r.i && passiveExpr A r.j

/-- a term is linear: one active reference times a passive coefficient -/
def termOK (A : List Nat) (t : Term) : Bool := refOK A t.ref && passiveExpr A t.coef

/-- `Accepted A p`: with active variables `A`, PSyAD does not refuse `p`.  Refusals mirrored:
a second active variable in a term (non-linear, `TangentLinearError`), active variables in
subscripts, loop bounds/steps, the loop variable or an IF condition (`VisitorError`), a passive
LHS with an active RHS (`TangentLinearError`), and in array notation a RHS reference to the LHS
array whose subscripts differ from the LHS (`_array_ranges_match`, `NotImplementedError`). -/
def Accepted (A : List Nat) : Stmt → Bool
  | .skip => true
  | .seq a b => Accepted A a && Accepted A b
  | .assign l ts => refOK A l && ts.all (termOK A)
  | .ite c t f => passiveExpr A c && Accepted A t && Accepted A f
  | .loop v lo hi st b =>
      !A.contains v && passiveExpr A lo && passiveExpr A hi && passiveExpr A st && Accepted A b
  | .passign x e => !A.contains x && passiveExpr A e
  | .sec ev cnt l ts =>
      !A.contains ev && passiveExpr A cnt && refOK A l && ts.all (termOK A) && secOK l ts

/-- subscript of the exporter's shape `lo + ev*st` with a non-zero literal stride and `lo` free of `ev` -/
def affineIn (ev : Nat) : Expr → Bool
  | .bin .add lo (.bin .mul (.var x) (.lit st)) => x == ev && st != 0 && !(exprVars lo).contains ev
  | _ => false

/-- a reference that provably addresses distinct elements for distinct element numbers -/
def refInjStatic (ev : Nat) (r : ARef) : Bool := affineIn ev r.i || affineIn ev r.j

/-- syntactic exclusion of the known-finding classes: literal unit steps; the LHS array appears
on a RHS only through the LHS reference itself; section references are affine in the counter -/
def staticallySafe : Stmt → Bool
  | .skip => true
  | .seq a b => staticallySafe a && staticallySafe b
  | .assign l ts => ts.all fun t => t.ref == l || t.ref.arr != l.arr
  | .ite _ t f => staticallySafe t && staticallySafe f
  | .loop _ _ _ st b => isUnitLit st && staticallySafe b
  | .passign _ _ => true
  | .sec ev _ l ts => secOK l ts && refInjStatic ev l && ts.all fun t => refInjStatic ev t.ref

/-- no assignment to a passive variable -/
def pureAD : Stmt → Bool
  | .skip => true
  | .seq a b => pureAD a && pureAD b
  | .assign _ _ => true
  | .ite _ t f => pureAD t && pureAD f
  | .loop _ _ _ _ b => pureAD b
  | .passign _ _ => false
  | .sec _ _ _ _ => true

/-! ## Scoping of loop variables (when the two readings `sem` and `run` coincide) -/

/-- the expression reads a loop variable of `LV` only while it is bound -/
def exprScoped (LV bound : List Nat) (e : Expr) : Bool :=
  (exprVars e).all fun x => !LV.contains x || bound.contains x

def refScoped (LV bound : List Nat) (r : ARef) : Bool := exprScoped LV bound r.i && exprScoped LV bound r.j

def termScoped (LV bound : List Nat) (t : Term) : Bool := refScoped LV bound t.ref && exprScoped LV bound t.coef

/-- every read of a variable of `LV` happens inside a loop that binds it; a loop does not
re-bind a variable that is already bound; section counters are not loop variables -/
def scopedIn (LV : List Nat) : List Nat → Stmt → Bool
  | _, .skip => true
  | bound, .seq a b => scopedIn LV bound a && scopedIn LV bound b
  | bound, .assign l ts => refScoped LV bound l && ts.all (termScoped LV bound)
  | bound, .ite c t f => exprScoped LV bound c && scopedIn LV bound t && scopedIn LV bound f
  | bound, .loop v lo hi st b =>
      LV.contains v && !bound.contains v && exprScoped LV bound lo && exprScoped LV bound hi &&
        exprScoped LV bound st && scopedIn LV (v :: bound) b
  | bound, .passign _ e => exprScoped LV bound e
  | bound, .sec ev cnt l ts =>
      !LV.contains ev && exprScoped LV bound cnt && refScoped LV bound l && ts.all (termScoped LV bound)

/-- loop variables are only read inside their loops -/
def wellScoped (p : Stmt) : Bool := scopedIn (loopVars p) [] p

/-- flattening used for the canonical printed form -/
def flat : Stmt → List Stmt
  | .skip => []
  | .seq a b => flat a ++ flat b
  | s => [s]

end C19
