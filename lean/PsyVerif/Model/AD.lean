import PsyVerif.Model.MiniF
/-! # C19 — linear tangent-linear programs and PSyAD's adjoint construction

The subset of Fortran that PSyAD's `AssignmentTrans.validate` / `AdjointVisitor` accept, in
*linear form*:  every assignment is `x = Σ_k ± c_k · y_k` where `x`, `y_k` are references to
active variables (scalars or array elements whose subscripts are passive expressions) and the
coefficients `c_k` are passive expressions (`MiniF.Expr`, evaluated in the passive store);
`x = 0.0` is the empty sum.  Statements: sequence, DO loop with arbitrary passive
bounds/step, IF on a passive condition.

`adjoint` mirrors `AdjointVisitor.schedule_node/loop_node/ifblock_node/assignment_node` and
`AssignmentTrans.apply` of `src/psyclone/psyad` statement by statement:

* schedule: active statements are visited in reversed order;
* assignment: for every term `± c·y` whose reference differs (syntactically — the code asks
  `SymbolicMaths.equal`) from the LHS: `y = y ± c·x`, emitted in source order; the terms that
  reference the LHS itself are *deferred* and emitted last as one statement `x = c₁·x ± c₂·x …`
  (nothing at all if the only such term is the bare `+x`); `x = 0.0` if there is none;
* loop: `do v = hi - MOD(hi - lo, step), lo, -step` (just `hi` when the step is the literal
  `1`/`-1`), `-step` built by `negate_expr`;
* IF: same condition, both bodies processed as schedules.

FIX MODE for two defects of the pinned tree (patches `fixes/C19-assignment-increment-sign.patch`,
`fixes/C19-loop-offset-parenthesise-start.patch`): the sign of the *first* deferred increment
term is kept (the pinned code drops it: `z = a - z` has the adjoint `a = a + z` and nothing
else), and the offset is `MOD(hi - (lo), step)` as a tree (the pinned code pastes the text
`hi-lo` without parentheses).  `adjointPinned…` keeps the pinned behaviour of the first defect
for the witness theorem.  Two further defect classes are *modelled as they are* (no local
fix keeps the test-suite's expected strings): the zero-trip case of the offset rule and
run-time aliasing that `SymbolicMaths.equal` cannot see; `safe` excludes exactly those.

The passive store is read-only: loop variables are bound per iteration (scoped), there are
no assignments to passive variables in this model (PSyAD hoists passive statements to the
front of their schedule; that is checked on the real code only).  Core Lean only. -/
namespace C19
open MiniF

/-- reference to an active variable: scalars use `i = j = lit 0`, rank-1 arrays `j = lit 0` -/
structure ARef where
  arr : Nat
  i : Expr
  j : Expr
  deriving DecidableEq, Repr, Inhabited

/-- one term `± coef · ref` of a right-hand side.  `neg` is the operator the code computes by
walking up through the enclosing `SUB` nodes; `coef` is the term with the active reference
replaced by `1` -/
structure Term where
  neg : Bool
  coef : Expr
  ref : ARef
  deriving DecidableEq, Repr, Inhabited

inductive Stmt where
  | skip
  | seq (a b : Stmt)
  | assign (lhs : ARef) (terms : List Term)
  | ite (c : Expr) (t f : Stmt)
  | loop (v : Nat) (lo hi step : Expr) (body : Stmt)
  deriving DecidableEq, Repr, Inhabited

/-! ## Semantics -/

def ARef.loc (r : ARef) (ρ : Store) : Loc := (r.arr, eval r.i ρ, eval r.j ρ)

/-- signed value of the coefficient -/
def Term.k (t : Term) (ρ : Store) : Int := if t.neg then -(eval t.coef ρ) else eval t.coef ρ

def Term.val (t : Term) (ρ a : Store) : Int := t.k ρ * a (t.ref.loc ρ)

def rhsVal : List Term → Store → Store → Int
  | [], _, _ => 0
  | t :: ts, ρ, a => t.val ρ a + rhsVal ts ρ a

/-- the values `lo, lo+step, …` taken by a DO variable in `n` trips -/
def iterVals (lo step : Int) : Nat → List Int
  | 0 => []
  | n + 1 => lo :: iterVals (lo + step) step n

/-- Fortran DO loop: bounds and step evaluated once, trip count `MiniF.trip` -/
def iters (lo hi step : Int) : List Int := iterVals lo step (trip lo hi step)

/-- `sem p ρ a`: the active state after running `p` from active state `a`; `ρ` is the passive
store (read-only; the loop variable is bound for the body). -/
def sem : Stmt → Store → Store → Store
  | .skip, _, a => a
  | .seq p q, ρ, a => sem q ρ (sem p ρ a)
  | .assign l ts, ρ, a => a.set (l.loc ρ) (rhsVal ts ρ a)
  | .ite c t f, ρ, a => if eval c ρ ≠ 0 then sem t ρ a else sem f ρ a
  | .loop v lo hi st b, ρ, a =>
      (iters (eval lo ρ) (eval hi ρ) (eval st ρ)).foldl (fun a i => sem b (ρ.set (v, 0, 0) i) a) a

/-! ## The adjoint construction -/

def seqs : List Stmt → Stmt
  | [] => .skip
  | s :: rest => .seq s (seqs rest)

/-- `negate_expr` of `psyad/utils.py` -/
def negate : Expr → Expr
  | .lit n => if n < 0 then .lit (-n) else .un .neg (.lit n)
  | .un .neg e => e
  | e => .bin .mul (.lit (-1)) e

/-- `isinstance(step, Literal) and step.value.strip() in ["1", "-1"]` -/
def isUnitLit : Expr → Bool
  | .lit n => n == 1 || n == -1
  | _ => false

/-- start expression of the reversed loop -/
def revStart (lo hi st : Expr) : Expr :=
  if isUnitLit st then hi else .bin .sub hi (.bin .mod (.bin .sub hi lo) st)

/-- adjoint of one non-increment term `± c·y` of `x = …`:  `y = y ± c·x` -/
def adjTerm (lhs : ARef) (t : Term) : Stmt :=
  .assign t.ref [⟨false, .lit 1, t.ref⟩, ⟨t.neg, t.coef, lhs⟩]

def isInc (lhs : ARef) (t : Term) : Bool := t.ref == lhs

/-- the deferred increment statement of the FIXED code: the first term's sign is folded into
a unary minus, later terms keep their operator -/
def deferredTerms (lhs : ARef) : List Term → List Term
  | [] => []
  | t :: ts => ⟨false, if t.neg then .un .neg t.coef else t.coef, lhs⟩ ::
      ts.map (fun u => ⟨u.neg, u.coef, lhs⟩)

/-- the pinned code: `rhs, _ = deferred_inc.pop(0)` forgets the first operator -/
def deferredTermsPinned (lhs : ARef) : List Term → List Term
  | [] => []
  | t :: ts => ⟨false, t.coef, lhs⟩ :: ts.map (fun u => ⟨u.neg, u.coef, lhs⟩)

def isBareRef (t : Term) : Bool := t.coef == .lit 1

/-- the statement(s) emitted last by `AssignmentTrans.apply` (fixed) for the deferred increment terms -/
def adjTail (lhs : ARef) (incs : List Term) : List Stmt :=
  match incs with
  | [] => [.assign lhs []]
  | [t] => if isBareRef t && !t.neg then [] else [.assign lhs (deferredTerms lhs incs)]
  | _ => [.assign lhs (deferredTerms lhs incs)]

/-- `AssignmentTrans.apply` (fixed): list of statements replacing `lhs = Σ ts` -/
def adjAssign (lhs : ARef) (ts : List Term) : List Stmt :=
  (ts.filter (fun t => !isInc lhs t)).map (adjTerm lhs) ++ adjTail lhs (ts.filter (isInc lhs))

/-- as pinned: the bare-reference shortcut ignores the operator, the first operator is dropped -/
def adjTailPinned (lhs : ARef) (incs : List Term) : List Stmt :=
  match incs with
  | [] => [.assign lhs []]
  | [t] => if isBareRef t then [] else [.assign lhs (deferredTermsPinned lhs incs)]
  | _ => [.assign lhs (deferredTermsPinned lhs incs)]

/-- `AssignmentTrans.apply` as pinned (sign of the first deferred term dropped) -/
def adjAssignPinned (lhs : ARef) (ts : List Term) : List Stmt :=
  (ts.filter (fun t => !isInc lhs t)).map (adjTerm lhs) ++ adjTailPinned lhs (ts.filter (isInc lhs))

/-- `AdjointVisitor` on the active part of a schedule -/
def adjoint : Stmt → Stmt
  | .skip => .skip
  | .seq a b => .seq (adjoint b) (adjoint a)
  | .assign l ts => seqs (adjAssign l ts)
  | .ite c t f => .ite c (adjoint t) (adjoint f)
  | .loop v lo hi st b => .loop v (revStart lo hi st) lo (negate st) (adjoint b)

def adjointPinned : Stmt → Stmt
  | .skip => .skip
  | .seq a b => .seq (adjointPinned b) (adjointPinned a)
  | .assign l ts => seqs (adjAssignPinned l ts)
  | .ite c t f => .ite c (adjointPinned t) (adjointPinned f)
  | .loop v lo hi st b => .loop v (revStart lo hi st) lo (negate st) (adjointPinned b)

/-- `schedule_node` on a Routine: local active scalars are zeroed first -/
def adjointRoutine (locals : List Nat) (p : Stmt) : Stmt :=
  .seq (seqs (locals.map fun x => .assign ⟨x, .lit 0, .lit 0⟩ [])) (adjoint p)

/-! ## The two defect classes that are modelled as they are -/

/-- the offset rule runs one spurious iteration (at `lo`) exactly when the original loop has
zero trips but `hi` is less than one step beyond `lo` on the wrong side -/
def spurious (lo hi s : Int) : Bool :=
  (decide (0 < s) && decide (lo - s < hi) && decide (hi < lo)) ||
  (decide (s < 0) && decide (lo < hi) && decide (hi < lo - s))

/-- no run-time alias between the LHS and a term that the code did not recognise as an increment -/
def noHiddenAlias (lhs : ARef) (ts : List Term) (ρ : Store) : Bool :=
  ts.all fun t => t.ref == lhs || decide (t.ref.loc ρ ≠ lhs.loc ρ)

/-- `safe p ρ`: executing `p` under `ρ` never meets a hidden alias nor a loop whose reversed
bounds are spurious (unit literal steps never are). -/
def safe : Stmt → Store → Bool
  | .skip, _ => true
  | .seq a b, ρ => safe a ρ && safe b ρ
  | .assign l ts, ρ => noHiddenAlias l ts ρ
  | .ite c t f, ρ => if eval c ρ ≠ 0 then safe t ρ else safe f ρ
  | .loop v lo hi st b, ρ =>
      (isUnitLit st || !spurious (eval lo ρ) (eval hi ρ) (eval st ρ)) &&
      (iters (eval lo ρ) (eval hi ρ) (eval st ρ)).all fun i => safe b (ρ.set (v, 0, 0) i)

/-- the active locations `p` reads or writes under `ρ` -/
def touched : Stmt → Store → List Loc
  | .skip, _ => []
  | .seq a b, ρ => touched a ρ ++ touched b ρ
  | .assign l ts, ρ => l.loc ρ :: ts.map (fun t => t.ref.loc ρ)
  | .ite c t f, ρ => if eval c ρ ≠ 0 then touched t ρ else touched f ρ
  | .loop v lo hi st b, ρ =>
      (iters (eval lo ρ) (eval hi ρ) (eval st ρ)).flatMap fun i => touched b (ρ.set (v, 0, 0) i)

/-- arrays (ids) assigned by a program, and the loop variables it binds -/
def lhsArrs : Stmt → List Nat
  | .skip => []
  | .seq a b => lhsArrs a ++ lhsArrs b
  | .assign l _ => [l.arr]
  | .ite _ t f => lhsArrs t ++ lhsArrs f
  | .loop _ _ _ _ b => lhsArrs b

def activeArrs : Stmt → List Nat
  | .skip => []
  | .seq a b => activeArrs a ++ activeArrs b
  | .assign l ts => l.arr :: ts.map (fun t => t.ref.arr)
  | .ite _ t f => activeArrs t ++ activeArrs f
  | .loop _ _ _ _ b => activeArrs b

def loopVars : Stmt → List Nat
  | .skip => []
  | .seq a b => loopVars a ++ loopVars b
  | .assign _ _ => []
  | .ite _ t f => loopVars t ++ loopVars f
  | .loop v _ _ _ b => v :: loopVars b

/-- flattening used for the canonical printed form -/
def flat : Stmt → List Stmt
  | .skip => []
  | .seq a b => flat a ++ flat b
  | s => [s]

end C19
