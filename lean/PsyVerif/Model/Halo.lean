/-! # C22 — LFRic distributed-memory halo exchanges: static model and dynamic specification

STATIC side: mirrors `/repo/src/psyclone/dynamo0p3.py` (`HaloReadAccess._compute_from_field`,
`HaloWriteAccess._compute_from_field`, `_create_depth_list`, `LFRicHaloExchange.required`,
`HaloDepth`), `/repo/src/psyclone/domain/lfric/lfric_loop.py` (`LFRicLoop.load` default bounds,
`_halo_read_access`, `create_halo_exchanges`, `_add_field_component_halo_exchange`,
`update_halo_exchanges`, `gen_mark_halos_clean_dirty`) and the schedule edits of
`Dynamo0p3RedundantComputationTrans`, `Dynamo0p3ColourTrans`, `Dynamo0p3AsyncHaloExchangeTrans`,
`MoveTrans` (`/repo/src/psyclone/transformations.py`).

DYNAMIC side (`specNeed`, `specAfter`, `stepF`, `runF`): an independent specification of what a
kernel loop reads and leaves correct, written from `doc/developer_guide/APIs.rst` (sections "Cell
iterators: Continuous", "Cell iterators: Discontinuous", "Dof iterators", "Halo Exchange Logic")
and the stencil section of `doc/user_guide/dynamo0p3.rst`.  It is part of the trusted base.

Scope of the model: fields of vector size 1, no inter-grid kernels, no operators; every loop holds
exactly one kernel; a field occurs at most once among the arguments of a kernel.
Core Lean only (the driver links this file natively). -/
namespace C22

/-! ## Abstract syntax -/

inductive Access where
  | read | write | readwrite | inc | readinc
  deriving DecidableEq, Repr, Inhabited

/-- `AccessType.all_read_accesses()` = READ, READWRITE, INC, READINC -/
def Access.reads : Access → Bool
  | .write => false
  | _ => true

/-- `AccessType.all_write_accesses()` restricted to fields = WRITE, READWRITE, INC, READINC -/
def Access.writes : Access → Bool
  | .read => false
  | _ => true

/-- stencil extent given in the algorithm layer: a literal or a variable (id) -/
inductive Extent where
  | lit (n : Nat)
  | var (v : Nat)
  deriving DecidableEq, Repr, Inhabited

structure Arg where
  field : Nat
  access : Access
  /-- `DynKernelArgument.discontinuous`: metadata space in `VALID_DISCONTINUOUS_NAMES` -/
  disc : Bool
  stencil : Option Extent
  deriving DecidableEq, Repr, Inhabited

structure Kern where
  /-- `iterates_over == "dof"` (built-ins); otherwise `cell_column` -/
  dofKernel : Bool
  args : List Arg
  deriving DecidableEq, Repr, Inhabited

/-- How far the loop iterates. PSyclone names: cell loops `ncells` (`ncolour` when coloured) /
`cell_halo(d)` (`colour_halo(d)`) / `cell_halo` without index = maximum depth; dof loops
`ndofs` / `nannexed` / `dof_halo(d)` / `dof_halo`. -/
inductive Level where
  | owned | annexed | halo (d : Nat) | haloMax
  deriving DecidableEq, Repr, Inhabited

structure Bound where
  lvl : Level
  coloured : Bool
  deriving DecidableEq, Repr, Inhabited

structure Cfg where
  /-- `Config.get().api_conf("lfric").compute_annexed_dofs` -/
  annexed : Bool
  deriving DecidableEq, Repr, Inhabited

/-- the (unique) argument of kernel `k` on field `f` -/
def argOf (k : Kern) (f : Nat) : Option Arg := k.args.find? (fun a => a.field == f)

/-- `LFRicKern.all_updates_are_writes` -/
def Kern.allWrites (k : Kern) : Bool :=
  k.args.all fun a => a.access == .read || a.access == .write

/-- upper bound name in `HALO_ACCESS_LOOP_BOUNDS` -/
def Level.isHalo : Level → Bool
  | .halo _ => true
  | .haloMax => true
  | _ => false

/-- `loop.upper_bound_halo_depth` is truthy -/
def Level.litDepth : Level → Nat
  | .halo d => d
  | _ => 0

/-! ## Static side: halo read / write information -/

/-- `HaloReadAccess` -/
structure ReadInfo where
  lit : Nat
  var : Option Nat
  maxDepth : Bool
  annexedOnly : Bool
  needsCleanOuter : Bool
  deriving DecidableEq, Repr, Inhabited

/-- `HaloReadAccess._compute_from_field` -/
def readInfo (k : Kern) (b : Bound) (a : Arg) : ReadInfo :=
  let nco := !(a.access == .inc && !k.dofKernel && b.lvl.isHalo)
  -- base access due to the loop bound
  let base : Nat × Bool × Bool :=            -- (literal, max, annexedOnly)
    if b.lvl.isHalo then
      (if b.lvl.litDepth != 0 then (b.lvl.litDepth, false, false) else (0, true, false))
    else if !k.dofKernel && b.coloured then (0, false, false)            -- "ncolour"
    else if (!k.dofKernel && b.lvl == .owned) || (k.dofKernel && b.lvl == .annexed) then
      -- "ncells" / "nannexed"
      if a.stencil.isSome then (0, false, false)
      else if a.disc || k.dofKernel || k.allWrites then (0, false, false)
      else (1, false, true)
    else (0, false, false)                                               -- "ndofs"
  match a.stencil with
  | none => ⟨base.1, none, base.2.1, base.2.2, nco⟩
  | some (.lit n) => ⟨base.1 + n, none, base.2.1, base.2.2, nco⟩
  | some (.var v) => ⟨base.1, some v, base.2.1, base.2.2, nco⟩

/-- `HaloDepth` as produced by `_create_depth_list` -/
structure HaloDepth where
  lit : Nat
  var : Option Nat
  maxDepth : Bool
  maxM1 : Bool
  annexedOnly : Bool
  deriving DecidableEq, Repr, Inhabited

/-- the matching loop of `_create_depth_list`: update the first entry with the same variable
(the `max_depth_m1` entry carries `var_depth=""` which never equals `None` or a name) or append. -/
def mergeDepth : List HaloDepth → Option Nat → Nat → List HaloDepth
  | [], v, l => if v.isSome || l > 0 then [⟨l, v, false, false, false⟩] else []
  | d :: ds, v, l =>
    if !d.maxM1 && d.var == v then { d with lit := max d.lit l } :: ds
    else d :: mergeDepth ds v l

/-- `_create_depth_list` -/
def depthList (infos : List ReadInfo) : List HaloDepth :=
  if infos.all (fun i => i.annexedOnly || (i.lit == 1 && !i.needsCleanOuter)) then
    [⟨1, none, false, false, true⟩]
  else if infos.any (fun i => i.maxDepth && i.needsCleanOuter) then
    [⟨0, none, true, false, false⟩]
  else
    let init : List HaloDepth :=
      if infos.any (fun i => i.maxDepth) then [⟨0, none, false, true, false⟩] else []
    infos.foldl (fun acc i =>
      if i.maxDepth && !i.needsCleanOuter then acc
      else
        let l := if i.lit != 0 && !i.needsCleanOuter then i.lit - 1 else i.lit
        mergeDepth acc i.var l) init

/-- `HaloWriteAccess` -/
structure WriteInfo where
  lit : Nat
  maxDepth : Bool
  dirtyOuter : Bool
  deriving DecidableEq, Repr, Inhabited

/-- `HaloWriteAccess._compute_from_field` -/
def writeInfo (k : Kern) (b : Bound) (a : Arg) : WriteInfo :=
  let dirtyOuter := !a.disc && !k.dofKernel && b.lvl.isHalo
  if b.lvl.isHalo then
    if b.lvl.litDepth != 0 then ⟨b.lvl.litDepth, false, dirtyOuter⟩ else ⟨0, true, dirtyOuter⟩
  else ⟨0, false, dirtyOuter⟩

/-- `LFRicHaloExchange.required`: `(required, known)`, with `fixes/C22-required-max-depth-m1.patch`
(an aggregated `max_depth-1` requirement is not a literal depth 0).
`req` = aggregated read information, `w` = previous writer (none: no write dependence). -/
def required (cfg : Cfg) (req : List HaloDepth) (w : Option WriteInfo) : Bool × Bool :=
  let r0 : HaloDepth := req.headD ⟨0, none, false, false, false⟩
  if cfg.annexed && req.length == 1 && r0.annexedOnly then (false, true)
  else match w with
  | none => (true, false)
  | some c =>
    if c.maxDepth then
      if !c.dirtyOuter then (false, true)
      else if r0.maxDepth then (true, true) else (true, false)
    else if c.lit == 0 then (true, true)
    else if c.lit == 1 && c.dirtyOuter then
      if req.length == 1 && r0.annexedOnly then (false, true) else (true, true)
    else
      let cleanDepth := if c.dirtyOuter then c.lit - 1 else c.lit
      if req.length > 1 && req.any (fun r => r.lit > cleanDepth) then (true, true)
      else if req.length == 1 then
        if r0.var.isSome || r0.maxDepth || r0.maxM1 then (true, false)   -- `maxM1`: fix C22-required-max-depth-m1
        else if cleanDepth < r0.lit then (true, true) else (false, true)
      else (true, false)

/-- `LFRicLoop._halo_read_access` for a field argument -/
def haloReadAccess (cfg : Cfg) (k : Kern) (b : Bound) (a : Arg) : Bool :=
  if !a.access.reads then false
  else if a.stencil.isSome then true
  else if b.lvl.isHalo then true
  else if !a.disc && !k.dofKernel && k.allWrites && b.lvl == .owned && !b.coloured then false
  else if !a.disc && ((!k.dofKernel && b.lvl == .owned && !b.coloured) ||
                      (k.dofKernel && b.lvl == .annexed)) then !cfg.annexed
  else false

/-- `LFRicLoop.load`: the default upper bound with distributed memory.
`isDisc` is the continuity of the iteration-space argument (`iteration_space_arg()`:
a modified continuous/any_space field if there is one). -/
def defaultBound (cfg : Cfg) (k : Kern) : Bound :=
  if k.dofKernel then
    -- reductions (no field is modified) iterate over owned dofs only
    ⟨if cfg.annexed && k.args.any (fun a => a.access.writes) then .annexed else .owned, false⟩
  else
    let written := k.args.filter (fun a => a.access.writes)
    let itDisc := if written.isEmpty then (k.args.headD default).disc
                  else written.all (fun a => a.disc)
    if itDisc then ⟨.owned, false⟩
    else if !k.allWrites then ⟨.halo 1, false⟩ else ⟨.owned, false⟩

/-! ## Schedules -/

inductive HexKind where
  | sync | start | finish
  deriving DecidableEq, Repr, Inhabited

inductive Item where
  | hex (kind : HexKind) (f : Nat)
  | loop (k : Kern) (b : Bound)
  deriving DecidableEq, Repr, Inhabited

abbrev Sched := List Item

/-- `Argument.forward_read_dependencies` of a halo exchange of `f` placed in front of `rest`,
with halo-exchange dependencies ignored: the arguments reading `f` up to and including the next
writer of `f`; a following (synchronous / end) exchange of `f` terminates the list and is dropped;
an exchange start only reads and is not a kernel reader. -/
def fwdReaders (f : Nat) : Sched → List (Kern × Bound × Arg)
  | [] => []
  | .hex kind g :: rest =>
    if g == f && kind != .start then [] else fwdReaders f rest
  | .loop k b :: rest =>
    match argOf k f with
    | none => fwdReaders f rest
    | some a =>
      if a.access.reads then
        (k, b, a) :: (if a.access.writes then [] else fwdReaders f rest)
      else []

/-- what `backward_write_dependencies` finds -/
inductive Prev where
  | none
  | hex
  | writer (k : Kern) (b : Bound) (a : Arg)
  deriving DecidableEq, Repr, Inhabited

/-- `Argument.backward_write_dependencies` scanning the reversed prefix -/
def bwdDep (f : Nat) : Sched → Prev
  | [] => .none
  | .hex kind g :: pre => if g == f && kind != .start then .hex else bwdDep f pre
  | .loop k b :: pre =>
    match argOf k f with
    | some a => if a.access.writes then .writer k b a else bwdDep f pre
    | none => bwdDep f pre

/-- the kernel writer behind a halo exchange of `f` (`_compute_halo_write_info`): exchanges of the
same field in between cannot occur in a consistent schedule; they are skipped. -/
def bwdWriter (f : Nat) : Sched → Option WriteInfo
  | [] => none
  | .hex _ _ :: pre => bwdWriter f pre
  | .loop k b :: pre =>
    match argOf k f with
    | some a => if a.access.writes then some (writeInfo k b a) else bwdWriter f pre
    | none => bwdWriter f pre

/-- aggregated depth information of an exchange of `f` in front of `rest` -/
def hexDepth (f : Nat) (rest : Sched) : List HaloDepth :=
  depthList ((fwdReaders f rest).map fun r => readInfo r.1 r.2.1 r.2.2)

/-- `required()` of an exchange of `f` with reversed prefix `pre` and suffix `rest` -/
def hexRequired (cfg : Cfg) (f : Nat) (pre rest : Sched) : Bool × Bool :=
  required cfg (hexDepth f rest) (bwdWriter f pre)

/-- `unique_fields_with_halo_reads` -/
def haloReadFields (cfg : Cfg) (k : Kern) (b : Bound) : List Nat :=
  ((k.args.filter (haloReadAccess cfg k b)).map (·.field)).eraseDups

/-- remove the first (synchronous / end) exchange of `f` that is met before any other writer of `f`
(the replaced exchange in `_add_field_component_halo_exchange`) -/
def dropNextHex (f : Nat) : Sched → Sched
  | [] => []
  | .hex kind g :: rest =>
    if g == f && kind != .start then rest else .hex kind g :: dropNextHex f rest
  | .loop k b :: rest =>
    match argOf k f with
    | some a => if a.access.writes then .loop k b :: rest else .loop k b :: dropNextHex f rest
    | none => .loop k b :: dropNextHex f rest

/-- `create_halo_exchanges` for the loop `(k, b)` with reversed prefix `pre` and suffix `rest`
(the suffix starts AFTER the loop).  Returns the new reversed prefix (exchanges added in front of
the loop) and the new suffix (a replaced exchange removed). -/
def createHex (cfg : Cfg) (k : Kern) (b : Bound) : List Nat → Sched → Sched → Sched × Sched
  | [], pre, rest => (pre, rest)
  | f :: fs, pre, rest =>
    match bwdDep f pre with
    | .hex => createHex cfg k b fs pre rest
    | _ =>
      if (hexRequired cfg f pre (.loop k b :: rest)).1 then
        -- kept; a following exchange of the same field it replaces is removed
        let rest' := match dropNextHex f (.loop k b :: rest) with
          | _ :: r => r
          | [] => rest
        createHex cfg k b fs (.hex .sync f :: pre) rest'
      else createHex cfg k b fs pre rest

/-- Initial placement (`LFRicInvoke.__init__`: `create_halo_exchanges` for every loop in order).
`pre` is the reversed, already processed prefix. -/
def placeFrom (cfg : Cfg) : Sched → List (Kern × Bound) → Sched
  | pre, [] => pre.reverse
  | pre, (k, b) :: ls =>
    let rest : Sched := ls.map fun l => .loop l.1 l.2
    let (pre', _) := createHex cfg k b (haloReadFields cfg k b) pre rest
    placeFrom cfg (.loop k b :: pre') ls

def placeExchanges (cfg : Cfg) (loops : List (Kern × Bound)) : Sched := placeFrom cfg [] loops

/-- an invoke = list of kernels; bounds are the defaults of `LFRicLoop.load` -/
def placeInvoke (cfg : Cfg) (ks : List Kern) : Sched :=
  placeExchanges cfg (ks.map fun k => (k, defaultBound cfg k))

/-! ### Transformations as schedule edits -/

/-- second half of `update_halo_exchanges`: for each field written by the loop, the first
following exchange of it (met before another writer) is removed when no longer required. -/
def removeStale (cfg : Cfg) (pre : Sched) : List Nat → Sched → Sched
  | [], rest => rest
  | f :: fs, rest =>
    let rec go (pre' : Sched) : Sched → Sched
      | [] => []
      | .hex kind g :: r =>
        if g == f && kind != .start then
          if (hexRequired cfg f pre' r).1 then .hex kind g :: r else r
        else .hex kind g :: go (.hex kind g :: pre') r
      | .loop k b :: r =>
        match argOf k f with
        | some a => if a.access.writes then .loop k b :: r else .loop k b :: go (.loop k b :: pre') r
        | none => .loop k b :: go (.loop k b :: pre') r
    removeStale cfg pre fs (go pre rest)

/-- `Dynamo0p3RedundantComputationTrans.validate` (the parts that depend on the loop) -/
def rcValid (k : Kern) (b : Bound) (depth : Option Nat) : Bool :=
  match depth with
  | none =>
    if b.lvl.isHalo then
      b.lvl.litDepth != 0 && k.args.all (fun a => a.stencil.isNone)
    else true
  | some d =>
    d ≥ 1 && (if b.lvl.isHalo then b.lvl.litDepth != 0 && b.lvl.litDepth < d else true)

/-- `Dynamo0p3RedundantComputationTrans.apply` on the `i`-th item -/
def rcEdit (cfg : Cfg) (s : Sched) (i : Nat) (depth : Option Nat) : Option Sched :=
  match s.drop i with
  | .loop k b :: rest =>
    if !rcValid k b depth then none
    else
      let b' : Bound := ⟨match depth with | some d => .halo d | none => .haloMax, b.coloured⟩
      let pre := (s.take i).reverse
      let (pre', rest') := createHex cfg k b' (haloReadFields cfg k b') pre rest
      let written := ((k.args.filter (fun a => a.access.writes)).map (·.field)).eraseDups
      let rest'' := removeStale cfg (.loop k b' :: pre') written rest'
      some (pre'.reverse ++ .loop k b' :: rest'')
  | _ => none

/-- `Dynamo0p3ColourTrans.apply`: only the bound name changes (`ncells`→`ncolour`,
`cell_halo`→`colour_halo`) -/
def colourEdit (s : Sched) (i : Nat) : Option Sched :=
  match s.drop i with
  | .loop k b :: rest =>
    if k.dofKernel || b.coloured then none
    else some (s.take i ++ .loop k ⟨b.lvl, true⟩ :: rest)
  | _ => none

/-- `Dynamo0p3AsyncHaloExchangeTrans.apply` -/
def asyncEdit (s : Sched) (i : Nat) : Option Sched :=
  match s.drop i with
  | .hex .sync f :: rest => some (s.take i ++ .hex .start f :: .hex .finish f :: rest)
  | _ => none

/-- `MoveTrans.apply` seen on the flat list: the item at `i` is removed and re-inserted so that it
ends up at index `j` of the result (validity is decided by the real dependence analysis). -/
def moveEdit (s : Sched) (i j : Nat) : Option Sched :=
  match s.drop i with
  | x :: rest =>
    let s' := s.take i ++ rest
    some (s'.take j ++ x :: s'.drop j)
  | [] => none

/-! ## Lowering: what the generated PSy layer executes -/

inductive LItem where
  /-- `[if (f%is_dirty(depth=D))] call f%halo_exchange[_start|_finish](depth=D)` -/
  | hex (kind : HexKind) (f : Nat) (depth : List HaloDepth) (check : Bool)
  | loop (k : Kern) (b : Bound)
  | setDirty (f : Nat)
  | setClean (f : Nat) (depth : HaloDepth)
  deriving DecidableEq, Repr, Inhabited

/-- `LFRicLoop.gen_mark_halos_clean_dirty` for one modified field argument -/
def marksOf (k : Kern) (b : Bound) (a : Arg) : List LItem :=
  let w := writeInfo k b a
  (if !w.maxDepth || w.dirtyOuter then [LItem.setDirty a.field] else []) ++
  (if w.lit != 0 then
    let hd := if w.dirtyOuter then w.lit - 1 else w.lit
    if hd > 0 then [LItem.setClean a.field ⟨hd, none, false, false, false⟩] else []
   else if w.maxDepth then
    [LItem.setClean a.field (if w.dirtyOuter then ⟨0, none, false, true, false⟩
                             else ⟨0, none, true, false, false⟩)]
   else [])

/-- all marks after a loop (`unique_modified_args("gh_field")`) -/
def marks (k : Kern) (b : Bound) : List LItem :=
  let rec go (seen : List Nat) : List Arg → List LItem
    | [] => []
    | a :: as =>
      if a.access != .read && !seen.contains a.field then
        marksOf k b a ++ go (a.field :: seen) as
      else go seen as
  go [] k.args

/-- depth / check of the exchange `hex kind f` with reversed prefix `pre` and suffix `rest`.
A start uses its end (`_get_hex_end`): the next exchange of the same field. -/
def hexInfo (cfg : Cfg) (kind : HexKind) (f : Nat) (pre rest : Sched) : List HaloDepth × Bool :=
  match kind with
  | .start =>
    let rec findEnd (pre' : Sched) : Sched → List HaloDepth × Bool
      | [] => ([], true)
      | .hex kind' g :: r =>
        if g == f then
          (hexDepth f r, !(hexRequired cfg f pre' r).2)
        else findEnd (.hex kind' g :: pre') r
      | x :: r => findEnd (x :: pre') r
    findEnd (.hex .start f :: pre) rest
  | _ => (hexDepth f rest, !(hexRequired cfg f pre rest).2)

def lowerFrom (cfg : Cfg) : Sched → Sched → List LItem
  | _, [] => []
  | pre, .hex kind f :: rest =>
    let (d, chk) := hexInfo cfg kind f pre rest
    .hex kind f d chk :: lowerFrom cfg (.hex kind f :: pre) rest
  | pre, .loop k b :: rest =>
    (.loop k b :: marks k b) ++ lowerFrom cfg (.loop k b :: pre) rest

def lower (cfg : Cfg) (s : Sched) : List LItem := lowerFrom cfg [] s

/-! ## Dynamic side: independent specification

Run-time parameters: `H` = maximum halo depth of the mesh (≥ 1), `env v` = run-time value of the
stencil-extent variable `v` (≥ 1: "the maximum distance from the central cell that the stencil
extends", user guide), `cont` = whether the field actually lives on a horizontally continuous
function space (it has annexed dofs and dofs shared between neighbouring cells).

State of one field: `ann` = annexed dofs hold correct values; `cd` = halo dofs hold correct values
up to this depth (0 = level-1 halo dirty).  Owned dofs are always correct. -/

structure FState where
  ann : Bool
  cd : Nat
  deriving DecidableEq, Repr, Inhabited

structure Need where
  depth : Nat
  annexed : Bool
  deriving DecidableEq, Repr, Inhabited

def sat (s : FState) (n : Need) : Bool := decide (n.depth ≤ s.cd) && (!n.annexed || s.ann)

/-- halo depth reached by the iteration space (dev. guide "Loop iterators") -/
def lvlOf (H : Nat) : Level → Nat
  | .owned => 0
  | .annexed => 0
  | .halo d => d
  | .haloMax => H

def extentVal (env : Nat → Nat) : Extent → Nat
  | .lit n => n
  | .var v => env v

/-- What argument `a` of kernel `k`, run in a loop with bound `b`, needs of its field on entry.

* dof loop over owned dofs: only owned dofs are read ("Dof iterators", case 1);
  over owned+annexed dofs: the annexed dofs of every field read are read;
  into the halo to depth `L`: all dofs to depth `L` are read.
* cell loop to halo depth `L` (0 = last edge cell): the kernel reads every dof of the field on each
  cell visited, so annexed dofs of a continuous field (cases 3, 4 of "Dof iterators", case 3 of
  "First Creation") and the halo to depth `L` (case 1 of "First Creation");
  with a stencil of extent `e` the cells up to distance `e` of each visited cell, i.e. depth `L+e`;
* `gh_inc`: the outermost halo visited need not be clean, annexed dofs and the halo to depth
  `L-1` must be ("Cell iterators: Continuous": "a loop iterating to the level-n halo will result
  in a halo exchange to the level-(n-1) halo"); `gh_readinc` and `gh_readwrite` read like
  `gh_read`. -/
def specNeed (H : Nat) (env : Nat → Nat) (cont : Bool) (k : Kern) (b : Bound) (a : Arg) : Need :=
  if !a.access.reads then ⟨0, false⟩
  else
    let L := lvlOf H b.lvl
    if k.dofKernel then
      match b.lvl with
      | .owned => ⟨0, false⟩
      | _ => ⟨L, cont⟩
    else
      match a.stencil with
      | some e => ⟨L + extentVal env e, cont⟩
      | none => if a.access == .inc then ⟨L - 1, cont⟩ else ⟨L, cont⟩

/-- State of the field written by argument `a` after the loop, provided all reads were satisfied.

* dof loop: exactly the dofs visited are correct afterwards; a loop to the full halo depth leaves
  the whole halo clean;
* cell loop, field without shared dofs (`cont = false`): `gh_write`/`gh_readwrite` leave every
  visited cell correct; an increment leaves the outermost visited level as it was (dirty);
* cell loop, continuous field: `gh_write` writes the same, correct value from every cell
  ("Cell iterators: Continuous", GH_WRITE exception), so all dofs of visited cells are correct;
  `gh_inc`/`gh_readinc` compute complete sums only for dofs all of whose cells were visited:
  owned and annexed dofs and the halo to depth `L-1` when `L ≥ 1` ("the outermost halo of the
  modified field is dirty after redundant computation"); without halo cells (`L = 0`) annexed
  dofs are left incomplete. -/
def specAfter (H : Nat) (cont : Bool) (k : Kern) (b : Bound) (a : Arg) (old : FState) : FState :=
  let L := lvlOf H b.lvl
  let full : FState := if b.lvl == .haloMax then ⟨true, max L old.cd⟩ else ⟨true, L⟩
  if k.dofKernel then
    match b.lvl with
    | .owned => ⟨!cont, 0⟩
    | _ => full
  else if !cont then
    match a.access with
    | .inc | .readinc => ⟨true, L - 1⟩
    | _ => full
  else
    match a.access with
    | .write => full
    | _ => if L == 0 then ⟨false, 0⟩ else ⟨true, L - 1⟩

def evalDepth (H : Nat) (env : Nat → Nat) (d : HaloDepth) : Nat :=
  if d.maxDepth then H
  else if d.maxM1 then H - 1
  else d.lit + (match d.var with | some v => env v | none => 0)

def evalDepths (H : Nat) (env : Nat → Nat) (ds : List HaloDepth) : Nat :=
  ds.foldl (fun m d => max m (evalDepth H env d)) 0

/-- run-time state tracked for ONE field: recorded clean depth (the `halo_dirty` flags of the
LFRic field object: `set_dirty` → 0, `set_clean(d)`/`halo_exchange(d)` → at least `d`), the actual
state, and an asynchronous exchange in flight. -/
structure RState where
  recorded : Nat
  act : FState
  inflight : Option Nat
  deriving DecidableEq, Repr, Inhabited

inductive Failure where
  /-- a kernel reads halo / annexed dofs that are not clean to the needed depth -/
  | dirtyRead
  /-- the recorded state is cleaner than the actual one where it is observed -/
  | recordedTooClean
  /-- asynchronous exchange not properly paired, or field written while in flight -/
  | asyncPairing
  deriving DecidableEq, Repr, Inhabited

def wfState (cfg : Cfg) (cont : Bool) (s : RState) : Bool :=
  decide (s.recorded ≤ s.act.cd) && (decide (s.act.cd = 0) || s.act.ann) &&
  (!(cfg.annexed && cont) || s.act.ann)

/-- a completed exchange to depth `d` -/
def exchanged (s : RState) (d : Nat) : RState :=
  if d == 0 then s
  else { s with recorded := max s.recorded d, act := ⟨true, max s.act.cd d⟩ }

/-- one step of the generated code, seen by field `f` -/
def stepF (H : Nat) (env : Nat → Nat) (cont : Bool) (f : Nat)
    (s : RState) : LItem → Except Failure RState
  | .hex kind g ds chk =>
    if g != f then .ok s
    else if s.recorded > s.act.cd then .error .recordedTooClean
    else
      let d := evalDepths H env ds
      let go := !chk || decide (s.recorded < d)      -- `is_dirty(depth=d)`
      match kind with
      | .sync =>
        if s.inflight.isSome then .error .asyncPairing
        else .ok (if go then exchanged s d else s)
      | .start =>
        if s.inflight.isSome then .error .asyncPairing
        else .ok (if go then { s with inflight := some d } else { s with inflight := some 0 })
      | .finish =>
        match s.inflight with
        | none => .error .asyncPairing
        | some d' =>
          if d' != (if go then d else 0) then .error .asyncPairing
          else .ok (exchanged { s with inflight := none } d')
  | .loop k b =>
    match argOf k f with
    | none => .ok s
    | some a =>
      if !sat s.act (specNeed H env cont k b a) then .error .dirtyRead
      else if a.access.writes then
        if s.inflight.isSome then .error .asyncPairing
        else .ok { s with act := specAfter H cont k b a s.act }
      else .ok s
  | .setDirty g => if g != f then .ok s else .ok { s with recorded := 0 }
  | .setClean g d =>
    if g != f then .ok s else .ok { s with recorded := max s.recorded (evalDepth H env d) }

/-- run the generated code for field `f`; at the end of the invoke the recorded state is observed
by whatever runs next, and no exchange may be left in flight. -/
def runF (H : Nat) (env : Nat → Nat) (cont : Bool) (f : Nat) :
    List LItem → RState → Except Failure RState
  | [], s =>
    if s.recorded > s.act.cd then .error .recordedTooClean
    else if s.inflight.isSome then .error .asyncPairing
    else .ok s
  | x :: xs, s =>
    match stepF H env cont f s x with
    | .error e => .error e
    | .ok s' => runF H env cont f xs s'

def SafeF (H : Nat) (env : Nat → Nat) (cont : Bool) (f : Nat) (prog : List LItem)
    (init : RState) : Prop :=
  ∃ s, runF H env cont f prog init = .ok s

/-- The mesh halo is deep enough for every access of the program (otherwise the LFRic
infrastructure aborts at run time: a stencil or an iteration space reaching beyond the halo is
outside the property). -/
def deepEnough (H : Nat) (env : Nat → Nat) (prog : List LItem) : Bool :=
  prog.all fun x => match x with
    | .loop k b => k.args.all fun a => decide ((specNeed H env true k b a).depth ≤ H)
    | _ => true

/-- the metadata of every argument on `f` is consistent with the actual continuity: an argument
declared on a discontinuous space is only passed a discontinuous field. -/
def consistentF (cont : Bool) (f : Nat) (prog : List LItem) : Bool :=
  prog.all fun x => match x with
    | .loop k _ => match argOf k f with
      | some a => !(a.disc && cont)
      | none => true
    | _ => true

end C22
