/-! C29: model of `CodedKern.rename_and_write` / `CodedKern._rename_psyir`
(src/psyclone/psyGen.py) for any number of concurrent PSyclone runs that share one
kernel-output directory.  Core Lean only.

* The directory is a map `Name ↦ Option File`; a `Name` is the pair (base, idx) standing for the
  file `<base>_<idx>_mod.f90`.  A file that has been created with `os.open(O_CREAT|O_EXCL)` but not
  yet written has `data = none` (it reads back as the empty string).
* Each run executes the atomic steps of `rename_and_write` under a program counter `PC`:
  `create idx` (the `os.open` attempt of the `while not fdesc` loop), `rename` (`_rename_psyir`,
  which changes the names the PSy layer will use), `render` (FortranWriter + line-length limiter),
  then either `write`, `close` (file descriptor obtained) or, for the 'single' scheme after a failed
  create, `readback`, `compare` (raise GenerationError or re-use the file).
* A schedule is a list of run ids; `step` lets one run perform its next atomic step.
* `File.owner` / `File.writers` are ghost fields (who created / who wrote the file); the real file
  system does not store them, the harness observes them by logging `os.open`/`os.write`.

Names are abstract: `(base, idx)` stands for `<base>_<idx>_mod.f90`, and a `Content` with `base`, `tag = some i`
for a text whose module is `<base>_<i>_mod` and whose kernel routine is `<base>_<i>_code`.  This is the behaviour
of `_new_name` WITH fixes/C29-newname-case.patch (suffix test case-insensitive, as in the computation of the file
name).  The pinned code inserted the tag after an upper-case `_MOD` (`TESTKERN_MOD_0_mod` inside
`TESTKERN_0_mod.f90`); the harness scenario "uppercase-MOD" reports that as a VIOLATION on an unfixed tree.
For the 'single' concurrency defect the model is FAITHFUL to the (unfixed) code: see
`C29_single_concurrent_counterexample` / `C29_single_sequential_partial` in Props/C29.lean.

Assumed (trusted base): `os.open(O_CREAT|O_EXCL)` is atomic and fails only because the file exists;
a single `os.write` of the whole text is atomic w.r.t. a concurrent `read`; nobody deletes files. -/
namespace C29

abbrev RunId := Nat

/-- The file `<base>_<idx>_mod.f90`. -/
structure Name where
  base : Nat
  idx : Nat
  deriving DecidableEq, Repr

/-- Text of a kernel file: the (transformed) kernel body `body` inside
`module <base>[_<tag>]_mod` / `subroutine <base>[_<tag>]_code`. -/
structure Content where
  body : Nat
  base : Nat
  tag : Option Nat
  deriving DecidableEq, Repr

structure File where
  data : Option Content
  owner : Option RunId
  writers : List RunId
  deriving DecidableEq, Repr

abbrev FS := Name → Option File

inductive Mode where
  | multiple
  | single
  deriving DecidableEq, Repr

/-- Static description of a run: naming scheme, kernel module (base name) and the
transformed kernel it wants to output. -/
structure Cfg where
  mode : Mode
  base : Nat
  kern : Nat
  deriving DecidableEq, Repr

inductive Res where
  | wrote     -- a fresh file was created and written
  | reused    -- 'single': the existing file was identical
  | failed    -- 'single': GenerationError raised
  deriving DecidableEq, Repr

inductive PC where
  | create (i : Nat)
  | rename (i : Nat) (fd : Bool)
  | render (i : Nat) (fd : Bool)
  | write (i : Nat)
  | close (i : Nat)
  | readback (i : Nat)
  | compare (i : Nat) (got : Option Content)
  | done (i : Nat) (res : Res)
  deriving DecidableEq, Repr

/-- Run-local state: program counter, the suffix currently carried by `kern.name` /
`kern.module_name` (what the PSy layer will `use`), and `new_kern_code`. -/
structure Local where
  pc : PC
  tag : Option Nat
  code : Option Content
  deriving DecidableEq, Repr

structure State where
  fs : FS
  loc : RunId → Local

def State.setLoc (s : State) (r : RunId) (l : Local) : State :=
  { s with loc := fun x => if x = r then l else s.loc x }

def State.setFile (s : State) (nm : Name) (f : File) : State :=
  { s with fs := fun x => if x = nm then some f else s.fs x }

/-- What the Fortran back-end produces for the kernel of run configuration `c` once it carries suffix `i`. -/
def rendered (c : Cfg) (i : Nat) : Content := ⟨c.kern, c.base, some i⟩

/-- One atomic step of run `r`. -/
def step (cfg : RunId → Cfg) (s : State) (r : RunId) : State :=
  let c := cfg r
  let l := s.loc r
  match l.pc with
  | .create i =>
    match s.fs ⟨c.base, i⟩ with
    | none => (s.setFile ⟨c.base, i⟩ ⟨none, some r, []⟩).setLoc r { l with pc := .rename i true }
    | some _ =>
      s.setLoc r { l with pc := if c.mode = .single then .rename i false else .create (i + 1) }
  | .rename i fd => s.setLoc r { l with pc := .render i fd, tag := some i }
  | .render i fd =>
    s.setLoc r { l with pc := if fd then .write i else .readback i,
                        code := some ⟨c.kern, c.base, l.tag⟩ }
  | .write i =>
    match s.fs ⟨c.base, i⟩ with
    | some f => (s.setFile ⟨c.base, i⟩ { f with data := l.code, writers := r :: f.writers }).setLoc r
                  { l with pc := .close i }
    | none => (s.setFile ⟨c.base, i⟩ ⟨l.code, none, [r]⟩).setLoc r { l with pc := .close i }
  | .close i => s.setLoc r { l with pc := .done i .wrote }
  | .readback i => s.setLoc r { l with pc := .compare i ((s.fs ⟨c.base, i⟩).bind (·.data)) }
  | .compare i got => s.setLoc r { l with pc := .done i (if got = l.code then .reused else .failed) }
  | .done _ _ => s

def init (fs0 : FS) : State := ⟨fs0, fun _ => ⟨.create 0, none, none⟩⟩

def run (cfg : RunId → Cfg) (s : State) (sched : List RunId) : State := sched.foldl (step cfg) s

def emptyFS : FS := fun _ => none

/-- Steps that touch only run-local state (used for the reduced enumeration of interleavings). -/
def PC.isLocal : PC → Bool
  | .rename _ _ | .render _ _ | .close _ | .compare _ _ => true
  | _ => false

def PC.isDone : PC → Bool
  | .done _ _ => true
  | _ => false

/-- The index of the file this run has created (and therefore owns), if any. -/
def held : PC → Option Nat
  | .rename i true | .render i true | .write i | .close i | .done i .wrote => some i
  | _ => none

/-- A run executed to completion without interleaving (`fuel` steps; extra steps are no-ops). -/
def runToEnd (cfg : RunId → Cfg) (fuel : Nat) (s : State) (r : RunId) : State :=
  run cfg s (List.replicate fuel r)

/-- Sequential execution of the runs in `order`, each to completion (single scheme needs 6 steps). -/
def runSeq (cfg : RunId → Cfg) (s : State) (order : List RunId) : State :=
  order.foldl (runToEnd cfg 6) s

/-- Config of finitely many runs (ids beyond the list behave like copies of a default run). -/
def cfgOf (l : List Cfg) (r : RunId) : Cfg := l.getD r ⟨.multiple, 0, 0⟩

end C29
