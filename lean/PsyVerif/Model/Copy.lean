/-! C15: model of `Node.copy()` on PSyIR trees with symbol tables
(`Node.copy/_refine_copy` in src/psyclone/psyir/nodes/node.py, `ScopingNode._refine_copy` in
src/psyclone/psyir/nodes/scoping_node.py, `SymbolTable.deep_copy` in
src/psyclone/psyir/symbols/symbol_table.py, the `copy` methods of the symbol classes).

Objects are identities: a node is a natural-number label (its `id`), a symbol likewise; names and node classes are numbers too.  The *world* is
the Python heap as far as copying is concerned:

* a symbol store: `name s` (the symbol's name), `links s` (the symbols its declaration refers to
  directly: kind parameter of a scalar type, derived-type symbol, container of an import, routines
  of a generic interface; for a `StructureType` those of its components), `bounds s` (the
  expression NODES held by its datatype object: array bounds, default initialisers of the
  components of a `StructureType`; a forest of nodes with identities, `sym` = `Reference.symbol`,
  `tsym` = kind of a `Literal`) and `init s` (the nodes of `DataSymbol.initial_value`);
  `deps s` is all the symbols reached that way,
* a list of detached trees.  A tree is a first-child/next-sibling `Forest` whose nodes carry their
  identity, class (`kind`), `sym` (`Reference.symbol`, `Loop.variable`, `Routine.return_symbol`),
  `tsym` (the symbol used by the node's own datatype: the kind parameter of a `Literal`) and, for a
  `ScopingNode`, the ordered list of the symbols of its `SymbolTable`.

`copy m W r` is `W.find(r).copy()`: new node identities for the whole subtree, new symbol
identities for every symbol of every symbol table inside the subtree, `sym` re-pointed to the new
symbol when the symbol belongs to a copied table and left alone otherwise (outer-scope symbols).
The mode `m` says which repairs are in the code:
* `m.dt` (the `fix:` commit from fixes/C15-deepcopy-datatype-refs.patch): the symbols reached
  through *datatypes* (`tsym`, `links`, the expression nodes in `bounds` and `init`) are re-pointed
  like `sym`, and the datatype objects are re-created so that the copy owns its expression nodes.
  Without it they keep pointing at the symbols of the original (`TypedSymbol.copy` passes the same
  datatype object on — its expression nodes are then SHARED —, `DataSymbol.copy` copies the
  initial value without re-pointing it, `_refine_copy` only walks `Reference` and `Loop` nodes).
* `m.ifc` (fixes/C15-deepcopy-interfaces.patch): `deep_copy` gives every copied symbol a copy of
  its interface object.  Without it see `freshIface`.
`deployed` is the mode the check compares the real code with.

Interface objects (`symbol.interface`) are identities too: `TypedSymbol.copy`, `DataSymbol.copy`,
`RoutineSymbol.copy`, `DataTypeSymbol.copy` and `GenericInterfaceSymbol.copy` hand the interface
object of the original to the copy (shared), `Symbol.copy`/`ContainerSymbol.copy` copy it and
`deep_copy` gives imported symbols a new `ImportInterface` (`freshIface`).  `access` is the mutable
state of an interface object (`ArgumentInterface.access`), part of the written declaration.

Edits are addressed by identity, as in Python: an edit of node `p` changes every node labelled
`p` wherever it is, so "the other tree is unaffected" is a theorem about sharing, not a
definitional triviality.  Core Lean only. -/
namespace C15


structure NodeRec where
  id : Nat
  kind : Nat
  /-- `Reference.symbol` / `Loop.variable` / `Routine.return_symbol` -/
  sym : Option Nat
  /-- symbol used by the datatype of the node itself (kind of a `Literal`) -/
  tsym : Option Nat
  /-- `some l`: a `ScopingNode` whose symbol table holds the symbols `l` (in order) -/
  table : Option (List Nat)
  /-- identity of a mutable helper object that the node holds and that `copy.copy` hands on to the
  copy because `_refine_copy` does not refine it (`Kern._arguments`, `CodedKern._opencl_options`
  of the PSyKAl layers; no node of the generic PSyIR holds one that the writer reads) -/
  attr : Option Nat
  deriving DecidableEq, Repr

/-- first-child / next-sibling forest: `cons n kids rest` is node `n` with children `kids`,
followed by its right siblings `rest` -/
inductive Forest where
  | nil
  | cons (n : NodeRec) (kids : Forest) (rest : Forest)
  deriving DecidableEq, Repr

/-- which repairs the modelled code contains -/
structure Mode where
  /-- datatype links and expressions are re-pointed and owned by the copy -/
  dt : Bool
  /-- `deep_copy` copies the interface objects -/
  ifc : Bool
  deriving DecidableEq, Repr

structure World where
  name : Nat → Nat
  /-- direct symbol links of a declaration (precision symbol, type symbol, import container …) -/
  links : Nat → List Nat
  /-- expression nodes held by the datatype object of a symbol -/
  bounds : Nat → Forest
  /-- expression nodes of the initial value of a symbol -/
  init : Nat → Forest
  /-- the interface OBJECT of a symbol (`symbol.interface`, an identity) -/
  iface : Nat → Nat
  /-- does `symbol.copy()` create a new interface object?  True for generic `Symbol`s and
  `ContainerSymbol`s (`Symbol.copy` copies the interface) and for imported symbols (`deep_copy`
  gives them a new `ImportInterface`); false for the other `TypedSymbol`s, `DataTypeSymbol`s …,
  whose `copy()` passes the same interface object on -/
  freshIface : Nat → Bool
  /-- the mutable attribute of an interface object (`ArgumentInterface.access`, …) -/
  access : Nat → Nat
  /-- the state of the helper objects held by nodes (`NodeRec.attr`) -/
  attrVal : Nat → Nat
  /-- all symbol identities in use are `< nsym` -/
  nsym : Nat
  /-- all interface identities in use are `< nif` -/
  nif : Nat
  /-- all node identities in use are `< nnode` -/
  nnode : Nat
  /-- the detached trees (roots) -/
  trees : List Forest

/-! ## traversals -/

def Forest.append : Forest → Forest → Forest
  | .nil, g => g
  | .cons n k r, g => .cons n k (r.append g)

def Forest.map (f : NodeRec → NodeRec) : Forest → Forest
  | .nil => .nil
  | .cons n k r => .cons (f n) (k.map f) (r.map f)

/-- node identities, pre-order -/
def Forest.ids : Forest → List Nat
  | .nil => []
  | .cons n k r => n.id :: (k.ids ++ r.ids)

def NodeRec.tab (n : NodeRec) : List Nat := n.table.getD []

/-- the symbols declared by the scopes of the forest (`symbol_table.symbols` of every
`ScopingNode`) -/
def Forest.owned : Forest → List Nat
  | .nil => []
  | .cons n k r => n.tab ++ (k.owned ++ r.owned)

/-- the symbols reached from the nodes through `symbol`/`variable` -/
def Forest.syms : Forest → List Nat
  | .nil => []
  | .cons n k r => n.sym.toList ++ (k.syms ++ r.syms)

/-- the helper objects held by the nodes -/
def Forest.attrs : Forest → List Nat
  | .nil => []
  | .cons n k r => n.attr.toList ++ (k.attrs ++ r.attrs)

/-- the symbols reached from the nodes through their datatype -/
def Forest.tsyms : Forest → List Nat
  | .nil => []
  | .cons n k r => n.tsym.toList ++ (k.tsyms ++ r.tsyms)

/-- the subtree rooted at the (first) node with identity `r`, without its siblings; `nil` if
there is none -/
def Forest.find (r : Nat) : Forest → Forest
  | .nil => .nil
  | .cons n k rest =>
    if n.id = r then .cons n k .nil
    else match k.find r with
      | .nil => rest.find r
      | t => t

def findIn (r : Nat) : List Forest → Forest
  | [] => .nil
  | t :: ts => match t.find r with
    | .nil => findIn r ts
    | s => s

/-- the symbols used by an expression forest -/
def Forest.uses (F : Forest) : List Nat := F.syms ++ F.tsyms

/-- every symbol that the declaration of `s` refers to -/
def World.deps (W : World) (s : Nat) : List Nat :=
  W.links s ++ ((W.bounds s).uses ++ (W.init s).uses)

/-- the identities of the expression nodes that belong to the declarations of the symbols `l` -/
def World.declIds (W : World) (l : List Nat) : List Nat :=
  l.flatMap (fun s => (W.bounds s).ids ++ (W.init s).ids)

/-- every symbol whose *name* the written code of the forest depends on -/
def reads (W : World) (F : Forest) : List Nat :=
  F.syms ++ F.tsyms ++ F.owned ++ F.owned.flatMap W.deps

/-! ## the written code, abstractly

`view` keeps exactly what a writer can observe of a tree: the classes and shape of the nodes, the
*names* of the symbols the nodes use, and for every scope the declarations of its table: name of
each symbol and names of the symbols its datatype/initial value use.  No identities. -/

/-- what is visible of an expression node: class, names used, number of nodes below it -/
structure VExpr where
  kind : Nat
  sym : Option Nat
  tsym : Option Nat
  size : Nat
  deriving DecidableEq, Repr

/-- what is visible of a declaration: name, names of the linked symbols, datatype expressions,
initial value, access of the interface -/
structure VDecl where
  name : Nat
  links : List Nat
  bounds : List VExpr
  init : List VExpr
  access : Nat
  deriving DecidableEq, Repr

structure VNode where
  kind : Nat
  sym : Option Nat
  tsym : Option Nat
  table : Option (List VDecl)
  attr : Option Nat
  deriving DecidableEq, Repr

inductive VForest where
  | nil
  | cons (v : VNode) (kids : VForest) (rest : VForest)
  deriving DecidableEq, Repr

/-- the view of an expression forest: pre-order list of (class, names used, number of nodes of the
subtree) — identity-free and shape-preserving -/
def viewE (name : Nat → Nat) : Forest → List VExpr
  | .nil => []
  | .cons n k r => ⟨n.kind, n.sym.map name, n.tsym.map name, (viewE name k).length⟩ :: (viewE name k ++ viewE name r)

def viewNode (W : World) (n : NodeRec) : VNode :=
  { kind := n.kind
    sym := n.sym.map W.name
    tsym := n.tsym.map W.name
    table := n.table.map (fun l => l.map (fun s =>
      ⟨W.name s, (W.links s).map W.name, viewE W.name (W.bounds s), viewE W.name (W.init s),
       W.access (W.iface s)⟩))
    attr := n.attr.map W.attrVal }

def view (W : World) : Forest → VForest
  | .nil => .nil
  | .cons n k r => .cons (viewNode W n) (view W k) (view W r)

/-! ## copy -/

/-- the identity of the copy of symbol `s`: a new one if `s` is declared in a copied scope -/
def rho (own : List Nat) (off : Nat) (s : Nat) : Nat :=
  if own.contains s then s + off else s

/-- the map applied to the symbols reached through datatypes -/
def rhoT (fixed : Bool) (own : List Nat) (off : Nat) (s : Nat) : Nat :=
  if fixed then rho own off s else s

def copyNode (fixed : Bool) (own : List Nat) (noff soff : Nat) (n : NodeRec) : NodeRec :=
  { id := n.id + noff
    kind := n.kind
    sym := n.sym.map (rho own soff)
    tsym := n.tsym.map (rhoT fixed own soff)
    table := n.table.map (fun l => l.map (rho own soff))
    -- `copy.copy`: the same helper object
    attr := n.attr }

/-- copy of an expression node inside a declaration -/
def copyENode (fixed : Bool) (own : List Nat) (noff soff : Nat) (n : NodeRec) : NodeRec :=
  { id := n.id + noff
    kind := n.kind
    sym := n.sym.map (rhoT fixed own soff)
    tsym := n.tsym.map (rhoT fixed own soff)
    table := n.table
    attr := n.attr }

/-- is `x` the identity given to the copy of a symbol of `own`? -/
def isNew (own : List Nat) (off : Nat) (x : Nat) : Bool :=
  decide (off ≤ x) && own.contains (x - off)

/-- the copied subtree -/
def copyTree (m : Mode) (W : World) (r : Nat) : Forest :=
  let S := findIn r W.trees
  S.map (copyNode m.dt S.owned W.nnode W.nsym)

/-- does the copy of symbol `s` get an interface object of its own? -/
def ownIface (m : Mode) (W : World) (s : Nat) : Bool := m.ifc || W.freshIface s

/-- `findIn r W.trees` `.copy()`; the copy becomes a new detached tree -/
def copy (m : Mode) (W : World) (r : Nat) : World :=
  let own := (findIn r W.trees).owned
  { name := fun x => if isNew own W.nsym x then W.name (x - W.nsym) else W.name x
    links := fun x => if isNew own W.nsym x then (W.links (x - W.nsym)).map (rhoT m.dt own W.nsym)
                      else W.links x
    -- unrepaired: the very datatype object of the original, hence its expression nodes
    bounds := fun x => if isNew own W.nsym x then
                         (if m.dt then (W.bounds (x - W.nsym)).map (copyENode true own W.nnode W.nsym)
                          else W.bounds (x - W.nsym))
                       else W.bounds x
    -- `DataSymbol.copy` copies the initial value; only the repaired code re-points it
    init := fun x => if isNew own W.nsym x then (W.init (x - W.nsym)).map (copyENode m.dt own W.nnode W.nsym)
                     else W.init x
    iface := fun x => if isNew own W.nsym x then
                        (if ownIface m W (x - W.nsym) then W.iface (x - W.nsym) + W.nif
                         else W.iface (x - W.nsym))
                      else W.iface x
    freshIface := fun x => if isNew own W.nsym x then W.freshIface (x - W.nsym) else W.freshIface x
    access := fun i => if decide (W.nif ≤ i) && own.any (fun s => ownIface m W s && W.iface s == i - W.nif)
                       then W.access (i - W.nif) else W.access i
    attrVal := W.attrVal
    nsym := W.nsym + W.nsym
    nif := W.nif + W.nif
    nnode := W.nnode + W.nnode
    trees := W.trees ++ [copyTree m W r] }

/-- the mode of the model that the check compares the real code with -/
def deployed : Mode := ⟨true, true⟩

/-! ## edits (addressed by identity) -/

def updNode (p : Nat) (g : NodeRec → NodeRec) (n : NodeRec) : NodeRec :=
  if n.id = p then g n else n

/-- remove every subtree whose root has identity `x` -/
def Forest.remove (x : Nat) : Forest → Forest
  | .nil => .nil
  | .cons n k r => if n.id = x then r.remove x else .cons n (k.remove x) (r.remove x)

/-- `insert t at position i of l` for sibling lists -/
def Forest.insertAt (t : Forest) : Nat → Forest → Forest
  | 0, l => t.append l
  | _ + 1, .nil => t
  | i + 1, .cons n k r => .cons n k (Forest.insertAt t i r)

/-- insert `t` as `i`-th child (clamped) of every node with identity `p` -/
def Forest.attach (p : Nat) (i : Nat) (t : Forest) : Forest → Forest
  | .nil => .nil
  | .cons n k r =>
    .cons n (if n.id = p then Forest.insertAt t i (Forest.attach p i t k) else Forest.attach p i t k)
      (Forest.attach p i t r)

/-- is `x` the root of one of the detached trees? -/
def isRoot (x : Nat) : List Forest → Bool
  | [] => false
  | .nil :: ts => isRoot x ts
  | .cons n _ _ :: ts => n.id == x || isRoot x ts

inductive Edit where
  /-- `p.symbol_table.rename_symbol(s, n)`: the symbol object gets the new name and is re-inserted
  at the end of the table of `p` -/
  | rename (p : Nat) (s : Nat) (n : Nat)
  /-- `s.datatype = …` / `s.initial_value = …` / `s.specialise(…)`: the declaration of `s` now has
  the links `ls`, the datatype expressions `bs` and the initial value `ini` (new node objects) -/
  | setDecl (s : Nat) (ls : List Nat) (bs ini : Forest)
  /-- `p.symbol_table.new_symbol(n, …)` with that declaration; the symbol gets a new interface
  object; `fr` = its class copies the interface in `copy()` -/
  | addSym (p : Nat) (n : Nat) (ls : List Nat) (bs ini : Forest) (fr : Bool)
  /-- `s.interface = <new interface object with access v>` -/
  | setIface (s : Nat) (v : Nat)
  /-- `s.specialise(cls)`: the class of the symbol, hence how its `copy()` treats the interface -/
  | setFresh (s : Nat) (b : Bool)
  /-- `symbol.interface.access = v` for the interface object `i` -/
  | setAccess (i : Nat) (v : Nat)
  /-- a change of the state of the helper object `a` (`kern.set_opencl_options(…)`,
  `kern.arguments.args[i].access = …`) -/
  | setAttr (a : Nat) (v : Nat)
  /-- `p.symbol_table.remove(s)` -/
  | removeSym (p : Nat) (s : Nat)
  /-- `p.symbol = s`; `p` may be a node of a tree or an expression node inside a declaration -/
  | setSym (p : Nat) (s : Option Nat)
  /-- the datatype of node `p` now uses `s` (no public setter exists for `Literal.datatype`) -/
  | setTSym (p : Nat) (s : Option Nat)
  /-- `x.detach()` (also `pop`, `del`, `remove` of a child): `x` becomes a detached tree -/
  | detach (x : Nat)
  /-- `p.children.insert(i, x)` for a detached `x` (also `append`, `addchild`) -/
  | attach (p : Nat) (i : Nat) (x : Nat)

def mapTrees (W : World) (f : Forest → Forest) : World := { W with trees := W.trees.map f }

/-- an edit of the attributes of the node with identity `p`, wherever that node object is: in a
tree or inside the declaration of a symbol -/
def mapNodes (W : World) (p : Nat) (g : NodeRec → NodeRec) : World :=
  { W with trees := W.trees.map (Forest.map (updNode p g))
           bounds := fun x => (W.bounds x).map (updNode p g)
           init := fun x => (W.init x).map (updNode p g) }

def apply (W : World) : Edit → World
  | .rename p s n =>
    { W with name := fun x => if x = s then n else W.name x
             trees := W.trees.map (Forest.map (updNode p fun m =>
               { m with table := m.table.map (fun l => if l.contains s then l.erase s ++ [s] else l) })) }
  | .setDecl s ls bs ini =>
    { W with links := fun x => if x = s then ls else W.links x
             bounds := fun x => if x = s then bs else W.bounds x
             init := fun x => if x = s then ini else W.init x }
  | .setIface s v =>
    { W with iface := fun x => if x = s then W.nif else W.iface x
             access := fun i => if i = W.nif then v else W.access i
             nif := W.nif + 1 }
  | .setFresh s b => { W with freshIface := fun x => if x = s then b else W.freshIface x }
  | .setAccess i v => { W with access := fun x => if x = i then v else W.access x }
  | .setAttr a v => { W with attrVal := fun x => if x = a then v else W.attrVal x }
  | .addSym p n ls bs ini fr =>
    { name := fun x => if x = W.nsym then n else W.name x
      links := fun x => if x = W.nsym then ls else W.links x
      bounds := fun x => if x = W.nsym then bs else W.bounds x
      init := fun x => if x = W.nsym then ini else W.init x
      iface := fun x => if x = W.nsym then W.nif else W.iface x
      freshIface := fun x => if x = W.nsym then fr else W.freshIface x
      access := W.access
      attrVal := W.attrVal
      nsym := W.nsym + 1
      nif := W.nif + 1
      nnode := W.nnode
      trees := W.trees.map (Forest.map (updNode p fun m =>
        { m with table := m.table.map (· ++ [W.nsym]) })) }
  | .removeSym p s =>
    mapTrees W (Forest.map (updNode p fun m => { m with table := m.table.map (·.erase s) }))
  | .setSym p s => mapNodes W p fun m => { m with sym := s }
  | .setTSym p s => mapNodes W p fun m => { m with tsym := s }
  | .detach x =>
    if isRoot x W.trees then W
    else { W with trees := W.trees.map (Forest.remove x) ++ [findIn x W.trees] }
  | .attach p i x =>
    -- refused (GenerationError, nothing changes) unless `x` is an orphan and `p` is not below it
    let t := findIn x W.trees
    if isRoot x W.trees && !t.ids.contains p then
      { W with trees := (W.trees.map (Forest.remove x)).map (Forest.attach p i t) }
    else W

def run (W : World) (es : List Edit) : World := es.foldl apply W

/-- the node identities an edit addresses -/
def Edit.nodes : Edit → List Nat
  | .rename p _ _ => [p]
  | .setDecl _ _ _ _ => []
  | .setIface _ _ => []
  | .setFresh _ _ => []
  | .addSym p _ _ _ _ _ => [p]
  | .setAccess _ _ => []
  | .setAttr _ _ => []
  | .removeSym p _ => [p]
  | .setSym p _ => [p]
  | .setTSym p _ => [p]
  | .detach x => [x]
  | .attach p _ x => [p, x]

/-- the existing symbols whose name or datatype an edit changes -/
def Edit.symbols : Edit → List Nat
  | .rename _ s _ => [s]
  | .setDecl s _ _ _ => [s]
  | .setIface s _ => [s]
  | _ => []

/-- the interface objects whose attribute an edit changes -/
def Edit.ifaces : Edit → List Nat
  | .setAccess i _ => [i]
  | _ => []

/-- the helper objects whose state an edit changes -/
def Edit.attrs : Edit → List Nat
  | .setAttr a _ => [a]
  | _ => []

/-! ## well-formedness of a world (what the allocation counters mean) -/

structure WF (W : World) : Prop where
  ids_lt : ∀ t ∈ W.trees, ∀ i ∈ t.ids, i < W.nnode
  syms_lt : ∀ t ∈ W.trees, ∀ s ∈ t.syms ++ t.tsyms ++ t.owned, s < W.nsym
  deps_lt : ∀ s d, d ∈ W.deps s → d < W.nsym
  iface_lt : ∀ s, W.iface s < W.nif
  decl_lt : ∀ s, ∀ i ∈ (W.bounds s).ids ++ (W.init s).ids, i < W.nnode

/-- executable version for concrete worlds (symbols `< nsym` only) -/
def wfCheck (W : World) : Bool :=
  W.trees.all (fun t => t.ids.all (· < W.nnode) && (t.syms ++ t.tsyms ++ t.owned).all (· < W.nsym)) &&
  (List.range W.nsym).all (fun s => (W.deps s).all (· < W.nsym) && decide (W.iface s < W.nif) &&
    ((W.bounds s).ids ++ (W.init s).ids).all (· < W.nnode))

/-- no datatype inside the subtree uses a symbol declared inside the subtree: the side condition
under which the pinned code is correct -/
def NoSymbolInDatatype (W : World) (S : Forest) : Prop :=
  (∀ s ∈ S.tsyms, s ∉ S.owned) ∧ (∀ s ∈ S.owned, ∀ d ∈ W.deps s, d ∉ S.owned) ∧
  (∀ s ∈ S.owned, W.bounds s = .nil)

/-- the interface objects that the copy of the subtree shares with the original -/
def sharedIfaces (m : Mode) (W : World) (S : Forest) : List Nat :=
  (S.owned.filter (fun s => !ownIface m W s)).map W.iface

def noSymbolInDatatypeB (W : World) (S : Forest) : Bool :=
  S.tsyms.all (fun s => !S.owned.contains s) &&
  S.owned.all (fun s => (W.deps s).all (fun d => !S.owned.contains d)) &&
  S.owned.all (fun s => (W.bounds s).ids.isEmpty)

end C15
