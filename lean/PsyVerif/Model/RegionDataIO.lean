import PsyVerif.Model.MiniFIO
import PsyVerif.Model.RegionData
/-! S-expression reader for `RegionData.RStmt` (MiniF statements plus `(while c body)` and
`(opaque ((rw x arr)|(rd e)|(wr x arr) ...) body)`).
Used by the drivers only; never imported by proofs. -/
namespace RegionData
open Proto MiniF

def parseAcc : Sexp → Option Acc
  | .list [.atom "rw", x, a] => do some (.rw (← x.nat?) ((← a.nat?) == 1))
  | .list [.atom "rd", e] => do some (.rd (← parseExpr e))
  | .list [.atom "wr", x, a] => do some (.wr (← x.nat?) ((← a.nat?) == 1))
  | _ => none

partial def parseRStmt : Sexp → Option RStmt
  | .list [.atom "skip"] => some .skip
  | .list (.atom "seqs" :: ss) => do
      let xs ← ss.mapM parseRStmt
      some (rseqs xs)
  | .list [.atom "seq", a, b] => do some (.seq (← parseRStmt a) (← parseRStmt b))
  | .list [.atom "assign", x, e] => do some (.assign (← x.nat?) (← parseExpr e))
  | .list [.atom "store1", a, i, e] => do some (.store1 (← a.nat?) (← parseExpr i) (← parseExpr e))
  | .list [.atom "store2", a, i, j, e] => do
      some (.store2 (← a.nat?) (← parseExpr i) (← parseExpr j) (← parseExpr e))
  | .list [.atom "ite", c, t, f] => do some (.ite (← parseExpr c) (← parseRStmt t) (← parseRStmt f))
  | .list [.atom "loop", v, lo, hi, st, b] => do
      some (.loop (← v.nat?) (← parseExpr lo) (← parseExpr hi) (← parseExpr st) (← parseRStmt b))
  | .list [.atom "while", c, b] => do some (.whileDo (← parseExpr c) (← parseRStmt b))
  | .list [.atom "opaque", acc, b] => do some (.code (← acc.items.mapM parseAcc) (← parseRStmt b))
  | _ => none

/-- iteration bound used by the drivers for `DO WHILE` (no generated loop reaches it) -/
def driverFuel : Nat := 2000

def parseItem : Sexp → Option Item
  | .list [.atom "s", p] => (parseRStmt p).map Item.stmt
  | .list [.atom "x"] => some (.excluded .skip)
  | .list [.atom "x", p] => (parseRStmt p).map Item.excluded
  | _ => none

end RegionData
