import PsyVerif.Model.Atomic

/-! C26 — protocol skeletons.  The translator `harness/props/c26_skel.py` reads the source of every
`Transformation.apply()` and writes, per class, the ORDER of: checks that can raise `TransformationError`
(own `validate()`, other `validate()`s, `raise` statements), mutations of the tree / symbol tables, and calls of
other transformations' `apply()`, with `if/else` alternatives and loops kept as structure.  A skeleton is *safe* when
no check and no nested apply can be reached after a mutation; `Lemmas/AtomicSkel.lean` proves that every program with
a safe skeleton is atomic whatever the checks test and whatever the mutations do. -/
namespace C26.Skel

inductive Atom where
  | check (i : Nat)     -- can raise TransformationError, does not touch the tree
  | mutate (i : Nat)     -- touches the tree / a symbol table, cannot raise TransformationError
  | nested (i : Nat)    -- another transformation's apply(): can raise, touches the tree
  deriving DecidableEq, Repr

/-- first-child / next-sibling style: every constructor carries the rest of the method body -/
inductive Skel where
  | nil
  | atom (a : Atom) (rest : Skel)
  | alt (i : Nat) (l r : Skel) (rest : Skel)      -- if cond_i: l else: r
  | loop (i : Nat) (body : Skel) (rest : Skel)    -- for/while executed count_i(state) times
  deriving DecidableEq, Repr

/-- what the atoms mean in one particular transformation on one particular target -/
structure Env (S : Type) where
  chk : Nat → S → Bool
  mutf : Nat → S → S
  nest : Nat → Prog S
  cond : Nat → S → Bool
  count : Nat → S → Nat

/-- `n` sequential executions of `p` -/
def iter {S : Type} : Nat → Prog S → Prog S
  | 0, _ => .done
  | n + 1, p => .call (fun _ => p) (iter n p)

def interp {S : Type} (e : Env S) : Skel → Prog S
  | .nil => .done
  | .atom (.check i) rest => .check (e.chk i) (interp e rest)
  | .atom (.mutate i) rest => .prim (e.mutf i) (interp e rest)
  | .atom (.nested i) rest => .call (fun _ => e.nest i) (interp e rest)
  | .alt i l r rest => .call (fun s => if e.cond i s then interp e l else interp e r) (interp e rest)
  | .loop i body rest => .call (fun s => iter (e.count i s) (interp e body)) (interp e rest)

/-- Abstract execution: `dirty = true` once the tree may have been touched.  `none` = a check or a nested apply is
    reachable after a mutation (not provably atomic from the order alone). -/
def after : Skel → Bool → Option Bool
  | .nil, d => some d
  | .atom (.check _) rest, d => if d then none else after rest false
  | .atom (.mutate _) rest, _ => after rest true
  | .atom (.nested _) rest, d => if d then none else after rest true
  | .alt _ l r rest, d =>
    match after l d, after r d with
    | some a, some b => after rest (a || b)
    | _, _ => none
  | .loop _ body rest, d =>
    match after body d with
    | some d1 =>
      (match after body d1 with
       | some d2 => after rest d2
       | none => none)
    | none => none

def safe (sk : Skel) : Bool := (after sk false).isSome

end C26.Skel
