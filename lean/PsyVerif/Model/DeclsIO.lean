import PsyVerif.Model.Proto
import PsyVerif.Model.Decls
import PsyVerif.Model.SymTab
/-! S-expression input/output for the `Decls` model (drivers of C03 and C04 only). -/
namespace Decls
open Proto

def bool? (s : Sexp) : Bool := s.nat? == some 1

def parseCls : Sexp → Cls
  | .atom "cont0" => .container false
  | .atom "cont1" => .container true
  | .atom "skip" => .skipped
  | .atom "unres" => .unresolved
  | .atom "rbad" => .routineBad
  | .atom "iface" => .iface
  | .atom "param" => .param
  | .atom "arg" => .arg
  | .atom "dtype" => .dtype
  | .list [.atom "imp", c] => .imported (c.nat?.getD 0)
  | _ => .other

/-- `(name cls routine pub (ideps) (xdeps))` -/
def parseSym : Sexp → Option Sym
  | .list [n, c, r, p, i, x] =>
    some { name := n.nat?.getD 0, cls := parseCls c, routine := bool? r, pub := bool? p,
           ideps := i.natList, xdeps := x.natList }
  | _ => none

/-- `(unit isModule defPrivate outerWild (outer) (args) (body) (routines) (syms…))` -/
def parseUnit : Sexp → Option Unit
  | .list [.atom "unit", m, dp, ow, outer, args, body, routines, .list syms] =>
    some { isModule := bool? m, defPrivate := bool? dp, outerWild := bool? ow, outer := outer.natList,
           args := args.natList, body := body.natList, routines := routines.natList,
           syms := syms.filterMap parseSym }
  | _ => none

def showNats (l : List Nat) : String := showList toString l

def showClsTag : Cls → String
  | .container false => "cont0" | .container true => "cont1" | .imported c => s!"(imp {c})"
  | .skipped => "skip" | .unresolved => "unres" | .routineBad => "rbad" | .iface => "iface"
  | .param => "param" | .arg => "arg" | .dtype => "dtype" | .other => "other"

def showErr : Err → String
  | .unresolvedNoWildcard => "unresolved" | .routineBad => "routine" | .paramDeps => "paramdeps"
  | .argsInModule => "argsmodule" | .argMissing => "argmissing" | .clash => "clash" | .reader => "reader"

def showItem : Item → String
  | .use c w only => s!"(use {c} {if w then 1 else 0} {showNats only})"
  | .decl s => s!"(decl {s.name} {showClsTag s.cls} {if s.pub then 1 else 0})"
  | .defaultAccess p => s!"(default {if p then 0 else 1})"
  | .access p ns => s!"(access {if p then 1 else 0} {showNats ns})"
  | .stmt t => s!"(stmt {t})"
  | .routineDef n => s!"(routine {n})"

def showItems (r : Except Err (List Item)) : String :=
  match r with
  | .error e => s!"(err {showErr e})"
  | .ok items => "(ok " ++ " ".intercalate (items.map showItem) ++ ")"

/-! merge: names are lists of ASCII codes, fresh names are `C16.nextName` (`next_available_name`) -/

def parseKind : Sexp → MKind
  | .atom "fixed" => .fixed
  | .atom "shared" => .shared
  | _ => .free

def parseMSym : Sexp → Option (MSym (List Nat))
  | .list [i, n, k] => some { id := i.nat?.getD 0, name := n.natList, kind := parseKind k }
  | .list [i, n, k, cb] => some { id := i.nat?.getD 0, name := n.natList, kind := parseKind k,
                                   cb := cb.items.map Sexp.natList }
  | _ => none

def freshName (existing : List (List Nat)) (root : List Nat) : List Nat := C16.nextName existing root

def showMSyms (r : Option (List (MSym (List Nat)))) : String :=
  match r with
  | none => "none"
  | some l => "(ok " ++ " ".intercalate (l.map fun s => s!"({s.id} {showNats s.name})") ++ ")"

end Decls
