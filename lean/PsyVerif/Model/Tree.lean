/-! C14: model of the child-list editing operations of the PSyIR tree
(`ChildrenList` and `Node.children=/addchild/detach/replace_with/pop_all_children` in
src/psyclone/psyir/nodes/node.py) **as repaired by fixes/C14-childrenlist.patch**.

A heap maps node ids (Nat) to: kind (index of the node class), ordered children list,
parent link, and the `_has_constructor_parent` flag.  `step` mirrors each public operation:
the refusals (`GenerationError`, `IndexError`, `ValueError`, `TypeError`, `NotImplementedError`)
are explicit outcomes, and every mutation the Python performs before a possible raise is
performed by the model too.  Core Lean only. -/
namespace C14

abbrev Id := Nat
abbrev Kind := Nat

structure Heap where
  kind : Id → Kind
  children : Id → List Id
  parent : Id → Option Id
  /-- `_has_constructor_parent`: parent given to the constructor, not yet listed by it -/
  ctor : Id → Bool
  /-- number of allocated nodes: bound of the `while cursor is not None` ancestor walk -/
  size : Nat

inductive Outcome where
  | ok | generationError | indexError | valueError | typeError | notImplemented
  deriving DecidableEq, Repr

/-- What the operations need to know about node classes: `_validate_child(position, child)`
of every class as a table over (class, position, class of child), and whether the class
has an `argument_names` attribute (Call and subclasses).  Generated from the live classes
into `PsyVerif/Gen/NodeKinds.lean`; the theorems hold for *every* table. -/
structure Kinds where
  valid : Kind → Nat → Kind → Bool
  argNames : Kind → Bool

/-! ## heap updates -/

/-- `list` mutation of `p.children` -/
def Heap.setKids (h : Heap) (p : Id) (l : List Id) : Heap :=
  { h with children := fun q => if q = p then l else h.children q }

/-- `_set_parent_link` -/
def Heap.link (h : Heap) (c p : Id) : Heap :=
  { h with parent := fun x => if x = c then some p else h.parent x
           ctor := fun x => if x = c then false else h.ctor x }

/-- `_del_parent_link` -/
def Heap.unlink (h : Heap) (c : Id) : Heap :=
  { h with parent := fun x => if x = c then none else h.parent x
           ctor := fun x => if x = c then false else h.ctor x }

def Heap.linkAll (h : Heap) (xs : List Id) (p : Id) : Heap := xs.foldl (fun h x => h.link x p) h
def Heap.unlinkAll (h : Heap) (xs : List Id) : Heap := xs.foldl (fun h x => h.unlink x) h

/-! ## Python index conventions -/

/-- `_positive_index`: a negative index counts from the end; `none` = `IndexError` (before the
start of the list).  The result may still be beyond the end. -/
def positiveIndex (len : Nat) (i : Int) : Option Nat :=
  if 0 ≤ i then some i.toNat
  else if 0 ≤ i + (len : Int) then some (i + (len : Int)).toNat else none

/-- `list.insert` clamping: `max(0, len+index)` for negative, `min(index, len)` otherwise -/
def clampIndex (len : Nat) (i : Int) : Nat :=
  if i < 0 then (i + (len : Int)).toNat else min i.toNat len

/-! ## checks -/

/-- `self._validation_function(index, item)` -/
def validAt (K : Kinds) (h : Heap) (p : Id) (pos : Nat) (x : Id) : Bool :=
  K.valid (h.kind p) pos (h.kind x)

/-- every `xs[j]` is valid at position `pos + j` (validation of displaced / added items) -/
def validFrom (K : Kinds) (h : Heap) (p : Id) : List Id → Nat → Bool
  | [], _ => true
  | x :: xs, pos => validAt K h p pos x && validFrom K h p xs (pos + 1)

/-- `_check_is_orphan` (its first two tests): no parent, or a constructor parent that is `p` -/
def orphanOk (h : Heap) (p x : Id) : Bool :=
  match h.parent x with
  | none => true
  | some q => h.ctor x && q == p

/-- `cursor = node; while cursor is not None: if cursor is item: raise; cursor = cursor.parent`.
`true` = the item was met.  With exhausted fuel (impossible while the parent chains are
shorter than `size`) the model refuses as well. -/
def onChain (h : Heap) (item : Id) : Nat → Option Id → Bool
  | _, none => false
  | 0, some _ => true
  | f + 1, some c => if c = item then true else onChain h item f (h.parent c)

/-- `_check_not_ancestor`: the item is neither `p` nor one of its ancestors -/
def noCycle (h : Heap) (p x : Id) : Bool := !onChain h x (h.size + 1) (some p)

def nodupB : List Id → Bool
  | [] => true
  | x :: xs => !xs.contains x && nodupB xs

/-! ## ChildrenList operations -/

def append (K : Kinds) (h : Heap) (p x : Id) : Heap × Outcome :=
  let l := h.children p
  if !validAt K h p l.length x then (h, .generationError)
  else if !(orphanOk h p x && noCycle h p x) then (h, .generationError)
  else ((h.setKids p (l ++ [x])).link x p, .ok)

def setitem (K : Kinds) (h : Heap) (p : Id) (i : Int) (x : Id) : Heap × Outcome :=
  let l := h.children p
  match positiveIndex l.length i with
  | none => (h, .indexError)
  | some k =>
    if !validAt K h p k x then (h, .generationError)
    else if !(orphanOk h p x && noCycle h p x) then (h, .generationError)
    else match l[k]? with
      | none => (h, .indexError)                     -- `self[index]` beyond the end
      | some old => (((h.unlink old).setKids p (l.set k x)).link x p, .ok)

def insert (K : Kinds) (h : Heap) (p : Id) (i : Int) (x : Id) : Heap × Outcome :=
  let l := h.children p
  let k := clampIndex l.length i
  if !validAt K h p k x then (h, .generationError)
  else if !(orphanOk h p x && noCycle h p x) then (h, .generationError)
  else if !validFrom K h p (l.drop k) (k + 1) then (h, .generationError)
  else ((h.setKids p (l.insertIdx k x)).link x p, .ok)

/-- The three refusals of the `for index, item in enumerate(items)` loop all raise
`GenerationError` before any mutation, so their interleaving is not observable. -/
def extend (K : Kinds) (h : Heap) (p : Id) (xs : List Id) : Heap × Outcome :=
  let l := h.children p
  if !validFrom K h p xs l.length then (h, .generationError)
  else if !xs.all (fun x => orphanOk h p x && noCycle h p x) then (h, .generationError)
  else if !nodupB xs then (h, .generationError)
  else ((h.setKids p (l ++ xs)).linkAll xs p, .ok)

/-- common tail of `__delitem__`, `pop` and `remove` once the position `k` is known -/
def delAt (K : Kinds) (h : Heap) (p : Id) (k : Nat) : Heap × Outcome :=
  let l := h.children p
  if !validFrom K h p (l.drop (k + 1)) k then (h, .generationError)
  else match l[k]? with
    | none => (h, .indexError)
    | some old => ((h.unlink old).setKids p (l.eraseIdx k), .ok)

def delitem (K : Kinds) (h : Heap) (p : Id) (i : Int) : Heap × Outcome :=
  match positiveIndex (h.children p).length i with
  | none => (h, .indexError)
  | some k => delAt K h p k

def pop (K : Kinds) (h : Heap) (p : Id) (i : Int) : Heap × Outcome := delitem K h p i

/-- located by identity (`child is item`) -/
def remove (K : Kinds) (h : Heap) (p x : Id) : Heap × Outcome :=
  let l := h.children p
  let k := l.idxOf x
  if k < l.length then delAt K h p k else (h, .valueError)

/-- validates item `index` at `len - index - 1`, i.e. the reversed list position by position -/
def reverse (K : Kinds) (h : Heap) (p : Id) : Heap × Outcome :=
  let l := h.children p
  if !validFrom K h p l.reverse 0 then (h, .generationError)
  else (h.setKids p l.reverse, .ok)

def clear (h : Heap) (p : Id) : Heap × Outcome :=
  ((h.unlinkAll (h.children p)).setKids p [], .ok)

/-! ## Node operations -/

/-- `while self.children: free_children.insert(0, self.children.pop())` -/
def popAll (K : Kinds) (p : Id) : Nat → Heap → Heap × Outcome
  | 0, h => (h, .ok)
  | f + 1, h =>
    if (h.children p).isEmpty then (h, .ok)
    else match pop K h p (-1) with
      | (h', .ok) => popAll K p f h'
      | r => r

/-- `children.setter` (for a list that is not the node's own ChildrenList object) -/
def setChildren (K : Kinds) (h : Heap) (p : Id) (xs : List Id) : Heap × Outcome :=
  if !validFrom K h p xs 0 then (h, .generationError)
  else if !xs.all (fun x => (h.parent x == some p || orphanOk h p x) && noCycle h p x) then
    (h, .generationError)
  else if !nodupB xs then (h, .generationError)
  else match popAll K p (h.children p).length h with
    | (h1, .ok) => extend K h1 p xs
    | r => r

def addchild (K : Kinds) (h : Heap) (p x : Id) : Option Int → Heap × Outcome
  | none => append K h p x
  | some i => insert K h p i x

/-- `if self.parent: self.parent.children.pop(self.position)`; `position` is `None` for a
node that only has a constructor parent, and `pop(None)` is a `TypeError`. -/
def detach (K : Kinds) (h : Heap) (x : Id) : Heap × Outcome :=
  match h.parent x with
  | none => (h, .ok)
  | some q =>
    let l := h.children q
    let k := l.idxOf x
    if k < l.length then pop K h q (k : Int) else (h, .typeError)

/-- `replace_with(node)` for call-like parents without *named* arguments: then
`argument_names` is `[None] * (len(children) - 1)` and `argument_names[position - 1]` is an
`IndexError` exactly for the routine reference of a call without arguments. -/
def replaceWith (K : Kinds) (h : Heap) (x y : Id) : Heap × Outcome :=
  match h.parent x with
  | none => (h, .generationError)
  | some q =>
    if (h.parent y).isSome then (h, .generationError)
    else
      let l := h.children q
      let k := l.idxOf x
      if !(k < l.length) then (h, .typeError)          -- `position` is None
      else if K.argNames (h.kind q) && k == 0 && l.length == 1 then (h, .indexError)
      else setitem K h q (k : Int) y

inductive Op where
  | append (p x : Id)
  | insert (p : Id) (i : Int) (x : Id)
  | addchild (p x : Id) (i : Option Int)
  | extend (p : Id) (xs : List Id)
  | iadd (p : Id) (xs : List Id)
  | setitem (p : Id) (i : Int) (x : Id)
  | delitem (p : Id) (i : Int)
  | pop (p : Id) (i : Int)
  | remove (p x : Id)
  | reverse (p : Id)
  | clear (p : Id)
  | sort (p : Id)
  | imul (p : Id)
  | setChildren (p : Id) (xs : List Id)
  | popAll (p : Id)
  | detach (x : Id)
  | replaceWith (x y : Id)

def step (K : Kinds) (h : Heap) : Op → Heap × Outcome
  | .append p x => append K h p x
  | .insert p i x => insert K h p i x
  | .addchild p x i => addchild K h p x i
  | .extend p xs => extend K h p xs
  -- `p.children += xs`: `__iadd__` is `extend`, then the setter sees its own list: no-op
  | .iadd p xs => extend K h p xs
  | .setitem p i x => setitem K h p i x
  | .delitem p i => delitem K h p i
  | .pop p i => pop K h p i
  | .remove p x => remove K h p x
  | .reverse p => reverse K h p
  | .clear p => clear h p
  | .sort _ => (h, .notImplemented)
  | .imul _ => (h, .notImplemented)
  | .setChildren p xs => setChildren K h p xs
  | .popAll p => popAll K p (h.children p).length h
  | .detach x => detach K h x
  | .replaceWith x y => replaceWith K h x y

/-! ## concrete heaps -/

structure Rec where
  kind : Kind
  parent : Option Id
  ctor : Bool
  children : List Id

/-- the heap whose node `i` is the `i`-th record (nothing beyond the end of the list) -/
def Heap.ofList (rs : List Rec) : Heap :=
  { kind := fun i => match rs[i]? with | some r => r.kind | none => 0
    children := fun i => match rs[i]? with | some r => r.children | none => []
    parent := fun i => match rs[i]? with | some r => r.parent | none => none
    ctor := fun i => match rs[i]? with | some r => r.ctor | none => false
    size := rs.length }

/-- executable well-formedness test of the nodes `0..n-1` -/
def wfCheck (K : Kinds) (h : Heap) (n : Nat) : Bool :=
  (List.range n).all fun p =>
    (h.children p).all (fun c => h.parent c == some p && !h.ctor c) &&
    nodupB (h.children p) && validFrom K h p (h.children p) 0 &&
    (match h.parent p with
     | none => true
     | some q => h.ctor p || (h.children q).contains p)

/-- the heap after a history -/
def run (K : Kinds) (h : Heap) (ops : List Op) : Heap := ops.foldl (fun h o => (step K h o).1) h

/-- the outcomes of a history -/
def outcomes (K : Kinds) : Heap → List Op → List Outcome
  | _, [] => []
  | h, o :: os => (step K h o).2 :: outcomes K (step K h o).1 os

end C14
