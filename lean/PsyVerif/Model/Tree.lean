/-! C14: model of the child-list editing operations of the PSyIR tree
(`ChildrenList` and `Node.children=/addchild/detach/replace_with/pop_all_children` in
src/psyclone/psyir/nodes/node.py) **as repaired by fixes/C14-childrenlist.patch**.

A heap maps node ids (Nat) to: kind (index of the node class), ordered children list,
parent link, and the `_has_constructor_parent` flag.  `step` mirrors each public operation:
the refusals (`GenerationError`, `IndexError`, `ValueError`, `TypeError`, `NotImplementedError`)
are explicit outcomes, and every mutation the Python performs before a possible raise is
performed by the model too.  Core Lean only. -/
namespace C14

abbrev Id := Nat
abbrev Kind := Nat

structure Heap where
  kind : Id → Kind
  children : Id → List Id
  parent : Id → Option Id
  /-- `_has_constructor_parent`: parent given to the constructor, not yet listed by it -/
  ctor : Id → Bool
  /-- number of allocated nodes: bound of the `while cursor is not None` ancestor walk -/
  size : Nat

inductive Outcome where
  | ok | generationError | indexError | valueError | typeError | notImplemented
  deriving DecidableEq, Repr

/-- What the operations need to know about node classes: `_validate_child(position, child)`
of every class as a table over (class, position, class of child), and whether the class
has an `argument_names` attribute (Call and subclasses).  Generated from the live classes
into `PsyVerif/Gen/NodeKinds.lean`; the theorems hold for *every* table. -/
structure Kinds where
  valid : Kind → Nat → Kind → Bool
  argNames : Kind → Bool

/-! ## heap updates -/

/-- `list` mutation of `p.children` -/
def Heap.setKids (h : Heap) (p : Id) (l : List Id) : Heap :=
  { h with children := fun q => if q = p then l else h.children q }

/-- `_set_parent_link` -/
def Heap.link (h : Heap) (c p : Id) : Heap :=
  { h with parent := fun x => if x = c then some p else h.parent x
           ctor := fun x => if x = c then false else h.ctor x }

/-- `_del_parent_link` -/
def Heap.unlink (h : Heap) (c : Id) : Heap :=
  { h with parent := fun x => if x = c then none else h.parent x
           ctor := fun x => if x = c then false else h.ctor x }

def Heap.linkAll (h : Heap) (xs : List Id) (p : Id) : Heap := xs.foldl (fun h x => h.link x p) h
def Heap.unlinkAll (h : Heap) (xs : List Id) : Heap := xs.foldl (fun h x => h.unlink x) h

/-! ## Python index conventions -/

/-- `_positive_index`: a negative index counts from the end; `none` = `IndexError` (before the
start of the list).  The result may still be beyond the end. -/
def positiveIndex (len : Nat) (i : Int) : Option Nat :=
  if 0 ≤ i then some i.toNat
  else if 0 ≤ i + (len : Int) then some (i + (len : Int)).toNat else none

/-- `list.insert` clamping: `max(0, len+index)` for negative, `min(index, len)` otherwise -/
def clampIndex (len : Nat) (i : Int) : Nat :=
  if i < 0 then (i + (len : Int)).toNat else min i.toNat len

/-! ## checks -/

/-- `self._validation_function(index, item)` -/
def validAt (K : Kinds) (h : Heap) (p : Id) (pos : Nat) (x : Id) : Bool :=
  K.valid (h.kind p) pos (h.kind x)

/-- every `xs[j]` is valid at position `pos + j` (validation of displaced / added items) -/
def validFrom (K : Kinds) (h : Heap) (p : Id) : List Id → Nat → Bool
  | [], _ => true
  | x :: xs, pos => validAt K h p pos x && validFrom K h p xs (pos + 1)

/-- `_check_is_orphan` (its first two tests): no parent, or a constructor parent that is `p` -/
def orphanOk (h : Heap) (p x : Id) : Bool :=
  match h.parent x with
  | none => true
  | some q => h.ctor x && q == p

/-- `cursor = node; while cursor is not None: if cursor is item: raise; cursor = cursor.parent`.
`true` = the item was met.  With exhausted fuel (impossible while the parent chains are
shorter than `size`) the model refuses as well. -/
def onChain (h : Heap) (item : Id) : Nat → Option Id → Bool
  | _, none => false
  | 0, some _ => true
  | f + 1, some c => if c = item then true else onChain h item f (h.parent c)

/-- `_check_not_ancestor`: the item is neither `p` nor one of its ancestors -/
def noCycle (h : Heap) (p x : Id) : Bool := !onChain h x (h.size + 1) (some p)

def nodupB : List Id → Bool
  | [] => true
  | x :: xs => !xs.contains x && nodupB xs

/-! ## ChildrenList operations -/

def append (K : Kinds) (h : Heap) (p x : Id) : Heap × Outcome :=
  let l := h.children p
  if !validAt K h p l.length x then (h, .generationError)
  else if !(orphanOk h p x && noCycle h p x) then (h, .generationError)
  else ((h.setKids p (l ++ [x])).link x p, .ok)

def setitem (K : Kinds) (h : Heap) (p : Id) (i : Int) (x : Id) : Heap × Outcome :=
  let l := h.children p
  match positiveIndex l.length i with
  | none => (h, .indexError)
  | some k =>
    if !validAt K h p k x then (h, .generationError)
    else if !(orphanOk h p x && noCycle h p x) then (h, .generationError)
    else match l[k]? with
      | none => (h, .indexError)                     -- `self[index]` beyond the end
      | some old => (((h.unlink old).setKids p (l.set k x)).link x p, .ok)

def insert (K : Kinds) (h : Heap) (p : Id) (i : Int) (x : Id) : Heap × Outcome :=
  let l := h.children p
  let k := clampIndex l.length i
  if !validAt K h p k x then (h, .generationError)
  else if !(orphanOk h p x && noCycle h p x) then (h, .generationError)
  else if !validFrom K h p (l.drop k) (k + 1) then (h, .generationError)
  else ((h.setKids p (l.insertIdx k x)).link x p, .ok)

/-- The three refusals of the `for index, item in enumerate(items)` loop all raise
`GenerationError` before any mutation, so their interleaving is not observable. -/
def extend (K : Kinds) (h : Heap) (p : Id) (xs : List Id) : Heap × Outcome :=
  let l := h.children p
  if !validFrom K h p xs l.length then (h, .generationError)
  else if !xs.all (fun x => orphanOk h p x && noCycle h p x) then (h, .generationError)
  else if !nodupB xs then (h, .generationError)
  else ((h.setKids p (l ++ xs)).linkAll xs p, .ok)

/-- common tail of `__delitem__`, `pop` and `remove` once the position `k` is known -/
def delAt (K : Kinds) (h : Heap) (p : Id) (k : Nat) : Heap × Outcome :=
  let l := h.children p
  if !validFrom K h p (l.drop (k + 1)) k then (h, .generationError)
  else match l[k]? with
    | none => (h, .indexError)
    | some old => ((h.unlink old).setKids p (l.eraseIdx k), .ok)

def delitem (K : Kinds) (h : Heap) (p : Id) (i : Int) : Heap × Outcome :=
  match positiveIndex (h.children p).length i with
  | none => (h, .indexError)
  | some k => delAt K h p k

def pop (K : Kinds) (h : Heap) (p : Id) (i : Int) : Heap × Outcome := delitem K h p i

/-- located by identity (`child is item`) -/
def remove (K : Kinds) (h : Heap) (p x : Id) : Heap × Outcome :=
  let l := h.children p
  let k := l.idxOf x
  if k < l.length then delAt K h p k else (h, .valueError)

/-- validates item `index` at `len - index - 1`, i.e. the reversed list position by position -/
def reverse (K : Kinds) (h : Heap) (p : Id) : Heap × Outcome :=
  let l := h.children p
  if !validFrom K h p l.reverse 0 then (h, .generationError)
  else (h.setKids p l.reverse, .ok)

def clear (h : Heap) (p : Id) : Heap × Outcome :=
  ((h.unlinkAll (h.children p)).setKids p [], .ok)

/-! ## Node operations -/

/-- `while self.children: free_children.insert(0, self.children.pop())` -/
def popAll (K : Kinds) (p : Id) : Nat → Heap → Heap × Outcome
  | 0, h => (h, .ok)
  | f + 1, h =>
    if (h.children p).isEmpty then (h, .ok)
    else match pop K h p (-1) with
      | (h', .ok) => popAll K p f h'
      | r => r

/-- `children.setter` (for a list that is not the node's own ChildrenList object) -/
def setChildren (K : Kinds) (h : Heap) (p : Id) (xs : List Id) : Heap × Outcome :=
  if !validFrom K h p xs 0 then (h, .generationError)
  else if !xs.all (fun x => (h.parent x == some p || orphanOk h p x) && noCycle h p x) then
    (h, .generationError)
  else if !nodupB xs then (h, .generationError)
  else match popAll K p (h.children p).length h with
    | (h1, .ok) => extend K h1 p xs
    | r => r

def addchild (K : Kinds) (h : Heap) (p x : Id) : Option Int → Heap × Outcome
  | none => append K h p x
  | some i => insert K h p i x

/-- `if self.parent: self.parent.children.pop(self.position)`; `position` is `None` for a
node that only has a constructor parent, and `pop(None)` is a `TypeError`. -/
def detach (K : Kinds) (h : Heap) (x : Id) : Heap × Outcome :=
  match h.parent x with
  | none => (h, .ok)
  | some q =>
    let l := h.children q
    let k := l.idxOf x
    if k < l.length then pop K h q (k : Int) else (h, .typeError)

/-- `replace_with(node, keep_name_in_context)` (both arguments of the right type, see the
`…NonNode`/`…BadFlag` operations for the others).  Call-like parents are modelled without *named*
arguments: then `argument_names` is `[None] * (len(children) - 1)`, and
`argument_names[position - 1]` is an `IndexError` exactly for the routine reference of a call
without arguments.  With `keep_name_in_context=False` that lookup is skipped.  `position` is
`None` for a node that only has a constructor parent: `None - 1`, resp. `children[None] = node`,
is a `TypeError`. -/
def replaceWith (K : Kinds) (h : Heap) (x y : Id) (keep : Bool) : Heap × Outcome :=
  match h.parent x with
  | none => (h, .generationError)
  | some q =>
    if (h.parent y).isSome then (h, .generationError)
    else
      let l := h.children q
      let k := l.idxOf x
      if !(k < l.length) then (h, .typeError)          -- `position` is None
      else if keep && K.argNames (h.kind q) && k == 0 && l.length == 1 then (h, .indexError)
      else setitem K h q (k : Int) y

/-- `Call.append_named_arg(None, arg)`: `self.children.append(arg)` (name bookkeeping aside) -/
def appendNamedArg (K : Kinds) (h : Heap) (p x : Id) : Heap × Outcome := append K h p x

/-- `Call.insert_named_arg(None, arg, index)`: `self.children.insert(index + 1, arg)` -/
def insertNamedArg (K : Kinds) (h : Heap) (p : Id) (i : Int) (x : Id) : Heap × Outcome :=
  insert K h p (i + 1) x

inductive Op where
  | append (p x : Id)
  | insert (p : Id) (i : Int) (x : Id)
  | addchild (p x : Id) (i : Option Int)
  | extend (p : Id) (xs : List Id)
  | iadd (p : Id) (xs : List Id)
  | setitem (p : Id) (i : Int) (x : Id)
  | delitem (p : Id) (i : Int)
  | pop (p : Id) (i : Int)
  | remove (p x : Id)
  | reverse (p : Id)
  | clear (p : Id)
  | sort (p : Id)
  | imul (p : Id)
  | setChildren (p : Id) (xs : List Id)
  | popAll (p : Id)
  | detach (x : Id)
  | replaceWith (x y : Id) (keep : Bool)
  | appendNamedArg (p x : Id)
  | insertNamedArg (p : Id) (i : Int) (x : Id)
  /- operations that the repaired code rejects by the type of an argument, before looking at the tree -/
  | setslice (p : Id)               -- `p.children[i:j] = [...]`
  | delslice (p : Id)               -- `del p.children[i:j]`, `p.children.pop(slice)`
  | setChildrenNonList (p : Id)     -- `p.children = <not a list>`
  | replaceWithNonNode (x : Id)     -- `x.replace_with(<not a Node>)`
  | replaceWithBadFlag (x y : Id)   -- `x.replace_with(y, keep_name_in_context=<not a bool>)`

def step (K : Kinds) (h : Heap) : Op → Heap × Outcome
  | .append p x => append K h p x
  | .insert p i x => insert K h p i x
  | .addchild p x i => addchild K h p x i
  | .extend p xs => extend K h p xs
  -- `p.children += xs`: `__iadd__` is `extend`, then the setter sees its own list: no-op
  | .iadd p xs => extend K h p xs
  | .setitem p i x => setitem K h p i x
  | .delitem p i => delitem K h p i
  | .pop p i => pop K h p i
  | .remove p x => remove K h p x
  | .reverse p => reverse K h p
  | .clear p => clear h p
  | .sort _ => (h, .notImplemented)
  | .imul _ => (h, .notImplemented)
  | .setChildren p xs => setChildren K h p xs
  | .popAll p => popAll K p (h.children p).length h
  | .detach x => detach K h x
  | .replaceWith x y keep => replaceWith K h x y keep
  | .appendNamedArg p x => appendNamedArg K h p x
  | .insertNamedArg p i x => insertNamedArg K h p i x
  | .setslice _ => (h, .typeError)
  | .delslice _ => (h, .typeError)
  | .setChildrenNonList _ => (h, .typeError)
  | .replaceWithNonNode _ => (h, .typeError)
  | .replaceWithBadFlag _ _ => (h, .typeError)

/-- the node ids an operation mentions -/
def Op.ids : Op → List Id
  | .append p x | .remove p x | .appendNamedArg p x | .replaceWithBadFlag p x => [p, x]
  | .insert p _ x | .setitem p _ x | .insertNamedArg p _ x | .addchild p x _ => [p, x]
  | .extend p xs | .iadd p xs | .setChildren p xs => p :: xs
  | .delitem p _ | .pop p _ | .reverse p | .clear p | .sort p | .imul p | .popAll p | .detach p => [p]
  | .setslice p | .delslice p | .setChildrenNonList p | .replaceWithNonNode p => [p]
  | .replaceWith x y _ => [x, y]

/-! ## concrete heaps -/

structure Rec where
  kind : Kind
  parent : Option Id
  ctor : Bool
  children : List Id

/-- the heap whose node `i` is the `i`-th record (nothing beyond the end of the list) -/
def Heap.ofList (rs : List Rec) : Heap :=
  { kind := fun i => match rs[i]? with | some r => r.kind | none => 0
    children := fun i => match rs[i]? with | some r => r.children | none => []
    parent := fun i => match rs[i]? with | some r => r.parent | none => none
    ctor := fun i => match rs[i]? with | some r => r.ctor | none => false
    size := rs.length }

/-- executable well-formedness test of the nodes `0..n-1` -/
def wfCheck (K : Kinds) (h : Heap) (n : Nat) : Bool :=
  (List.range n).all fun p =>
    (h.children p).all (fun c => h.parent c == some p && !h.ctor c) &&
    nodupB (h.children p) && validFrom K h p (h.children p) 0 &&
    (match h.parent p with
     | none => true
     | some q => h.ctor p || (h.children q).contains p)

/-- the heap after a history -/
def run (K : Kinds) (h : Heap) (ops : List Op) : Heap := ops.foldl (fun h o => (step K h o).1) h

/-- the outcomes of a history -/
def outcomes (K : Kinds) : Heap → List Op → List Outcome
  | _, [] => []
  | h, o :: os => (step K h o).2 :: outcomes K (step K h o).1 os

/-! ## fresh nodes (what the constructors produce) -/

/-- `specs[i] = (kind, constructor parent)`: node `i` as `Cls()` or `Cls(parent=p)` leaves it —
no children, not listed anywhere. -/
def Heap.fresh (specs : List (Kind × Option Id)) : Heap :=
  Heap.ofList (specs.map fun s => ⟨s.1, s.2, s.2.isSome, []⟩)

/-- a constructor parent exists before the node that names it -/
def freshOk (specs : List (Kind × Option Id)) : Bool :=
  (List.range specs.length).all fun i =>
    match specs[i]? with
    | some (_, some p) => decide (p < i)
    | _ => true

/-! ## list objects and handles

`node.children` returns the node's own list object, and (since the repair of the setter) a node
keeps that one object for its whole life: `children = [...]` empties and refills it.  So a handle
`lst = node.children`, taken at any time, *is* the node's children list, and an operation through
it is the operation on the node. -/

/-- the ChildrenList methods, as invoked on a list object -/
inductive ListOp where
  | append (x : Id) | insert (i : Int) (x : Id) | extend (xs : List Id) | iadd (xs : List Id)
  | setitem (i : Int) (x : Id) | delitem (i : Int) | pop (i : Int) | remove (x : Id)
  | reverse | clear | sort | imul | setslice | delslice

/-- the same method on the children list of node `p` -/
def ListOp.toOp (p : Id) : ListOp → Op
  | .append x => .append p x | .insert i x => .insert p i x | .extend xs => .extend p xs
  | .iadd xs => .extend p xs       -- `lst += xs` on a bare handle is `__iadd__` = `extend`
  | .setitem i x => .setitem p i x | .delitem i => .delitem p i | .pop i => .pop p i
  | .remove x => .remove p x | .reverse => .reverse p | .clear => .clear p | .sort => .sort p
  | .imul => .imul p | .setslice => .setslice p | .delslice => .delslice p

/-- `handles[k]` = the node whose `children` the k-th handle was taken from -/
structure HState where
  heap : Heap
  handles : List Id

inductive HOp where
  | cur (op : Op)                      -- an operation on a node
  | take (p : Id)                      -- `lst_k = p.children`
  | via (k : Nat) (lop : ListOp)       -- `lst_k.<method>(…)`

def hstep (K : Kinds) (s : HState) : HOp → HState × Outcome
  | .cur op => let r := step K s.heap op; (⟨r.1, s.handles⟩, r.2)
  | .take p => (⟨s.heap, s.handles ++ [p]⟩, .ok)
  | .via k lop =>
    match s.handles[k]? with
    | none => (s, .ok)                 -- no such handle: nothing happens
    | some p => let r := step K s.heap (lop.toOp p); (⟨r.1, s.handles⟩, r.2)

def hrun (K : Kinds) (s : HState) (ops : List HOp) : HState := ops.foldl (fun s o => (hstep K s o).1) s

/-! ### the pinned setter (before fix 6dd9337), kept for the counterexample

It installed a *new* ChildrenList; the old object — emptied by `pop_all_children` — stayed
reachable through earlier handles and still validated and linked on behalf of its node, with its
own item list. -/

/-- a list object that is no longer the `_children` of `owner` -/
structure Stale where
  owner : Id
  items : List Id

/-- a method on a stale list object: it sees its own items, validates with and links to `owner`;
the owner's real children list is untouched. -/
def staleStepPinned (K : Kinds) (h : Heap) (st : Stale) (lop : ListOp) : Heap × Stale × Outcome :=
  let r := step K (h.setKids st.owner st.items) (lop.toOp st.owner)
  (r.1.setKids st.owner (h.children st.owner), { st with items := r.1.children st.owner }, r.2)

structure HStatePinned where
  heap : Heap
  /-- live handles: `(owner)`; stale ones: the detached list objects -/
  stale : List Stale

inductive HOpPinned where
  | cur (op : Op)
  | viaStale (k : Nat) (lop : ListOp)   -- through the k-th list object replaced by a setter

def hstepPinned (K : Kinds) (s : HStatePinned) : HOpPinned → HStatePinned × Outcome
  | .cur op =>
    let r := step K s.heap op
    let stale' := match op, r.2 with
      | .setChildren p _, .ok => s.stale ++ [⟨p, []⟩]   -- `self._children = ChildrenList(...)`
      | _, _ => s.stale
    (⟨r.1, stale'⟩, r.2)
  | .viaStale k lop =>
    match s.stale[k]? with
    | none => (s, .ok)
    | some st =>
      let r := staleStepPinned K s.heap st lop
      (⟨r.1, s.stale.set k r.2.1⟩, r.2.2)

def hrunPinned (K : Kinds) (s : HStatePinned) (ops : List HOpPinned) : HStatePinned :=
  ops.foldl (fun s o => (hstepPinned K s o).1) s

/-! ## named arguments of Call nodes (`Call._argument_names`)

`_argument_names` is a list of `(id(arg), name)` kept *lazily* consistent with the children:
`_reconcile` (run by the `argument_names` property) rebuilds it from the current arguments
(`children[1:]`), keeping the first entry with the same `id` and `None` otherwise.  Names are
compared case-insensitively, except in `replace_named_arg`, which compares `name.lower()` with
the *un-lowered* name it was given. -/

structure ArgName where
  /-- the name up to case (`name.lower()`) -/
  id : Nat
  /-- `name.lower() == name` -/
  lower : Bool
  deriving DecidableEq, Repr

abbrev Entry := Id × Option ArgName

structure CState where
  heap : Heap
  /-- `_argument_names` of every call-like node -/
  names : Id → List Entry

def CState.setNames (s : CState) (q : Id) (l : List Entry) : CState :=
  { s with names := fun i => if i = q then l else s.names i }

/-- `_reconcile` -/
def reconcile (args : List Id) (entries : List Entry) : List Entry :=
  args.map fun c => match entries.find? (fun e => e.1 == c) with
    | some e => e
    | none => (c, none)

/-- `self.argument_names` (its side effect on `_argument_names`) -/
def reconciled (s : CState) (q : Id) : List Entry := reconcile ((s.heap.children q).drop 1) (s.names q)

/-- Python indexing `l[i]`; `none` = `IndexError` -/
def pyGet {α : Type} (l : List α) (i : Int) : Option α :=
  match positiveIndex l.length i with
  | none => none
  | some k => l[k]?

/-- `replace_named_arg(existing_name, arg)`: searches the RAW `_argument_names` for an entry whose
`name.lower()` equals `existing_name` as given; `ValueError` if none. -/
def replaceNamedArg (K : Kinds) (s : CState) (q : Id) (nm : ArgName) (y : Id) : CState × Outcome :=
  let es := s.names q
  match es.findIdx? (fun e => match e.2 with
      | some m => m.id == nm.id && nm.lower
      | none => false) with
  | none => (s, .valueError)
  | some j =>
    let r := setitem K s.heap q ((j : Int) + 1) y
    match r.2 with
    | .ok => ((CState.mk r.1 s.names).setNames q (es.set j (y, some nm)), .ok)
    | o => ({ s with heap := r.1 }, o)

/-- `replace_with` with the named-argument logic of call-like parents -/
def replaceWithC (K : Kinds) (s : CState) (x y : Id) (keep : Bool) : CState × Outcome :=
  let h := s.heap
  match h.parent x with
  | none => (s, .generationError)
  | some q =>
    if (h.parent y).isSome then (s, .generationError)
    else
      let l := h.children q
      let k := l.idxOf x
      if keep && K.argNames (h.kind q) then
        -- `self.parent.argument_names[self.position - 1]`: the property is evaluated first
        let es := reconciled s q
        let s1 := s.setNames q es
        if !(k < l.length) then (s1, .typeError)
        else match pyGet es ((k : Int) - 1) with
          | none => (s1, .indexError)
          | some (_, none) => let r := setitem K h q (k : Int) y; ({ s1 with heap := r.1 }, r.2)
          | some (_, some nm) => replaceNamedArg K s1 q nm y
      else if !(k < l.length) then (s, .typeError)
      else let r := setitem K h q (k : Int) y; ({ s with heap := r.1 }, r.2)

/-- does some reconciled entry carry this name (case-insensitively)? -/
def nameUsed (es : List Entry) (nm : ArgName) : Bool :=
  es.any fun e => match e.2 with
    | some m => m.id == nm.id
    | none => false

/-- `append_named_arg(name, arg)`: the entry is appended *before* `children.append` may refuse -/
def appendNamedArgC (K : Kinds) (s : CState) (p : Id) (nm : Option ArgName) (x : Id) : CState × Outcome :=
  match nm with
  | none =>
    let r := append K s.heap p x
    ((CState.mk r.1 s.names).setNames p (s.names p ++ [(x, none)]), r.2)
  | some n =>
    let es := reconciled s p
    if nameUsed es n then (s.setNames p es, .valueError)
    else
      let r := append K s.heap p x
      ((CState.mk r.1 s.names).setNames p (es ++ [(x, some n)]), r.2)

/-- `insert_named_arg(name, arg, index)`: `_argument_names.insert(index, …)` then
`children.insert(index + 1, arg)` -/
def insertNamedArgC (K : Kinds) (s : CState) (p : Id) (nm : Option ArgName) (i : Int) (x : Id) :
    CState × Outcome :=
  match nm with
  | none =>
    let es := s.names p
    let r := insert K s.heap p (i + 1) x
    ((CState.mk r.1 s.names).setNames p (es.insertIdx (clampIndex es.length i) (x, none)), r.2)
  | some n =>
    let es := reconciled s p
    if nameUsed es n then (s.setNames p es, .valueError)
    else
      let r := insert K s.heap p (i + 1) x
      ((CState.mk r.1 s.names).setNames p (es.insertIdx (clampIndex es.length i) (x, some n)), r.2)

inductive COp where
  | plain (op : Op)                      -- any operation that does not look at argument names
  | replaceWith (x y : Id) (keep : Bool)
  | appendNamed (p : Id) (nm : Option ArgName) (x : Id)
  | insertNamed (p : Id) (nm : Option ArgName) (i : Int) (x : Id)
  | replaceNamed (p : Id) (nm : ArgName) (y : Id)
  | argumentNames (p : Id)               -- reading the property reconciles

def cstep (K : Kinds) (s : CState) : COp → CState × Outcome
  | .plain op => let r := step K s.heap op; ({ s with heap := r.1 }, r.2)
  | .replaceWith x y keep => replaceWithC K s x y keep
  | .appendNamed p nm x => appendNamedArgC K s p nm x
  | .insertNamed p nm i x => insertNamedArgC K s p nm i x
  | .replaceNamed p nm y => replaceNamedArg K s p nm y
  | .argumentNames p => (s.setNames p (reconciled s p), .ok)

def crun (K : Kinds) (s : CState) (ops : List COp) : CState := ops.foldl (fun s o => (cstep K s o).1) s

end C14
