/-! # MiniF — the executable Fortran/PSyIR subset shared by the semantic properties

Values are integers: INTEGER variables, LOGICALs as 0/1, and REALs restricted to the
exactly representable integer-valued domain (generators never emit inexact real
division).  Variables and arrays are `Nat` ids (the exporter keeps the name table).
A store is a total map from locations to values; arrays have rank ≤ 2.
`exec` is structurally recursive and total, so concrete programs reduce under
`decide`/`rfl`.  Core Lean only. -/
namespace MiniF

/-- a location: variable id and two indices (scalars use `(x, 0, 0)`, rank-1 arrays
`(a, i, 0)`; every variable has one fixed rank, so no two distinct program objects share
a location) -/
abbrev Loc := Nat × Int × Int
/-- A store is a total map from locations to values.  It is a *structure* around the
function (not a bare function type) so that compiled code evaluates `exec` strictly;
`Store.ext` gives extensional equality. -/
@[ext] structure Store where
  get : Loc → Int

instance : CoeFun Store (fun _ => Loc → Int) := ⟨Store.get⟩

def Store.set (σ : Store) (l : Loc) (v : Int) : Store := ⟨fun l' => if l' = l then v else σ.get l'⟩

@[simp] theorem Store.set_same (σ : Store) (l : Loc) (v : Int) : (σ.set l v) l = v := by
  simp [Store.set]

theorem Store.set_other (σ : Store) {l l' : Loc} (v : Int) (h : l' ≠ l) : (σ.set l v) l' = σ l' := by
  simp [Store.set, h]

inductive UnOp where
  | neg | plus | not | abs
  deriving DecidableEq, Repr, Inhabited

inductive BinOp where
  | add | sub | mul | div | pow | mod | min | max | sign
  | eq | ne | lt | le | gt | ge | and | or | eqv | neqv
  deriving DecidableEq, Repr, Inhabited

inductive Expr where
  | lit (n : Int)
  | var (x : Nat)
  | idx1 (a : Nat) (i : Expr)
  | idx2 (a : Nat) (i j : Expr)
  | un (op : UnOp) (e : Expr)
  | bin (op : BinOp) (a b : Expr)
  deriving DecidableEq, Repr, Inhabited

inductive Stmt where
  | skip
  | seq (a b : Stmt)
  | assign (x : Nat) (e : Expr)
  | store1 (a : Nat) (i : Expr) (e : Expr)
  | store2 (a : Nat) (i j : Expr) (e : Expr)
  | ite (c : Expr) (t f : Stmt)
  | loop (v : Nat) (lo hi step : Expr) (body : Stmt)
  deriving DecidableEq, Repr, Inhabited

def b2i (b : Bool) : Int := if b then 1 else 0

def evalUn : UnOp → Int → Int
  | .neg, a => -a
  | .plus, a => a
  | .not, a => b2i (a == 0)
  | .abs, a => if a < 0 then -a else a

/-- Fortran semantics: `/` truncates toward zero, MOD takes the sign of the dividend,
SIGN(a,b) = |a| if b ≥ 0 else −|a|, `**` with a negative exponent is the truncated
reciprocal (0 unless the base is ±1). -/
def evalBin : BinOp → Int → Int → Int
  | .add, a, b => a + b
  | .sub, a, b => a - b
  | .mul, a, b => a * b
  | .div, a, b => Int.tdiv a b
  | .pow, a, b => if b ≥ 0 then a ^ b.toNat else
      (if a = 1 then 1 else if a = -1 then (if b % 2 = 0 then 1 else -1) else 0)
  | .mod, a, b => Int.tmod a b
  | .min, a, b => if a ≤ b then a else b
  | .max, a, b => if a ≤ b then b else a
  | .sign, a, b => if b ≥ 0 then (if a < 0 then -a else a) else (if a < 0 then a else -a)
  | .eq, a, b => b2i (a == b)
  | .ne, a, b => b2i (a != b)
  | .lt, a, b => b2i (decide (a < b))
  | .le, a, b => b2i (decide (a ≤ b))
  | .gt, a, b => b2i (decide (a > b))
  | .ge, a, b => b2i (decide (a ≥ b))
  | .and, a, b => b2i (a != 0 && b != 0)
  | .or, a, b => b2i (a != 0 || b != 0)
  | .eqv, a, b => b2i ((a != 0) == (b != 0))
  | .neqv, a, b => b2i ((a != 0) != (b != 0))

def eval : Expr → Store → Int
  | .lit n, _ => n
  | .var x, σ => σ (x, 0, 0)
  | .idx1 a i, σ => σ (a, eval i σ, 0)
  | .idx2 a i j, σ => σ (a, eval i σ, eval j σ)
  | .un op e, σ => evalUn op (eval e σ)
  | .bin op a b, σ => evalBin op (eval a σ) (eval b σ)

/-- Fortran DO trip count: `MAX(0, (hi − lo + step) / step)` with truncating division;
a zero step (illegal Fortran) gives zero trips. -/
def trip (lo hi step : Int) : Nat :=
  if step = 0 then 0 else (Int.tdiv (hi - lo + step) step).toNat

/-- Run `n` iterations starting at iteration number `k`; the loop variable is (re)set at
the start of every iteration and holds `lo + n*step` after the last one, as in Fortran. -/
def runIters (f : Store → Store) (v : Nat) (lo step : Int) : Nat → Int → Store → Store
  | 0, k, σ => σ.set (v, 0, 0) (lo + k * step)
  | n+1, k, σ => runIters f v lo step n (k + 1) (f (σ.set (v, 0, 0) (lo + k * step)))

def exec : Stmt → Store → Store
  | .skip, σ => σ
  | .seq a b, σ => exec b (exec a σ)
  | .assign x e, σ => σ.set (x, 0, 0) (eval e σ)
  | .store1 a i e, σ => σ.set (a, eval i σ, 0) (eval e σ)
  | .store2 a i j e, σ => σ.set (a, eval i σ, eval j σ) (eval e σ)
  | .ite c t f, σ => if eval c σ ≠ 0 then exec t σ else exec f σ
  | .loop v lo hi step body, σ =>
      runIters (exec body) v (eval lo σ) (eval step σ)
        (trip (eval lo σ) (eval hi σ) (eval step σ)) 0 σ

/-- sequence of a statement list (right-nested `seq`) -/
def seqs : List Stmt → Stmt
  | [] => .skip
  | [s] => s
  | s :: rest => .seq s (seqs rest)

/-- store built from a finite list of bindings over an all-zero background -/
def storeOf : List (Loc × Int) → Store
  | [] => ⟨fun _ => 0⟩
  | (l, v) :: rest => (storeOf rest).set l v

end MiniF
