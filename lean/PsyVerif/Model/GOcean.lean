/-! # C25 — model of the GOcean loop-bound machinery

Mirrors (src/psyclone/gocean1p0.py, domain/gocean/transformations):

* `GOLoop._bounds_lookup`        → `Table` (association list, newest binding first);
                                    an entry `none` is the empty dict `{}` that `setup_bounds`
                                    leaves for e.g. `go_offset_ne/go_cu/go_external_pts`;
* `GOLoop.add_bounds`            → `addBounds` (7 fields, bracket check, bound grammar `base ± k`);
* `GOLoop.lower_bound/upper_bound/get_custom_bound_string` → `fieldBounds`
                                    (field-object bounds, `1..SIZE` for `go_every`, table with
                                    `{start}`↦`2`, `{stop}`↦`<fld>%grid%subdomain%internal%{x,y}stop` otherwise);
* `GOConstLoopBoundsTrans`       → `constValid`, `constBounds`;
* `GOKernCallFactory.create`     → `build` (`do j` outer / `do i` inner nest around the kernel call);
* `GOceanLoopFuseTrans`          → `fuseValid` (FIXED code: also the index offset and the loop type must
                                    agree) / `fuseValidPinned` (pinned code), `fuseAt`;
* OpenMP/OpenACC/extract regions → `Node.wrap` (serially transparent wrappers);
* the generated Fortran nest     → `exec` (Fortran DO semantics: trip count fixed on entry).

Identifiers are `Nat`s: offsets 0=go_offset_ne 1=go_offset_sw 2=go_offset_any (3=se 4=nw, ≥5 other);
point types 0=go_cu 1=go_cv 2=go_ct 3=go_cf 4=go_every; iteration spaces 0=go_all_pts
1=go_internal_pts 2=go_external_pts, ≥3 user defined.  Core Lean only. -/
namespace C25

/-! ## bounds and the lookup table -/

inductive Base where
  | lit | start | stop
  deriving DecidableEq, Repr

/-- `base + off`; for `lit` the value is `off` itself. -/
structure Bnd where
  base : Base
  off : Int
  deriving DecidableEq, Repr

/-- substitution of `{start}`/`{stop}` by the internal bounds `S`, `E` of one dimension -/
def Bnd.eval (S E : Int) (b : Bnd) : Int :=
  match b.base with
  | .lit => b.off
  | .start => S + b.off
  | .stop => E + b.off

/-- `{'outer': {'start','stop'}, 'inner': {'start','stop'}}` -/
structure Entry where
  oLo : Bnd
  oHi : Bnd
  iLo : Bnd
  iHi : Bnd
  deriving DecidableEq, Repr

def Entry.lo (e : Entry) (outer : Bool) : Bnd := if outer then e.oLo else e.iLo
def Entry.hi (e : Entry) (outer : Bool) : Bnd := if outer then e.oHi else e.iHi

structure Key where
  off : Nat
  pt : Nat
  its : Nat
  deriving DecidableEq, Repr

abbrev Table := List (Key × Option Entry)

/-- `_bounds_lookup[off][pt][its]`: `none` = KeyError, `some none` = `{}`, `some (some e)` = populated -/
def tfind : Table → Key → Option (Option Entry)
  | [], _ => none
  | (k', e) :: r, k => if k' = k then some e else tfind r k

def offNE : Nat := 0
def offSW : Nat := 1
def offAny : Nat := 2
def ptEvery : Nat := 4
def itsAll : Nat := 0
def itsInternal : Nat := 1
def itsExternal : Nat := 2

/-- the region denoted by a table entry for internal bounds `(Sx,Ex)`, `(Sy,Ey)`:
`(jlo, jhi, ilo, ihi)` -/
structure Rect where
  jlo : Int
  jhi : Int
  ilo : Int
  ihi : Int
  deriving DecidableEq, Repr

def Entry.region (e : Entry) (Sx Ex Sy Ey : Int) : Rect :=
  ⟨e.oLo.eval Sy Ey, e.oHi.eval Sy Ey, e.iLo.eval Sx Ex, e.iHi.eval Sx Ex⟩

def Rect.lo (r : Rect) (outer : Bool) : Int := if outer then r.jlo else r.ilo
def Rect.hi (r : Rect) (outer : Bool) : Int := if outer then r.jhi else r.ihi

/-! ## `add_bounds` -/

def isDigit (c : Char) : Bool := '0' ≤ c && c ≤ '9'

def digitsVal : List Char → Nat → Nat
  | [], acc => acc
  | c :: r, acc => digitsVal r (acc * 10 + (c.toNat - '0'.toNat))

/-- non-empty all-digit string → value -/
def parseNat (cs : List Char) : Option Nat :=
  if cs ≠ [] ∧ cs.all isDigit then some (digitsVal cs 0) else none

/-- optional `+k` / `-k` suffix -/
def parseSuffix (cs : List Char) : Option Int :=
  match cs with
  | [] => some 0
  | '+' :: r => (parseNat r).map fun n => (n : Int)
  | '-' :: r => (parseNat r).map fun n => -(n : Int)
  | _ => none

def stripPrefix (p : List Char) (cs : List Char) : Option (List Char) :=
  if p.isPrefixOf cs then some (cs.drop p.length) else none

/-- The bound grammar of the model: `{start}`, `{stop}` or an integer literal, optionally followed by
`+k`/`-k` (blanks ignored).  Anything else is outside the model (`none`). -/
def parseBnd (s : List Char) : Option Bnd :=
  let cs := s.filter (fun c => c ≠ ' ')
  match stripPrefix "{start}".toList cs with
  | some r => (parseSuffix r).map fun k => ⟨.start, k⟩
  | none =>
    match stripPrefix "{stop}".toList cs with
    | some r => (parseSuffix r).map fun k => ⟨.stop, k⟩
    | none =>
      let ds := cs.takeWhile isDigit
      let r := cs.dropWhile isDigit
      match parseNat ds, parseSuffix r with
      | some n, some k => some ⟨.lit, (n : Int) + k⟩
      | _, _ => none

/-- `re.compile("{[^}]+}").findall(bound)` restricted to what `add_bounds` needs:
`false` iff some bracketed expression is neither `{start}` nor `{stop}`.  Fuel = length. -/
def bracketsOk : Nat → List Char → Bool
  | 0, _ => true
  | n + 1, cs =>
    match cs with
    | [] => true
    | '{' :: r =>
      let inner := r.takeWhile (fun c => c ≠ '}')
      let rest := r.dropWhile (fun c => c ≠ '}')
      match rest with
      | [] => bracketsOk n r            -- no closing brace: no match starting here
      | _ :: rest' =>
        if inner = [] then bracketsOk n r  -- "{}" is not matched by `[^}]+`
        else if inner = "start".toList ∨ inner = "stop".toList then bracketsOk n rest'
        else false
    | _ :: r => bracketsOk n r

inductive AddResult where
  | ok (t : Table) (valid : List Nat)
  | refuse          -- ConfigurationError
  | outside         -- accepted/refused by rules the model does not cover (general Fortran expressions)

/-- `GOLoop.add_bounds` on the already split line: three interned names and the raw bound strings
(`nfields` = number of ':'-separated fields of the line). -/
def addBounds (t : Table) (valid : List Nat) (nfields : Nat) (k : Key) (bs : List (List Char)) : AddResult :=
  if nfields ≠ 7 then .refuse
  else if ¬ bs.all (fun b => bracketsOk b.length b) then .refuse
  else match bs.map parseBnd with
    | [some a, some b, some c, some d] =>
      -- VALID_ITERATES_OVER is extended when [off][pt] had no such iteration space yet
      let valid' := if (tfind t k).isSome then valid else valid ++ [k.its]
      .ok ((k, some ⟨a, b, c, d⟩) :: t) valid'
    | _ => .outside

/-! ## loop bounds of the generated code -/

/-- Run-time values the generated code reads (dl_esm_inf is not part of PSyclone: parameters). -/
structure Env where
  ex : Int                 -- <fld>%grid%subdomain%internal%xstop
  ey : Int                 -- <fld>%grid%subdomain%internal%ystop
  fint : Nat → Rect        -- <fld>%internal%{ystart,ystop,xstart,xstop} of a field of the given point type
  fwhole : Nat → Rect      -- <fld>%whole%…
  nx : Int                 -- SIZE(<fld>%data, 1)
  ny : Int                 -- SIZE(<fld>%data, 2)

def Env.e (env : Env) (outer : Bool) : Int := if outer then env.ey else env.ex

/-- table entry evaluated as the generated code does: `{start}` ↦ literal `2`,
`{stop}` ↦ the grid-subdomain stop of the loop's dimension -/
def entryBounds (env : Env) (e : Entry) (outer : Bool) : Int × Int :=
  ((e.lo outer).eval 2 (env.e outer), (e.hi outer).eval 2 (env.e outer))

/-- `GOLoop.lower_bound()/upper_bound()`: `none` = GenerationError (key combination not in the table) -/
def fieldBounds (t : Table) (env : Env) (k : Key) (outer : Bool) : Option (Int × Int) :=
  if k.pt = ptEvery then some (1, if outer then env.ny else env.nx)
  else if k.its = itsInternal then some ((env.fint k.pt).lo outer, (env.fint k.pt).hi outer)
  else if k.its = itsAll then some ((env.fwhole k.pt).lo outer, (env.fwhole k.pt).hi outer)
  else match tfind t k with
    | some (some e) => some (entryBounds env e outer)
    | _ => none

/-- bounds installed by `GOConstLoopBoundsTrans.apply`; `none` = its `validate` refuses -/
def constBounds (t : Table) (env : Env) (k : Key) (outer : Bool) : Option (Int × Int) :=
  match tfind t k with
  | some (some e) => some (entryBounds env e outer)
  | _ => none

def bounds (t : Table) (env : Env) (cb : Bool) (k : Key) (outer : Bool) : Option (Int × Int) :=
  if cb then constBounds t env k outer else fieldBounds t env k outer

/-! ## schedules and their execution -/

inductive Node where
  | skip
  | seq (a b : Node)
  | kern (id : Nat)
  | loop (outer : Bool) (key : Key) (body : Node)
  | wrap (tag : Nat) (body : Node)
  deriving DecidableEq, Repr

/-- one kernel call: kernel id, `i`, `j` -/
abbrev Call := Nat × Int × Int

/-- `n` iterations starting at `v` -/
def iter {α} : Nat → Int → (Int → List α) → List α
  | 0, _, _ => []
  | n + 1, v, f => f v ++ iter n (v + 1) f

/-- Fortran `DO v = lo, hi` (step 1): trip count `max 0 (hi - lo + 1)` fixed on entry -/
def doLoop {α} (lo hi : Int) (f : Int → List α) : List α := iter (hi + 1 - lo).toNat lo f

/-- Serial execution; a loop whose bounds cannot be produced (unreachable for schedules that were
built/transformed successfully) runs zero times. -/
def exec (t : Table) (env : Env) (cb : Bool) : Node → Int → Int → List Call
  | .skip, _, _ => []
  | .seq a b, i, j => exec t env cb a i j ++ exec t env cb b i j
  | .kern id, i, j => [(id, i, j)]
  | .loop outer key body, i, j =>
    match bounds t env cb key outer with
    | none => []
    | some (lo, hi) =>
      if outer then doLoop lo hi (fun v => exec t env cb body i v)
      else doLoop lo hi (fun v => exec t env cb body v j)
  | .wrap _ body, i, j => exec t env cb body i j

/-- the `(i,j)` sequence the nest `do j = jl,jh / do i = il,ih` visits -/
def visit (jl jh il ih : Int) : List (Int × Int) :=
  doLoop jl jh (fun j => doLoop il ih (fun i => [(i, j)]))

def ofList : List Node → Node
  | [] => .skip
  | n :: r => .seq n (ofList r)

/-- the statements of a schedule -/
def children : Node → List Node
  | .skip => []
  | .seq a b => children a ++ children b
  | n => [n]

def kernIds : Node → List Nat
  | .skip => []
  | .seq a b => kernIds a ++ kernIds b
  | .kern id => [id]
  | .loop _ _ body => kernIds body
  | .wrap _ body => kernIds body

def loopKeys : Node → List Key
  | .skip => []
  | .seq a b => loopKeys a ++ loopKeys b
  | .kern _ => []
  | .loop _ k body => k :: loopKeys body
  | .wrap _ body => loopKeys body

/-- `GOKernCallFactory.create` for kernel number `id` -/
def nest (id : Nat) (k : Key) : Node := .loop true k (.seq (.loop false k (.seq (.kern id) .skip)) .skip)

def buildFrom : Nat → List Key → List Node
  | _, [] => []
  | id, k :: r => nest id k :: buildFrom (id + 1) r

/-- the untransformed invoke schedule -/
def build (ks : List Key) : Node := ofList (buildFrom 0 ks)

inductive BuildResult where
  | ok (n : Node)
  | parseError        -- ITERATES_OVER not in VALID_ITERATES_OVER
  | generationError   -- no bounds for the key combination
  deriving DecidableEq, Repr

/-- kernel-metadata check + construction of all loops (bounds are created at construction time,
independently of the run-time environment) -/
def buildChecked (t : Table) (valid : List Nat) (ks : List Key) : BuildResult :=
  if ¬ ks.all (fun k => valid.contains k.its) then .parseError
  else if ¬ ks.all (fun k => k.pt == ptEvery || k.its == itsInternal || k.its == itsAll ||
                      (match tfind t k with | some (some _) => true | _ => false)) then .generationError
  else .ok (build ks)

/-! ## transformations -/

/-- `GOceanLoopFuseTrans.validate` of the FIXED code (fixes/C25-fuse-offset.patch): both GOLoops,
same iteration space, same grid-point type, same index offset, same loop type. -/
def fuseValid (o1 : Bool) (k1 : Key) (o2 : Bool) (k2 : Key) : Bool :=
  k1.its == k2.its && k1.pt == k2.pt && k1.off == k2.off && o1 == o2

/-- the pinned code: index offset and loop type are not compared -/
def fuseValidPinned (_o1 : Bool) (k1 : Key) (_o2 : Bool) (k2 : Key) : Bool :=
  k1.its == k2.its && k1.pt == k2.pt

/-- fuse statements `p` and `p+1` of a statement list -/
def fuseAt (valid : Bool → Key → Bool → Key → Bool) : Nat → List Node → Option (List Node)
  | _, [] => none
  | 0, n :: r =>
    match n, r with
    | .loop o1 k1 b1, .loop o2 k2 b2 :: r' =>
      if valid o1 k1 o2 k2 then some (.loop o1 k1 (.seq b1 b2) :: r') else none
    | _, _ => none
  | p + 1, n :: r => (fuseAt valid p r).map (n :: ·)

/-- enclose statements `p .. p+len-1` (`len ≥ 1`) in a region (OMP/ACC directive, extract region) -/
def wrapAt (tag p len : Nat) (ns : List Node) : Option (List Node) :=
  if len = 0 ∨ p + len > ns.length then none
  else some (ns.take p ++ [.wrap tag (ofList ((ns.drop p).take len))] ++ ns.drop (p + len))

/-- apply an edit to the statement list found by descending through loop bodies / regions -/
def modifyAt : List Nat → (List Node → Option (List Node)) → Node → Option Node
  | [], f, n => (f (children n)).map ofList
  | c :: rest, f, n =>
    match (children n)[c]? with
    | some (.loop o k body) =>
      (modifyAt rest f body).map fun b' => ofList ((children n).set c (.loop o k b'))
    | some (.wrap tag body) =>
      (modifyAt rest f body).map fun b' => ofList ((children n).set c (.wrap tag b'))
    | _ => none

inductive Step where
  | fuse (path : List Nat) (p : Nat)
  | wrap (tag : Nat) (path : List Nat) (p len : Nat)
  | const
  deriving Repr

structure Sched where
  cb : Bool
  root : Node
  deriving Repr

/-- `GOConstLoopBoundsTrans.validate`: every loop's key combination is in the table -/
def constValid (t : Table) (n : Node) : Bool :=
  (loopKeys n).all fun k => match tfind t k with | some (some _) => true | _ => false

/-- one transformation; `none` = refused (TransformationError), the schedule is left unchanged -/
def step (valid : Bool → Key → Bool → Key → Bool) (t : Table) (s : Sched) : Step → Option Sched
  | .fuse path p => (modifyAt path (fuseAt valid p) s.root).map fun r => ⟨s.cb, r⟩
  | .wrap tag path p len => (modifyAt path (wrapAt tag p len) s.root).map fun r => ⟨s.cb, r⟩
  | .const => if constValid t s.root then some ⟨true, s.root⟩ else none

/-- a history: refused steps leave the schedule unchanged; returns the accept/refuse flags too -/
def runSteps (valid : Bool → Key → Bool → Key → Bool) (t : Table) : Sched → List Step → Sched × List Bool
  | s, [] => (s, [])
  | s, st :: r =>
    match step valid t s st with
    | some s' => let (f, fl) := runSteps valid t s' r; (f, true :: fl)
    | none => let (f, fl) := runSteps valid t s r; (f, false :: fl)

/-- the calls of kernel `id`, in order -/
def perKernel (id : Nat) (tr : List Call) : List (Int × Int) :=
  (tr.filter (fun c => c.1 == id)).map (fun c => c.2)

/-! ## the documented dl_esm_inf convention (hypothesis of `const_bounds_same_region`) -/

def rectOf (t : Table) (k : Key) (Sx Ex Sy Ey : Int) : Rect :=
  match tfind t k with
  | some (some e) => e.region Sx Ex Sy Ey
  | _ => ⟨0, -1, 0, -1⟩

/-- The environment dl_esm_inf provides on a grid with index offset `g` whose internal region is
`[2..ex] × [2..ey]`: a field's `internal`/`whole` regions are the built-in `go_internal_pts`/
`go_all_pts` rows of the table `t0` for `(g, point type)`, and the data array is `(1:ex+1, 1:ey+1)`. -/
def conformingEnv (t0 : Table) (g : Nat) (ex ey : Int) : Env :=
  { ex := ex, ey := ey,
    fint := fun pt => rectOf t0 ⟨g, pt, itsInternal⟩ 2 ex 2 ey,
    fwhole := fun pt => rectOf t0 ⟨g, pt, itsAll⟩ 2 ex 2 ey,
    nx := ex + 1, ny := ey + 1 }

end C25

namespace C25

/-- The dl_esm_inf convention, transcribed by hand (the library sources are absent from the sandbox; this
is the documented/expected behaviour of `field_mod`): for a grid with index offset NE (0) / SW (1) the
`internal` (its = 1) and `whole` (its = 0) regions of a field on U/V/T/F points, relative to the
T-point internal region `[S..E]` of each dimension.  Independent of the generated table. -/
def dlEsmInf : Table :=
  let b (base : Base) (k : Int) : Bnd := ⟨base, k⟩
  let s0 := b .start 0; let sm := b .start (-1)
  let e0 := b .stop 0; let em := b .stop (-1); let ep := b .stop 1
  [ -- NE offset                outer lo/hi  inner lo/hi
    (⟨0, 0, 1⟩, some ⟨s0, e0, s0, em⟩), (⟨0, 0, 0⟩, some ⟨sm, ep, sm, e0⟩),   -- U
    (⟨0, 1, 1⟩, some ⟨s0, em, s0, e0⟩), (⟨0, 1, 0⟩, some ⟨sm, e0, sm, ep⟩),   -- V
    (⟨0, 2, 1⟩, some ⟨s0, e0, s0, e0⟩), (⟨0, 2, 0⟩, some ⟨sm, ep, sm, ep⟩),   -- T
    (⟨0, 3, 1⟩, some ⟨sm, em, sm, em⟩), (⟨0, 3, 0⟩, some ⟨sm, e0, sm, e0⟩),   -- F
    -- SW offset
    (⟨1, 0, 1⟩, some ⟨s0, e0, s0, ep⟩), (⟨1, 0, 0⟩, some ⟨sm, ep, sm, ep⟩),   -- U
    (⟨1, 1, 1⟩, some ⟨s0, ep, s0, e0⟩), (⟨1, 1, 0⟩, some ⟨sm, ep, sm, ep⟩),   -- V
    (⟨1, 2, 1⟩, some ⟨s0, e0, s0, e0⟩), (⟨1, 2, 0⟩, some ⟨sm, ep, sm, ep⟩),   -- T
    (⟨1, 3, 1⟩, some ⟨s0, ep, s0, ep⟩), (⟨1, 3, 0⟩, some ⟨sm, ep, sm, ep⟩) ]  -- F

/-- the environment under the documented convention on a grid with offset `g` and internal region
`[2..ex] × [2..ey]` -/
def hEnv (g : Nat) (ex ey : Int) : Env := conformingEnv dlEsmInf g ex ey

end C25
