/-! C10: model of the code-generation-time checks of the OpenMP / OpenACC directive nodes
(`validate_global_constraints` of every directive class in
`src/psyclone/psyir/nodes/omp_directives.py`, `omp_task_directive.py`, `acc_directives.py`,
`OMPDoDirective._validate_single_loop`, `OMPDoDirective._validate_collapse_value`) as they are
run by `PSyIRVisitor._visit` (pre-order: node, then its children, then its following siblings),
of the OpenMP 4.5 / 5.0 and OpenACC nesting rules the property names, and of the shape of the
directive-inserting transformations (`ParallelRegionTrans.apply`, `ParallelLoopTrans.validate/apply`,
the stand-alone directive insertions).

MODE: this file models the FIXED code: /repo with the `fix:` commits d0e6145 / 053c279 and
26670ce (a, `fixes/C10-collapse-rectangular.patch`), f63f3e2 (b, `C10-omp-acc-mixing`), 3023462 (c,
`C10-teams-simd-region-nesting`), b01d4e9 (d, `C10-acc-standalone-placement`); lines that exist only
because of (a)–(d) are marked.

A PSyIR statement list is a first-child / next-sibling `Forest` (non-nested inductive, so every
function below is structurally recursive and evaluates under `decide`).  Core Lean only. -/
namespace C10

/-- Node kinds.  The `Nat` of a loop directive is its collapse value, `0` = no clause
(Python `None`, falsy).  The `Nat` of a `loop` is `0` when its bounds reference no variable of an
enclosing loop, and otherwise the distance (in loop levels, 1 = the directly enclosing loop) of the
nearest enclosing loop whose variable its start/stop/step expressions reference.  `astmt` is an
assignment of the form `x = x op e` / `x = e op x` / `x = intr(.., x, ..)` (an atomic update
statement), `stmt` any other assignment or call, `codeBlock` a statement the frontend keeps as an
opaque `CodeBlock` (e.g. `write`), `block` an `if` without `else`. -/
inductive Kind where
  | stmt | astmt | codeBlock | block | loop (dep : Nat)
  | ompParallel | ompDo (c : Nat) | ompParallelDo (c : Nat) | ompTeamsDPD (c : Nat) | ompLoop (c : Nat)
  | ompSingle (nowait : Bool) | ompMaster | ompTaskloop | ompTask | ompTaskwait | ompTarget
  | ompAtomic | ompSimd | ompDeclareTarget
  | accParallel | accKernels | accData | accLoop (c : Nat) | accAtomic
  | accEnterData | accUpdate | accRoutine
  deriving DecidableEq, Repr

/-- A statement list: `cons k body rest` is a node of kind `k` whose (directive / loop / if) body is
`body`, followed by its siblings `rest`. -/
inductive Forest where
  | nil
  | cons (k : Kind) (body : Forest) (rest : Forest)
  deriving DecidableEq, Repr

/-- What `FortranWriter()(tree)` does as far as the modelled checks are concerned; `crash` is the
`IndexError` of `cursor.loop_body.children[0]` in `_validate_collapse_value`. -/
inductive Outcome where
  | accept | genError | crash
  deriving DecidableEq, Repr

def Outcome.andThen : Outcome → Outcome → Outcome
  | .accept, o => o
  | e, _ => e

/-- Position of a node among its siblings: `first` = index 0, `lead` = only preceded by declarative
directives (`omp declare target`, `acc routine`), `later` = anything else. -/
inductive Pos where
  | first | lead | later
  deriving DecidableEq, Repr

/-! ### class predicates (`isinstance`) -/
/-- `isinstance(k, OMPParallelDirective)` (parallel do and teams distribute parallel do are subclasses). -/
def isOmpPar : Kind → Bool
  | .ompParallel | .ompParallelDo _ | .ompTeamsDPD _ => true
  | _ => false
/-- `isinstance(k, OMPParallelDirective)` and not `OMPParallelDoDirective`. -/
def isPlainPar : Kind → Bool
  | .ompParallel => true
  | _ => false
/-- `isinstance(k, OMPDoDirective)`. -/
def isDoLike : Kind → Bool
  | .ompDo _ | .ompParallelDo _ | .ompTeamsDPD _ => true
  | _ => false
/-- `isinstance(k, OMPSerialDirective)`. -/
def isSerial : Kind → Bool
  | .ompSingle _ | .ompMaster => true
  | _ => false
def isSingle : Kind → Bool
  | .ompSingle _ => true
  | _ => false
def isTaskloop : Kind → Bool
  | .ompTaskloop => true
  | _ => false
def isTask : Kind → Bool
  | .ompTask => true
  | _ => false
def isOmpLoop : Kind → Bool
  | .ompLoop _ => true
  | _ => false
def isSimd : Kind → Bool
  | .ompSimd => true
  | _ => false
def isOmpAtomic : Kind → Bool
  | .ompAtomic => true
  | _ => false
def isTarget : Kind → Bool
  | .ompTarget => true
  | _ => false
/-- `isinstance(k, (ACCParallelDirective, ACCKernelsDirective))`. -/
def isAccCompute : Kind → Bool
  | .accParallel | .accKernels => true
  | _ => false
/-- `isinstance(k, OMPDirective)`. -/
def isOmp : Kind → Bool
  | .ompParallel | .ompDo _ | .ompParallelDo _ | .ompTeamsDPD _ | .ompLoop _ | .ompSingle _ | .ompMaster
  | .ompTaskloop | .ompTask | .ompTaskwait | .ompTarget | .ompAtomic | .ompSimd | .ompDeclareTarget => true
  | _ => false
/-- `isinstance(k, ACCDirective)`. -/
def isAcc : Kind → Bool
  | .accParallel | .accKernels | .accData | .accLoop _ | .accAtomic | .accEnterData | .accUpdate
  | .accRoutine => true
  | _ => false
/-- Declarative directives that live at the top of a routine. -/
def isDecl : Kind → Bool
  | .ompDeclareTarget | .accRoutine => true
  | _ => false
/-- Nodes that have no statement body in the PSyIR (assignments, calls, stand-alone directives);
the `body` field of such a node is ignored by every function below. -/
def isLeaf : Kind → Bool
  | .stmt | .astmt | .codeBlock | .ompTaskwait | .ompDeclareTarget | .accEnterData | .accUpdate
  | .accRoutine => true
  | _ => false

/-- Ancestors of a node, innermost first; `ctx.any p` is `self.ancestor(p) is not None`. -/
abbrev Ctx := List Kind

/-- position of the next sibling -/
def Pos.next (p : Pos) (k : Kind) : Pos :=
  match p with
  | .later => .later
  | _ => if isDecl k then .lead else .later

/-! ### the writer's checks -/

/-- `_validate_single_loop` / the first two checks of `OMPLoopDirective`: the directive body has
exactly one child and it is a Loop. -/
def singleLoop : Forest → Bool
  | .cons (.loop _) _ .nil => true
  | _ => false

/-- `OMPDoDirective._validate_collapse_value` (and the identical loop in `OMPLoopDirective`):
```
cursor = self.dir_body.children[0]; outer_vars = []
for depth in range(self._collapse):
    if len(cursor.parent.children) != 1 or not isinstance(cursor, Loop): raise GenerationError
    if <bounds of cursor reference a symbol in outer_vars>: raise GenerationError      # (a)
    outer_vars.append(cursor.variable)
    cursor = cursor.loop_body.children[0]        # IndexError on an empty loop body
```
Called after `singleLoop` succeeded, so the first `children[0]` exists.  `d` = current depth. -/
def collapseOmp : Nat → Nat → Forest → Outcome
  | 0, _, _ => .accept
  | n+1, d, .cons (.loop dep) body .nil =>
    if dep == 0 || d < dep then
      match body with
      | .nil => .crash
      | _ => collapseOmp n (d + 1) body
    else .genError
  | _+1, _, _ => .genError

/-- the loop in `ACCLoopDirective.validate_global_constraints`: `max collapse 1` perfectly nested
loops, rectangular (a), empty bodies handled without an exception. -/
def collapseAcc : Nat → Nat → Forest → Bool
  | 0, _, _ => true
  | n+1, d, .cons (.loop dep) body .nil => (dep == 0 || d < dep) && collapseAcc n (d + 1) body
  | _+1, _, _ => false

/-- `self.dir_body.walk(OMPDirective, stop_type=OMPParallelDirective)` of `OMPLoopDirective` finds a
node that is not a parallel / loop / simd construct. -/
def loopRegionBad : Forest → Bool
  | .nil => false
  | .cons k body rest =>
    (isOmp k && !(isOmpPar k || isOmpLoop k || isSimd k))
      || (!(isOmpPar k) && !(isLeaf k) && loopRegionBad body)
      || loopRegionBad rest

/-- (c) `self.dir_body.walk(OMPDirective)` of `OMPSimdDirective` finds a node that is not a simd /
loop / atomic construct. -/
def simdRegionBad : Forest → Bool
  | .nil => false
  | .cons k body rest =>
    (isOmp k && !(isSimd k || isOmpLoop k || isOmpAtomic k))
      || (!(isLeaf k) && simdRegionBad body)
      || simdRegionBad rest

/-- (b) `self.walk(OMPDirective)` of an ACC region directive is non-empty. -/
def containsOmp : Forest → Bool
  | .nil => false
  | .cons k body rest => isOmp k || (!(isLeaf k) && containsOmp body) || containsOmp rest

/-- `self.walk((PSyDataNode, CodeBlock))` of an `ACCRegionDirective` is non-empty (PSyData nodes are
outside the modelled node set, so this is the CodeBlock half). -/
def containsCodeBlock : Forest → Bool
  | .nil => false
  | .cons k body rest =>
    k == .codeBlock || (!(isLeaf k) && containsCodeBlock body) || containsCodeBlock rest

/-- `parent_routine.walk(ACCRoutineDirective)` is non-empty. -/
def containsAccRoutine : Forest → Bool
  | .nil => false
  | .cons k body rest =>
    k == .accRoutine || (!(isLeaf k) && containsAccRoutine body) || containsAccRoutine rest

/-- (d) the routine contains an OpenACC parallel/kernels region or an OpenMP directive other than
`declare target` (`ACCRoutineDirective.validate_global_constraints`) -/
def routineBad : Forest → Bool
  | .nil => false
  | .cons k body rest =>
    isAccCompute k || (isOmp k && k != .ompDeclareTarget) || (!(isLeaf k) && routineBad body)
      || routineBad rest

/-- whole-routine facts some checks look at -/
structure Env where
  /-- the routine contains an `acc routine` directive -/
  ar : Bool
  /-- `routineBad` of the routine -/
  rb : Bool
  deriving Repr

def envOf (t : Forest) : Env := ⟨containsAccRoutine t, routineBad t⟩

/-- `OMPAtomicDirective` / `ACCAtomicDirective`: exactly one child and it is a valid atomic
statement. -/
def atomicBody : Forest → Bool
  | .cons .astmt _ .nil => true
  | _ => false

/-- (c) `self.ancestor(OMPDirective)` of a teams directive is `None` or an `OMPTargetDirective`. -/
def teamsPlace : Ctx → Bool
  | [] => true
  | a :: rest => if isOmp a then isTarget a else teamsPlace rest

/-- `self.ancestor(OMPSingleDirective)` exists and has no `nowait`. -/
def taskPlace : Ctx → Bool
  | [] => false
  | .ompSingle nw :: _ => !nw
  | _ :: rest => taskPlace rest

def guard (b : Bool) : Outcome := if b then .accept else .genError

/-- `validate_global_constraints` of one node of kind `k` at sibling position `pos`, with ancestors
`ctx` and body `body`; `env` = whole-routine facts. -/
def nodeOut (env : Env) (pos : Pos) (ctx : Ctx) (k : Kind) (body : Forest) : Outcome :=
  match k with
  | .stmt | .astmt | .codeBlock | .block | .loop _ | .ompTarget => .accept
  | .ompTaskwait => guard (ctx.any isPlainPar)
  | .ompSingle _ | .ompMaster =>
    guard (ctx.any isPlainPar && !ctx.any isSerial
           && !ctx.any (fun a => isDoLike a || isTaskloop a))
  | .ompParallel => guard (!ctx.any isOmpPar)
  | .ompParallelDo c =>
    (guard (!ctx.any isOmpPar && singleLoop body)).andThen (collapseOmp c 0 body)
  | .ompTeamsDPD c =>
    (guard (teamsPlace ctx /- (c) -/ && !ctx.any isOmpPar && singleLoop body)).andThen
      (collapseOmp c 0 body)
  | .ompDo c =>
    (guard (ctx.any isPlainPar
            && !ctx.any (fun a => isDoLike a || isSerial a || isTaskloop a)
            && singleLoop body)).andThen (collapseOmp c 0 body)
  | .ompTaskloop => guard (ctx.any isSerial && singleLoop body)
  | .ompTask => guard (taskPlace ctx)
  | .ompLoop c =>
    (guard (singleLoop body && ctx.any (fun a => isTarget a || isOmpPar a)
            && !loopRegionBad body)).andThen (collapseOmp c 0 body)
  | .ompAtomic => guard (atomicBody body)
  | .ompSimd => guard (singleLoop body && !simdRegionBad body /- (c) -/)
  | .ompDeclareTarget => guard (ctx.isEmpty && pos == .first)
  | .accParallel | .accKernels | .accData =>
    guard (!ctx.any isAccCompute && !ctx.any isOmp && !containsOmp body /- (b) -/
           && !containsCodeBlock body)
  | .accLoop c =>
    guard ((ctx.any isAccCompute || env.ar) && collapseAcc (max c 1) 0 body
           && !ctx.any isOmp && !containsOmp body /- (b) -/ && !containsCodeBlock body)
  | .accAtomic =>
    guard (atomicBody body && !ctx.any isOmp && !containsOmp body /- (b) -/ && !containsCodeBlock body)
  | .accEnterData | .accUpdate => guard (!ctx.any isAccCompute /- (d) -/ && !ctx.any isOmp /- (b) -/)
  | .accRoutine => guard (ctx.isEmpty && pos != .later && !env.rb /- (d) -/)

/-- The visitor: validate the node, then its children, then the following siblings; the first
exception ends the run. -/
def writerAux (env : Env) (pos : Pos) (ctx : Ctx) : Forest → Outcome
  | .nil => .accept
  | .cons k body rest =>
    (nodeOut env pos ctx k body).andThen
      (Outcome.andThen
        (match isLeaf k with
         | true => Outcome.accept
         | false => writerAux env .first (k :: ctx) body)
        (writerAux env (pos.next k) ctx rest))

def writer (t : Forest) : Outcome := writerAux (envOf t) .first [] t

def writerAccepts (t : Forest) : Bool := writer t == .accept

/-! ### the specification -/

/-- `closelyIn p ctx`: the node is closely nested inside a region of class `p`, i.e. an ancestor
satisfies `p` and there is no parallel region strictly between (a `parallel do` ancestor is itself
both the parallel region and a worksharing-loop region). -/
def closelyIn (p : Kind → Bool) : Ctx → Bool
  | [] => false
  | a :: rest => p a || (!isOmpPar a && closelyIn p rest)

/-- `n` perfectly nested loops: the body is exactly one loop whose body is again such a nest
(OpenMP 4.5 §2.7.1: "the associated loops must be perfectly nested; there must be no intervening
code nor any OpenMP directive between any two loops"; OpenACC 2.6 §2.9.1 "tightly nested"). -/
def assocLoops : Nat → Forest → Bool
  | 0, _ => true
  | n+1, .cons (.loop _) body .nil => assocLoops n body
  | _+1, _ => false

/-- Rectangular iteration space: the loop at depth `d` of the collapsed nest does not reference the
variable of any of the `d` associated loops outside it (OpenMP 4.5 §2.6 canonical loop form: lb, b
and incr are loop invariant w.r.t. the outermost associated loop; gcc: "collapsed loops don't form
rectangular iteration space"). -/
def rectNest : Nat → Nat → Forest → Bool
  | 0, _, _ => true
  | n+1, d, .cons (.loop dep) body .nil => (dep == 0 || d < dep) && rectNest n (d + 1) body
  | _+1, _, _ => true

/-- Nesting / association rules, one node. -/
def nodeCore (env : Env) (pos : Pos) (ctx : Ctx) (k : Kind) (body : Forest) : Bool :=
  match k with
  | .stmt | .astmt | .codeBlock | .block | .loop _ | .ompTarget => true
  -- property clause 1 ("no loop directive sits outside a parallel region"), applied to every
  -- construct that binds to a team
  | .ompTaskwait => ctx.any isOmpPar
  -- OpenMP 4.5 §2.17: "A worksharing region may not be closely nested inside a worksharing,
  -- explicit task, taskloop, critical, ordered, atomic, or master region."
  | .ompSingle _ =>
    ctx.any isOmpPar
      && !closelyIn (fun a => isDoLike a || isSerial a || isTaskloop a || isTask a) ctx
  -- OpenMP 4.5 §2.17: "A master region may not be closely nested inside a worksharing, atomic, or
  -- explicit task region." (taskloop generates explicit tasks)
  | .ompMaster =>
    ctx.any isOmpPar
      && !closelyIn (fun a => isDoLike a || isSingle a || isTaskloop a || isTask a) ctx
  -- property clause 2 ("parallel regions are not nested")
  | .ompParallel => !ctx.any isOmpPar
  | .ompParallelDo c => !ctx.any isOmpPar && assocLoops (max c 1) body
  -- OpenMP 4.5 §2.10.7 / 5.0 §2.7: a teams region is strictly nested inside a target region (or is
  -- not nested in any OpenMP region); plus the parallel-do rules
  | .ompTeamsDPD c => teamsPlace ctx && !ctx.any isOmpPar && assocLoops (max c 1) body
  -- clause 1 + §2.17 worksharing rule + clause 3 (collapse(n) ⇒ n perfectly nested loops)
  | .ompDo c =>
    ctx.any isOmpPar
      && !closelyIn (fun a => isDoLike a || isSerial a || isTaskloop a || isTask a) ctx
      && assocLoops (max c 1) body
  -- clause 1; design rule: taskloop only inside a single/master region; §2.9.2 loop-associated
  | .ompTaskloop => ctx.any isOmpPar && ctx.any isSerial && assocLoops 1 body
  -- clause 1; design rule: explicit tasks only inside a single region
  | .ompTask => ctx.any isOmpPar && ctx.any isSingle
  -- OpenMP 5.0 §2.9.5 loop construct (binds to a parallel or, via target, teams region) and §2.20:
  -- "OpenMP constructs other than parallel, loop or simd may not be nested inside a loop region"
  | .ompLoop c =>
    ctx.any (fun a => isTarget a || isOmpPar a) && !loopRegionBad body && assocLoops (max c 1) body
  -- OpenMP 4.5 §2.13.6: the atomic construct applies to one update statement
  | .ompAtomic => atomicBody body
  -- OpenMP 4.5 §2.8.1 (simd is loop-associated) and 5.0 §2.20: only simd, loop, atomic (and ordered
  -- simd) constructs may be encountered inside a simd region
  | .ompSimd => assocLoops 1 body && !simdRegionBad body
  -- OpenMP 4.5 §2.10.6: the declare target directive appears in the specification part
  | .ompDeclareTarget => ctx.isEmpty && pos != .later
  -- OpenACC 2.6 §2.5: compute constructs (and data constructs) may not appear inside a compute
  -- construct (gcc: "'kernels' construct inside of 'parallel' region")
  | .accParallel | .accKernels | .accData => !ctx.any isAccCompute
  -- OpenACC 2.6 §2.9: a loop construct is inside a parallel/kernels region or orphaned in a routine
  -- that has an `acc routine` directive; §2.9.1 collapse(n) ⇒ n tightly nested loops
  | .accLoop c => (ctx.any isAccCompute || env.ar) && assocLoops (max c 1) body
  -- OpenACC 2.6 §2.12
  | .accAtomic => atomicBody body
  -- OpenACC 2.6 §2.6.6 / §2.14.4: enter data and update are executable directives of the host
  -- program, not of a compute region (gcc: "'update' construct inside of 'parallel' region")
  | .accEnterData | .accUpdate => !ctx.any isAccCompute
  -- OpenACC 2.6 §2.15.1: the routine directive appears in the specification part; a routine compiled
  -- for the device contains no compute construct (gcc: "OpenACC region inside of OpenACC routine,
  -- nested parallelism not supported yet") and no OpenMP construct (gcc: "non-OpenACC construct inside
  -- of OpenACC routine")
  | .accRoutine => ctx.isEmpty && pos != .later && !env.rb

/-- Rectangularity of collapsed nests, one node. -/
def nodeRect (k : Kind) (body : Forest) : Bool :=
  match k with
  | .ompDo c | .ompParallelDo c | .ompTeamsDPD c | .ompLoop c | .accLoop c => rectNest c 0 body
  | _ => true

/-- No OpenMP construct inside an OpenACC region and vice versa (gcc: "The !$OMP PARALLEL DO
directive cannot be specified within a !$ACC PARALLEL region"), one node. -/
def nodeMix (ctx : Ctx) (k : Kind) : Bool :=
  !(isOmp k && ctx.any isAcc) && !(isAcc k && ctx.any isOmp)

/-- Fortran syntax of OpenMP 4.5 §2.7.3: `nowait` belongs on `!$omp end single`; the writer prints
the clause on the opening line, which gfortran 12 rejects ("Failed to match clause"). -/
def nodeNowait (k : Kind) : Bool :=
  match k with
  | .ompSingle nw => !nw
  | _ => true

def coreOk (env : Env) (pos : Pos) (ctx : Ctx) : Forest → Bool
  | .nil => true
  | .cons k body rest =>
    nodeCore env pos ctx k body
      && (match isLeaf k with
          | true => true
          | false => coreOk env .first (k :: ctx) body)
      && coreOk env (pos.next k) ctx rest

def rectOk : Forest → Bool
  | .nil => true
  | .cons k body rest =>
    nodeRect k body
      && (match isLeaf k with
          | true => true
          | false => rectOk body)
      && rectOk rest

def mixOk (ctx : Ctx) : Forest → Bool
  | .nil => true
  | .cons k body rest =>
    nodeMix ctx k
      && (match isLeaf k with
          | true => true
          | false => mixOk (k :: ctx) body)
      && mixOk ctx rest

def nowaitOk : Forest → Bool
  | .nil => true
  | .cons k body rest =>
    nodeNowait k
      && (match isLeaf k with
          | true => true
          | false => nowaitOk body)
      && nowaitOk rest

/-- The nesting / association / rectangularity / no-mixing rules: what the writer guards. -/
def guardedValid (t : Forest) : Prop :=
  coreOk (envOf t) .first [] t = true ∧ rectOk t = true ∧ mixOk [] t = true
/-- The full specification. -/
def specValid (t : Forest) : Prop := guardedValid t ∧ nowaitOk t = true

/-! ### the transformations (shape only) -/

/-- `ParallelLoopTrans.validate` counting loop:
`while isinstance(cnode, Loop): loop_count += 1; cnode = cnode.loop_body[0]` — `none` is the
`IndexError` on an empty loop body (the transformation is then not accepted). -/
def chainLen : Forest → Option Nat
  | .cons (.loop _) body _ =>
    match body with
    | .nil => none
    | _ => (chainLen body).map (· + 1)
  | _ => some 0

/-- collapse option accepted by `ParallelLoopTrans.validate` for the loop at the head of `f`. -/
def transCollapseOk (c : Nat) (f : Forest) : Bool :=
  c == 0 || (2 ≤ c && match chainLen f with
                      | some m => c ≤ m
                      | none => false)

/-- kinds a region transformation creates (`OMPParallelTrans`, `OMPSingleTrans`, `OMPMasterTrans`,
`OMPTargetTrans`, `ACCParallelTrans`, `ACCKernelsTrans`, `ACCDataTrans`) -/
def isRegionKind : Kind → Bool
  | .ompParallel | .ompSingle _ | .ompMaster | .ompTarget | .accParallel | .accKernels | .accData => true
  | _ => false

/-- collapse value of the kinds a loop transformation creates (`OMPLoopTrans` in its four flavours,
`ACCLoopTrans`, `OMPTaskloopTrans`, `OMPTaskTrans`); `none` for every other kind -/
def loopDirCollapse : Kind → Option Nat
  | .ompDo c | .ompParallelDo c | .ompTeamsDPD c | .ompLoop c | .accLoop c => some c
  | .ompTaskloop | .ompTask => some 0
  | _ => none

/-- kinds inserted as stand-alone directives (`OMPTaskwaitTrans`, `ACCEnterDataTrans`,
`ACCUpdateTrans`, `OMPDeclareTargetTrans`, `ACCRoutineTrans`) -/
def isStandalone : Kind → Bool
  | .ompTaskwait | .ompDeclareTarget | .accEnterData | .accUpdate | .accRoutine => true
  | _ => false

inductive Op where
  /-- enclose `len ≥ 1` siblings starting at index `lo` of the schedule at `path` in a region -/
  | region (k : Kind) (path : List Nat) (lo len : Nat)
  /-- put the loop at index `idx` of the schedule at `path` under a loop directive -/
  | loopDir (k : Kind) (path : List Nat) (idx : Nat)
  /-- insert a stand-alone directive before index `idx` of the schedule at `path` -/
  | leaf (k : Kind) (path : List Nat) (idx : Nat)
  deriving Repr

/-- first `n` siblings and the remainder; `none` when there are fewer than `n` -/
def splitSibs : Nat → Forest → Option (Forest × Forest)
  | 0, f => some (.nil, f)
  | _+1, .nil => none
  | n+1, .cons k b r => (splitSibs n r).map fun (s, post) => (.cons k b s, post)

/-- apply `g` to the sibling list that starts at index `i` -/
def atSib : Nat → (Forest → Option Forest) → Forest → Option Forest
  | 0, g, f => g f
  | _+1, _, .nil => none
  | i+1, g, .cons k b r => (atSib i g r).map (.cons k b)

/-- apply `g` to the body of the first node -/
def inBody (g : Forest → Option Forest) : Forest → Option Forest
  | .nil => none
  | .cons k b r => if isLeaf k then none else (g b).map fun b' => .cons k b' r

/-- apply `g` to the schedule reached by `path` (sibling index, then into that node's body, …) -/
def modifyAt : List Nat → (Forest → Option Forest) → Forest → Option Forest
  | [], g => g
  | i :: p, g => atSib i (inBody (modifyAt p g))

def wrapRegion (k : Kind) (len : Nat) (f : Forest) : Option Forest :=
  if isRegionKind k && 0 < len then
    (splitSibs len f).map fun (seg, post) => .cons k seg post
  else none

def wrapLoop (k : Kind) (f : Forest) : Option Forest :=
  match loopDirCollapse k, f with
  | some c, .cons (.loop d) b r =>
    if transCollapseOk c (.cons (.loop d) b .nil) then some (.cons k (.cons (.loop d) b .nil) r) else none
  | _, _ => none

def insertLeaf (k : Kind) (f : Forest) : Option Forest :=
  if isStandalone k then some (.cons k .nil f) else none

def applyOp : Op → Forest → Option Forest
  | .region k path lo len => modifyAt path (atSib lo (wrapRegion k len))
  | .loopDir k path idx => modifyAt path (atSib idx (wrapLoop k))
  | .leaf k path idx => modifyAt path (atSib idx (insertLeaf k))

/-- no directive at all: the programs the histories start from -/
def dirFree : Forest → Bool
  | .nil => true
  | .cons k body rest => !(isOmp k || isAcc k) && dirFree body && dirFree rest

/-- trees produced by a history of accepted transformations from a directive-free program -/
inductive Reachable : Forest → Prop where
  | start (t : Forest) : dirFree t = true → Reachable t
  | step (t t' : Forest) (op : Op) : Reachable t → applyOp op t = some t' → Reachable t'

/-- Every loop has a non-empty body. -/
def loopsNonEmpty : Forest → Bool
  | .nil => true
  | .cons k body rest =>
    (match k, body with
     | .loop _, .nil => false
     | _, _ => true) && loopsNonEmpty body && loopsNonEmpty rest


/-! ### containers: several routines in one module

A PSyIR `Container` (Fortran module) is the list of its routines, in order.  `FortranWriter` visits
the routines one after the other; every check that looks at "the routine" (`self.ancestor(Routine)`
in `ACCLoopDirective`, `self.parent` in `ACCRoutineDirective` / `OMPDeclareTargetDirective`) sees the
routine the directive is in and nothing else, so each routine is validated with ITS OWN `Env`
(`envOf r`: does this routine carry an `acc routine` directive, does it contain compute regions /
OpenMP).  The first exception ends the run. -/

abbrev Container := List Forest

/-- the routine carries an `!$acc routine` directive (what `parent_routine.walk(ACCRoutineDirective)`
answers for the directives of that routine) -/
def hasAccRoutine (r : Forest) : Bool := (envOf r).ar

/-- the routine starts with `!$omp declare target` -/
def hasDeclareTarget : Forest → Bool
  | .cons .ompDeclareTarget _ _ => true
  | _ => false

def writerC : Container → Outcome
  | [] => .accept
  | r :: rs => (writer r).andThen (writerC rs)

def writerAcceptsC (c : Container) : Bool := writerC c == .accept

/-- every routine satisfies the guarded rules, each w.r.t. its own routine-level facts -/
def guardedValidC (c : Container) : Prop := ∀ r, r ∈ c → guardedValid r
def specValidC (c : Container) : Prop := ∀ r, r ∈ c → specValid r

def coreOkC (c : Container) : Bool := c.all fun r => coreOk (envOf r) .first [] r
def rectOkC (c : Container) : Bool := c.all rectOk
def mixOkC (c : Container) : Bool := c.all (mixOk [])
def nowaitOkC (c : Container) : Bool := c.all nowaitOk

/-- A WEAKENED rule that is NOT the code: the "is this an `acc routine`" lookup searches the whole
tree (`self.root.walk(ACCRoutineDirective)`) instead of the enclosing routine. -/
def leakEnv (all : Container) (r : Forest) : Env := ⟨all.any containsAccRoutine, routineBad r⟩

def writerLeakAux (all : Container) : Container → Outcome
  | [] => .accept
  | r :: rs => (writerAux (leakEnv all r) .first [] r).andThen (writerLeakAux all rs)

def writerLeakC (c : Container) : Outcome := writerLeakAux c c

/-- a transformation applied to (a node of) routine number `ri` of the container -/
structure COp where
  ri : Nat
  op : Op
  deriving Repr

/-- apply `g` to the `i`-th routine -/
def modifyNth : Nat → (Forest → Option Forest) → Container → Option Container
  | _, _, [] => none
  | 0, g, r :: rs => (g r).map (· :: rs)
  | i+1, g, r :: rs => (modifyNth i g rs).map (r :: ·)

def applyCOp (o : COp) (c : Container) : Option Container := modifyNth o.ri (applyOp o.op) c

/-- containers produced by a history of accepted transformations (each applied to some routine) from
a directive-free module -/
inductive ReachableC : Container → Prop where
  | start (c : Container) : c.all dirFree = true → ReachableC c
  | step (c c' : Container) (o : COp) : ReachableC c → applyCOp o c = some c' → ReachableC c'

def loopsNonEmptyC (c : Container) : Bool := c.all loopsNonEmpty

end C10
