/-! C10: model of the code-generation-time checks of the OpenMP / OpenACC directive nodes
(`validate_global_constraints` of every directive class in
`src/psyclone/psyir/nodes/omp_directives.py` / `acc_directives.py`,
`OMPDoDirective._validate_single_loop`, `OMPDoDirective._validate_collapse_value`) as they are
run by `PSyIRVisitor._visit` (pre-order: node, then its children, then its following siblings),
and of the OpenMP 4.5 / OpenACC nesting rules the property names.

MODE: this file models the code WITH the candidate fixes `fixes/C10-*.patch` applied (the lines
marked `(fix)`); on the unfixed tree the harness reports the missing refusals as violations.

A PSyIR statement list is a first-child / next-sibling `Forest` (non-nested inductive, so every
function below is structurally recursive and evaluates under `decide`).  Core Lean only. -/
namespace C10

/-- Node kinds.  The `Nat` of a loop directive is its collapse value, `0` = no clause
(Python `None`, falsy).  The `Nat` of a `loop` is `0` when its bounds reference no variable of an
enclosing loop, and otherwise the distance (in loop levels, 1 = the directly enclosing loop) of the
nearest enclosing loop whose variable its start/stop/step expressions reference. -/
inductive Kind where
  | stmt | block | loop (dep : Nat)
  | ompParallel | ompDo (c : Nat) | ompParallelDo (c : Nat) | ompLoop (c : Nat)
  | ompSingle | ompMaster | ompTaskloop | ompTaskwait | ompTarget
  | accParallel | accKernels | accData | accLoop (c : Nat) | accEnterData
  deriving DecidableEq, Repr

/-- A statement list: `cons k body rest` is a node of kind `k` whose (directive / loop / if) body is
`body`, followed by its siblings `rest`. -/
inductive Forest where
  | nil
  | cons (k : Kind) (body : Forest) (rest : Forest)
  deriving DecidableEq, Repr

/-- What `FortranWriter()(tree)` does as far as the modelled checks are concerned. -/
inductive Outcome where
  | accept | genError | crash
  deriving DecidableEq, Repr

def Outcome.andThen : Outcome → Outcome → Outcome
  | .accept, o => o
  | e, _ => e

/-! ### class predicates (`isinstance`) -/
/-- `isinstance(k, OMPParallelDirective)` (OMPParallelDoDirective is a subclass). -/
def isOmpPar : Kind → Bool
  | .ompParallel | .ompParallelDo _ => true
  | _ => false
/-- `isinstance(k, OMPParallelDirective)` and not `OMPParallelDoDirective`. -/
def isPlainPar : Kind → Bool
  | .ompParallel => true
  | _ => false
/-- `isinstance(k, OMPDoDirective)` (OMPParallelDoDirective is a subclass). -/
def isDoLike : Kind → Bool
  | .ompDo _ | .ompParallelDo _ => true
  | _ => false
/-- `isinstance(k, OMPSerialDirective)`. -/
def isSerial : Kind → Bool
  | .ompSingle | .ompMaster => true
  | _ => false
def isTaskloop : Kind → Bool
  | .ompTaskloop => true
  | _ => false
def isOmpLoop : Kind → Bool
  | .ompLoop _ => true
  | _ => false
def isTarget : Kind → Bool
  | .ompTarget => true
  | _ => false
/-- `isinstance(k, (ACCParallelDirective, ACCKernelsDirective))`. -/
def isAccCompute : Kind → Bool
  | .accParallel | .accKernels => true
  | _ => false
/-- `isinstance(k, OMPDirective)`. -/
def isOmp : Kind → Bool
  | .ompParallel | .ompDo _ | .ompParallelDo _ | .ompLoop _ | .ompSingle | .ompMaster
  | .ompTaskloop | .ompTaskwait | .ompTarget => true
  | _ => false
/-- `isinstance(k, ACCDirective)`. -/
def isAcc : Kind → Bool
  | .accParallel | .accKernels | .accData | .accLoop _ | .accEnterData => true
  | _ => false
def isLoop : Kind → Bool
  | .loop _ => true
  | _ => false

/-- Ancestors of a node, innermost first; `ctx.any p` is `self.ancestor(p) is not None`. -/
abbrev Ctx := List Kind

/-! ### the writer's checks -/

/-- `_validate_single_loop` / the first two checks of `OMPLoopDirective`: the directive body has
exactly one child and it is a Loop. -/
def singleLoop : Forest → Bool
  | .cons (.loop _) _ .nil => true
  | _ => false

/-- `OMPDoDirective._validate_collapse_value` (and the identical loop in `OMPLoopDirective` (fix)):
```
cursor = self.dir_body.children[0]
for depth in range(self._collapse):
    if len(cursor.parent.children) != 1 or not isinstance(cursor, Loop): raise GenerationError
    cursor = cursor.loop_body.children[0]        # IndexError on an empty loop body
```
Called after `singleLoop` succeeded, so the first `children[0]` exists. -/
def collapseOmp : Nat → Forest → Outcome
  | 0, _ => .accept
  | n+1, .cons (.loop _) body .nil =>
    match body with
    | .nil => .crash
    | _ => collapseOmp n body
  | _+1, _ => .genError

/-- (fix) the loop added to `ACCLoopDirective.validate_global_constraints`: `max collapse 1`
perfectly nested loops, empty bodies handled without an exception. -/
def collapseAcc : Nat → Forest → Bool
  | 0, _ => true
  | n+1, .cons (.loop _) body .nil => collapseAcc n body
  | _+1, _ => false

/-- (fix) `self.dir_body.walk(OMPDirective, stop_type=OMPParallelDirective)` finds a node that is
not a parallel / loop (/ simd) construct. -/
def loopRegionBad : Forest → Bool
  | .nil => false
  | .cons k body rest =>
    (isOmp k && !(isOmpPar k || isOmpLoop k)) || (!(isOmpPar k) && loopRegionBad body)
      || loopRegionBad rest

def guard (b : Bool) : Outcome := if b then .accept else .genError

/-- `validate_global_constraints` of one node of kind `k` with ancestors `ctx` and body `body`. -/
def nodeOut (ctx : Ctx) (k : Kind) (body : Forest) : Outcome :=
  match k with
  | .stmt | .block | .loop _ | .ompTarget | .accEnterData => .accept
  | .ompTaskwait => guard (ctx.any isPlainPar)
  | .ompSingle | .ompMaster =>
    guard (ctx.any isPlainPar && !ctx.any isSerial
           && !ctx.any (fun a => isDoLike a || isTaskloop a))            -- (fix)
  | .ompParallel => guard (!ctx.any isOmpPar)
  | .ompParallelDo c =>
    (guard (!ctx.any isOmpPar && singleLoop body)).andThen (collapseOmp c body)
  | .ompDo c =>
    (guard (ctx.any isPlainPar
            && !ctx.any (fun a => isDoLike a || isSerial a || isTaskloop a)   -- (fix)
            && singleLoop body)).andThen (collapseOmp c body)
  | .ompTaskloop => guard (ctx.any isSerial && singleLoop body /- (fix) -/)
  | .ompLoop c =>
    (guard (singleLoop body && ctx.any (fun a => isTarget a || isOmpPar a)
            && !loopRegionBad body /- (fix) -/)).andThen (collapseOmp c body)
  | .accParallel | .accKernels | .accData => guard (!ctx.any isAccCompute)       -- (fix)
  | .accLoop c => guard (ctx.any isAccCompute && collapseAcc (max c 1) body /- (fix) -/)

/-- The visitor: validate the node, then its children, then the following siblings; the first
exception ends the run. -/
def writer (ctx : Ctx) : Forest → Outcome
  | .nil => .accept
  | .cons k body rest =>
    (nodeOut ctx k body).andThen ((writer (k :: ctx) body).andThen (writer ctx rest))

def writerAccepts (t : Forest) : Bool := writer [] t == .accept

/-! ### the specification -/

/-- `closelyIn p ctx`: the node is closely nested inside a region of class `p`, i.e. an ancestor
satisfies `p` and there is no parallel region strictly between (a `parallel do` ancestor is itself
both the parallel region and a worksharing-loop region). -/
def closelyIn (p : Kind → Bool) : Ctx → Bool
  | [] => false
  | a :: rest => p a || (!isOmpPar a && closelyIn p rest)

/-- `n` perfectly nested loops: the body is exactly one loop whose body is again such a nest
(OpenMP 4.5 §2.7.1: "the associated loops must be perfectly nested; there must be no intervening
code nor any OpenMP directive between any two loops"; OpenACC 2.6 §2.9.1 "tightly nested"). -/
def assocLoops : Nat → Forest → Bool
  | 0, _ => true
  | n+1, .cons (.loop _) body .nil => assocLoops n body
  | _+1, _ => false

/-- Rectangular iteration space: the loop at depth `d` of the collapsed nest does not reference the
variable of any of the `d` associated loops outside it (OpenMP 4.5 §2.6 canonical loop form: lb, b
and incr are loop invariant w.r.t. the outermost associated loop). -/
def rectNest : Nat → Nat → Forest → Bool
  | 0, _, _ => true
  | n+1, d, .cons (.loop dep) body .nil => (dep == 0 || d < dep) && rectNest n (d + 1) body
  | _+1, _, _ => true

/-- Core rules, one node. -/
def nodeCore (ctx : Ctx) (k : Kind) (body : Forest) : Bool :=
  match k with
  | .stmt | .block | .loop _ | .ompTarget | .accEnterData => true
  -- property clause 1 ("no loop directive sits outside a parallel region"), applied to every
  -- construct that binds to a team
  | .ompTaskwait => ctx.any isOmpPar
  -- OpenMP 4.5 §2.17: "A worksharing region may not be closely nested inside a worksharing,
  -- explicit task, taskloop, critical, ordered, atomic, or master region."
  | .ompSingle =>
    ctx.any isOmpPar && !closelyIn (fun a => isDoLike a || isSerial a || isTaskloop a) ctx
  -- OpenMP 4.5 §2.17: "A master region may not be closely nested inside a worksharing, atomic, or
  -- explicit task region." (taskloop generates explicit tasks)
  | .ompMaster =>
    ctx.any isOmpPar && !closelyIn (fun a => isDoLike a || a == .ompSingle || isTaskloop a) ctx
  -- property clause 2 ("parallel regions are not nested")
  | .ompParallel => !ctx.any isOmpPar
  | .ompParallelDo c => !ctx.any isOmpPar && assocLoops (max c 1) body
  -- clause 1 + §2.17 worksharing rule + clause 3 (collapse(n) ⇒ n perfectly nested loops)
  | .ompDo c =>
    ctx.any isOmpPar && !closelyIn (fun a => isDoLike a || isSerial a || isTaskloop a) ctx
      && assocLoops (max c 1) body
  -- design rule: taskloop only inside a single/master region; §2.9.2 taskloop is loop-associated
  | .ompTaskloop => ctx.any isSerial && assocLoops 1 body
  -- OpenMP 5.0 §2.9.5 loop construct (binds to a parallel or, via target, teams region) and §2.20:
  -- "OpenMP constructs other than parallel, loop or simd may not be nested inside a loop region"
  | .ompLoop c =>
    ctx.any (fun a => isTarget a || isOmpPar a) && !loopRegionBad body && assocLoops (max c 1) body
  -- OpenACC 2.6 §2.5: compute constructs (and data constructs) may not appear inside a compute
  -- construct (gcc: "'kernels' construct inside of 'parallel' region")
  | .accParallel | .accKernels | .accData => !ctx.any isAccCompute
  -- OpenACC 2.6 §2.9: a loop construct must be inside a parallel/kernels region (orphaned loops
  -- only in `acc routine`s, not modelled); §2.9.1 collapse(n) ⇒ n tightly nested loops
  | .accLoop c => ctx.any isAccCompute && assocLoops (max c 1) body

/-- Rectangularity of collapsed nests, one node. -/
def nodeRect (k : Kind) (body : Forest) : Bool :=
  match k with
  | .ompDo c | .ompParallelDo c | .ompLoop c | .accLoop c => rectNest c 0 body
  | _ => true

/-- No OpenMP construct inside an OpenACC region and vice versa (gcc: "The !$OMP PARALLEL DO
directive cannot be specified within a !$ACC PARALLEL region"), one node. -/
def nodeMix (ctx : Ctx) (k : Kind) : Bool :=
  !(isOmp k && ctx.any isAcc) && !(isAcc k && ctx.any isOmp)

def coreOk (ctx : Ctx) : Forest → Bool
  | .nil => true
  | .cons k body rest => nodeCore ctx k body && coreOk (k :: ctx) body && coreOk ctx rest

def rectOk : Forest → Bool
  | .nil => true
  | .cons k body rest => nodeRect k body && rectOk body && rectOk rest

def mixOk (ctx : Ctx) : Forest → Bool
  | .nil => true
  | .cons k body rest => nodeMix ctx k && mixOk (k :: ctx) body && mixOk ctx rest

/-- The nesting / association rules the writer is expected to guard. -/
def coreValid (t : Forest) : Prop := coreOk [] t = true
/-- The full specification. -/
def specValid (t : Forest) : Prop := coreOk [] t = true ∧ rectOk t = true ∧ mixOk [] t = true

/-- Every loop has a non-empty body (true of every tree reachable by the transformations: the
collapse validation of `ParallelLoopTrans` itself indexes `loop_body[0]`). -/
def loopsNonEmpty : Forest → Bool
  | .nil => true
  | .cons k body rest =>
    (match k, body with
     | .loop _, .nil => false
     | _, _ => true) && loopsNonEmpty body && loopsNonEmpty rest

end C10
