/-! # C17 model — symbolic comparison of integer expressions

Mirrors `psyclone.core.symbolic_maths.SymbolicMaths.{equal,never_equal,solve_equal_for,expand}`
and the `SymPyWriter` translation (`psyclone.psyir.backend.sympy_writer`).

* `IExpr`   integer PSyIR expressions (Nat ids for variables / arrays).
* `evalF`   Fortran semantics: truncating `/`, MOD with the sign of the dividend, `**` with a
            natural literal exponent; `defined` = no zero divisor is evaluated.
* `toSym`   what reaches SymPy: the `SymPyWriter` prints Fortran *text* (inherited
            `FortranWriter.binaryoperation_node`) which is parsed by `sympy.parse_expr`.  On the pinned
            tree a left-nested power `(a**k)**m` is printed without brackets, `a ** k ** m`, and is
            therefore read as `a ** (k ** m)`.  `toSym false` reproduces this; `toSym true` is the
            translation of a writer that brackets it (identity on the tree) — the deployed model since the
            writer was repaired in /repo (commit ab94ce4).
* `evalQ`   what the translated expression denotes for SymPy: exact rational division, floored `Mod`.
* `normQ`   executable canonical form (sorted monomial list, rational coefficients) for the fragment
            without MOD/MIN/MAX/array accesses and with division by non-zero constants only;
            `modelEqual`, `modelNever`, `modelSolve`, `modelExpand` are SymPy-free executable models of
            the four entry points on that fragment.
Core Lean only. -/
namespace C17

inductive IExpr where
  | lit (n : Int)
  | var (v : Nat)
  | neg (a : IExpr)
  | add (a b : IExpr)
  | sub (a b : IExpr)
  | mul (a b : IExpr)
  | div (a b : IExpr)
  | pow (a : IExpr) (k : Nat)
  | mod (a b : IExpr)
  | min (a b : IExpr)
  | max (a b : IExpr)
  | arr1 (f : Nat) (i : IExpr)
  | arr2 (f : Nat) (i j : IExpr)
  | arr3 (f : Nat) (i j k : IExpr)
  | powe (a b : IExpr)          -- `a ** b` with an arbitrary (symbolic, possibly negative) integer exponent
  deriving DecidableEq, Repr, Inhabited

/-- integer valuation: scalars and (uninterpreted) integer arrays of rank 1 and 2 -/
structure Env where
  var : Nat → Int
  f1 : Nat → Int → Int
  f2 : Nat → Int → Int → Int
  f3 : Nat → Int → Int → Int → Int

/-- what SymPy quantifies over: symbols are arbitrary (here: rational) numbers, arrays arbitrary functions -/
structure QEnv where
  var : Nat → Rat
  f1 : Nat → Rat → Rat
  f2 : Nat → Rat → Rat → Rat
  f3 : Nat → Rat → Rat → Rat → Rat

def imin (a b : Int) : Int := if a ≤ b then a else b
def imax (a b : Int) : Int := if a ≤ b then b else a
def qmin (a b : Rat) : Rat := if a ≤ b then a else b
def qmax (a b : Rat) : Rat := if a ≤ b then b else a
/-- SymPy `Mod`: result has the sign of the divisor (floored) -/
def qmod (a b : Rat) : Rat := a - b * ((a / b).floor : Int)

/-- Fortran integer power: a negative exponent is `1 / a**(-b)` with truncating division -/
def ipow (a b : Int) : Int := if 0 ≤ b then a ^ b.toNat else Int.tdiv 1 (a ^ (-b).toNat)
/-- rational power with an integer exponent (what SymPy computes for integer-valued exponents) -/
def qzpow (q : Rat) (z : Int) : Rat := if 0 ≤ z then q ^ z.toNat else (q ^ (-z).toNat)⁻¹
/-- SymPy power: only integer-valued exponents are modelled (others denote 0 here) -/
def qpow (q e : Rat) : Rat := if e.den = 1 then qzpow q e.num else 0

/-- Fortran value (total: `x/0 = 0`, `mod(x,0) = x` as in Lean; see `defined`) -/
def evalF : IExpr → Env → Int
  | .lit n, _ => n
  | .var v, ρ => ρ.var v
  | .neg a, ρ => - evalF a ρ
  | .add a b, ρ => evalF a ρ + evalF b ρ
  | .sub a b, ρ => evalF a ρ - evalF b ρ
  | .mul a b, ρ => evalF a ρ * evalF b ρ
  | .div a b, ρ => Int.tdiv (evalF a ρ) (evalF b ρ)
  | .pow a k, ρ => evalF a ρ ^ k
  | .mod a b, ρ => Int.tmod (evalF a ρ) (evalF b ρ)
  | .min a b, ρ => imin (evalF a ρ) (evalF b ρ)
  | .max a b, ρ => imax (evalF a ρ) (evalF b ρ)
  | .arr1 f i, ρ => ρ.f1 f (evalF i ρ)
  | .arr2 f i j, ρ => ρ.f2 f (evalF i ρ) (evalF j ρ)
  | .arr3 f i j k, ρ => ρ.f3 f (evalF i ρ) (evalF j ρ) (evalF k ρ)
  | .powe a b, ρ => ipow (evalF a ρ) (evalF b ρ)

/-- the Fortran evaluation meets no zero divisor -/
def defined : IExpr → Env → Bool
  | .lit _, _ => true
  | .var _, _ => true
  | .neg a, ρ => defined a ρ
  | .add a b, ρ => defined a ρ && defined b ρ
  | .sub a b, ρ => defined a ρ && defined b ρ
  | .mul a b, ρ => defined a ρ && defined b ρ
  | .div a b, ρ => defined a ρ && defined b ρ && (evalF b ρ != 0)
  | .pow a _, ρ => defined a ρ
  | .mod a b, ρ => defined a ρ && defined b ρ && (evalF b ρ != 0)
  | .min a b, ρ => defined a ρ && defined b ρ
  | .max a b, ρ => defined a ρ && defined b ρ
  | .arr1 _ i, ρ => defined i ρ
  | .arr2 _ i j, ρ => defined i ρ && defined j ρ
  | .arr3 _ i j k, ρ => defined i ρ && defined j ρ && defined k ρ
  | .powe a b, ρ => defined a ρ && defined b ρ && !(evalF a ρ == 0 && evalF b ρ < 0)

/-- denotation of a (translated) expression for SymPy -/
def evalQ : IExpr → QEnv → Rat
  | .lit n, _ => (n : Rat)
  | .var v, ρ => ρ.var v
  | .neg a, ρ => - evalQ a ρ
  | .add a b, ρ => evalQ a ρ + evalQ b ρ
  | .sub a b, ρ => evalQ a ρ - evalQ b ρ
  | .mul a b, ρ => evalQ a ρ * evalQ b ρ
  | .div a b, ρ => evalQ a ρ / evalQ b ρ
  | .pow a k, ρ => evalQ a ρ ^ k
  | .mod a b, ρ => qmod (evalQ a ρ) (evalQ b ρ)
  | .min a b, ρ => qmin (evalQ a ρ) (evalQ b ρ)
  | .max a b, ρ => qmax (evalQ a ρ) (evalQ b ρ)
  | .arr1 f i, ρ => ρ.f1 f (evalQ i ρ)
  | .arr2 f i j, ρ => ρ.f2 f (evalQ i ρ) (evalQ j ρ)
  | .arr3 f i j k, ρ => ρ.f3 f (evalQ i ρ) (evalQ j ρ) (evalQ k ρ)
  | .powe a b, ρ => qpow (evalQ a ρ) (evalQ b ρ)

/-- the rational valuation that extends an integer valuation -/
def liftEnv (ρ : Env) : QEnv where
  var v := (ρ.var v : Rat)
  f1 f q := if q.den = 1 then (ρ.f1 f q.num : Rat) else 0
  f2 f p q := if p.den = 1 ∧ q.den = 1 then (ρ.f2 f p.num q.num : Rat) else 0
  f3 f p q r := if p.den = 1 ∧ q.den = 1 ∧ r.den = 1 then (ρ.f3 f p.num q.num r.num : Rat) else 0

def Env.set (ρ : Env) (x : Nat) (z : Int) : Env :=
  { ρ with var := fun v => if v = x then z else ρ.var v }
def QEnv.set (ρ : QEnv) (x : Nat) (q : Rat) : QEnv :=
  { ρ with var := fun v => if v = x then q else ρ.var v }

/-! ## The SymPyWriter translation -/

def wrapPow : Option Nat → IExpr → IExpr
  | none, t => t
  | some k, t => .pow t k

/-- `toSymAux brk e acc`: translation of `e` (when `acc = none`) resp. of the text `e ** k1 ** k2 …`
whose right-associated exponent chain has the value `acc`.  `brk = true`: the writer brackets a
left operand of `**` that is itself a `**`. -/
def toSymAux (brk : Bool) : IExpr → Option Nat → IExpr
  | .pow a k, acc =>
    if brk then wrapPow acc (.pow (toSymAux brk a none) k)
    else toSymAux brk a (some (match acc with | none => k | some m => k ^ m))
  | .lit n, acc => wrapPow acc (.lit n)
  | .var v, acc => wrapPow acc (.var v)
  | .neg a, acc => wrapPow acc (.neg (toSymAux brk a none))
  | .add a b, acc => wrapPow acc (.add (toSymAux brk a none) (toSymAux brk b none))
  | .sub a b, acc => wrapPow acc (.sub (toSymAux brk a none) (toSymAux brk b none))
  | .mul a b, acc => wrapPow acc (.mul (toSymAux brk a none) (toSymAux brk b none))
  | .div a b, acc => wrapPow acc (.div (toSymAux brk a none) (toSymAux brk b none))
  | .mod a b, acc => wrapPow acc (.mod (toSymAux brk a none) (toSymAux brk b none))
  | .min a b, acc => wrapPow acc (.min (toSymAux brk a none) (toSymAux brk b none))
  | .max a b, acc => wrapPow acc (.max (toSymAux brk a none) (toSymAux brk b none))
  | .arr1 f i, acc => wrapPow acc (.arr1 f (toSymAux brk i none))
  | .arr2 f i j, acc => wrapPow acc (.arr2 f (toSymAux brk i none) (toSymAux brk j none))
  | .arr3 f i j k, acc => wrapPow acc (.arr3 f (toSymAux brk i none) (toSymAux brk j none) (toSymAux brk k none))
  -- symbolic exponents: faithful for a bracketing writer (the deployed `brk = true`); the legacy `brk = false`
  -- translation is only meant for literal exponent chains (the pinned-writer witnesses)
  | .powe a b, acc => wrapPow acc (.powe (toSymAux brk a none) (toSymAux brk b none))

def toSym (brk : Bool) (e : IExpr) : IExpr := toSymAux brk e none

def isPow : IExpr → Bool
  | .pow _ _ => true
  | _ => false

/-- the fragment on which the translation is value preserving: no `/`, no MOD and (when the writer
does not bracket) no left-nested `**`; exponents are natural literals (`powe` is excluded) -/
def frag (brk : Bool) : IExpr → Bool
  | .lit _ => true
  | .var _ => true
  | .neg a => frag brk a
  | .add a b => frag brk a && frag brk b
  | .sub a b => frag brk a && frag brk b
  | .mul a b => frag brk a && frag brk b
  | .div _ _ => false
  | .pow a _ => (brk || !isPow a) && frag brk a
  | .mod _ _ => false
  | .min a b => frag brk a && frag brk b
  | .max a b => frag brk a && frag brk b
  | .arr1 _ i => frag brk i
  | .arr2 _ i j => frag brk i && frag brk j
  | .arr3 _ i j k => frag brk i && frag brk j && frag brk k
  | .powe _ _ => false

/-- the polynomial fragment (decided by `normQ` without any assumption about SymPy) -/
def isPoly : IExpr → Bool
  | .lit _ => true
  | .var _ => true
  | .neg a => isPoly a
  | .add a b => isPoly a && isPoly b
  | .sub a b => isPoly a && isPoly b
  | .mul a b => isPoly a && isPoly b
  | .pow a _ => isPoly a
  | _ => false

/-! ## Canonical polynomial form with rational coefficients -/

/-- sorted list of variable ids with repetition: `x0²·x1 = [0,0,1]` -/
abbrev Mono := List Nat
/-- terms sorted strictly by `monoLt`, coefficients non-zero -/
abbrev Poly := List (Mono × Rat)

def insVar (v : Nat) : Mono → Mono
  | [] => [v]
  | w :: m => if v ≤ w then v :: w :: m else w :: insVar v m

def mulMono (m1 m2 : Mono) : Mono := m1.foldr insVar m2

def monoLt : Mono → Mono → Bool
  | [], [] => false
  | [], _ :: _ => true
  | _ :: _, [] => false
  | a :: m, b :: n => a < b || (a == b && monoLt m n)

def insTerm (m : Mono) (c : Rat) : Poly → Poly
  | [] => if c = 0 then [] else [(m, c)]
  | (m', c') :: p =>
    if m = m' then (if c + c' = 0 then p else (m, c + c') :: p)
    else if monoLt m m' then (if c = 0 then (m', c') :: p else (m, c) :: (m', c') :: p)
    else (m', c') :: insTerm m c p

def addPoly (p q : Poly) : Poly := p.foldr (fun t acc => insTerm t.1 t.2 acc) q
def mulTerm (m : Mono) (c : Rat) (q : Poly) : Poly :=
  q.foldr (fun t acc => insTerm (mulMono m t.1) (c * t.2) acc) []
def mulPoly (p q : Poly) : Poly := p.foldr (fun t acc => addPoly (mulTerm t.1 t.2 q) acc) []
def powPoly (p : Poly) : Nat → Poly
  | 0 => [([], 1)]
  | k + 1 => mulPoly p (powPoly p k)
def negPoly (p : Poly) : Poly := mulTerm [] (-1) p
def constPoly (c : Rat) : Poly := insTerm [] c []

def constOf : Poly → Option Rat
  | [] => some 0
  | [([], c)] => some c
  | _ => none

def normQ : IExpr → Option Poly
  | .lit n => some (constPoly n)
  | .var v => some [([v], 1)]
  | .neg a => (normQ a).map negPoly
  | .add a b => match normQ a, normQ b with
    | some p, some q => some (addPoly p q)
    | _, _ => none
  | .sub a b => match normQ a, normQ b with
    | some p, some q => some (addPoly p (negPoly q))
    | _, _ => none
  | .mul a b => match normQ a, normQ b with
    | some p, some q => some (mulPoly p q)
    | _, _ => none
  | .div a b => match normQ a, normQ b with
    | some p, some q => match constOf q with
      | some c => if c = 0 then none else some (mulTerm [] (1 / c) p)
      | none => none
    | _, _ => none
  | .pow a k => (normQ a).map (fun p => powPoly p k)
  | _ => none

def evalMono (m : Mono) (ρ : QEnv) : Rat := m.foldr (fun v acc => ρ.var v * acc) 1
def evalPoly (p : Poly) (ρ : QEnv) : Rat := p.foldr (fun t acc => t.2 * evalMono t.1 ρ + acc) 0

/-! ## Executable models of the four entry points -/

/-- `equal`: `isinstance(simplify(w(e1) - w(e2)), Zero)` -/
def modelEqual (brk : Bool) (e1 e2 : IExpr) : Bool :=
  match normQ (.sub (toSym brk e1) (toSym brk e2)) with
  | some [] => true
  | _ => false

/-- `never_equal`: the simplified difference is a SymPy `Integer` other than zero -/
def modelNever (brk : Bool) (e1 e2 : IExpr) : Bool :=
  match normQ (.sub (toSym brk e1) (toSym brk e2)) with
  | some [([], c)] => c.den == 1 && c != 0
  | _ => false

/-- `expand` -/
def modelExpand (brk : Bool) (e : IExpr) : Option Poly := normQ (toSym brk e)

inductive SolveRes where
  | independent            -- solveset returned `Complexes`
  | empty                  -- `EmptySet`
  | one (s : Poly)         -- `FiniteSet(s)`
  | unknown                -- outside the modelled (linear) class
  deriving DecidableEq, Repr

/-- `solve_equal_for(w(e1), w(e2), x)` for equations that are linear in `x` with a constant coefficient -/
def modelSolve (brk : Bool) (x : Nat) (e1 e2 : IExpr) : SolveRes :=
  match normQ (.sub (toSym brk e1) (toSym brk e2)) with
  | none => .unknown
  | some d =>
    let xs := d.filter (fun t => t.1.contains x)
    let rest := d.filter (fun t => !t.1.contains x)
    match xs with
    | [] => if rest = [] then .independent else .empty
    | [(m, a)] => if m = [x] ∧ a ≠ 0 then .one (mulTerm [] (-1 / a) rest) else .unknown
    | _ => .unknown

/-! ## `solve_equal_for`: what the Python does with the set returned by `sympy.solveset` -/

/-- the kinds of results of `solvers.solveset(exp1 - exp2, symbol)` the code distinguishes; `σ` is the type of a
reported solution -/
inductive SolveSet (σ : Type) where
  | complexes                 -- `solution == Complexes`
  | conditionSet              -- `isinstance(solution, ConditionSet)`
  | imageSet                  -- `ImageSet`
  | union                     -- `Union`
  | empty                     -- `EmptySet`
  | finite (sols : List σ)    -- `FiniteSet`
  | other                     -- Interval, Intersection, …

/-- the value returned (or the exception raised) by `solve_equal_for` -/
inductive PySolve (σ : Type) where
  | independent               -- the string "independent"
  | sols (l : List σ)         -- a Python set of solutions (possibly empty)
  | valueError                -- `raise ValueError("Unexpected solution …")`

/-- mirror of the `if` cascade of `SymbolicMaths.solve_equal_for` -/
def pySolve {σ : Type} : SolveSet σ → PySolve σ
  | .complexes => .independent
  | .conditionSet => .independent
  | .imageSet => .independent
  | .union => .independent
  | .empty => .sols []
  | .finite l => .sols l
  | .other => .valueError

/-- the executable linear solver expressed as a `solveset` result -/
def modelSolveSet (brk : Bool) (x : Nat) (e1 e2 : IExpr) : Option (SolveSet Poly) :=
  match modelSolve brk x e1 e2 with
  | .independent => some .complexes
  | .empty => some .empty
  | .one s => some (.finite [s])
  | .unknown => none

/-- A query to `solve_equal_for` and the answers to a whole call history: the model has no state, each answer is a
function of its own query -/
structure SolveQuery where
  brk : Bool
  x : Nat
  e1 : IExpr
  e2 : IExpr

def solveAnswer (q : SolveQuery) : SolveRes := modelSolve q.brk q.x q.e1 q.e2
def solveHistory (qs : List SolveQuery) : List SolveRes := qs.map solveAnswer

end C17
