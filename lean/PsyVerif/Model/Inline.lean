import PsyVerif.Model.MiniF
/-! # C07 — model of `InlineTrans` (validate / apply) and of Fortran CALL semantics

Callee bodies are `MiniF.Stmt`s over *names* (`Nat` ids; the same id in caller and callee is
the same Fortran name, so name clashes are representable).  Two independent definitions
share only the syntax of a call site (`Call`):

* **CALL semantics** (`execCall`): by-reference binding.  Every formal is bound, *at the
  moment of the call* (store `σ₀`), to what its actual argument denotes: a scalar variable
  or array element → that location; an array / array section → the array with the index
  shift `k ↦ k - lo_formal + start_actual`; an expression → its value (a read-only
  temporary: a legal callee never defines such a dummy).  Callee locals live in a frame
  `frame l` (fresh storage, initial contents arbitrary = whatever the store holds there).
  The body then runs directly on the store through this environment (`execE`).
* **InlineTrans** (`validate`, `apply`): the refusals of `InlineTrans.validate` that can
  occur inside the subset, and the textual substitution of `_replace_formal_arg` /
  `_replace_formal_struc_arg` / `_create_inlined_idx`, with `SymbolTable.merge` renaming the
  callee locals that clash with the table at the call site (`renOf`).

Core Lean only. -/
namespace C07
open MiniF

/-- actual argument of a call (`unit` = every range has unit stride) -/
inductive Actual where
  | var (y : Nat)                                   -- scalar variable
  | elem1 (a : Nat) (i : Expr)                      -- a(i)
  | elem2 (a : Nat) (i j : Expr)                    -- a(i,j)
  | expr (e : Expr)                                 -- literal or general expression
  | sec1 (a : Nat) (st : Expr) (unit : Bool)        -- rank-1 array `a` (st = declared lower bound) or a(st:hi)
  | sec2 (a : Nat) (st1 st2 : Expr) (unit : Bool)   -- rank-2 array / section
  | col (a : Nat) (st1 j : Expr) (unit : Bool)      -- a(st1:hi, j)
  | row (a : Nat) (i st2 : Expr) (unit : Bool)      -- a(i, st2:hi)
  deriving DecidableEq, Repr, Inhabited

/-- formal argument: name, rank, declared lower bounds (1 for assumed shape `:`) -/
structure Param where
  name : Nat
  rank : Nat
  lo1 : Int
  lo2 : Int
  deriving DecidableEq, Repr, Inhabited

/-- a call site together with the called routine -/
structure Call where
  localNames : List Nat     -- names in the symbol table of the calling routine
  outerNames : List Nat     -- names visible at the call site from enclosing scopes (container)
  params : List Param
  locals : List Nat         -- callee locals (symbol-table order)
  statics : List Nat        -- callee locals with a static (SAVE) interface
  body : Stmt
  actuals : List Actual
  /-- RETURN statements of the called routine: how many `Return` nodes `routine.walk(Return)` finds
  (at any depth) and whether the routine's last statement is one.  `body` is the routine body
  with a trailing RETURN removed (what `apply` copies); MiniF has no RETURN, so `body` represents
  the routine faithfully exactly when `earlyReturns = 0` — which `validate = ok` guarantees
  (`C07_validate_no_early_return`). -/
  nReturns : Nat := 0
  lastIsReturn : Bool := false
  deriving Repr, Inhabited

/-! ## variables (own copies of the footprint functions; `Props/C07` proves them equal to
`MiniF.evars` / `MiniF.wvars`) -/

def exprVars : Expr → List Nat
  | .lit _ => []
  | .var x => [x]
  | .idx1 a i => a :: exprVars i
  | .idx2 a i j => a :: (exprVars i ++ exprVars j)
  | .un _ e => exprVars e
  | .bin _ a b => exprVars a ++ exprVars b

def written : Stmt → List Nat
  | .skip => []
  | .seq a b => written a ++ written b
  | .assign x _ => [x]
  | .store1 a _ _ => [a]
  | .store2 a _ _ _ => [a]
  | .ite _ t f => written t ++ written f
  | .loop v _ _ _ b => v :: written b

def stmtVars : Stmt → List Nat
  | .skip => []
  | .seq a b => stmtVars a ++ stmtVars b
  | .assign x e => x :: exprVars e
  | .store1 a i e => a :: (exprVars i ++ exprVars e)
  | .store2 a i j e => a :: (exprVars i ++ exprVars j ++ exprVars e)
  | .ite c t f => exprVars c ++ stmtVars t ++ stmtVars f
  | .loop v lo hi st b => v :: (exprVars lo ++ exprVars hi ++ exprVars st ++ stmtVars b)

/-! ## formal ↔ actual association and roles of callee names -/

def findFormal : List Param → List Actual → Nat → Option (Param × Actual)
  | p :: ps, a :: as, x => if p.name = x then some (p, a) else findFormal ps as x
  | _, _, _ => none

/-- what a name occurring in the callee body is: a local (living at `y`), a formal with its
actual, or something else (refused by `validate`) -/
inductive Role where
  | loc (y : Nat)
  | formal (p : Param) (a : Actual)
  | free
  deriving Repr, Inhabited

def roleOf (frame : Nat → Nat) (c : Call) (x : Nat) : Role :=
  match findFormal c.params c.actuals x with
  | some (p, a) => .formal p a
  | none => if x ∈ c.locals then .loc (frame x) else .free

/-! ## CALL semantics -/

/-- what a callee name denotes during the call -/
inductive Bind where
  | ref (f : Int → Int → Loc)    -- storage: element (i,j) of the name is location `f i j`
  | val (v : Int)                -- value of an expression actual

abbrev Env := Nat → Bind

def rd (env : Env) (σ : Store) (x : Nat) (i j : Int) : Int :=
  match env x with
  | .ref f => σ (f i j)
  | .val v => v

def wr (env : Env) (σ : Store) (x : Nat) (i j : Int) (v : Int) : Store :=
  match env x with
  | .ref f => σ.set (f i j) v
  | .val _ => σ

def evalE (env : Env) : Expr → Store → Int
  | .lit n, _ => n
  | .var x, σ => rd env σ x 0 0
  | .idx1 a i, σ => rd env σ a (evalE env i σ) 0
  | .idx2 a i j, σ => rd env σ a (evalE env i σ) (evalE env j σ)
  | .un op e, σ => evalUn op (evalE env e σ)
  | .bin op a b, σ => evalBin op (evalE env a σ) (evalE env b σ)

/-- `MiniF.runIters` with an arbitrary "assign the loop variable" operation -/
def runItersG (setv : Store → Int → Store) (f : Store → Store) (lo step : Int) : Nat → Int → Store → Store
  | 0, k, σ => setv σ (lo + k * step)
  | n+1, k, σ => runItersG setv f lo step n (k + 1) (f (setv σ (lo + k * step)))

/-- the callee body executed directly on the store, names resolved through `env` -/
def execE (env : Env) : Stmt → Store → Store
  | .skip, σ => σ
  | .seq a b, σ => execE env b (execE env a σ)
  | .assign x e, σ => wr env σ x 0 0 (evalE env e σ)
  | .store1 a i e, σ => wr env σ a (evalE env i σ) 0 (evalE env e σ)
  | .store2 a i j e, σ => wr env σ a (evalE env i σ) (evalE env j σ) (evalE env e σ)
  | .ite c t f, σ => if evalE env c σ ≠ 0 then execE env t σ else execE env f σ
  | .loop v lo hi step body, σ =>
      runItersG (fun τ x => wr env τ v 0 0 x) (execE env body) (evalE env lo σ) (evalE env step σ)
        (trip (evalE env lo σ) (evalE env hi σ) (evalE env step σ)) 0 σ

/-- argument association, established in the store `σ₀` at the call: formal element `k`
of a dimension declared with lower bound `lo` is actual element `k - lo + start` -/
def bindActual (σ₀ : Store) (p : Param) : Actual → Bind
  | .var y => .ref fun _ _ => (y, 0, 0)
  | .elem1 a i => .ref fun _ _ => (a, eval i σ₀, 0)
  | .elem2 a i j => .ref fun _ _ => (a, eval i σ₀, eval j σ₀)
  | .expr e => .val (eval e σ₀)
  | .sec1 a st _ => .ref fun i _ => (a, i + (eval st σ₀ - p.lo1), 0)
  | .sec2 a st1 st2 _ => .ref fun i j => (a, i + (eval st1 σ₀ - p.lo1), j + (eval st2 σ₀ - p.lo2))
  | .col a st1 j _ => .ref fun i _ => (a, i + (eval st1 σ₀ - p.lo1), eval j σ₀)
  | .row a i st2 _ => .ref fun k _ => (a, eval i σ₀, k + (eval st2 σ₀ - p.lo1))

def bindRole (σ₀ : Store) (x : Nat) : Role → Bind
  | .loc y => .ref fun i j => (y, i, j)
  | .formal p a => bindActual σ₀ p a
  | .free => .ref fun i j => (x, i, j)

def envOf (frame : Nat → Nat) (c : Call) (σ₀ : Store) : Env :=
  fun x => bindRole σ₀ x (roleOf frame c x)

/-- **CALL**: bind the arguments in the current store, run the body.  Callee locals live
at `frame l`. -/
def execCall (frame : Nat → Nat) (c : Call) (σ : Store) : Store :=
  execE (envOf frame c σ) c.body σ

/-! ## `SymbolTable.merge`: renaming of clashing callee locals -/

def maxList : List Nat → Nat
  | [] => 0
  | x :: xs => max x (maxList xs)

def paramNames (c : Call) : List Nat := c.params.map Param.name

/-- every name `next_available_name` must avoid: both tables and the enclosing scopes -/
def allNames (c : Call) : List Nat := c.localNames ++ c.outerNames ++ paramNames c ++ c.locals

/-- names the caller can see at the call site -/
def visible (c : Call) : List Nat := c.localNames ++ c.outerNames

/-- Renaming of the callee's locals when they are merged into the caller (FIXED code,
`fixes/C07-outer-capture.patch`): `InlineTrans.apply` first renames every local whose name is
visible at the call site from an enclosing scope, then `_add_symbols_from_table` renames those
that clash with the table at the call site itself (`self.add(sym)` fails).  Either way the new
name comes from `next_available_name`: an injective function of the old name outside
`allNames` (the real code appends `_1`, `_2`, …). -/
def renOf (c : Call) (l : Nat) : Nat :=
  if l ∈ c.localNames ∨ l ∈ c.outerNames then maxList (allNames c) + 1 + l else l

/-- storage that no name of either routine or of an enclosing scope denotes: the callee frame
used (by the driver) to run the *original* program; `Props/C07` proves it fresh for every call -/
def farFrame (c : Call) (l : Nat) : Nat := maxList (allNames c) + 1 + l

/-! ## `InlineTrans.validate` -/

inductive Refusal where
  | earlyReturn -- a Return that is not the single, last statement of the routine
  | static      -- a local with a static interface
  | container   -- the body accesses a name that is not declared in the routine
  | nargs       -- number of actual ≠ number of formal arguments
  | loopVarActual -- a formal used as DO variable whose actual is not a plain scalar variable
  | arrayExpr   -- array formal, actual is neither a Reference nor a Literal
  | unknownType -- array formal, actual `a(…)` has an index that is an operation / call: its type is unknown
  | rank        -- array formal, actual of different rank
  | stride      -- array section with non-unit stride
  deriving DecidableEq, Repr, Inhabited

def actualRank : Actual → Nat
  | .var _ | .elem1 .. | .elem2 .. | .expr _ => 0
  | .sec1 .. | .col .. | .row .. => 1
  | .sec2 .. => 2

def unitStride : Actual → Bool
  | .sec1 _ _ u | .sec2 _ _ _ u | .col _ _ _ u | .row _ _ _ u => u
  | _ => true

/-- an index expression whose type `ArrayMixin._get_effective_shape` cannot query (an `Operation` or a
`Call`; literals, variables and array elements are fine) -/
def opExpr : Expr → Bool
  | .un .. | .bin .. => true
  | _ => false

/-- `actual_arg.datatype` is `UnresolvedType`: some (non-Range) index of `a(…)` is an operation -/
def opIndexed : Actual → Bool
  | .elem1 _ i => opExpr i
  | .elem2 _ i j => opExpr i || opExpr j
  | .col _ _ j _ => opExpr j
  | .row _ i _ _ => opExpr i
  | _ => false

/-- the per-argument loop at the end of `validate` (only array formals are checked) -/
def checkArg (p : Param) (a : Actual) : Option Refusal :=
  if p.rank = 0 then none else
  match a with
  | .expr (.lit _) => some .rank
  | .expr _ => some .arrayExpr
  | a => if opIndexed a then some .unknownType
         else if p.rank ≠ actualRank a then some .rank
         else if unitStride a then none else some .stride

def checkArgs : List Param → List Actual → Option Refusal
  | p :: ps, a :: as => match checkArg p a with
    | some r => some r
    | none => checkArgs ps as
  | _, _ => none

def loopVars : Stmt → List Nat
  | .skip | .assign .. | .store1 .. | .store2 .. => []
  | .seq a b => loopVars a ++ loopVars b
  | .ite _ t f => loopVars t ++ loopVars f
  | .loop v _ _ _ b => v :: loopVars b

/-- FIXED code (`fixes/C07-loopvar-formal.patch`): a formal used as DO variable must be associated
with a plain variable (its symbol then replaces `Loop.variable`) -/
def badLoopVar (c : Call) (v : Nat) : Bool :=
  match findFormal c.params c.actuals v with
  | some (_, .var _) => false
  | some _ => true
  | none => false

/-- RETURN statements other than one trailing RETURN: these would leave the *caller* if copied -/
def earlyReturns (c : Call) : Nat := c.nReturns - (if c.lastIsReturn then 1 else 0)

def validate (c : Call) : Except Refusal Unit :=
  -- `if return_stmts: if len(return_stmts) > 1 or not isinstance(routine.children[-1], Return): raise`
  if c.nReturns ≠ 0 ∧ (c.nReturns > 1 ∨ c.lastIsReturn = false) then .error .earlyReturn
  else if c.locals.any (fun l => c.statics.contains l) then .error .static
  else if (stmtVars c.body).any (fun x => !(paramNames c ++ c.locals).contains x) then .error .container
  else if c.params.length ≠ c.actuals.length then .error .nargs
  else if (loopVars c.body).any (badLoopVar c) then .error .loopVarActual
  else match checkArgs c.params c.actuals with
    | some r => .error r
    | none => .ok ()

/-! ## `InlineTrans.apply`: substitution of formals, renaming of locals -/

/-- `_create_inlined_idx`: `local_idx - decln_start + actual_start`, unless the two starts
are the same expression -/
def shiftIdx (lo : Int) (start : Expr) (e : Expr) : Expr :=
  if Expr.lit lo = start then e else .bin .add (.bin .sub e (.lit lo)) start

/-- a scalar reference `x` -/
def substRef0 (r : Role) (x : Nat) : Expr :=
  match r with
  | .loc y => .var y
  | .free => .var x
  | .formal _ (.var y) => .var y
  | .formal _ (.elem1 a i) => .idx1 a i
  | .formal _ (.elem2 a i j) => .idx2 a i j
  | .formal _ (.expr e) => e
  | .formal _ _ => .var x

/-- an element reference `x(e)` (index already substituted) -/
def substRef1 (r : Role) (x : Nat) (e : Expr) : Expr :=
  match r with
  | .loc y => .idx1 y e
  | .formal p (.sec1 a st _) => .idx1 a (shiftIdx p.lo1 st e)
  | .formal p (.col a st j _) => .idx2 a (shiftIdx p.lo1 st e) j
  | .formal p (.row a i st _) => .idx2 a i (shiftIdx p.lo1 st e)
  | _ => .idx1 x e

def substRef2 (r : Role) (x : Nat) (e1 e2 : Expr) : Expr :=
  match r with
  | .loc y => .idx2 y e1 e2
  | .formal p (.sec2 a st1 st2 _) => .idx2 a (shiftIdx p.lo1 st1 e1) (shiftIdx p.lo2 st2 e2)
  | _ => .idx2 x e1 e2

def substE (ρ : Nat → Role) : Expr → Expr
  | .lit n => .lit n
  | .var x => substRef0 (ρ x) x
  | .idx1 a i => substRef1 (ρ a) a (substE ρ i)
  | .idx2 a i j => substRef2 (ρ a) a (substE ρ i) (substE ρ j)
  | .un op e => .un op (substE ρ e)
  | .bin op a b => .bin op (substE ρ a) (substE ρ b)

/-- an assignment whose left-hand side is the (substituted) reference `lhs` -/
def assignTo (lhs : Expr) (rhs : Expr) (dflt : Stmt) : Stmt :=
  match lhs with
  | .var y => .assign y rhs
  | .idx1 a i => .store1 a i rhs
  | .idx2 a i j => .store2 a i j rhs
  | _ => dflt

/-- `Loop.variable` is a Symbol, not a Reference: it follows the renaming of a merged local, and
(FIXED code) a formal associated with a plain variable is replaced by that variable -/
def loopVar (r : Role) (v : Nat) : Nat :=
  match r with
  | .loc y => y
  | .formal _ (.var y) => y
  | _ => v

def substS (ρ : Nat → Role) : Stmt → Stmt
  | .skip => .skip
  | .seq a b => .seq (substS ρ a) (substS ρ b)
  | .assign x e => assignTo (substRef0 (ρ x) x) (substE ρ e) (.assign x (substE ρ e))
  | .store1 a i e => assignTo (substRef1 (ρ a) a (substE ρ i)) (substE ρ e) .skip
  | .store2 a i j e => assignTo (substRef2 (ρ a) a (substE ρ i) (substE ρ j)) (substE ρ e) .skip
  | .ite c t f => .ite (substE ρ c) (substS ρ t) (substS ρ f)
  | .loop v lo hi st b => .loop (loopVar (ρ v) v) (substE ρ lo) (substE ρ hi) (substE ρ st) (substS ρ b)

/-- the statements that replace the call -/
def apply (c : Call) : Stmt := substS (roleOf (renOf c) c) c.body

/-- `InlineTrans.apply` (validates first) -/
def inline (c : Call) : Except Refusal Stmt :=
  match validate c with
  | .error r => .error r
  | .ok () => .ok (apply c)

/-! ## side conditions (all decidable) -/

/-- usage of a name agrees with what it is bound to (Fortran rank rules), expression
actuals are never defined, DO variables are locals -/
def scalarRole : Role → Bool
  | .loc _ | .free => true
  | .formal _ (.var _) | .formal _ (.elem1 ..) | .formal _ (.elem2 ..) | .formal _ (.expr _) => true
  | _ => false

def definableScalarRole : Role → Bool
  | .loc _ | .free => true
  | .formal _ (.var _) | .formal _ (.elem1 ..) | .formal _ (.elem2 ..) => true
  | _ => false

def rank1Role : Role → Bool
  | .loc _ | .free => true
  | .formal _ (.sec1 ..) | .formal _ (.col ..) | .formal _ (.row ..) => true
  | _ => false

def rank2Role : Role → Bool
  | .loc _ | .free => true
  | .formal _ (.sec2 ..) => true
  | _ => false

/-- a DO variable is a local or a scalar dummy associated with a variable -/
def loopRole : Role → Bool
  | .loc _ | .free => true
  | .formal _ (.var _) => true
  | _ => false

def okE (ρ : Nat → Role) : Expr → Bool
  | .lit _ => true
  | .var x => scalarRole (ρ x)
  | .idx1 a i => rank1Role (ρ a) && okE ρ i
  | .idx2 a i j => rank2Role (ρ a) && okE ρ i && okE ρ j
  | .un _ e => okE ρ e
  | .bin _ a b => okE ρ a && okE ρ b

def okS (ρ : Nat → Role) : Stmt → Bool
  | .skip => true
  | .seq a b => okS ρ a && okS ρ b
  | .assign x e => definableScalarRole (ρ x) && okE ρ e
  | .store1 a i e => rank1Role (ρ a) && okE ρ i && okE ρ e
  | .store2 a i j e => rank2Role (ρ a) && okE ρ i && okE ρ j && okE ρ e
  | .ite c t f => okE ρ c && okS ρ t && okS ρ f
  | .loop v lo hi st b => loopRole (ρ v) && okE ρ lo && okE ρ hi && okE ρ st && okS ρ b

/-- the call is a legal Fortran call inside the modelled subset (names used according to the
rank of what they are bound to; dummies associated with expressions never defined; DO variables
are locals or dummies associated with variables) -/
def Legal (c : Call) : Prop := okS (roleOf (renOf c) c) c.body = true

instance (c : Call) : Decidable (Legal c) := by unfold Legal; exact inferInstance

/-- variables on which the *meaning* of an actual argument depends: subscripts of element
actuals, section starts, and everything read by an expression actual -/
def actualKeyVars : Actual → List Nat
  | .var _ => []
  | .elem1 _ i => exprVars i
  | .elem2 _ i j => exprVars i ++ exprVars j
  | .expr e => exprVars e
  | .sec1 _ st _ => exprVars st
  | .sec2 _ st1 st2 _ => exprVars st1 ++ exprVars st2
  | .col _ st1 j _ => exprVars st1 ++ exprVars j
  | .row _ i st2 _ => exprVars i ++ exprVars st2

/-- the caller variable an actual argument gives access to (none for an expression) -/
def actualBase : Actual → Option Nat
  | .var y => some y
  | .elem1 a _ | .elem2 a _ _ | .sec1 a _ _ | .sec2 a _ _ _ | .col a _ _ _ | .row a _ _ _ => some a
  | .expr _ => none

/-- every caller variable an actual argument mentions -/
def actualVars (a : Actual) : List Nat :=
  (match actualBase a with | some b => [b] | none => []) ++ actualKeyVars a

def keyVars : List Actual → List Nat
  | [] => []
  | a :: as => actualKeyVars a ++ keyVars as

/-- **IndexStable**: no variable occurring in a subscript (or section bound) of an actual
argument, or in an expression actual, is written by the inlined body -/
def IndexStable (c : Call) : Prop := ∀ x ∈ written (apply c), x ∉ keyVars c.actuals

instance (c : Call) : Decidable (IndexStable c) := by unfold IndexStable; exact inferInstance

/-- the actual arguments mention only names visible at the call site -/
def WellScoped (c : Call) : Prop := ∀ a ∈ c.actuals, ∀ v ∈ actualVars a, v ∈ visible c

instance (c : Call) : Decidable (WellScoped c) := by unfold WellScoped; exact inferInstance

/-- the caller variable written when the callee writes the name `x` -/
def target (r : Role) (x : Nat) : Nat :=
  match r with
  | .loc y => y
  | .free => x
  | .formal _ a => (actualBase a).getD x

/-! ## caller programs with calls -/

/-- the statement `st` with the name `res` (the result variable of a called function, standing for
the value of the function reference) replaced by the variable `y`; nothing else is touched -/
def useAt (res y : Nat) (st : Stmt) : Stmt :=
  substS (fun x => if x = res then .loc y else .free) st

inductive CStmt where
  | base (s : Stmt)
  | call (c : Call)
  /-- an assignment `st` whose right-hand side contains a reference to the function `c`; the
  function's result variable is the callee local `res`, and `st` mentions the value of the function
  reference as the name `res` -/
  | fcall (c : Call) (res : Nat) (st : Stmt)
  | seq (a b : CStmt)
  | ite (cond : Expr) (t f : CStmt)
  | loop (v : Nat) (lo hi step : Expr) (body : CStmt)
  deriving Repr, Inhabited

def execC (frame : Call → Nat → Nat) : CStmt → Store → Store
  | .base s, σ => exec s σ
  | .call c, σ => execCall (frame c) c σ
  -- function reference: run the function (by-reference arguments, side effects included), then the
  -- statement with the value its result variable holds on return
  | .fcall c res st, σ => exec (useAt res (frame c res) st) (execCall (frame c) c σ)
  | .seq a b, σ => execC frame b (execC frame a σ)
  | .ite c t f, σ => if eval c σ ≠ 0 then execC frame t σ else execC frame f σ
  | .loop v lo hi step body, σ =>
      runIters (execC frame body) v (eval lo σ) (eval step σ)
        (trip (eval lo σ) (eval hi σ) (eval step σ)) 0 σ

/-- replace every call by its inlined body -/
def inlineAll : CStmt → Stmt
  | .base s => s
  | .call c => apply c
  -- the body is inserted before the statement, the call is replaced by the (renamed) result variable
  | .fcall c res st => .seq (apply c) (useAt res (renOf c res) st)
  | .seq a b => .seq (inlineAll a) (inlineAll b)
  | .ite c t f => .ite c (inlineAll t) (inlineAll f)
  | .loop v lo hi step body => .loop v lo hi step (inlineAll body)

def calls : CStmt → List Call
  | .base _ => []
  | .call c => [c]
  | .fcall c _ _ => [c]
  | .seq a b => calls a ++ calls b
  | .ite _ t f => calls t ++ calls f
  | .loop _ _ _ _ body => calls body

end C07
