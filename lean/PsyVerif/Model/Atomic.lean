/-! C26 — the `apply()` protocol of PSyclone transformations as a state machine.

An `apply()` method is a straight-line program over an abstract tree state `S` (PSyIR tree +
symbol tables): checks that may raise `TransformationError`, primitive mutations, calls of other
transformations' `apply()` (which run their own program, and whose raise propagates), and
`try … except TransformationError: <handler>; raise`.  A raise aborts the program and leaves the
state as mutated so far.  Core Lean only. -/
namespace C26

inductive Outcome where
  | accepted
  | refused
  deriving DecidableEq, Repr, Inhabited

/-- The body of an `apply()` method, in execution order. -/
inductive Prog (S : Type) where
  /-- end of `apply()`: the transformation was applied -/
  | done : Prog S
  /-- a mutation of the tree / symbol tables that cannot raise -/
  | prim (f : S → S) (k : Prog S) : Prog S
  /-- `if not c(state): raise TransformationError` (a `validate()` is a sequence of these) -/
  | check (c : S → Bool) (k : Prog S) : Prog S
  /-- `Other().apply(target)` where the callee program (target, local variables) is computed from the
      state at the call (`parent[position].walk(Loop)[1]`, `orig = node.copy()` …); a raise propagates -/
  | call (g : S → Prog S) (k : Prog S) : Prog S
  /-- `try: p(state)  except TransformationError: state := h entry_state state; raise` -/
  | tryCall (g : S → Prog S) (h : S → S → S) (k : Prog S) : Prog S

/-- Run an `apply()` body: final state and whether a `TransformationError` left it. -/
def run {S : Type} : Prog S → S → S × Outcome
  | .done, s => (s, .accepted)
  | .prim f k, s => run k (f s)
  | .check c k, s => if c s then run k s else (s, .refused)
  | .call g k, s =>
    match run (g s) s with
    | (s', .accepted) => run k s'
    | (s', .refused) => (s', .refused)
  | .tryCall g h k, s =>
    match run (g s) s with
    | (s', .accepted) => run k s'
    | (s', .refused) => (h s s', .refused)

/-- The property for one transformation: a refusal leaves the state exactly as it was. -/
def Atomic {S : Type} (p : Prog S) : Prop :=
  ∀ s, (run p s).2 = .refused → (run p s).1 = s

/-- `NoRefuse p P`: started in any state satisfying `P`, the program `p` never raises — every check it
    (or a nested call) performs is implied by `P` pushed through the mutations made so far. -/
def NoRefuse {S : Type} : Prog S → (S → Prop) → Prop
  | .done, _ => True
  | .prim f k, P => NoRefuse k (fun s' => ∃ s, P s ∧ s' = f s)
  | .check c k, P => (∀ s, P s → c s = true) ∧ NoRefuse k P
  | .call g k, P =>
    (∀ s, P s → NoRefuse (g s) (fun x => x = s)) ∧
    NoRefuse k (fun s' => ∃ s, P s ∧ s' = (run (g s) s).1)
  | .tryCall g _ k, P =>
    (∀ s, P s → NoRefuse (g s) (fun x => x = s)) ∧
    NoRefuse k (fun s' => ∃ s, P s ∧ s' = (run (g s) s).1)

/-- The usual shape: `self.validate(node, options)` first, then the body. -/
def validateThen {S : Type} (v : S → Bool) (body : Prog S) : Prog S := .check v body

/-! ## OMPLoopTrans (and its sub-classes): `reprod` declares `th_idx`/`nthreads` -/

structure OmpState where
  thIdx : Bool      -- a symbol tagged `omp_thread_index` exists in the routine's table
  nThreads : Bool   -- a symbol tagged `omp_num_threads` exists
  wrapped : Bool    -- the loop has been wrapped in the directive
  deriving DecidableEq, Repr

def ompDeclare (reprod : Bool) (s : OmpState) : OmpState :=
  if reprod then { s with thIdx := true, nThreads := true } else s

def ompWrap (s : OmpState) : OmpState := { s with wrapped := true }

/-- `ParallelLoopTrans.apply`: validate, then detach + insert directive. -/
def parallelLoopApply (v : OmpState → Bool) : Prog OmpState :=
  validateThen v (.prim ompWrap .done)

/-- `OMPLoopTrans.apply` as pinned: the symbols are declared, then `super().apply()` validates. -/
def ompLoopPinned (reprod : Bool) (v : OmpState → Bool) : Prog OmpState :=
  .prim (ompDeclare reprod) (.call (fun _ => parallelLoopApply v) .done)

/-- `OMPLoopTrans.apply` with the fix commits 50629ec / ef452d1 in /repo and `fixes/C26-arrayreduction-tmp-after-validate.patch`: validate first. -/
def ompLoopFixed (reprod : Bool) (v : OmpState → Bool) : Prog OmpState :=
  validateThen v (.prim (ompDeclare reprod) (.call (fun _ => parallelLoopApply v) .done))

/-! ## OMPTaskTrans: the `collapse` option is refused by `_directive`, after the loop was detached -/

structure TaskState where
  inlined : Bool     -- kernels / calls inside the loop have been inlined
  detached : Bool    -- the loop has been removed from its parent
  wrapped : Bool     -- the directive (holding the loop) has been inserted
  deriving DecidableEq, Repr

/-- pinned: validate; inline; `ParallelLoopTrans.apply` = validate, `node.detach()`, `_directive(...)`
    (raises when `collapse` is set), insert. -/
def ompTaskPinned (collapseSet : Bool) (v : TaskState → Bool) : Prog TaskState :=
  validateThen v
    (.prim (fun s => { s with inlined := true })
      (.call (fun _ => validateThen v
          (.prim (fun s => { s with detached := true })
            (.check (fun _ => !collapseSet)
              (.prim (fun s => { s with wrapped := true }) .done)))) .done))

/-- fixed: `validate` refuses a `collapse` option (commit ef452d1) and also validates the loop in the form it
    has after the inlining, on a copy (`fixes/C26-late-refusals-after-inlining-and-mask.patch`). -/
def ompTaskFixed (collapseSet : Bool) (v : TaskState → Bool) : Prog TaskState :=
  ompTaskPinned collapseSet (fun s => v s && v { s with inlined := true } && !collapseSet)

/-! ## AlgTrans / LFRicAlgTrans: one nested `RaisePSyIR2…AlgTrans.apply` per `call invoke(...)` -/

/-- a nested transformation: its validate and its (non-raising) mutation -/
structure Step (S : Type) where
  valid : S → Bool
  mutate : S → S

def Step.prog {S : Type} (t : Step S) : Prog S := validateThen t.valid (.prim t.mutate .done)

/-- `for call in invokes: nested.apply(call)` -/
def seqCalls {S : Type} : List (Step S) → Prog S
  | [] => .done
  | t :: rest => .call (fun _ => t.prog) (seqCalls rest)

/-- pinned: `validate` only looks at the root node. -/
def algTransPinned {S : Type} (v : S → Bool) (invokes : List (Step S)) : Prog S :=
  validateThen v (seqCalls invokes)

/-- fixed (`fixes/C26-algtrans-validate-all-invokes.patch`): `validate` also validates every invoke. -/
def algTransFixed {S : Type} (v : S → Bool) (invokes : List (Step S)) : Prog S :=
  validateThen (fun s => v s && invokes.all (fun t => t.valid s)) (seqCalls invokes)

/-- two invokes, each either still a generic call or raised -/
structure AlgState where
  first : Bool
  second : Bool
  deriving DecidableEq, Repr

/-! ## GOceanExtractTrans / LFRicExtractTrans: region-name counter and driver file before `validate` -/

structure ExtractState where
  counter : Nat      -- PSyDataTrans._used_kernel_names[module|region]: names the NEXT region `…:r<counter>`
  driver : Bool      -- a driver file has been written
  region : Bool      -- the nodes have been enclosed in an ExtractNode
  deriving DecidableEq, Repr

def extractReserve (createDriver : Bool) (s : ExtractState) : ExtractState :=
  { s with counter := s.counter + 1, driver := s.driver || createDriver }

/-- `PSyDataTrans.apply` (the `super().apply`): validate, then enclose the nodes -/
def psyDataApply (v : ExtractState → Bool) : Prog ExtractState :=
  validateThen v (.prim (fun s => { s with region := true }) .done)

/-- pinned: `get_node_list` (check), reserve the region name, write the driver, then `super().apply` validates -/
def extractPinned (createDriver : Bool) (nodesOk v : ExtractState → Bool) : Prog ExtractState :=
  .check nodesOk (.prim (extractReserve createDriver) (.call (fun _ => psyDataApply v) .done))

/-- fixed (`fixes/C26-extract-validate-before-side-effects.patch`): validate right after `get_node_list` -/
def extractFixed (createDriver : Bool) (nodesOk v : ExtractState → Bool) : Prog ExtractState :=
  .check nodesOk (validateThen v (.prim (extractReserve createDriver) (.call (fun _ => psyDataApply v) .done)))

/-! ## KernelModuleInlineTrans: the equality test with an already inlined routine comes after the preparation -/

structure KmiState where
  prepared : Bool    -- `_prepare_code_to_inline` has moved the imports into the kernel routine
  inlined : Bool     -- routine added to the container / call marked module-inlined
  deriving DecidableEq, Repr

/-- `exists_` = a routine of that name is already in the container, `same` = it equals the prepared kernel -/
def kernelModuleInline (exists_ same : Bool) (v : KmiState → Bool) : Prog KmiState :=
  validateThen v
    (.prim (fun s => { s with prepared := true })
      (.call (fun _ => if exists_ then .check (fun _ => same) .done else .done)
        (.prim (fun s => { s with inlined := true }) .done)))

/-! ## Sign2CodeTrans: the nested Abs2CodeTrans is applied to an ABS call that Sign2CodeTrans has just built -/

structure SignState where
  absIsCall : Bool       -- the node handed to Abs2CodeTrans is an IntrinsicCall …
  absIsAbs : Bool        -- … whose intrinsic is ABS …
  absInAssign : Bool     -- … inside an Assignment
  expanded : Bool
  finished : Bool
  deriving DecidableEq, Repr

/-- `Intrinsic2CodeTrans.validate` of Abs2CodeTrans on the node built by Sign2CodeTrans -/
def absValidate (s : SignState) : Bool := s.absIsCall && s.absIsAbs && s.absInAssign

def sign2code (v : SignState → Bool) : Prog SignState :=
  validateThen v
    (.prim (fun s => { s with absIsCall := true, absIsAbs := true, absInAssign := true })   -- res_sign = ABS(op1)
      (.call (fun _ => validateThen absValidate (.prim (fun s => { s with expanded := true }) .done))
        (.prim (fun s => { s with finished := true }) .done)))

/-! ## ArrayReductionBaseTrans (Sum2LoopTrans, Product2LoopTrans, Maxval2LoopTrans, Minval2LoopTrans) -/

structure RedState where
  tree : Nat        -- 0 original statement, 1 array assignment built, 2 loops created, 3 final form
  tmpVar : Bool     -- the temporary `tmp_var` is declared
  idxVars : Bool    -- loop variables `idx…` are declared
  deriving DecidableEq, Repr

def redRewrite (s : RedState) : RedState := { s with tree := 1 }
def redDeclareTmp (increment : Bool) (s : RedState) : RedState :=
  if increment then { s with tmpVar := true } else s
def redLoops (s : RedState) : RedState := { s with tree := 2, idxVars := true }
def redFinish (s : RedState) : RedState := { s with tree := 3 }
/-- `assignment.replace_with(orig_assignment)`: puts the statement saved at entry back -/
def redRestore (entry now : RedState) : RedState := { now with tree := entry.tree }

/-- `ArrayAssignment2LoopsTrans.apply` on the built assignment (`a2l` = its validate). -/
def a2lApply (a2l : RedState → Bool) : Prog RedState := validateThen a2l (.prim redLoops .done)

/-- pinned: temporary declared first; a refusal of the nested transformation restores the statement
    "with maybe some leftover tmp variable" (comment in the source). -/
def reductionPinned (increment : Bool) (v a2l : RedState → Bool) : Prog RedState :=
  validateThen v
    (.prim (redDeclareTmp increment)
      (.call (fun entry => .prim redRewrite
          (.tryCall (fun _ => a2lApply a2l) (fun _ now => redRestore entry now) (.prim redFinish .done)))
        .done))

/-- fixed: the nested validate is tried first (restoring the statement on refusal), the temporary is
    declared only afterwards, then the nested apply runs. -/
def reductionFixed (increment : Bool) (v a2l : RedState → Bool) : Prog RedState :=
  validateThen v
    (.call (fun entry => .prim redRewrite
        (.tryCall (fun _ => .check a2l .done) (fun _ now => redRestore entry now)
          (.prim (redDeclareTmp increment)
            (.call (fun _ => a2lApply a2l) (.prim redFinish .done)))))
      .done)

/-! ### ArrayReductionBaseTrans with a `mask=` argument -/

structure MaskState where
  tree : Nat             -- 0 original statement, 1 array assignment built, 3 final form
  maskExpanded : Bool    -- the `mask` argument of the ORIGINAL intrinsic node reads `m(:)` instead of `m`
  deriving DecidableEq, Repr

/-- pinned: `Reference2ArrayRangeTrans` is applied to the mask inside the original node; the handler only puts
    the original statement back. -/
def reductionMaskPinned (hasMask : Bool) (v a2l : MaskState → Bool) : Prog MaskState :=
  validateThen v
    (.call (fun entry =>
        .prim (fun s => if hasMask then { s with maskExpanded := true } else s)
          (.prim (fun s => { s with tree := 1 })
            (.tryCall (fun _ => .check a2l .done) (fun _ now => { now with tree := entry.tree })
              (.prim (fun s => { s with tree := 3 }) .done)))) .done)

/-- fixed (`fixes/C26-late-refusals-after-inlining-and-mask.patch`): the mask is expanded on a copy. -/
def reductionMaskFixed (v a2l : MaskState → Bool) : Prog MaskState := reductionMaskPinned false v a2l

/-! ## ArrayAssignment2LoopsTrans: `options["verbose"]` makes `validate` write a comment -/

structure A2LState where
  comment : Bool    -- the assignment carries a preceding comment explaining the refusal
  loops : Bool      -- the assignment has been converted
  deriving DecidableEq, Repr

def a2lComment (verbose : Bool) (c2 : A2LState → Bool) (s : A2LState) : A2LState :=
  if verbose && !(c2 s) then { s with comment := true } else s

/-- `validate`: structural checks `c1` (raise without comment), then the checks `c2` that, when they
    fail and `verbose` is set, first `append_preceding_comment` and then raise; then the conversion. -/
def a2lVerbose (verbose : Bool) (c1 c2 : A2LState → Bool) : Prog A2LState :=
  .check c1 (.prim (a2lComment verbose c2) (.check c2 (.prim (fun s => { s with loops := true }) .done)))

end C26
