import PsyVerif.Model.Topo
/-! C27 (extension): model of `ModuleManager.get_all_dependencies_recursively`
(src/psyclone/parse/module_manager.py), the producer of the dependency map that
`sort_modules` consumes in `LFRicExtractDriverCreator`.

Module names are Nat ids *after* lower-casing (the code lower-cases every popped name;
`ModuleInfo.get_used_modules` does NOT lower-case the names in USE statements — the
model therefore assumes case-normal sources, see DESIGN.md §12 "observations").
The file system is a finite association list `files` (module ↦ names it uses; a missing
entry is `FileNotFoundError`); `ignores` is the manager's ignore set.  `todo.pop()` on a
Python set removes an arbitrary element: the model takes an oracle (a list of naturals,
the k-th pop removes element `oracle[k] % len(todo)`; an exhausted oracle pops the
first element).  Core Lean only. -/
namespace C27

structure World where
  files : List (Name × List Name)
  ignores : List Name

def World.info (w : World) (m : Name) : Option (List Name) :=
  match w.files.find? (fun e => e.1 == m) with
  | some e => some e.2
  | none => none

structure St where
  deps : Graph            -- `module_dependencies` in dict (insertion) order
  todo : List Name        -- the `todo` set
  notFound : List Name    -- the `not_found` set

/-- `d[k] = v` on an insertion-ordered dict -/
def dictSet (g : Graph) (k : Name) (v : List Name) : Graph :=
  if (keys g).contains k then g.map (fun e => if e.1 == k then (k, v) else e) else g ++ [(k, v)]

/-- `todo |= new` -/
def addAll (todo : List Name) : List Name → List Name
  | [] => todo
  | d :: ds => if todo.contains d then addAll todo ds else addAll (todo ++ [d]) ds

/-- body of the `while todo:` loop after `module = todo.pop().lower()` -/
def visit (w : World) (s : St) (m : Name) : St :=
  if w.ignores.contains m then s
  else match w.info m with
    | none =>
      if s.notFound.contains m then s
      else { s with notFound := m :: s.notFound,
                    deps := s.deps.map (fun e => (e.1, e.2.filter (· != m))) }
    | some used =>
      let md := used.filter (fun d => !s.notFound.contains d)
      let deps' := dictSet s.deps m md
      let new := md.filter (fun d => !(keys deps').contains d)
      { s with deps := deps', todo := addAll s.todo new }

/-- one loop iteration with pop index `i` (taken modulo the size of `todo`) -/
def stepC (w : World) (s : St) (i : Nat) : St :=
  match s.todo with
  | [] => s
  | t :: ts =>
    let k := i % (t :: ts).length
    visit w { s with todo := (t :: ts).eraseIdx k } ((t :: ts).getD k t)

/-- the loop, `fuel` iterations at most -/
def runC (w : World) : Nat → List Nat → St → St
  | 0, _, s => s
  | fuel+1, o, s =>
    match s.todo with
    | [] => s
    | _ :: _ => runC w fuel o.tail (stepC w s (o.headD 0))

/-- every name occurring anywhere (the finite universe) -/
def allNames (w : World) (init : List Name) : List Name :=
  init ++ w.files.map Prod.fst ++ (w.files.map Prod.snd).flatten ++ w.ignores

/-- an iteration bound that is always sufficient (proved in Props/C27) -/
def fuelBound (w : World) (init : List Name) : Nat :=
  ((allNames w init).length + 1) * ((allNames w init).length + 1)

def closureSt (w : World) (init : List Name) (oracle : List Nat) : St :=
  runC w (fuelBound w init) oracle { deps := [], todo := init, notFound := [] }

/-- `get_all_dependencies_recursively(all_mods)` -/
def closure (w : World) (init : List Name) (oracle : List Nat) : Graph :=
  (closureSt w init oracle).deps

/-- the pipeline of `LFRicExtractDriverCreator`: closure, then sort -/
def pipeline (w : World) (init : List Name) (oracle : List Nat) : List Name :=
  sortModules (closure w init oracle)

end C27
