/-! # C02 — model of the Fortran writer's expression printing and of a Fortran 2008
expression reader (core Lean only).

`render` mirrors `FortranWriter.binaryoperation_node`, `unaryoperation_node`, `literal_node`,
`call_node`/`_gen_arguments`, array/structure reference printing of
`src/psyclone/psyir/backend/fortran.py`.  `WMode` selects the writer: `pinned` (the unfixed tree),
`narrow` (with `fixes/C02-writer-parens-narrow.patch`, the mode the check and the theorems target)
and `wide` (the not-applied wider rule, used as the proof vehicle: `narrow` and `wide` agree outside
the known-finding class `exposed`).

`parse` is a recursive-descent parser written from the Fortran 2008 expression grammar
R701–R722 (level-1 … level-5 expressions).  Like `Fparser2Reader._parenthesis_handler` it drops
parentheses; like `_unary_op_handler`/`_binary_op_handler`/`_number_handler` it maps tokens to
PSyIR operators and literals (`get_literal_precision`).

Names, digit strings and character strings are `Nat` ids (the harness keeps the tables). -/
namespace C02

/-! ## PSyIR side -/

inductive UnOp | minus | plus | not
  deriving DecidableEq, Repr, Inhabited

inductive BinOp
  | add | sub | mul | div | rem | pow | eq | ne | gt | lt | ge | le | and | or | eqv | neqv
  deriving DecidableEq, Repr, Inhabited

/-- Operator tokens = the strings of `FortranWriter._operator_2_str` (plus `bad` for an operator
the writer has no string for). -/
inductive OpTok
  | plus | minus | star | slash | pow | eq | ne | lt | le | gt | ge | not | and | or | eqv | neqv | bad
  deriving DecidableEq, Repr, Inhabited

/-- `precedence()` of fortran.py on the operator strings. -/
def OpTok.prec : OpTok → Nat
  | .eqv | .neqv => 0
  | .or => 1
  | .and => 2
  | .not => 3
  | .eq | .ne | .lt | .le | .gt | .ge => 4
  | .plus | .minus => 6
  | .star | .slash => 7
  | .pow => 8
  | .bad => 0

/-- `get_operator` for binary operators (`rem` has no Fortran operator: KeyError → VisitorError). -/
def BinOp.tok : BinOp → OpTok
  | .add => .plus | .sub => .minus | .mul => .star | .div => .slash | .rem => .bad | .pow => .pow
  | .eq => .eq | .ne => .ne | .gt => .gt | .lt => .lt | .ge => .ge | .le => .le
  | .and => .and | .or => .or | .eqv => .eqv | .neqv => .neqv

def UnOp.tok : UnOp → OpTok
  | .minus => .minus | .plus => .plus | .not => .not

def BinOp.prec (b : BinOp) : Nat := b.tok.prec
def UnOp.prec (u : UnOp) : Nat := u.tok.prec

inductive Sign | none | plus | minus
  deriving DecidableEq, Repr, Inhabited

/-- `ScalarType.precision`: the enumeration, an integer kind or a kind symbol. -/
inductive Prec | undef | single | double | kindInt (n : Nat) | kindSym (s : Nat)
  deriving DecidableEq, Repr, Inhabited

/-- What matters of a character value for the writer/reader: which quote characters it holds. -/
inductive CharQ | plain | sq | dq | both | doubled
  deriving DecidableEq, Repr, Inhabited

/-- A PSyIR `Literal`.  `digits` identifies the unsigned value text (exponent written with `e`);
`dot`/`exp` say whether it has a decimal point / an exponent. -/
inductive Lit
  | int (s : Sign) (digits : Nat) (p : Prec)
  | real (s : Sign) (digits : Nat) (dot exp : Bool) (p : Prec)
  | bool (b : Bool) (p : Prec)
  | char (text : Nat) (q : CharQ) (p : Prec)
  deriving DecidableEq, Repr, Inhabited

/-- Expression trees.  Argument lists and member chains are encoded inside the same
(non-nested) type: `nil`/`cons` are argument-list cells, `part n args next` is
`n[(args)][%next]` (a Reference/ArrayReference/StructureReference/…Member chain),
`call f args` an intrinsic call. -/
inductive Expr
  | lit (l : Lit)
  | un (u : UnOp) (e : Expr)
  | bin (b : BinOp) (l r : Expr)
  | part (name : Nat) (args : Expr) (next : Expr)
  | call (fn : Nat) (args : Expr)
  | nil
  | cons (kw : Option Nat) (e : Expr) (rest : Expr)
  deriving DecidableEq, Repr, Inhabited

def Expr.ref (n : Nat) : Expr := .part n .nil .nil

/-! ## Tokens -/

inductive ExpLetter | none | e | d
  deriving DecidableEq, Repr, Inhabited

inductive Suffix | none | int (n : Nat) | sym (s : Nat)
  deriving DecidableEq, Repr, Inhabited

inductive LitTok
  | num (digits : Nat) (dot : Bool) (letter : ExpLetter) (k : Suffix)
  | bool (b : Bool) (k : Suffix)
  /-- `q` determines the delimiter the writer chose: `"` iff `q = sq` -/
  | char (text : Nat) (q : CharQ) (k : Suffix)
  deriving DecidableEq, Repr, Inhabited

inductive Tok
  | lp | rp | comma | pct
  | op (o : OpTok)
  | name (n : Nat) | fn (n : Nat) | kw (n : Nat)
  | lit (l : LitTok)
  deriving DecidableEq, Repr, Inhabited

/-! ## Writer -/

def Prec.suffix : Prec → Suffix
  | .kindInt n => .int n
  | .kindSym s => .sym s
  | _ => .none

/-- `literal_node` without the sign. -/
def Lit.tok : Lit → LitTok
  | .int _ d p => .num d false .none p.suffix
  | .real _ d dot exp p =>
    .num d dot (if exp then (if p = .double then .d else .e) else .none) p.suffix
  | .bool b p => .bool b p.suffix
  | .char t q p => .char t q p.suffix

def Lit.sign : Lit → Sign
  | .int s _ _ => s
  | .real s _ _ _ _ => s
  | _ => .none

def Sign.toks : Sign → List Tok
  | .none => []
  | .plus => [.op .plus]
  | .minus => [.op .minus]

/-- The position of a node as seen by the visitors. -/
inductive Par
  | none
  | un (u : UnOp)
  /-- `right`: node `is` children[1]; `eqR`: `parent.children[1] == node` (structural). -/
  | bin (b : BinOp) (right eqR : Bool)
  deriving DecidableEq, Repr, Inhabited

structure Ctx where
  par : Par
  /-- grandparent, when it is a BinaryOperation: its operator and `parent is grandparent.children[1]` -/
  gp : Option (BinOp × Bool)
  deriving DecidableEq, Repr, Inhabited

def Ctx.top : Ctx := ⟨.none, none⟩

/-- Parenthesisation test of `binaryoperation_node`. -/
def parenBin (fixed : Bool) (o : BinOp) (c : Ctx) : Bool :=
  match c.par with
  | .none => false
  | .un u => o.prec < u.prec || o.prec == u.prec
  | .bin b _ eqR =>
    o.prec < b.prec ||
      (o.prec == b.prec && (eqR || (fixed && (o == .pow || o.prec == OpTok.eq.prec))))

/-- Parenthesisation test of `unaryoperation_node` (pinned) / `_sign_needs_parentheses` (fixed);
`u` is the unary operator (for a signed literal: its sign). -/
def parenSign (fixed : Bool) (u : UnOp) (c : Ctx) : Bool :=
  match c.par with
  | .none => false
  | .un _ => true
  | .bin b right _ =>
    right || (if fixed then b.prec > u.prec else (b == .pow && u == .minus)) ||
      (match c.gp with
       | some (g, pRight) => pRight && !right && b.prec > g.prec && u == .minus
       | none => false)

def Sign.unop : Sign → Option UnOp
  | Sign.none => Option.none
  | Sign.plus => some UnOp.plus
  | Sign.minus => some UnOp.minus

def wrap (p : Bool) (ts : List Tok) : List Tok :=
  if p then .lp :: ts ++ [.rp] else ts

def childGp (c : Ctx) : Option (BinOp × Bool) :=
  match c.par with
  | .bin b right _ => some (b, right)
  | _ => none

inductive WMode | pinned | narrow | wide
  deriving DecidableEq, Repr, Inhabited

def WMode.fixedBin : WMode → Bool
  | .pinned => false
  | _ => true

/-- The sign test per writer.  `lit`: the node is a signed `Literal` (else a `UnaryOperation`).
* `wide`: `parenSign true`.
* `pinned`: `unaryoperation_node` of the unfixed tree; `literal_node` never adds parentheses.
* `narrow`: `_sign_needs_parentheses` of the narrow patch = the wide rule except that the
  existing output for a `+`/`-` sign in front of `*` `/` and for a signed literal after `*` `/`
  is kept (`kept_as_is`). -/
def parenSignM (m : WMode) (lit : Bool) (u : UnOp) (c : Ctx) : Bool :=
  match m with
  | .wide => parenSign true u c
  | .pinned => !lit && parenSign false u c
  | .narrow =>
    match c.par with
    | .none => false
    | .un _ => true
    | .bin b right _ =>
      let kept := u != .not && (b == .mul || b == .div)
      (right && !(lit && kept)) || (decide (b.prec > u.prec) && !kept) ||
        (match c.gp with
         | some (g, pRight) => pRight && !right && b.prec > g.prec && u == .minus
         | none => false)

/-- `FortranWriter()(e)` as a token list, for a node at position `c`. -/
def render (m : WMode) : Ctx → Expr → List Tok
  | c, .lit l =>
    match l.sign.unop with
    | none => [.lit l.tok]
    | some u => wrap (parenSignM m true u c) (l.sign.toks ++ [.lit l.tok])
  | c, .un u e =>
    wrap (parenSignM m false u c) (.op u.tok :: render m ⟨.un u, none⟩ e)
  | c, .bin b l r =>
    wrap (parenBin m.fixedBin b c)
      (render m ⟨.bin b false (decide (l = r)), childGp c⟩ l ++
        .op b.tok :: render m ⟨.bin b true true, childGp c⟩ r)
  | _, .part n args next =>
    .name n ::
      ((match args with
        | .nil => []
        | _ => .lp :: render m .top args ++ [.rp]) ++
       (match next with
        | .nil => []
        | _ => .pct :: render m .top next))
  | _, .call f args => .fn f :: .lp :: render m .top args ++ [.rp]
  | _, .nil => []
  | _, .cons kw e rest =>
    (match kw with | some k => [.kw k] | none => []) ++ render m .top e ++
      (match rest with
       | .nil => []
       | _ => .comma :: render m .top rest)

/-- The known-finding class of the narrow writer: somewhere in the tree a sign (unary `+`/`-` or
signed literal) sits at a position where the narrow patch keeps the pinned output although the
grammar needs parentheses — i.e. where the narrow and the wide test differ. -/
def exposed : Ctx → Expr → Bool
  | c, .lit l =>
    match l.sign.unop with
    | none => false
    | some u => parenSignM .narrow true u c != parenSignM .wide true u c
  | c, .un u e =>
    (parenSignM .narrow false u c != parenSignM .wide false u c) || exposed ⟨.un u, none⟩ e
  | c, .bin b l r =>
    exposed ⟨.bin b false (decide (l = r)), childGp c⟩ l || exposed ⟨.bin b true true, childGp c⟩ r
  | _, .part _ args next => exposed .top args || exposed .top next
  | _, .call _ args => exposed .top args
  | _, .nil => false
  | _, .cons _ e rest => exposed .top e || exposed .top rest

/-! ### What the writer refuses, and the sort discipline of the encoding -/

/-- `_gen_arguments`: no positional argument after a named one. -/
def argsOrdered : Bool → Expr → Bool
  | seenKw, .cons kw _ rest =>
    (match kw with | some _ => true | none => !seenKw) && argsOrdered (seenKw || kw.isSome) rest
  | _, _ => true

def Lit.writable : Lit → Bool
  | .char _ q _ => q != .both
  | _ => true

/-- Sorts of the encoding. -/
inductive Sort' | expr | args | chain
  deriving DecidableEq, Repr

/-- `wf s e`: `e` is a tree of sort `s` that can be built as PSyIR *and* that the writer accepts
(no `REM`, no character literal holding both quote characters, named arguments last). -/
def wf : Sort' → Expr → Bool
  | .expr, .lit l => l.writable
  | .expr, .un _ e => wf .expr e
  | .expr, .bin b l r => b != .rem && wf .expr l && wf .expr r
  | .expr, .part _ args next => wf .args args && wf .chain next
  | .chain, .part _ args next => wf .args args && wf .chain next
  | .chain, .nil => true
  | .expr, .call _ args =>
    (match args with | .cons .. => true | _ => false) && wf .args args && argsOrdered false args
  | .args, .nil => true
  | .args, .cons _ e rest => wf .expr e && wf .args rest
  | _, _ => false

/-! ## Reader -/

/-- `get_literal_precision` + `_number_handler`/`_bool_literal_handler`/`_char_literal_handler`. -/
def readLit : LitTok → Option Lit
  | .num d dot letter k =>
    let kp : Option Prec := match k with
      | .int n => some (.kindInt n) | .sym s => some (.kindSym s) | .none => none
    if !dot && letter = .none then
      some (.int .none d (kp.getD .undef))
    else
      some (.real .none d dot (letter != .none)
        (kp.getD (match letter with | .d => .double | .e => .single | .none => .undef)))
  | .bool b k =>
    some (.bool b (match k with | .int n => .kindInt n | .sym s => .kindSym s | .none => .undef))
  | .char t q k =>
    -- `''`/`""` inside the delimiters: NotImplementedError("Unsupported Literal") → CodeBlock
    if q = .doubled then none
    else some (.char t q
      (match k with | .int n => .kindInt n | .sym s => .kindSym s | .none => .undef))

/-- binary operator denoted by a token at grammar level `k` (levels = `precedence()` values:
0 equiv-op, 1 or-op, 2 and-op, 4 rel-op, 6 add-op, 7 mult-op, 8 power-op). -/
def binAt (k : Nat) (o : OpTok) : Option BinOp :=
  if o.prec != k then none else
  match o with
  | .plus => some .add | .minus => some .sub | .star => some .mul | .slash => some .div
  | .pow => some .pow | .eq => some .eq | .ne => some .ne | .lt => some .lt | .le => some .le
  | .gt => some .gt | .ge => some .ge | .and => some .and | .or => some .or
  | .eqv => some .eqv | .neqv => some .neqv
  | .not => none | .bad => none

/-- prefix operator allowed at the start of a level-`k` expression:
R706 level-2-expr `[[level-2-expr] add-op] add-operand`, R714 and-operand `[not-op] level-4-expr`. -/
def prefixAt (k : Nat) (o : OpTok) : Option UnOp :=
  if k = 6 then (match o with | .plus => some .plus | .minus => some .minus | _ => none)
  else if k = 3 then (match o with | .not => some .not | _ => none)
  else none

/-- the prefix operator (and the remaining tokens) when `ts` starts with one allowed at level `k` -/
def prefixTok (k : Nat) : List Tok → Option (UnOp × List Tok)
  | .op o :: r => (prefixAt k o).map fun u => (u, r)
  | _ => none

/-- level of the right operand: `**` is right recursive (R704), everything else takes the next level. -/
def rhsLevel (k : Nat) : Nat := if k = 8 then 8 else k + 1

/-- left-associative levels iterate; rel-op (R712) and `**` take one right operand. -/
def loops (k : Nat) : Bool := k != 4 && k != 8

inductive Mode
  | expr (k : Nat)
  | cont (k : Nat) (lhs : Expr)
  | args
  | parts
  deriving Repr

/-- The parser, by structural recursion on fuel.  Levels 0…8 as above, 9 = primary (R701). -/
def P : Nat → Mode → List Tok → Option (Expr × List Tok)
  | 0, _, _ => none
  | f + 1, .expr k, ts =>
    if k ≥ 9 then
      match ts with
      | .lit l :: r => (readLit l).map fun x => (.lit x, r)
      | .lp :: r =>
        match P f (.expr 0) r with
        | some (e, .rp :: r') => some (e, r')
        | _ => none
      | .fn n :: .lp :: r =>
        match P f .args r with
        | some (as, .rp :: r') => some (.call n as, r')
        | _ => none
      | .name _ :: _ => P f .parts ts
      | _ => none
    else
      match prefixTok k ts with
      | some (u, r) =>
        match P f (.expr (k + 1)) r with
        | some (x, r') => P f (.cont k (.un u x)) r'
        | none => none
      | none =>
        match P f (.expr (k + 1)) ts with
        | some (x, r') => P f (.cont k x) r'
        | none => none
  | f + 1, .cont k x, ts =>
    match ts with
    | .op o :: r =>
      match binAt k o with
      | some b =>
        match P f (.expr (rhsLevel k)) r with
        | some (y, r') => if loops k then P f (.cont k (.bin b x y)) r' else some (.bin b x y, r')
        | none => none
      | none => some (x, ts)
    | _ => some (x, ts)
  | f + 1, .args, ts =>
    -- arg { , arg } ; arg := [kw] expr
    let (kw, ts') : Option Nat × List Tok := match ts with
      | .kw k :: r => (some k, r)
      | _ => (none, ts)
    match P f (.expr 0) ts' with
    | some (e, .comma :: r) =>
      match P f .args r with
      | some (rest, r') => some (.cons kw e rest, r')
      | none => none
    | some (e, r) => some (.cons kw e .nil, r)
    | none => none
  | f + 1, .parts, ts =>
    -- part { % part } ; part := name [ ( args ) ]
    match ts with
    | .name n :: .lp :: r =>
      match P f .args r with
      | some (as, .rp :: .pct :: r') =>
        match P f .parts r' with
        | some (nx, r'') => some (.part n as nx, r'')
        | none => none
      | some (as, .rp :: r') => some (.part n as .nil, r')
      | _ => none
    | .name n :: .pct :: r =>
      match P f .parts r with
      | some (nx, r') => some (.part n .nil nx, r')
      | none => none
    | .name n :: r => some (.part n .nil .nil, r)
    | _ => none

/-- Enough fuel: each token is reached through at most 12 nested calls (proved: `C02.parse_complete`,
Lemmas/ExprIOFuel.lean). -/
def fuelFor (ts : List Tok) : Nat := 12 * (ts.length + 1)

def parse (ts : List Tok) : Option Expr :=
  match P (fuelFor ts) (.expr 0) ts with
  | some (e, []) => some e
  | _ => none

/-- What the reader makes of a literal that the writer printed: a sign becomes a unary operation,
the precision is re-derived from the exponent letter / kind suffix. -/
def normLit (l : Lit) : Option Expr :=
  match readLit l.tok with
  | none => none
  | some l' =>
    match l.sign.unop with
    | none => some (.lit l')
    | some u => some (.un u (.lit l'))

/-- The tree obtained by reading back: identical except at literals. -/
def norm : Expr → Option Expr
  | .lit l => normLit l
  | .un u e => (norm e).map (.un u)
  | .bin b l r => match norm l, norm r with
    | some l', some r' => some (.bin b l' r')
    | _, _ => none
  | .part n a nx => match norm a, norm nx with
    | some a', some nx' => some (.part n a' nx')
    | _, _ => none
  | .call f a => (norm a).map (.call f)
  | .nil => some .nil
  | .cons kw e rest => match norm e, norm rest with
    | some e', some r' => some (.cons kw e' r')
    | _, _ => none

/-- Literals that the reader gives back unchanged. -/
def Lit.canonical (l : Lit) : Bool := normLit l == some (.lit l)

def litsCanonical : Expr → Bool
  | .lit l => l.canonical
  | .un _ e => litsCanonical e
  | .bin _ l r => litsCanonical l && litsCanonical r
  | .part _ a nx => litsCanonical a && litsCanonical nx
  | .call _ a => litsCanonical a
  | .nil => true
  | .cons _ e rest => litsCanonical e && litsCanonical rest

/-- "Standard-conforming" at the token level, independent of the parser: an operator token may
directly follow another operator token only where the grammar has an operand that starts with
an operator: a sign after a relational/logical operator or `.NOT.`, `.NOT.` after a logical
binary operator.  In particular never after `+ - * / **`. -/
def adjOk (o1 o2 : OpTok) : Bool :=
  match o2 with
  | .plus | .minus => o1.prec ≤ 4
  | .not => o1.prec ≤ 2
  | _ => false

def noBadAdj : List Tok → Bool
  | .op o1 :: .op o2 :: r => adjOk o1 o2 && noBadAdj (.op o2 :: r)
  | _ :: r => noBadAdj r
  | [] => true

end C02
