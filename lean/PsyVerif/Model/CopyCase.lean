import PsyVerif.Model.Copy
/-! C15: identifier CASE in the copy model.

A name has two faces in PSyclone: the *spelling* that a symbol keeps (`Symbol.name`; the API keeps
the case: `new_symbol("iCell")`, `rename_symbol(sym, "tmpVal")`) and the *key* under which the
symbol is filed in its table (`SymbolTable._normalize(name)` = the lower-cased spelling;
`symbols_dict`, `lookup`, `__contains__`, `rename_symbol`, `remove`, `_localise` all go through it).
In the model a name is a number (`World.name s` = the spelling id of symbol `s`) and
`lower : Nat → Nat` is `_normalize` on name ids, so a name is the pair (`lower n`, `n`) = (normalised
id, spelling id).  `lower` is a fixed function (string lower-casing), not part of the state.

`Model/Copy.lean` describes `copy()` *positionally*: the copy of symbol `s` of a copied table is
`s + off` and every use of `s` is re-pointed to it (`rho`).  The code does not work positionally: it
re-points BY NAME —
* `ScopingNode._refine_copy`: `if node.symbol in other.symbol_table.symbols:
  node.symbol = self.symbol_table.lookup(node.symbol.name)` (References, Loop variables),
* `SymbolTable._localise` (datatypes, initial values, literal kinds, inner-scope symbols):
  `if old_table._symbols.get(self._normalize(item.name)) is item: return self.lookup(item.name)`,
* `SymbolTable.deep_copy`: `new_st.lookup(name)` for arguments, tags, import containers, routines of
  generic interfaces —
where `lookup` normalises the name and reads the dict of the NEW table, which holds the copies of the
symbols of the old table under the same keys.  This file models exactly that (`getKey`, `repoint`,
`localise`, `copyL`), and the variant that forgets to normalise (`repointRaw`, `copyRaw`: a dict read
with the spelling as key).  `Props/C15.lean` proves that the by-name copy IS the positional copy when
every table has distinct keys (the C16 invariant, `TablesKeyed`), for any spellings whatsoever, and
that the raw variant is not as soon as one used symbol is spelled with an upper-case letter.
Core Lean only. -/
namespace C15

/-- the key under which symbol `s` is filed in its table: `_normalize(s.name)` -/
def key (lower : Nat → Nat) (W : World) (s : Nat) : Nat := lower (W.name s)

/-- `table._symbols.get(k)`: `l` are the symbols of the table in insertion order, the dict is keyed
by their normalised names -/
def getKey (lower : Nat → Nat) (W : World) (l : List Nat) (k : Nat) : Option Nat :=
  l.find? (fun t => key lower W t == k)

/-- the symbol tables of the scopes of a forest (one list per `ScopingNode`), pre-order -/
def Forest.tables : Forest → List (List Nat)
  | .nil => []
  | .cons n k r => n.table.toList ++ (k.tables ++ r.tables)

/-- `self.symbol_table.lookup(name)` in the deep-copied table of `l`: the new table holds, under the
same keys, the copies `t + off` of the symbols `t` of `l`.  `none` = KeyError. -/
def lookupNew (lower : Nat → Nat) (W : World) (l : List Nat) (off : Nat) (name : Nat) : Option Nat :=
  (getKey lower W l (lower name)).map (· + off)

/-- `_refine_copy` of the scope with table `l` on a Reference / Loop variable that uses `s` -/
def repoint (lower : Nat → Nat) (W : World) (l : List Nat) (off s : Nat) : Nat :=
  if l.contains s then (lookupNew lower W l off (W.name s)).getD s else s

/-- `_localise(item, old_table)` for a symbol `s` reached through a datatype -/
def localise (lower : Nat → Nat) (W : World) (l : List Nat) (off s : Nat) : Nat :=
  if getKey lower W l (key lower W s) == some s then (lookupNew lower W l off (W.name s)).getD s else s

/-- a dict read with the SPELLING as key: `old_symbols.get(node.symbol.name) is node.symbol` — what the
code would do without `_normalize` -/
def repointRaw (lower : Nat → Nat) (W : World) (l : List Nat) (off s : Nat) : Nat :=
  if getKey lower W l (W.name s) == some s then (lookupNew lower W l off (W.name s)).getD s else s

/-- the use of `s` by a node of the copied subtree after all the `_refine_copy` calls: the scope
whose table holds `s` (by identity) re-points it -/
def rhoL (lower : Nat → Nat) (W : World) (ts : List (List Nat)) (off s : Nat) : Nat :=
  match ts.find? (·.contains s) with
  | some l => repoint lower W l off s
  | none => s

/-- the same for a symbol reached through a datatype (`_localise` against every copied table) -/
def rhoTL (lower : Nat → Nat) (W : World) (ts : List (List Nat)) (off s : Nat) : Nat :=
  match ts.find? (fun l => getKey lower W l (key lower W s) == some s) with
  | some l => localise lower W l off s
  | none => s

/-- … and without normalisation -/
def rhoRaw (lower : Nat → Nat) (W : World) (ts : List (List Nat)) (off s : Nat) : Nat :=
  match ts.find? (fun l => getKey lower W l (W.name s) == some s) with
  | some l => repointRaw lower W l off s
  | none => s

/-! ## copy with explicit re-pointing functions

`copyG ρ ρT` is `copy` of `Model/Copy.lean` in the mode "datatype repair present" with the two
re-pointing maps as parameters (`ρ`: uses by nodes, `ρT`: uses through datatypes, links, declaration
expressions).  The new table entries are positional: `deep_copy` creates one new symbol per symbol. -/

def copyNodeG (ρ ρT : Nat → Nat) (own : List Nat) (noff soff : Nat) (n : NodeRec) : NodeRec :=
  { id := n.id + noff
    kind := n.kind
    sym := n.sym.map ρ
    tsym := n.tsym.map ρT
    table := n.table.map (fun l => l.map (rho own soff))
    attr := n.attr }

def copyENodeG (ρT : Nat → Nat) (noff : Nat) (n : NodeRec) : NodeRec :=
  { id := n.id + noff
    kind := n.kind
    sym := n.sym.map ρT
    tsym := n.tsym.map ρT
    table := n.table
    attr := n.attr }

def copyTreeG (ρ ρT : Nat → Nat) (W : World) (r : Nat) : Forest :=
  let S := findIn r W.trees
  S.map (copyNodeG ρ ρT S.owned W.nnode W.nsym)

def copyG (ρ ρT : Nat → Nat) (ifc : Bool) (W : World) (r : Nat) : World :=
  let own := (findIn r W.trees).owned
  { name := fun x => if isNew own W.nsym x then W.name (x - W.nsym) else W.name x
    links := fun x => if isNew own W.nsym x then (W.links (x - W.nsym)).map ρT else W.links x
    bounds := fun x => if isNew own W.nsym x then (W.bounds (x - W.nsym)).map (copyENodeG ρT W.nnode)
                       else W.bounds x
    init := fun x => if isNew own W.nsym x then (W.init (x - W.nsym)).map (copyENodeG ρT W.nnode)
                     else W.init x
    iface := fun x => if isNew own W.nsym x then
                        (if ownIface ⟨true, ifc⟩ W (x - W.nsym) then W.iface (x - W.nsym) + W.nif
                         else W.iface (x - W.nsym))
                      else W.iface x
    freshIface := fun x => if isNew own W.nsym x then W.freshIface (x - W.nsym) else W.freshIface x
    access := fun i => if decide (W.nif ≤ i) && own.any (fun s => ownIface ⟨true, ifc⟩ W s && W.iface s == i - W.nif)
                       then W.access (i - W.nif) else W.access i
    attrVal := W.attrVal
    nsym := W.nsym + W.nsym
    nif := W.nif + W.nif
    nnode := W.nnode + W.nnode
    trees := W.trees ++ [copyTreeG ρ ρT W r] }

/-- the code: re-pointing by normalised name -/
def copyL (lower : Nat → Nat) (ifc : Bool) (W : World) (r : Nat) : World :=
  let ts := (findIn r W.trees).tables
  copyG (rhoL lower W ts W.nsym) (rhoTL lower W ts W.nsym) ifc W r

def copyTreeL (lower : Nat → Nat) (W : World) (r : Nat) : Forest :=
  let ts := (findIn r W.trees).tables
  copyTreeG (rhoL lower W ts W.nsym) (rhoTL lower W ts W.nsym) W r

/-- the variant whose `_refine_copy` reads the dict of the old table with the spelling as key
(References and Loop variables only; datatypes go through `_localise`) -/
def copyRaw (lower : Nat → Nat) (ifc : Bool) (W : World) (r : Nat) : World :=
  let ts := (findIn r W.trees).tables
  copyG (rhoRaw lower W ts W.nsym) (rhoTL lower W ts W.nsym) ifc W r

def copyTreeRaw (lower : Nat → Nat) (W : World) (r : Nat) : Forest :=
  let ts := (findIn r W.trees).tables
  copyTreeG (rhoRaw lower W ts W.nsym) (rhoTL lower W ts W.nsym) W r

/-! ## the table invariant (C16) -/

/-- the keys of a table are pairwise different (`_symbols` is a dict) -/
def KeysDistinct (lower : Nat → Nat) (W : World) (l : List Nat) : Prop :=
  (l.map (key lower W)).Nodup

/-- every table of the forest -/
def TablesKeyed (lower : Nat → Nat) (W : World) (F : Forest) : Prop :=
  ∀ l ∈ F.tables, KeysDistinct lower W l

def keysDistinctB (lower : Nat → Nat) (W : World) (l : List Nat) : Bool :=
  decide ((l.map (key lower W)).Nodup)

def tablesKeyedB (lower : Nat → Nat) (W : World) (F : Forest) : Bool :=
  F.tables.all (keysDistinctB lower W)

/-- `rename_symbol(s, n)` on the table `l`: refused (KeyError) when the normalised new name is
already a key of the table — the symbol's own key included -/
def renameOK (lower : Nat → Nat) (W : World) (l : List Nat) (n : Nat) : Bool :=
  !(l.map (key lower W)).contains (lower n)

/-- the symbol is spelled with an upper-case letter: its spelling is not its key -/
def MixedCase (lower : Nat → Nat) (W : World) (s : Nat) : Prop := lower (W.name s) ≠ W.name s

end C15
