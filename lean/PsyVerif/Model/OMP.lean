import PsyVerif.Model.MiniF
/-! # C09 — operational model of `!$omp parallel do private(P) firstprivate(F)` over a MiniF loop

* `fp s σ` — the element-level *dynamic footprint* of running `s` from `σ`: the upward-exposed
  reads (locations read before the statement itself has written them) and the writes.
* `execP` — MiniF execution that tracks *undefined* scalars (`private` copies start undefined);
  evaluating an expression that mentions an undefined scalar is an error (`none`).
* `execOMP` — a *schedule* is a list of `(thread, iteration)` pairs: the global order in which
  whole iterations run and the thread each one runs on.  Every thread owns a copy of each
  privatised variable (`private`: undefined at the start, `firstprivate`: the value at region
  entry; loop variables are private by the OpenMP rule for Fortran DO variables).  All other
  locations live in the one shared store.
* `inferSharing` — `OMPParallelDirective.infer_sharing_attributes` over the access sequence of
  `Loop.reference_accesses` / `Assignment.reference_accesses` / `IfBlock.reference_accesses`.

Core Lean only. -/
namespace C09
open MiniF

/-! ## dynamic footprints -/

/-- locations read when evaluating an expression -/
def erd : Expr → Store → List Loc
  | .lit _, _ => []
  | .var x, _ => [(x, 0, 0)]
  | .idx1 a i, σ => (a, eval i σ, 0) :: erd i σ
  | .idx2 a i j, σ => (a, eval i σ, eval j σ) :: (erd i σ ++ erd j σ)
  | .un _ e, σ => erd e σ
  | .bin _ a b, σ => erd a σ ++ erd b σ

/-- (upward-exposed reads, writes) -/
abbrev Fp := List Loc × List Loc

/-- footprint of `a` followed by `b`: reads of `b` that `a` has written are not exposed -/
def fpSeq (a b : Fp) : Fp := (a.1 ++ b.1.filter (fun l => !a.2.contains l), a.2 ++ b.2)

/-- footprint of `n` iterations (numbers `k, k+1, …`) of a loop whose body has semantics `f`
and footprint `g`, followed by the final assignment of the loop variable (as `runIters`) -/
def fpIters (f : Store → Store) (g : Store → Fp) (v : Nat) (lo step : Int) : Nat → Int → Store → Fp
  | 0, _, _ => ([], [(v, 0, 0)])
  | n+1, k, σ =>
    let σ' := σ.set (v, 0, 0) (lo + k * step)
    fpSeq ([], [(v, 0, 0)]) (fpSeq (g σ') (fpIters f g v lo step n (k + 1) (f σ')))

def fp : Stmt → Store → Fp
  | .skip, _ => ([], [])
  | .seq a b, σ => fpSeq (fp a σ) (fp b (exec a σ))
  | .assign x e, σ => (erd e σ, [(x, 0, 0)])
  | .store1 a i e, σ => (erd i σ ++ erd e σ, [(a, eval i σ, 0)])
  | .store2 a i j e, σ => (erd i σ ++ erd j σ ++ erd e σ, [(a, eval i σ, eval j σ)])
  | .ite c t f, σ => fpSeq (erd c σ, []) (if eval c σ ≠ 0 then fp t σ else fp f σ)
  | .loop v lo hi st b, σ =>
    fpSeq (erd lo σ ++ erd hi σ ++ erd st σ, [])
      (fpIters (exec b) (fp b) v (eval lo σ) (eval st σ)
        (trip (eval lo σ) (eval hi σ) (eval st σ)) 0 σ)

/-! ## execution with undefined scalars -/

/-- a store together with the scalars that are currently undefined -/
structure PStore where
  st : Store
  undef : List Nat

/-- does the expression mention a scalar of `U`? -/
def usesUndef (U : List Nat) : Expr → Bool
  | .lit _ => false
  | .var x => U.contains x
  | .idx1 _ i => usesUndef U i
  | .idx2 _ i j => usesUndef U i || usesUndef U j
  | .un _ e => usesUndef U e
  | .bin _ a b => usesUndef U a || usesUndef U b

def itersP (f : PStore → Option PStore) (v : Nat) (lo step : Int) : Nat → Int → PStore → Option PStore
  | 0, k, p => some ⟨p.st.set (v, 0, 0) (lo + k * step), p.undef.filter (· ≠ v)⟩
  | n+1, k, p =>
    (f ⟨p.st.set (v, 0, 0) (lo + k * step), p.undef.filter (· ≠ v)⟩).bind (itersP f v lo step n (k + 1))

/-- `none` = an undefined scalar was read -/
def execP : Stmt → PStore → Option PStore
  | .skip, p => some p
  | .seq a b, p => (execP a p).bind (execP b)
  | .assign x e, p =>
    if usesUndef p.undef e then none
    else some ⟨p.st.set (x, 0, 0) (eval e p.st), p.undef.filter (· ≠ x)⟩
  | .store1 a i e, p =>
    if usesUndef p.undef i || usesUndef p.undef e then none
    else some ⟨p.st.set (a, eval i p.st, 0) (eval e p.st), p.undef.filter (· ≠ a)⟩
  | .store2 a i j e, p =>
    if usesUndef p.undef i || usesUndef p.undef j || usesUndef p.undef e then none
    else some ⟨p.st.set (a, eval i p.st, eval j p.st) (eval e p.st), p.undef.filter (· ≠ a)⟩
  | .ite c t f, p =>
    if usesUndef p.undef c then none
    else if eval c p.st ≠ 0 then execP t p else execP f p
  | .loop v lo hi st b, p =>
    if usesUndef p.undef lo || usesUndef p.undef hi || usesUndef p.undef st then none
    else itersP (execP b) v (eval lo p.st) (eval st p.st)
      (trip (eval lo p.st) (eval hi p.st) (eval st p.st)) 0 p

/-! ## the parallel loop -/

/-- a DO loop with the data-sharing clauses of its `parallel do` directive -/
structure ParDo where
  v : Nat
  lo : Expr
  hi : Expr
  step : Expr
  body : Stmt
  priv : List Nat
  fpriv : List Nat
  deriving Repr

/-- loop variables of the loops nested in a statement -/
def loopVars : Stmt → List Nat
  | .skip => []
  | .seq a b => loopVars a ++ loopVars b
  | .assign _ _ => []
  | .store1 _ _ _ => []
  | .store2 _ _ _ _ => []
  | .ite _ t f => loopVars t ++ loopVars f
  | .loop v _ _ _ b => v :: loopVars b

/-- every variable of which each thread has its own copy: the clause lists, the parallel
loop's variable and (Fortran rule) the variables of the sequential loops inside -/
def ParDo.privs (P : ParDo) : List Nat := P.v :: (P.priv ++ P.fpriv ++ loopVars P.body)

/-- copies that are undefined when a thread starts: everything but the firstprivate ones -/
def ParDo.undef0 (P : ParDo) : List Nat := P.privs.filter (fun x => !P.fpriv.contains x)

def ParDo.serial (P : ParDo) : Stmt := .loop P.v P.lo P.hi P.step P.body

/-- shared store and the private memories of the threads that have run so far (most recent
first; a thread that is not listed still has its initial private memory) -/
structure OState where
  shared : Store
  thr : List (Nat × PStore)

/-- what a thread sees: its own copies of the privatised variables, the shared store elsewhere -/
def view (privs : List Nat) (S : Store) (T : PStore) : PStore :=
  ⟨⟨fun l => if privs.contains l.1 then T.st l else S l⟩, T.undef⟩

/-- the shared store after an iteration that ended in the thread view `V` -/
def unview (privs : List Nat) (S : Store) (V : Store) : Store :=
  ⟨fun l => if privs.contains l.1 then S l else V l⟩

def threadMem (σ₀ : Store) (undef0 : List Nat) (thr : List (Nat × PStore)) (t : Nat) : PStore :=
  match thr.lookup t with
  | some T => T
  | none => ⟨σ₀, undef0⟩

/-- thread `t` runs iteration number `k` as one step -/
def stepOMP (P : ParDo) (lo step : Int) (σ₀ : Store) (s : OState) (t k : Nat) : Option OState :=
  let T := threadMem σ₀ P.undef0 s.thr t
  let V := view P.privs s.shared T
  match execP P.body ⟨V.st.set (P.v, 0, 0) (lo + (k : Int) * step), V.undef.filter (· ≠ P.v)⟩ with
  | none => none
  | some V' => some ⟨unview P.privs s.shared V'.st, (t, V') :: s.thr⟩

def runSched (P : ParDo) (lo step : Int) (σ₀ : Store) : List (Nat × Nat) → OState → Option OState
  | [], s => some s
  | (t, k) :: rest, s =>
    match stepOMP P lo step σ₀ s t k with
    | none => none
    | some s' => runSched P lo step σ₀ rest s'

/-- trip count of the loop entered from `σ` -/
def ParDo.trips (P : ParDo) (σ : Store) : Nat := trip (eval P.lo σ) (eval P.hi σ) (eval P.step σ)

/-- Run the parallel loop under a schedule.  `none`: some iteration read an undefined private
copy.  Bounds and step are evaluated once, on entry, in the encountering thread. -/
def execOMP (P : ParDo) (sched : List (Nat × Nat)) (σ : Store) : Option Store :=
  match runSched P (eval P.lo σ) (eval P.step σ) σ sched ⟨σ, []⟩ with
  | none => none
  | some s => some s.shared

/-- a schedule for `n` iterations runs each of them exactly once (any threads, any order) -/
def ValidSched (n : Nat) (sched : List (Nat × Nat)) : Prop := (sched.map Prod.snd).Perm (List.range n)

instance (n : Nat) (sched : List (Nat × Nat)) : Decidable (ValidSched n sched) := by
  unfold ValidSched; exact inferInstance

/-- two stores agree on every location that is not a privatised variable -/
def SharedEq (privs : List Nat) (σ τ : Store) : Prop := ∀ l : Loc, l.1 ∉ privs → σ l = τ l

/-! ## hypotheses of the theorem, as computable checks at a store -/

/-- the store in which iteration `k` of the loop entered from `σ` is analysed -/
def ParDo.iterStore (P : ParDo) (σ : Store) (k : Nat) : Store :=
  σ.set (P.v, 0, 0) (eval P.lo σ + (k : Int) * eval P.step σ)

/-- footprint of iteration `k` -/
def ParDo.iterFp (P : ParDo) (σ : Store) (k : Nat) : Fp := fp P.body (P.iterStore σ k)

/-- pairwise Bernstein independence of the iterations on shared locations: no shared location
written by one iteration is read or written by another one -/
def iterIndepB (P : ParDo) (σ : Store) : Bool :=
  (List.range (P.trips σ)).all fun k => (List.range (P.trips σ)).all fun k' =>
    k == k' || (P.iterFp σ k).2.all fun l =>
      P.privs.contains l.1 || (!(P.iterFp σ k').1.contains l && !(P.iterFp σ k').2.contains l)

/-- no iteration reads a privatised scalar before it has written it -/
def scalarsUncondB (P : ParDo) (σ : Store) : Bool :=
  (List.range (P.trips σ)).all fun k => (P.iterFp σ k).1.all fun l =>
    l == (P.v, 0, 0) || !P.privs.contains l.1

/-! ## the hypotheses as propositions -/

/-- pairwise Bernstein independence of the iterations on shared locations (element level,
dynamic footprints at the store on loop entry) -/
def IterIndep (P : ParDo) (σ : Store) : Prop :=
  ∀ k < P.trips σ, ∀ k' < P.trips σ, k ≠ k' → ∀ l ∈ (P.iterFp σ k).2, l.1 ∉ P.privs →
    l ∉ (P.iterFp σ k').1 ∧ l ∉ (P.iterFp σ k').2

/-- no iteration reads a privatised variable (other than the parallel loop's own variable)
before it has written it -/
def ScalarsUnconditional (P : ParDo) (σ : Store) : Prop :=
  ∀ k < P.trips σ, ∀ l ∈ (P.iterFp σ k).1, l = (P.v, 0, 0) ∨ l.1 ∉ P.privs

/-! ## `infer_sharing_attributes` -/

/-- state of the scan of one scalar's accesses, in the order of `reference_accesses` -/
structure Scan where
  nacc : Nat := 0            -- number of accesses seen
  hasRead : Bool := false    -- `has_been_read`
  readInLoop : Bool := false -- the last read lies inside the body of the innermost enclosing loop
  decided : Option Nat := none  -- decision taken at the first write: 0 private, 1 firstprivate, 2 need_sync
  first : Nat := 0           -- kind of the very first access: 0 none yet, 1 read, 2 write
  nwrite : Nat := 0          -- number of write accesses
  deriving Repr, DecidableEq

def Scan.read (s : Scan) : Scan :=
  { s with nacc := s.nacc + 1, first := if s.first = 0 then 1 else s.first,
           hasRead := if s.decided.isNone then true else s.hasRead,
           readInLoop := if s.decided.isNone then true else s.readInLoop }

/-- a write access whose innermost enclosing loop has been entered with `readInLoop` reset;
`inIf`: an IfBlock lies between the write and that loop -/
def Scan.write (s : Scan) (inIf : Bool) : Scan :=
  match s.decided with
  | some _ => { s with nacc := s.nacc + 1, nwrite := s.nwrite + 1 }
  | none =>
    let d := if s.hasRead then (if s.readInLoop then 2 else 1) else (if inIf then 1 else 0)
    { s with nacc := s.nacc + 1, nwrite := s.nwrite + 1, first := if s.first = 0 then 2 else s.first,
             decided := some d }

def scanExpr (x : Nat) : Expr → Scan → Scan
  | .lit _, s => s
  | .var y, s => if y = x then s.read else s
  | .idx1 _ i, s => scanExpr x i s
  | .idx2 _ i j, s => scanExpr x j (scanExpr x i s)
  | .un _ e, s => scanExpr x e s
  | .bin _ a b, s => scanExpr x b (scanExpr x a s)

/-- accesses of scalar `x` in a statement (`inIf` relative to the innermost enclosing loop) -/
def scanStmt (x : Nat) : Stmt → Bool → Scan → Scan
  | .skip, _, s => s
  | .seq a b, inIf, s => scanStmt x b inIf (scanStmt x a inIf s)
  | .assign y e, inIf, s =>
    let s := scanExpr x e s
    if y = x then s.write inIf else s
  | .store1 _ i e, _, s => scanExpr x i (scanExpr x e s)
  | .store2 _ i j e, _, s => scanExpr x j (scanExpr x i (scanExpr x e s))
  | .ite c t f, _, s => scanStmt x f true (scanStmt x t true (scanExpr x c s))
  | .loop v lo hi st b, _, s =>
    -- WRITE then READ of the loop variable at the Loop node itself (its own loop ancestor,
    -- so earlier reads are "before the loop" and no IfBlock is in between), then the bounds
    let outerRead := s.readInLoop
    let s := if v = x then (({ s with readInLoop := false }).write false) else s
    let s := if v = x then { s.read with readInLoop := s.readInLoop } else s
    let s := scanExpr x st (scanExpr x hi (scanExpr x lo s))
    let outerRead := outerRead || (s.decided.isNone && s.readInLoop)
    -- body: reads so far are outside this loop's body
    let s := scanStmt x b false { s with readInLoop := false }
    { s with readInLoop := outerRead || s.readInLoop }

/-- scalar variables occurring in an expression / a statement (first occurrence order) -/
def exprScalars : Expr → List Nat
  | .lit _ => []
  | .var x => [x]
  | .idx1 _ i => exprScalars i
  | .idx2 _ i j => exprScalars i ++ exprScalars j
  | .un _ e => exprScalars e
  | .bin _ a b => exprScalars a ++ exprScalars b

def stmtScalars : Stmt → List Nat
  | .skip => []
  | .seq a b => stmtScalars a ++ stmtScalars b
  | .assign x e => x :: exprScalars e
  | .store1 _ i e => exprScalars i ++ exprScalars e
  | .store2 _ i j e => exprScalars i ++ exprScalars j ++ exprScalars e
  | .ite c t f => exprScalars c ++ stmtScalars t ++ stmtScalars f
  | .loop v lo hi st b => v :: (exprScalars lo ++ exprScalars hi ++ exprScalars st ++ stmtScalars b)

/-- classification of one scalar in the region consisting of the loop `L`:
`none` shared, `some 0` private, `some 1` firstprivate, `some 2` shared-needing-synchronisation -/
def classify (L : Stmt) (x : Nat) : Option Nat :=
  let s := scanStmt x L false {}
  if s.nacc ≤ 1 then none else s.decided

structure Sharing where
  priv : List Nat
  fpriv : List Nat
  sync : List Nat
  deriving Repr, DecidableEq

/-- `infer_sharing_attributes` for a region that consists of one loop (arrays are always shared) -/
def inferSharing (L : Stmt) : Sharing :=
  let xs := (stmtScalars L).eraseDups
  ⟨xs.filter (fun x => classify L x == some 0),
   xs.filter (fun x => classify L x == some 1),
   xs.filter (fun x => classify L x == some 2)⟩

/-- The scalar part of `ParallelLoopTrans.validate` (`DependencyTools._is_scalar_parallelisable`
for every scalar that is not a loop variable; the WARN_SCALAR_WRITTEN_ONCE message is ignored by
`validate`): read-only, or a single access, or the first access is a write. -/
def validateScalars (L : Stmt) : Bool :=
  ((stmtScalars L).eraseDups.filter (fun x => !(loopVars L).contains x)).all fun x =>
    let s := scanStmt x L false {}
    s.nwrite == 0 || s.nacc == 1 || s.first == 2

/-- the loop with the clauses PSyclone generates for it -/
def annotate (v : Nat) (lo hi step : Expr) (body : Stmt) : ParDo :=
  let sh := inferSharing (.loop v lo hi step body)
  ⟨v, lo, hi, step, body, sh.priv, sh.fpriv⟩

/-! ## static sufficient conditions for the two hypotheses (no store needed) -/

/-- `e` is syntactically `v + c` -/
def affOff (v : Nat) : Expr → Option Int
  | .var x => if x = v then some 0 else none
  | .bin .add (.var x) (.lit c) => if x = v then some c else none
  | .bin .add (.lit c) (.var x) => if x = v then some c else none
  | .bin .sub (.var x) (.lit c) => if x = v then some (-c) else none
  | _ => none

/-- array ↦ (subscript position 0/1, offset): the subscript that must be `v + offset` in EVERY access -/
abbrev Spec := List (Nat × Nat × Int)

/-- the specification read off the array writes of the body (first write of each array wins) -/
def specOfStmt (v : Nat) : Stmt → Spec
  | .skip => []
  | .seq a b => specOfStmt v a ++ specOfStmt v b
  | .assign _ _ => []
  | .store1 a i _ =>
    match affOff v i with
    | some c => [(a, 0, c)]
    | none => []
  | .store2 a i j _ =>
    match affOff v i with
    | some c => [(a, 0, c)]
    | none =>
      match affOff v j with
      | some c => [(a, 1, c)]
      | none => []
  | .ite _ t f => specOfStmt v t ++ specOfStmt v f
  | .loop _ _ _ _ b => specOfStmt v b

/-- subscript check of one access to array `a` -/
def subOK (v : Nat) (spec : Spec) (a : Nat) (i : Expr) (j : Option Expr) : Option Bool :=
  match spec.lookup a with
  | none => none
  | some (p, c) =>
    if p = 0 then some (affOff v i == some c)
    else match j with
      | some j => some (affOff v j == some c)
      | none => some false

/-- every read of an array in `spec` has the distinguished subscript `v + offset`; no scalar is named like such an array -/
def okExpr (v : Nat) (spec : Spec) : Expr → Bool
  | .lit _ => true
  | .var x => (spec.lookup x).isNone
  | .idx1 a i => okExpr v spec i && (subOK v spec a i none).getD true
  | .idx2 a i j => okExpr v spec i && okExpr v spec j && (subOK v spec a i (some j)).getD true
  | .un _ e => okExpr v spec e
  | .bin _ a b => okExpr v spec a && okExpr v spec b

/-- every written scalar is privatised and is not `v`; every array write has the distinguished
subscript `v + offset` of its array; all reads conform -/
def okStmt (v : Nat) (privs : List Nat) (spec : Spec) : Stmt → Bool
  | .skip => true
  | .seq a b => okStmt v privs spec a && okStmt v privs spec b
  | .assign x e => x != v && privs.contains x && okExpr v spec e
  | .store1 a i e => a != v && okExpr v spec i && okExpr v spec e && (subOK v spec a i none).getD false
  | .store2 a i j e =>
    a != v && okExpr v spec i && okExpr v spec j && okExpr v spec e && (subOK v spec a i (some j)).getD false
  | .ite c t f => okExpr v spec c && okStmt v privs spec t && okStmt v privs spec f
  | .loop w lo hi st b =>
    w != v && privs.contains w && okExpr v spec lo && okExpr v spec hi && okExpr v spec st && okStmt v privs spec b

/-- **static independence**: distance 0 in the parallel variable for every written array
(a fixed subscript position holds `v + c` in every access), scalars written only if privatised -/
def staticIndepB (P : ParDo) : Bool := okStmt P.v P.privs (specOfStmt P.v P.body) P.body

/-- reads of privatised variables are allowed only for scalars in `D` (already written) -/
def readsOK (X D : List Nat) : Expr → Bool
  | .lit _ => true
  | .var x => !X.contains x || D.contains x
  | .idx1 a i => !X.contains a && readsOK X D i
  | .idx2 a i j => !X.contains a && readsOK X D i && readsOK X D j
  | .un _ e => readsOK X D e
  | .bin _ a b => readsOK X D a && readsOK X D b

/-- definite assignment: `none` if a privatised variable may be read before it is written on
some path; otherwise the scalars certainly written afterwards -/
def defAssign (X : List Nat) : Stmt → List Nat → Option (List Nat)
  | .skip, D => some D
  | .seq a b, D => (defAssign X a D).bind (defAssign X b)
  | .assign x e, D => if readsOK X D e then some (x :: D) else none
  | .store1 _ i e, D => if readsOK X D i && readsOK X D e then some D else none
  | .store2 _ i j e, D => if readsOK X D i && readsOK X D j && readsOK X D e then some D else none
  | .ite c t f, D =>
    if readsOK X D c then
      match defAssign X t D, defAssign X f D with
      | some Dt, some Df => some (Dt.filter fun x => Df.contains x)
      | _, _ => none
    else none
  | .loop w lo hi st b, D =>
    if readsOK X D lo && readsOK X D hi && readsOK X D st then
      match defAssign X b (w :: D) with
      | some _ => some (w :: D)
      | none => none
    else none

/-- **static write-before-read** of the privatised variables in every iteration -/
def staticUncondB (P : ParDo) : Bool := (defAssign P.privs P.body [P.v]).isSome

end C09
