import PsyVerif.Model.MiniF
/-! # C11 — model of PSyclone's variable-access collection (`reference_accesses`)

Static side: `acc` / `accS` mirror `reference_accesses` of Reference / ArrayMixin /
BinaryOperation (default `Node` recursion) / IntrinsicCall / Call / Assignment / IfBlock /
Loop, writing into a `VariablesAccessInfo`.  A `VariablesAccessInfo` is modelled by the
list of `add_access` calls (variable id, access type, location number, number of index
expressions recorded) plus the location counter.  The real object is a dict
`signature -> list of accesses`; the observable is therefore the *per-variable* projection
(`project`) of the list, which is what the correspondence check compares.

Dynamic side: `evalT` / `execT` are a tracing semantics (element-level read / write events)
that extends `MiniF.eval` / `MiniF.exec` with calls under by-reference argument passing:
what a callee does is an arbitrary `Oracle`.

Core Lean only. -/
namespace C11
open MiniF (Store Loc UnOp BinOp evalUn evalBin trip)

/-! ## access lists -/

inductive Kind where
  | read | write | readwrite
  deriving DecidableEq, Repr, Inhabited

/-- `AccessType.all_read_accesses()` = READ, READWRITE (and INC/SUM kinds not produced here) -/
def Kind.isRead : Kind → Bool
  | .read => true | .readwrite => true | .write => false
/-- `AccessType.all_write_accesses()` = WRITE, READWRITE -/
def Kind.isWrite : Kind → Bool
  | .write => true | .readwrite => true | .read => false

/-- one `add_access(sig, kind, node, indices)` at location `loc`; `nidx` is the number of
index expressions stored in the ComponentIndices of the access -/
structure Access where
  var : Nat
  kind : Kind
  loc : Nat
  nidx : Nat
  deriving DecidableEq, Repr, Inhabited

/-- accesses of one variable, in order (the real `SingleVariableAccessInfo.all_accesses`) -/
def project (A : List Access) (x : Nat) : List Access := A.filter (fun a => a.var == x)

def shift (d : Nat) (a : Access) : Access := { a with loc := a.loc + d }

/-- attributes of one `IntrinsicCall.Intrinsic` member (translated from the live enum) -/
structure IAttr where
  pure : Bool
  elemental : Bool
  inquiry : Bool
  minArgs : Nat
  maxArgs : Option Nat
  deriving DecidableEq, Repr, Inhabited

/-- The decision rules of `Call.reference_accesses` / `IntrinsicCall.reference_accesses`
as data, so that the pinned and the repaired code are instances of one model.
`callRW pure isStmt`: by-reference arguments of a user call get READWRITE (else READ).
`intrRW pure inquiry isStmt`: by-reference arguments of an intrinsic get READWRITE
(else they are visited as ordinary expressions, i.e. READ).
`inqSubs`: the subscripts of the (skipped) first argument of an inquiry intrinsic are visited.
`useIntents`: for a CALL of a PURE subroutine whose definition is in the same Container the
arguments whose dummy is not INTENT(IN) get READWRITE.
`cbRW`: a CodeBlock (statement or expression) records every name of its text READWRITE (else nothing).
`inqCb`: a CodeBlock that is the (skipped) first argument of an inquiry intrinsic is visited
(`len(names(k)(1:n))` evaluates `n`; fixes/C11-inquiry-codeblock.patch). -/
structure Rule where
  callRW : Bool → Bool → Bool
  intrRW : Bool → Bool → Bool → Bool
  inqSubs : Bool
  useIntents : Bool
  /-- every name that occurs in the text of a CodeBlock is recorded READWRITE
  (fixes/C11-codeblock-accesses.patch) -/
  cbRW : Bool
  inqCb : Bool

/-- the pinned code: `if self.is_pure: READ`; intrinsic arguments are always only visited -/
def pinnedRule : Rule where
  callRW pure _ := !pure
  intrRW _ _ _ := false
  inqSubs := false
  useIntents := false
  cbRW := false
  inqCb := false

/-- fixes/C11-intrinsic-subroutine-args-written.patch only: an intrinsic that is a statement
(child of a Schedule) marks its by-reference arguments READWRITE -/
def fixed1Rule : Rule where
  callRW pure _ := !pure
  intrRW _ _ isStmt := isStmt
  inqSubs := false
  useIntents := false
  cbRW := false
  inqCb := false

/-- the code with the first three C11 patches (intrinsic-subroutine-args-written,
inquiry-subscripts, pure-subroutine-local-intents) -/
def fixed3Rule : Rule where
  callRW pure _ := !pure
  intrRW _ _ isStmt := isStmt
  inqSubs := true
  useIntents := true
  cbRW := false
  inqCb := false

/-- the code with all four C11 patches (… and codeblock-accesses) -/
def fixedRule : Rule where
  callRW pure _ := !pure
  intrRW _ _ isStmt := isStmt
  inqSubs := true
  useIntents := true
  cbRW := true
  inqCb := false

/-- … and fixes/C11-inquiry-codeblock.patch -/
def fixed5Rule : Rule where
  callRW pure _ := !pure
  intrRW _ _ isStmt := isStmt
  inqSubs := true
  useIntents := true
  cbRW := true
  inqCb := true

/-- what the property needs: only a pure *function* leaves its arguments alone (a pure
subroutine may have INTENT(OUT) dummies) -/
def idealRule : Rule where
  callRW pure isStmt := !(pure && !isStmt)
  intrRW _ _ isStmt := isStmt
  inqSubs := true
  useIntents := true
  cbRW := true
  inqCb := true

structure Ctx where
  rule : Rule
  attrs : Nat → IAttr

/-! ## syntax

`Expr` extends `MiniF.Expr` by general references, intrinsic and user function calls.
Argument lists, index lists and `Range` triples are `nil`/`cons` spines inside `Expr`
itself (so the type is not nested and everything below is structurally recursive). -/

inductive Expr where
  | lit (n : Int)
  | var (x : Nat)
  | idx1 (a : Nat) (i : Expr)
  | idx2 (a : Nat) (i j : Expr)
  /-- general reference (rank > 2, array sections, structure members with several indexed
  components): signature id, number of index nodes, spine of the index expressions -/
  | idxs (a : Nat) (n : Nat) (is : Expr)
  | un (op : UnOp) (e : Expr)
  | bin (op : BinOp) (a b : Expr)
  /-- intrinsic function `Intrinsic` number `k` applied to the argument spine -/
  | intr (k : Nat) (args : Expr)
  /-- user function call (call site `f`) -/
  | fcall (pure : Bool) (f : Nat) (args : Expr)
  /-- an expression CodeBlock (opaque Fortran text, site `f`): `names` = the names occurring in its
  text (in order, with repetitions), `rd` = the variables whose value its evaluation may read,
  `dv` = the designated variable when the text is a variable designator (a sub-string of an array
  element `names(k)(1:3)`, …): as an actual argument it associates the dummy with (part of) that
  variable, so a callee may define it -/
  | cb (f : Nat) (names rd : List Nat) (dv : Option Nat)
  | nil
  | cons (e rest : Expr)
  deriving DecidableEq, Repr, Inhabited

inductive Stmt where
  | skip
  | seq (a b : Stmt)
  /-- `lhs = rhs`; `lhs` is a reference form -/
  | asg (lhs rhs : Expr)
  | ifThen (c : Expr) (t : Stmt)
  | ite (c : Expr) (t f : Stmt)
  | loop (v : Nat) (lo hi step : Expr) (body : Stmt)
  /-- `do while (c) body` -/
  | while (c : Expr) (body : Stmt)
  /-- `return` -/
  | ret
  /-- a CodeBlock (opaque Fortran text; site `f`): the names occurring in its text (in order, with
  repetitions) and the variables it may read / may define -/
  | opaque (f : Nat) (names rd wr : List Nat)
  /-- `call f(args)` of a user routine (call site `f`).  `mods = some m`: the definition of the
  routine is in the same Container and bit `p` of `m` is set iff its `p`-th dummy argument is not
  INTENT(IN); `none`: the definition is not available. -/
  | call (pure : Bool) (mods : Option Nat) (f : Nat) (args : Expr)
  /-- intrinsic used as a statement: intrinsic subroutines, ALLOCATE, DEALLOCATE (site `f`) -/
  | icall (k : Nat) (f : Nat) (args : Expr)
  deriving DecidableEq, Repr, Inhabited

def Expr.isRef : Expr → Bool
  | .var _ => true | .idx1 _ _ => true | .idx2 _ _ _ => true | .idxs _ _ _ => true
  | _ => false

def Expr.refVar : Expr → Nat
  | .var x => x | .idx1 a _ => a | .idx2 a _ _ => a | .idxs a _ _ => a
  | _ => 0

/-! ## static side: `reference_accesses` -/

/-- how an expression node is being visited -/
inductive Mode where
  /-- `node.reference_accesses(var_accesses)` -/
  | val
  /-- one argument of a call whose by-reference arguments get kind `k`
  (the `for arg in self.arguments` body of `Call.reference_accesses`) -/
  | elem (k : Kind)
  /-- only the subscript expressions of a reference are visited (first argument of an inquiry) -/
  | subs
  /-- an argument list; `ko = none`: every argument is visited with `reference_accesses`;
  bit `p` of `mask` set: the `p`-th argument gets READWRITE whatever `ko` says;
  `skip`: the first argument is dropped (`self.arguments[1:]` of an inquiry intrinsic) -/
  | spine (ko : Option Kind) (mask : Nat) (skip : Bool)
  deriving DecidableEq, Repr

def kindOf (rw : Bool) : Kind := if rw then .readwrite else .read

/-- `CodeBlock.reference_accesses`: every name of the text READWRITE at the current location -/
def cbAcc (c : Ctx) (names : List Nat) (l : Nat) : List Access :=
  if c.rule.cbRW then names.map (fun x => ⟨x, .readwrite, l, 0⟩) else []

/-- the variables of a designator CodeBlock that are read to locate the object (its subscripts
and sub-string bounds): everything it reads except the designated variable itself -/
def cbSubs (rd : List Nat) (dv : Option Nat) : List Nat := rd.filter (fun x => dv != some x)

def elemMode : Option Kind → Mode
  | some k => .elem k
  | none => .val

/-- accesses added by visiting `e` in mode `m` when the location counter is `l`; returns the
accesses in the order of the `add_access` calls and the new location counter -/
def acc (c : Ctx) : Expr → Mode → Nat → List Access × Nat
  -- argument lists
  | .nil, .spine _ _ _, l => ([], l)
  | .cons e rest, .spine ko mask skip, l =>
      if skip then
        let r1 := if c.rule.inqSubs then acc c e .subs l else ([], l)
        let r2 := acc c rest (.spine ko (mask / 2) false) r1.2
        (r1.1 ++ r2.1, r2.2)
      else
        let r1 := acc c e (elemMode (if mask % 2 = 1 then some .readwrite else ko)) l
        let r2 := acc c rest (.spine ko (mask / 2) false) r1.2
        (r1.1 ++ r2.1, r2.2)
  -- the subscripts of the inquired argument (fixes/C11-inquiry-subscripts.patch)
  | .idx1 _ i, .subs, l => acc c i .val l
  | .idx2 _ i j, .subs, l =>
      let r1 := acc c i .val l
      let r2 := acc c j .val r1.2
      (r1.1 ++ r2.1, r2.2)
  | .idxs _ _ is, .subs, l => acc c is .val l
  -- `isinstance(self.arguments[0], Reference)` fails for a CodeBlock: not visited (unless repaired)
  | .cb _ names _ _, .subs, l => (if c.rule.inqCb then cbAcc c names l else [], l)
  | _, .subs, l => ([], l)
  -- one by-reference argument: the access is added first, then the index expressions are visited
  | .var x, .elem k, l => ([⟨x, k, l, 0⟩], l)
  | .idx1 a i, .elem k, l =>
      let r := acc c i .val l
      (⟨a, k, l, 0⟩ :: r.1, r.2)
  | .idx2 a i j, .elem k, l =>
      let r1 := acc c i .val l
      let r2 := acc c j .val r1.2
      (⟨a, k, l, 0⟩ :: (r1.1 ++ r2.1), r2.2)
  | .idxs a _ is, .elem k, l =>
      let r := acc c is .val l
      (⟨a, k, l, 0⟩ :: r.1, r.2)
  -- CodeBlock.reference_accesses (an argument that is not a Reference is visited as an
  -- ordinary node): the location counter is not advanced
  | .cb _ names _ _, _, l => (cbAcc c names l, l)
  -- Reference.reference_accesses: index expressions first, then the READ of the variable
  | .lit _, _, l => ([], l)
  | .var x, _, l => ([⟨x, .read, l, 0⟩], l)
  | .idx1 a i, _, l =>
      let r := acc c i .val l
      (r.1 ++ [⟨a, .read, r.2, 1⟩], r.2)
  | .idx2 a i j, _, l =>
      let r1 := acc c i .val l
      let r2 := acc c j .val r1.2
      (r1.1 ++ r2.1 ++ [⟨a, .read, r2.2, 2⟩], r2.2)
  | .idxs a n is, _, l =>
      let r := acc c is .val l
      (r.1 ++ [⟨a, .read, r.2, n⟩], r.2)
  -- default Node.reference_accesses: children in order
  | .un _ e, _, l => acc c e .val l
  | .bin _ a b, _, l =>
      let r1 := acc c a .val l
      let r2 := acc c b .val r1.2
      (r1.1 ++ r2.1, r2.2)
  -- IntrinsicCall.reference_accesses (expression position: not a child of a Schedule)
  | .intr k args, _, l =>
      let ia := c.attrs k
      let rw := c.rule.intrRW ia.pure ia.inquiry false
      acc c args (.spine (if rw then some .readwrite else none) 0 ia.inquiry) l
  -- Call.reference_accesses (expression position); always ends with next_location()
  | .fcall pure _ args, _, l =>
      let r := acc c args (.spine (some (kindOf (c.rule.callRW pure false))) 0 false) l
      (r.1, r.2 + 1)
  -- Range / tuple visited as an ordinary node: children in order
  | .nil, _, l => ([], l)
  | .cons e rest, _, l =>
      let r1 := acc c e .val l
      let r2 := acc c rest .val r1.2
      (r1.1 ++ r2.1, r2.2)

/-- `SingleVariableAccessInfo.change_read_to_write` on the access info of the LHS: the
assigned variable must have exactly one access there and it must be a READ; otherwise
`InternalError`, which `Assignment.reference_accesses` turns into `NotImplementedError`. -/
def changeReadToWrite (left : List Access) (x : Nat) : Option (List Access) :=
  match project left x with
  | [a] => if a.kind = .read then
      some (left.map (fun b => if b.var == x then { b with kind := .write } else b))
    else none
  | _ => none

def bumpIf (b : Bool) (r : List Access × Nat) : List Access × Nat := if b then (r.1, r.2 + 1) else r

/-- accesses of a statement visited at location `l`.  `bump` = the statement (list) is the
body of a `Loop`, whose children are each followed by an extra `next_location()`.
`none` = the real code raises (`NotImplementedError`: variable twice on the LHS). -/
def accS (c : Ctx) : Stmt → Bool → Nat → Option (List Access × Nat)
  | .skip, _, l => some ([], l)
  | .seq a b, bump, l =>
      match accS c a false l with
      | none => none
      | some r1 =>
        match accS c b bump (bumpIf bump r1).2 with
        | none => none
        | some r2 => some (r1.1 ++ r2.1, r2.2)
  | .asg lhs rhs, bump, l =>
      if lhs.isRef then
        -- a fresh VariablesAccessInfo (location 0) for the LHS
        let left := acc c lhs .val 0
        match changeReadToWrite left.1 lhs.refVar with
        | none => none
        | some left' =>
          let r := acc c rhs .val l
          -- merge(): locations shifted by the current location; the location counter is
          -- advanced by the largest location of the merged accesses; then next_location()
          let maxNew := (left'.map (·.loc)).foldl max 0
          some (bumpIf bump (r.1 ++ left'.map (shift r.2), r.2 + maxNew + 1))
      else none
  | .ifThen cnd t, bump, l =>
      let r := acc c cnd .val l
      match accS c t false (r.2 + 1) with
      | none => none
      | some r1 => some (bumpIf bump (r.1 ++ r1.1, r1.2 + 1))
  | .ite cnd t f, bump, l =>
      let r := acc c cnd .val l
      match accS c t false (r.2 + 1) with
      | none => none
      | some r1 =>
        match accS c f false (r1.2 + 1) with
        | none => none
        | some r2 => some (bumpIf bump (r.1 ++ r1.1 ++ r2.1, r2.2 + 1))
  | .loop v lo hi st body, bump, l =>
      let r1 := acc c lo .val l
      let r2 := acc c hi .val r1.2
      let r3 := acc c st .val r2.2
      match accS c body true (r3.2 + 1) with
      | none => none
      | some rb =>
        some (bumpIf bump (⟨v, .write, l, 0⟩ :: ⟨v, .read, l, 0⟩ :: (r1.1 ++ r2.1 ++ r3.1 ++ rb.1), rb.2))
  | .while cnd b, bump, l =>
      -- WhileLoop.reference_accesses: condition, next_location, body, next_location
      let r := acc c cnd .val l
      match accS c b false (r.2 + 1) with
      | none => none
      | some r1 => some (bumpIf bump (r.1 ++ r1.1, r1.2 + 1))
  -- Return (and, before the fix, CodeBlock) has no reference_accesses of its own: nothing is recorded
  | .ret, bump, l => some (bumpIf bump ([], l))
  | .opaque _ names _ _, bump, l =>
      some (bumpIf bump (if c.rule.cbRW then names.map (fun x => ⟨x, .readwrite, l, 0⟩) else [], l))
  | .call pure mods _ args, bump, l =>
      let mask := if c.rule.useIntents && pure then mods.getD 0 else 0
      let r := acc c args (.spine (some (kindOf (c.rule.callRW pure true))) mask false) l
      some (bumpIf bump (r.1, r.2 + 1))
  | .icall k _ args, bump, l =>
      let ia := c.attrs k
      let rw := c.rule.intrRW ia.pure ia.inquiry true
      some (bumpIf bump (acc c args (.spine (if rw then some .readwrite else none) 0 ia.inquiry) l))

/-- `VariablesAccessInfo(stmt)`: the flattened access list, or `none` when the code raises -/
def refAcc (c : Ctx) (s : Stmt) : Option (List Access) := (accS c s false 0).map (·.1)

/-! ## dynamic side: tracing semantics -/

inductive Event where
  | rd (l : Loc)
  | wr (l : Loc)
  deriving DecidableEq, Repr, Inhabited

/-- What callees do.  `fval f vals` is the result of the function called at site `f` on the
argument values; `upd f vals p` is the new value the callee at site `f` stores into its
`p`-th argument (`none`: it leaves it alone); `ival k vals` the value of intrinsic `k`. -/
structure Oracle where
  fval : Nat → List Int → Int
  upd : Nat → List Int → Nat → Option Int
  ival : Nat → List Int → Int
  /-- bound on the number of iterations of a DO WHILE that are traced (the theorems hold for
  every bound, i.e. for every finite prefix of every execution) -/
  fuel : Nat

/-- result of evaluating an expression: value, store, events, the location when the
expression is a reference (by-reference argument association), and – for a spine – the
value and location of every element -/
structure R where
  val : Int
  st : Store
  ev : List Event
  loc : Option Loc
  args : List (Int × Option Loc)

/-- the callee's stores into its by-reference arguments, in argument order -/
def applyUpd (u : Nat → Option Int) : List (Int × Option Loc) → Nat → Store → Store × List Event
  | [], _, σ => (σ, [])
  | (_, none) :: r, p, σ => applyUpd u r (p + 1) σ
  | (_, some l) :: r, p, σ =>
      match u p with
      | none => applyUpd u r (p + 1) σ
      | some v =>
        let q := applyUpd u r (p + 1) (σ.set l v)
        (q.1, .wr l :: q.2)

/-- as `applyUpd`, but the callee can only store into the arguments whose bit is set in `mask`
(`mask` is shifted right at every argument): dummies declared INTENT(IN) are not definable -/
def applyUpdM (u : Nat → Option Int) : List (Int × Option Loc) → Nat → Nat → Store → Store × List Event
  | [], _, _, σ => (σ, [])
  | (_, none) :: r, p, mask, σ => applyUpdM u r (p + 1) (mask / 2) σ
  | (_, some l) :: r, p, mask, σ =>
      if mask % 2 = 1 then
        match u p with
        | none => applyUpdM u r (p + 1) (mask / 2) σ
        | some v =>
          let q := applyUpdM u r (p + 1) (mask / 2) (σ.set l v)
          (q.1, .wr l :: q.2)
      else applyUpdM u r (p + 1) (mask / 2) σ

def nth (vs : List Int) (n : Nat) : Int := (vs[n]?).getD 0

/-- Tracing evaluation.  `skip`: `e` is the argument spine of an inquiry intrinsic: the value
of its first argument is not accessed (only the subscripts of that argument are evaluated).  Operands are evaluated left
to right.  Intrinsic *functions* and PURE user *functions* do not modify their arguments
(Fortran 2008 C1276/C1283: dummies of a pure function are INTENT(IN) or VALUE); any other
callee may store into every argument that is passed by reference. -/
def evalT (ω : Oracle) (tb : Nat → IAttr) : Expr → Bool → Store → R
  | .lit n, _, σ => ⟨n, σ, [], none, []⟩
  | .var x, _, σ => ⟨σ (x, 0, 0), σ, [.rd (x, 0, 0)], some (x, 0, 0), []⟩
  | .idx1 a i, _, σ =>
      let r := evalT ω tb i false σ
      let l : Loc := (a, r.val, 0)
      ⟨r.st l, r.st, r.ev ++ [.rd l], some l, []⟩
  | .idx2 a i j, _, σ =>
      let r1 := evalT ω tb i false σ
      let r2 := evalT ω tb j false r1.st
      let l : Loc := (a, r1.val, r2.val)
      ⟨r2.st l, r2.st, r1.ev ++ r2.ev ++ [.rd l], some l, []⟩
  | .idxs a _ is, _, σ =>
      let r := evalT ω tb is false σ
      let vs := r.args.map (·.1)
      let l : Loc := (a, nth vs 0, nth vs 1)
      ⟨r.st l, r.st, r.ev ++ [.rd l], some l, []⟩
  | .un op e, _, σ =>
      let r := evalT ω tb e false σ
      ⟨evalUn op r.val, r.st, r.ev, none, []⟩
  | .bin op a b, _, σ =>
      let r1 := evalT ω tb a false σ
      let r2 := evalT ω tb b false r1.st
      ⟨evalBin op r1.val r2.val, r2.st, r1.ev ++ r2.ev, none, []⟩
  | .intr k args, _, σ =>
      let r := evalT ω tb args (tb k).inquiry σ
      ⟨ω.ival k (r.args.map (·.1)), r.st, r.ev, none, []⟩
  | .fcall pure f args, _, σ =>
      let r := evalT ω tb args false σ
      let vs := r.args.map (·.1)
      if pure then ⟨ω.fval f vs, r.st, r.ev, none, []⟩
      else
        let q := applyUpd (ω.upd f vs) r.args 0 r.st
        ⟨ω.fval f vs, q.1, r.ev ++ q.2, none, []⟩
  -- evaluating an expression CodeBlock may read the variables `rd`; a designator is passed by reference
  | .cb f _ rd dv, _, σ =>
      ⟨ω.fval f [], σ, rd.map (fun x => Event.rd (x, 0, 0)), dv.map (fun x => (x, 0, 0)), []⟩
  | .nil, _, σ => ⟨0, σ, [], none, []⟩
  | .cons e rest, skip, σ =>
      if skip then
        -- the inquired object: its value is not accessed, but its subscripts are evaluated
        -- (`size(w(idx(j):))` needs `idx(j)`)
        let r1 : R := match e with
          | .idx1 _ i => evalT ω tb i false σ
          | .idx2 _ i j =>
              let a := evalT ω tb i false σ
              let b := evalT ω tb j false a.st
              ⟨0, b.st, a.ev ++ b.ev, none, []⟩
          | .idxs _ _ is => evalT ω tb is false σ
          | .cb _ _ rd dv => ⟨0, σ, (cbSubs rd dv).map (fun x => Event.rd (x, 0, 0)), none, []⟩
          | _ => ⟨0, σ, [], none, []⟩
        let r2 := evalT ω tb rest false r1.st
        ⟨0, r2.st, r1.ev ++ r2.ev, none, (0, none) :: r2.args⟩
      else
        let r1 := evalT ω tb e false σ
        let r2 := evalT ω tb rest false r1.st
        ⟨r1.val, r2.st, r1.ev ++ r2.ev, none, (r1.val, r1.loc) :: r2.args⟩

/-- evaluation of the subscripts only (the inquired argument of an inquiry intrinsic) -/
def subsT (ω : Oracle) (tb : Nat → IAttr) (e : Expr) (σ : Store) : Store × List Event :=
  match e with
  | .idx1 _ i => ((evalT ω tb i false σ).st, (evalT ω tb i false σ).ev)
  | .idx2 _ i j =>
      ((evalT ω tb j false (evalT ω tb i false σ).st).st,
       (evalT ω tb i false σ).ev ++ (evalT ω tb j false (evalT ω tb i false σ).st).ev)
  | .idxs _ _ is => ((evalT ω tb is false σ).st, (evalT ω tb is false σ).ev)
  | .cb _ _ rd dv => (σ, (cbSubs rd dv).map (fun x => Event.rd (x, 0, 0)))
  | _ => (σ, [])

/-- the assigned location of an LHS: its index expressions are evaluated (the element itself
is not read) -/
def lhsT (ω : Oracle) (tb : Nat → IAttr) (lhs : Expr) (σ : Store) : Store × List Event × Option Loc :=
  match lhs with
  | .var x => (σ, [], some (x, 0, 0))
  | .idx1 a i =>
      let r := evalT ω tb i false σ
      (r.st, r.ev, some (a, r.val, 0))
  | .idx2 a i j =>
      let r1 := evalT ω tb i false σ
      let r2 := evalT ω tb j false r1.st
      (r2.st, r1.ev ++ r2.ev, some (a, r1.val, r2.val))
  | .idxs a _ is =>
      let r := evalT ω tb is false σ
      let vs := r.args.map (·.1)
      (r.st, r.ev, some (a, nth vs 0, nth vs 1))
  | _ => (σ, [], none)

/-- `n` iterations from iteration number `k`; the loop variable is stored at the start of
every iteration and once more after the last one (as `MiniF.runIters`) -/
def runItersT (f : Store → Store × List Event) (v : Nat) (lo step : Int) :
    Nat → Int → Store × List Event → Store × List Event
  | 0, k, q => (q.1.set (v, 0, 0) (lo + k * step), q.2 ++ [.wr (v, 0, 0)])
  | n + 1, k, q =>
      let q' := f (q.1.set (v, 0, 0) (lo + k * step))
      runItersT f v lo step n (k + 1) (q'.1, q.2 ++ [.wr (v, 0, 0)] ++ q'.2)

/-- at most `fuel` iterations of a DO WHILE: the condition is evaluated before every iteration -/
def whileT (cond : Store → R) (body : Store → Store × List Event) :
    Nat → Store × List Event → Store × List Event
  | 0, q => ((cond q.1).st, q.2 ++ (cond q.1).ev)
  | n + 1, q =>
      if (cond q.1).val ≠ 0 then
        let q' := body (cond q.1).st
        whileT cond body n (q'.1, q.2 ++ (cond q.1).ev ++ q'.2)
      else ((cond q.1).st, q.2 ++ (cond q.1).ev)

/-- Tracing execution.  In an assignment the right-hand side is evaluated first, then the
subscripts of the target, then the target is stored.  A CALL statement may store into every
by-reference argument, whether or not the subroutine is PURE. -/
def execT (ω : Oracle) (tb : Nat → IAttr) : Stmt → Store → Store × List Event
  | .skip, σ => (σ, [])
  | .seq a b, σ =>
      let q1 := execT ω tb a σ
      let q2 := execT ω tb b q1.1
      (q2.1, q1.2 ++ q2.2)
  | .asg lhs rhs, σ =>
      let r := evalT ω tb rhs false σ
      let t := lhsT ω tb lhs r.st
      match t.2.2 with
      | some l => (t.1.set l r.val, r.ev ++ t.2.1 ++ [.wr l])
      | none => (t.1, r.ev ++ t.2.1)
  | .ifThen cnd t, σ =>
      let r := evalT ω tb cnd false σ
      if r.val ≠ 0 then
        let q := execT ω tb t r.st
        (q.1, r.ev ++ q.2)
      else (r.st, r.ev)
  | .ite cnd t f, σ =>
      let r := evalT ω tb cnd false σ
      if r.val ≠ 0 then
        let q := execT ω tb t r.st
        (q.1, r.ev ++ q.2)
      else
        let q := execT ω tb f r.st
        (q.1, r.ev ++ q.2)
  | .loop v lo hi st body, σ =>
      let r1 := evalT ω tb lo false σ
      let r2 := evalT ω tb hi false r1.st
      let r3 := evalT ω tb st false r2.st
      runItersT (execT ω tb body) v r1.val r3.val (trip r1.val r2.val r3.val) 0
        (r3.st, r1.ev ++ r2.ev ++ r3.ev)
  | .while cnd b, σ => whileT (evalT ω tb cnd false) (execT ω tb b) ω.fuel (σ, [])
  -- RETURN ends the routine: the real trace is a prefix of the one obtained by carrying on
  | .ret, σ => (σ, [])
  | .opaque f _ rd wr, σ =>
      let q := applyUpd (ω.upd f []) (wr.map fun x => (0, some (x, 0, 0))) 0 σ
      (q.1, rd.map (fun x => Event.rd (x, 0, 0)) ++ q.2)
  | .call _ mods f args, σ =>
      let r := evalT ω tb args false σ
      let vs := r.args.map (fun a => a.1)
      let q : Store × List Event := match mods with
        | some m => applyUpdM (ω.upd f vs) r.args 0 m r.st
        | none => applyUpd (ω.upd f vs) r.args 0 r.st
      (q.1, r.ev ++ q.2)
  | .icall k f args, σ =>
      let r := evalT ω tb args (tb k).inquiry σ
      let q := applyUpd (ω.upd f (r.args.map (·.1))) r.args 0 r.st
      (q.1, r.ev ++ q.2)

/-! ## embedding of MiniF -/

def embE : MiniF.Expr → Expr
  | .lit n => .lit n
  | .var x => .var x
  | .idx1 a i => .idx1 a (embE i)
  | .idx2 a i j => .idx2 a (embE i) (embE j)
  | .un op e => .un op (embE e)
  | .bin op a b => .bin op (embE a) (embE b)

def emb : MiniF.Stmt → Stmt
  | .skip => .skip
  | .seq a b => .seq (emb a) (emb b)
  | .assign x e => .asg (.var x) (embE e)
  | .store1 a i e => .asg (.idx1 a (embE i)) (embE e)
  | .store2 a i j e => .asg (.idx2 a (embE i) (embE j)) (embE e)
  | .ite c t f => .ite (embE c) (emb t) (emb f)
  | .loop v lo hi st b => .loop v (embE lo) (embE hi) (embE st) (emb b)

end C11
