/-! # C21 model: LFRic kernel argument ordering

`walk` mirrors `ArgOrdering.generate` (src/psyclone/domain/lfric/arg_ordering.py): the sequence of
leaf-method calls for a kernel described by `Metadata`.  `callExpand` mirrors what each override of
`KernCallArgList` appends (PSy-layer call), `stubExpand` what `KernStubArgList` (or the inherited
base-class method) appends (kernel stub).  One `Atom` = one appended argument.  Core Lean only.

Function spaces are `Nat` ids (index in the harness table `c21_gen.FS`); ids `≥ anySpaceBase` are
the `any_space_n` / `any_discontinuous_space_n` names, `anySpace1` is `any_space_1`. -/
namespace C21

abbrev FS := Nat
def anySpaceBase : FS := 13
def anySpace1 : FS := 13

inductive DType | real | integer | logical
  deriving DecidableEq, Repr
inductive Access | read | write | readwrite | inc | readinc | sum
  deriving DecidableEq, Repr
inductive Stencil | none | x1d | y1d | xory1d | cross | region | cross2d
  deriving DecidableEq, Repr
inductive MeshArg | none | coarse | fine
  deriving DecidableEq, Repr
inductive Shape | xyoz | face | edge | evaluator
  deriving DecidableEq, Repr
inductive OpOn | cellColumn | domain | dof
  deriving DecidableEq, Repr
/-- reference-element properties (horizontal / vertical / all faces; plain or outward normals) -/
inductive RefProp | normalsH | normalsV | normalsF | outH | outV | outF
  deriving DecidableEq, Repr
inductive MeshProp | adjacentFace
  deriving DecidableEq, Repr
/-- kernels recognised *by name* by `ArgOrdering.generate`: `enforce_bc_code`, `enforce_operator_bc_code` -/
inductive Bc | none | field | operator
  deriving DecidableEq, Repr

inductive Arg
  | field (dt : DType) (vec : Nat) (acc : Access) (fs : FS) (st : Stencil) (mesh : MeshArg)
  | op (acc : Access) (to frm : FS)
  | cma (acc : Access) (to frm : FS)
  | scalar (dt : DType) (acc : Access)
  deriving DecidableEq, Repr

structure Func where
  fs : FS
  basis : Bool
  diff : Bool
  /-- the `func_type` entry lists `gh_diff_basis` before `gh_basis` (ignored by the code) -/
  diffFirst : Bool := false
  deriving DecidableEq, Repr

structure Metadata where
  operatesOn : OpOn
  args : List Arg
  funcs : List Func
  shapes : List Shape
  targets : List FS
  refelem : List RefProp
  mesh : List MeshProp
  bc : Bc
  deriving Repr

/-! ## queries on the metadata (DynKernelArguments / LFRicKernMetadata helpers) -/

def Arg.isField : Arg → Bool | .field .. => true | _ => false
def Arg.isOp : Arg → Bool | .op .. => true | _ => false
def Arg.isCma : Arg → Bool | .cma .. => true | _ => false
def Arg.isScalar : Arg → Bool | .scalar .. => true | _ => false
def Arg.acc : Arg → Access
  | .field _ _ a _ _ _ => a | .op a _ _ => a | .cma a _ _ => a | .scalar _ a => a
/-- `arg.function_spaces` (scalars have none) -/
def Arg.spaces : Arg → List FS
  | .field _ _ _ fs _ _ => [fs] | .op _ t f => [t, f] | .cma _ t f => [t, f] | .scalar .. => []
def Arg.meshArg : Arg → MeshArg | .field _ _ _ _ _ m => m | _ => .none
def Access.isWrite (a : Access) : Bool := a != .read

/-- order-preserving removal of duplicates (`if x not in seen: seen.append(x)`) -/
def dedupAux {α} [BEq α] (seen : List α) : List α → List α
  | [] => []
  | x :: xs => if seen.contains x then dedupAux seen xs else x :: dedupAux (x :: seen) xs
def dedup {α} [BEq α] (xs : List α) : List α := dedupAux [] xs

def Metadata.hasOperator (md : Metadata) : Bool := md.args.any fun a => a.isOp || a.isCma
def Metadata.hasCma (md : Metadata) : Bool := md.args.any Arg.isCma
def Metadata.isIntergrid (md : Metadata) : Bool := md.args.any fun a => a.meshArg != .none
/-- `kern.arguments.unique_fss` -/
def Metadata.uniqueFss (md : Metadata) : List FS := dedup (md.args.flatMap Arg.spaces)

inductive CmaOp | none | assembly | apply | matrixMatrix
  deriving DecidableEq, Repr

/-- `LFRicKernMetadata._validate_cma` on metadata it accepts -/
def Metadata.cmaOp (md : Metadata) : CmaOp :=
  let cmas := md.args.filter Arg.isCma
  if cmas.isEmpty then .none
  else if cmas.all (fun a => a.acc == .read) then .apply
  else if cmas.length == 1 then .assembly
  else .matrixMatrix

/-- `FunctionSpace.field_on_space` -/
def Metadata.fieldOnSpace (md : Metadata) (fs : FS) : Bool :=
  md.args.any fun a => a.isField && a.spaces.contains fs
/-- `FunctionSpace.cma_on_space` -/
def Metadata.cmaOnSpace (md : Metadata) (fs : FS) : Bool :=
  md.args.any fun a => a.isCma && a.spaces.contains fs
/-- `get_arg_on_space(fs).mesh == "gh_fine"` (first argument on the space) -/
def Metadata.fineSpace (md : Metadata) (fs : FS) : Bool :=
  match md.args.find? (fun a => a.spaces.contains fs) with
  | some a => a.meshArg == .fine
  | none => false
/-- is the first argument on `any_space_1` a field?  (`field_bcs_kernel` of the caller raises otherwise) -/
def Metadata.firstOnSpaceIsField (md : Metadata) (fs : FS) : Bool :=
  match md.args.find? (fun a => a.spaces.contains fs) with
  | some a => a.isField
  | none => false
def Metadata.findFunc (md : Metadata) (fs : FS) : Option Func := md.funcs.find? fun f => f.fs == fs
def Func.needs (f : Func) : Bool := f.basis || f.diff
/-- `kern._basis_required` -/
def Metadata.basisRequired (md : Metadata) : Bool := md.funcs.any Func.needs
/-- `kern.eval_shapes` (only set when a basis is required) -/
def Metadata.evalShapes (md : Metadata) : List Shape := if md.basisRequired then md.shapes else []
def Shape.isQuad : Shape → Bool | .evaluator => false | _ => true
/-- the shapes of `kern.qr_rules`, in insertion order -/
def Metadata.qrShapes (md : Metadata) : List Shape := md.evalShapes.filter Shape.isQuad
/-- `kern.eval_targets`: explicit `gh_evaluator_targets` or the (first) spaces of the written arguments -/
def Metadata.evalTargets (md : Metadata) : List FS :=
  if md.evalShapes.contains .evaluator then
    dedup (if md.targets.isEmpty then
             (md.args.filter fun a => a.acc.isWrite).flatMap fun a => a.spaces.take 1
           else md.targets)
  else []

/-! ## the leaf-method calls of `ArgOrdering.generate` -/

inductive Call
  | cellPosition | meshHeight | ncell2dNoHalos | ncell2d | cellMap
  | field (dt : DType) (acc : Access) | fieldVector (dt : DType) (acc : Access) (n : Nat)
  | stencilUnknownExtent | stencil2dUnknownExtent | stencil2dMaxExtent | stencilUnknownDirection
  | stencil | stencil2d
  | operator (acc : Access) | cmaOperator (acc : Access) (sameFs : Bool) | scalar (dt : DType) (acc : Access)
  | fsCommon | fsCompulsoryField | fsIntergrid (fine : Bool) | bandedDofmap | indirectionDofmap
  | basis | diffBasis | fieldBcs | operatorBcs
  | refElement | meshProperties | quadRule
  deriving DecidableEq, Repr

def stencilCalls : Stencil → List Call
  | .none => []
  | .cross2d => [.stencil2dUnknownExtent, .stencil2dMaxExtent, .stencil2d]
  | .xory1d => [.stencilUnknownExtent, .stencilUnknownDirection, .stencil]
  | _ => [.stencilUnknownExtent, .stencil]

def argCalls : Arg → List Call
  | .field dt vec acc _ st _ =>
    (if vec > 1 then [Call.fieldVector dt acc vec] else [Call.field dt acc]) ++ stencilCalls st
  | .op acc _ _ => [.operator acc]
  | .cma acc t f => [.cmaOperator acc (t == f)]
  | .scalar dt acc => [.scalar dt acc]

def funcCalls : Option Func → List Call
  | some f => (if f.basis then [Call.basis] else []) ++ (if f.diff then [Call.diffBasis] else [])
  | none => []

/-- body of the `for unique_fs in unique_fss` loop -/
def fsCalls (md : Metadata) (fs : FS) : List Call :=
  (if md.cmaOp != .matrixMatrix && !md.isIntergrid then [Call.fsCommon] else []) ++
  (if md.fieldOnSpace fs then
     (if md.isIntergrid then [Call.fsIntergrid (md.fineSpace fs)] else [Call.fsCompulsoryField])
   else []) ++
  (if md.cmaOnSpace fs then
     (match md.cmaOp with
      | .assembly => [Call.bandedDofmap]
      | .apply => [Call.indirectionDofmap]
      | _ => [])
   else []) ++
  funcCalls (md.findFunc fs) ++
  (if md.bc == .field && fs == anySpace1 then [Call.fieldBcs] else [])

inductive Refusal | opBcArgCount | opBcNotOperator | opBcAccess | fieldBcNotField | fieldBcNoAnySpace1
  deriving DecidableEq, Repr

/-- the `GenerationError`s raised by `generate` itself (operator boundary-condition kernel) and, for
both sides alike, by `DynBoundaryConditions` (field boundary-condition kernel without `any_space_1`) -/
def generateRefusal (md : Metadata) : Option Refusal :=
  if md.bc == .operator then
    match md.args with
    | [a] => if !a.isOp then some .opBcNotOperator
             else if a.acc != .readwrite then some .opBcAccess else none
    | _ => some .opBcArgCount
  else if md.bc == .field && !md.uniqueFss.contains anySpace1 then
    -- `DynBoundaryConditions` (used for the stub and for the invoke): "The enforce_bc_code kernel must
    -- have an argument on ANY_SPACE_1"
    some .fieldBcNoAnySpace1
  else none

/-- `ArgOrdering.generate`: the calling sequence -/
def walk (md : Metadata) : List Call :=
  (if md.hasOperator then [Call.cellPosition] else []) ++
  (if md.cmaOp != .apply && md.cmaOp != .matrixMatrix then [Call.meshHeight] else []) ++
  (if md.operatesOn == .domain then [Call.ncell2dNoHalos] else []) ++
  (if md.hasCma then [Call.ncell2d] else []) ++
  (if md.isIntergrid then [Call.cellMap] else []) ++
  md.args.flatMap argCalls ++
  md.uniqueFss.flatMap (fsCalls md) ++
  (if md.bc == .operator then [Call.operatorBcs] else []) ++
  (if !md.refelem.isEmpty then [Call.refElement] else []) ++
  (if !md.mesh.isEmpty then [Call.meshProperties] else []) ++
  (if !md.qrShapes.isEmpty then [Call.quadRule] else [])

/-! ## atoms: one appended argument each -/

inductive CmaPar | nrow | ncol | bandwidth | alpha | beta | gammaM | gammaP
  deriving DecidableEq, Repr
inductive NFaces | h | v | all
  deriving DecidableEq, Repr

inductive Atom
  | cell | nlayers | ncell2dNoHalos | ncell2d
  | cellMap | ncpcX | ncpcY | ncellF
  | fieldData (dt : DType) (acc : Access)
  | stencilSize | stencilSize2d | maxBranch | direction | stencilMap | stencilMap2d
  | opNcell3d | opData (acc : Access)
  | opProxy   -- the operator proxy object: only in the OpenACC data list, never a kernel argument
  | cmaMatrix (acc : Access) | cmaParam (p : CmaPar)
  | scalar (dt : DType) (acc : Access)
  | ndf | undf | dofmap | dofmapWhole | bandedMap | indirectionMap
  | basisQuad | basisEval | diffBasisQuad | diffBasisEval
  | boundaryDofs
  | nfacesRe (k : NFaces) | refArray (p : RefProp)
  | adjacentFace
  | npXy | npZ | weightsXy | weightsZ | nfacesQr | nedgesQr | npXyz | weightsXyz
  deriving DecidableEq, Repr

def cmaParams (sameFs : Bool) : List CmaPar :=
  if sameFs then [.nrow, .bandwidth, .alpha, .beta, .gammaM, .gammaP]
  else [.nrow, .ncol, .bandwidth, .alpha, .beta, .gammaM, .gammaP]

def RefProp.faces : RefProp → NFaces
  | .normalsH | .outH => .h
  | .normalsV | .outV => .v
  | .normalsF | .outF => .all

/-- `DynReferenceElement.kern_args_symbols`: the face counts in order of first need, then one array
per (distinct) property in metadata order -/
def refAtoms (props : List RefProp) : List Atom :=
  let ps := dedup props
  (dedup (ps.map RefProp.faces)).map Atom.nfacesRe ++ ps.map Atom.refArray

/-- `LFRicMeshProperties.kern_args` -/
def meshAtoms (md : Metadata) : List Atom :=
  (dedup md.mesh).flatMap fun
    | .adjacentFace =>
      (if md.refelem.contains .normalsH || md.refelem.contains .outH then [] else [Atom.nfacesRe .h]) ++
      [Atom.adjacentFace]

def qrAtoms : Shape → List Atom
  | .xyoz => [.npXy, .npZ, .weightsXy, .weightsZ]
  | .face => [.nfacesQr, .npXyz, .weightsXyz]
  | .edge => [.nedgesQr, .npXyz, .weightsXyz]
  | .evaluator => []

/-- basis arrays in the order of the `gh_shape` entries (stub; caller after the fix) -/
def basisByShape (md : Metadata) (quad eval : Atom) : List Atom :=
  md.evalShapes.flatMap fun s =>
    if s.isQuad then [quad] else List.replicate md.evalTargets.length eval

/-- basis arrays as the PINNED `KernCallArgList.basis` passes them: every quadrature rule first, then
the evaluator targets -/
def basisQuadFirst (md : Metadata) (quad eval : Atom) : List Atom :=
  md.qrShapes.map (fun _ => quad) ++
  (if md.evalShapes.contains .evaluator then List.replicate md.evalTargets.length eval else [])

def cellOrDomain (md : Metadata) : Bool := md.operatesOn == .cellColumn || md.operatesOn == .domain

/-- what the `KernCallArgList` override of each leaf method appends.  `pinned = true` is the code at
the pinned commit, `false` the code with `fixes/C21-basis-shape-order.patch`. -/
def callExpandWith (pinned : Bool) (md : Metadata) : Call → List Atom
  | .cellPosition => [.cell]
  | .meshHeight => if cellOrDomain md then [.nlayers] else []
  | .ncell2dNoHalos => [.ncell2dNoHalos]
  | .ncell2d => [.ncell2d]
  | .cellMap => [.cellMap, .ncpcX, .ncpcY, .ncellF]
  | .field dt acc => [.fieldData dt acc]
  | .fieldVector dt acc n => List.replicate n (.fieldData dt acc)
  | .stencilUnknownExtent => [.stencilSize]
  | .stencil2dUnknownExtent => [.stencilSize2d]
  | .stencil2dMaxExtent => [.maxBranch]
  | .stencilUnknownDirection => [.direction]
  | .stencil => [.stencilMap]
  | .stencil2d => [.stencilMap2d]
  | .operator acc => [.opNcell3d, .opData acc]
  | .cmaOperator acc same => .cmaMatrix acc :: (cmaParams same).map Atom.cmaParam
  | .scalar dt acc => [.scalar dt acc]
  | .fsCommon => if cellOrDomain md then [.ndf] else []
  | .fsCompulsoryField => [.undf, if md.operatesOn == .domain then .dofmapWhole else .dofmap]
  | .fsIntergrid fine =>
    if fine then (if cellOrDomain md then [Atom.ndf] else []) ++ [.undf, .dofmapWhole]
    else [.undf, if md.operatesOn == .domain then .dofmapWhole else .dofmap]
  | .bandedDofmap => [.bandedMap]
  | .indirectionDofmap => [.indirectionMap]
  | .basis => if pinned then basisQuadFirst md .basisQuad .basisEval else basisByShape md .basisQuad .basisEval
  | .diffBasis =>
    if pinned then basisQuadFirst md .diffBasisQuad .diffBasisEval
    else basisByShape md .diffBasisQuad .diffBasisEval
  | .fieldBcs => [.boundaryDofs]
  | .operatorBcs => [.boundaryDofs]
  | .refElement => refAtoms md.refelem
  | .meshProperties => meshAtoms md
  | .quadRule => md.qrShapes.flatMap qrAtoms

/-- the model in use: the FIXED caller -/
def callExpand (md : Metadata) : Call → List Atom := callExpandWith false md
def callExpandPinned (md : Metadata) : Call → List Atom := callExpandWith true md

/-- what `KernStubArgList` appends; `_mesh_ncell2d_no_halos`, `cell_map` and `fs_intergrid` are not
overridden and the base-class methods do nothing -/
def stubExpand (md : Metadata) : Call → List Atom
  | .cellPosition => [.cell]
  | .meshHeight => [.nlayers]
  | .ncell2dNoHalos => []
  | .ncell2d => [.ncell2d]
  | .cellMap => []
  | .field dt acc => [.fieldData dt acc]
  | .fieldVector dt acc n => List.replicate n (.fieldData dt acc)
  | .stencilUnknownExtent => [.stencilSize]
  | .stencil2dUnknownExtent => [.stencilSize2d]
  | .stencil2dMaxExtent => [.maxBranch]
  | .stencilUnknownDirection => [.direction]
  | .stencil => [.stencilMap]
  | .stencil2d => [.stencilMap2d]
  | .operator acc => [.opNcell3d, .opData acc]
  | .cmaOperator acc same => .cmaMatrix acc :: (cmaParams same).map Atom.cmaParam
  | .scalar dt acc => [.scalar dt acc]
  | .fsCommon => [.ndf]
  | .fsCompulsoryField => [.undf, .dofmap]
  | .fsIntergrid _ => []
  | .bandedDofmap => [.bandedMap]
  | .indirectionDofmap => [.indirectionMap]
  | .basis => basisByShape md .basisQuad .basisEval
  | .diffBasis => basisByShape md .diffBasisQuad .diffBasisEval
  | .fieldBcs => [.boundaryDofs]
  | .operatorBcs => [.boundaryDofs]
  | .refElement => refAtoms md.refelem
  | .meshProperties => meshAtoms md
  | .quadRule => md.qrShapes.flatMap qrAtoms

/-- what `KernCallAccArgList` (the list of variables an OpenACC data region must make available on
the device; a subclass of `KernCallArgList`) appends: whole arrays instead of sections, the
operator proxy, no scalars -/
def accExpand (md : Metadata) : Call → List Atom
  | .cellMap => [.cellMap, .cell]
  | .operator acc => [.opProxy, .opNcell3d, .opData acc]
  | .fsCompulsoryField => if md.operatesOn == .cellColumn then [.undf, .dofmapWhole] else []
  | .fsIntergrid fine =>
    if fine then [.dofmapWhole]
    else if md.operatesOn == .cellColumn then [.undf, .dofmapWhole] else []
  | .scalar _ _ => []
  | c => callExpand md c

def accArgs (md : Metadata) : List Atom := (walk md).flatMap (accExpand md)

/-- `KernCallAccArgList.cell_map` raises `InternalError` ("should have only one coarse mesh") when
more than one *argument* is on the coarse mesh -/
def accRefuses (md : Metadata) : Bool :=
  md.isIntergrid && decide ((md.args.filter fun a => a.meshArg == .coarse).length > 1)

def callArgs (md : Metadata) : List Atom := (walk md).flatMap (callExpand md)
def callArgsPinned (md : Metadata) : List Atom := (walk md).flatMap (callExpandPinned md)
def stubArgs (md : Metadata) : List Atom := (walk md).flatMap (stubExpand md)

/-- refusals of the PSy-layer side: `generate`'s own checks and `field_bcs_kernel`'s sanity check -/
def callRefusal (md : Metadata) : Option Refusal :=
  match generateRefusal md with
  | some r => some r
  | none =>
    if md.bc == .field && md.uniqueFss.contains anySpace1 && !md.firstOnSpaceIsField anySpace1
    then some .fieldBcNotField else none

inductive StubRefusal | notCellColumn | intergrid | basisOnAnySpace | generate (r : Refusal)
  deriving DecidableEq, Repr

/-- `LFRicKern.gen_stub` / `load_meta` refuse kernels that do not operate on cell columns
(`GenerationError`), inter-grid kernels (`NotImplementedError`) and basis functions on an
`any_*space_n` space (`GenerationError` from `DynBasisFunctions`) -/
def stubRefusal (md : Metadata) : Option StubRefusal :=
  if md.isIntergrid then some .intergrid
  else if md.operatesOn != .cellColumn then some .notCellColumn
  else if md.funcs.any (fun f => f.needs && f.fs ≥ anySpaceBase) then some .basisOnAnySpace
  else match generateRefusal md with
    | some r => some (.generate r)
    | none => none

/-! ## signatures -/

inductive Ty | integer | real | logical | other
  deriving DecidableEq, Repr
inductive Kind | i_def | r_def | l_def | r_solver | other
  deriving DecidableEq, Repr
inductive Intent | in_ | inout | out | none
  deriving DecidableEq, Repr

structure Sig where
  ty : Ty
  kind : Kind
  rank : Nat
  deriving DecidableEq, Repr

/-- the documented intent rule (user guide, "Argument Intents"): `gh_read` → `in`, every updating
access → `inout`; every argument that is not listed in `meta_args` is `in` -/
def Access.docIntent : Access → Intent
  | .read => .in_
  | _ => .inout

def Atom.docIntent : Atom → Intent
  | .fieldData _ a | .opData a | .cmaMatrix a | .scalar _ a => a.docIntent
  | _ => .in_

end C21
