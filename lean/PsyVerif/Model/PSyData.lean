/-! C28: model of PSyData regions (src/psyclone/psyir/nodes/psy_data_node.py,
src/psyclone/psyir/transformations/psy_data_trans.py, region_trans.py, profile_trans.py,
extract_trans.py, nan_test_trans.py, read_only_verify_trans.py).

A program is a statement tree with control transfers (EXIT, CYCLE, RETURN, GOTO/labels),
PSyData nodes (`region`) and lowered PSyData calls (`emit`).  Data is abstracted away: every
branch condition and every trip count is answered by an *oracle* `Nat → Nat` (query number ↦
answer), so "for all inputs" is "for all oracles".  Execution yields the trace of
PreStart/PostEnd events and an outcome.  Core Lean only. -/
namespace C28

/-- Run-time events: `PreStart` / `PostEnd` on the PSyData variable with id `v`. -/
inductive Ev where
  | start (v : Nat)
  | stop (v : Nat)
  deriving DecidableEq, Repr

inductive Out where
  | normal | exiting | cycling | returning
  | jumping (l : Nat)
  deriving DecidableEq, Repr

/-- The four PSyData transformations / node classes. -/
inductive Kind where
  | profile | extract | nanTest | readOnly
  deriving DecidableEq, Repr

/-- What identifies a PSyDataNode: its PSyData variable (`profile_psy_data_1`, unique in the
routine's symbol table), its class, and the user-supplied `region_name` option if any. -/
structure RInfo where
  var : Nat
  kind : Kind
  name : Option (Nat × Nat)
  deriving DecidableEq, Repr

inductive Stmt where
  | skip
  | basic (cb : Bool)        -- a step without control transfer; `cb`: it is a CodeBlock (PRINT, ...)
  | seq (a b : Stmt)
  | ite (a b : Stmt)         -- IfBlock on an abstract condition
  | loop (body : Stmt)       -- Loop / WhileLoop with an abstract trip count
  | exit | cycle | ret
  | goto (l : Nat)
  | label (l : Nat)          -- labelled CONTINUE
  | emit (e : Ev)            -- lowered `CALL var % PreStart(...)` / `CALL var % PostEnd`
  | region (r : RInfo) (body : Stmt)   -- PSyDataNode with its Schedule
  deriving DecidableEq, Repr

/-- A Schedule (statement list) as a right-nested `seq` spine. -/
def seqs : List Stmt → Stmt
  | [] => .skip
  | s :: rest => .seq s (seqs rest)

/-! ## Execution -/

structure Res where
  ev : List Ev
  out : Out
  k : Nat          -- number of oracle queries made so far
  deriving DecidableEq, Repr

/-- A statement that does nothing: in run mode it completes, while looking for label `L`
(mode `some L`) it is skipped. -/
def idle (m : Option Nat) (k : Nat) : Res :=
  ⟨[], match m with | none => .normal | some L => .jumping L, k⟩

/-- `n` iterations of a loop body; EXIT ends the loop, CYCLE ends the iteration,
RETURN and GOTO leave the loop. -/
def iter (f : Nat → Res) : Nat → Nat → Res
  | 0, k => ⟨[], .normal, k⟩
  | n+1, k =>
    let r := f k
    match r.out with
    | .normal | .cycling => let r2 := iter f n r.k; ⟨r.ev ++ r2.ev, r2.out, r2.k⟩
    | .exiting => ⟨r.ev, .normal, r.k⟩
    | _ => r

/-- Execution with oracle `o`.  Mode `none`: run.  Mode `some L`: control is looking forward
for the statement labelled `L` (after a `GOTO L`); blocks (IF, DO) cannot be jumped into, the
statements of a PSyData region are part of the enclosing statement list (that is what the
lowered code looks like), so a jump can land *inside* a region — skipping its `PreStart`.
A region whose body completes emits `PostEnd`; any other outcome of the body means that
control left the region without calling `PostEnd`. -/
def exec (o : Nat → Nat) : Stmt → Option Nat → Nat → Res
  | .skip, m, k => idle m k
  | .basic _, m, k => idle m k
  | .seq a b, m, k =>
    let r := exec o a m k
    match r.out with
    | .normal => let r2 := exec o b none r.k; ⟨r.ev ++ r2.ev, r2.out, r2.k⟩
    | .jumping L => let r2 := exec o b (some L) r.k; ⟨r.ev ++ r2.ev, r2.out, r2.k⟩
    | _ => r
  | .ite a b, none, k => if o k ≠ 0 then exec o a none (k+1) else exec o b none (k+1)
  | .ite _ _, some L, k => ⟨[], .jumping L, k⟩
  | .loop body, none, k => iter (fun k' => exec o body none k') (o k) (k+1)
  | .loop _, some L, k => ⟨[], .jumping L, k⟩
  | .exit, none, k => ⟨[], .exiting, k⟩
  | .exit, some L, k => ⟨[], .jumping L, k⟩
  | .cycle, none, k => ⟨[], .cycling, k⟩
  | .cycle, some L, k => ⟨[], .jumping L, k⟩
  | .ret, none, k => ⟨[], .returning, k⟩
  | .ret, some L, k => ⟨[], .jumping L, k⟩
  | .goto l, none, k => ⟨[], .jumping l, k⟩
  | .goto _, some L, k => ⟨[], .jumping L, k⟩
  | .label _, none, k => ⟨[], .normal, k⟩
  | .label l, some L, k => if l = L then ⟨[], .normal, k⟩ else ⟨[], .jumping L, k⟩
  | .emit e, none, k => ⟨[e], .normal, k⟩
  | .emit _, some L, k => ⟨[], .jumping L, k⟩
  | .region r body, m, k =>
    let res := exec o body m k
    let pre := match m with | none => [Ev.start r.var] | some _ => []
    match res.out with
    | .normal => ⟨pre ++ res.ev ++ [Ev.stop r.var], .normal, res.k⟩
    | _ => ⟨pre ++ res.ev, res.out, res.k⟩

/-- One execution of a routine body. -/
def run (o : Nat → Nat) (p : Stmt) : Res := exec o p none 0

/-- `PSyDataNode.lower_to_language_level`: the node is replaced by the `PreStart` call, its
children, and the `PostEnd` call (the declaration/provide calls in between are straight-line
and are not events). -/
def lower : Stmt → Stmt
  | .seq a b => .seq (lower a) (lower b)
  | .ite a b => .ite (lower a) (lower b)
  | .loop b => .loop (lower b)
  | .region r b => .seq (.emit (.start r.var)) (.seq (lower b) (.emit (.stop r.var)))
  | s => s

/-! ## Matched pairs -/

/-- Stack discipline check: every `stop v` closes the innermost open `start v`, and nothing is
left open at the end. -/
def dyckCheck : List Nat → List Ev → Bool
  | st, [] => st.isEmpty
  | st, .start v :: w => dyckCheck (v :: st) w
  | [], .stop _ :: _ => false
  | t :: st, .stop v :: w => t == v && dyckCheck st w

/-! ## validate -/

/-- Labels used by the GOTOs of a program. -/
def targets : Stmt → List Nat
  | .seq a b => targets a ++ targets b
  | .ite a b => targets a ++ targets b
  | .loop b => targets b
  | .region _ b => targets b
  | .goto l => [l]
  | _ => []

/-- The FIXED refusal rule of `PSyDataTrans.validate` for the statements of a region
(`inLoop`: we are inside a loop that is itself inside the region; `T`: labels used by the
GOTOs of the routine): no RETURN (`excluded_node_types` for PSyIR Return nodes; `_leaves_region`
for RETURN statements inside CodeBlocks, fixes/C28-return-in-codeblock.patch), no GOTO, no
statement that is the target of a GOTO, no EXIT/CYCLE that does not belong to a loop inside the
region.  The harness opens the fparser2 tree of every CodeBlock (ASSOCIATE/BLOCK bodies are
statements of the enclosing list, IF/SELECT CASE are `ite`, DO constructs are `loop`), so this
function sees the same structure as `_leaves_region`. -/
def safe (T : List Nat) : Bool → Stmt → Bool
  | _, .skip => true
  | _, .basic _ => true
  | _, .emit _ => true
  | d, .seq a b => safe T d a && safe T d b
  | d, .ite a b => safe T d a && safe T d b
  | _, .loop b => safe T true b
  | d, .exit => d
  | d, .cycle => d
  | _, .ret => false
  | _, .goto _ => false
  | _, .label l => !T.contains l
  | d, .region _ b => safe T d b

/-- The PINNED rule: `excluded_node_types = (Return,)` only. -/
def safePinned : Stmt → Bool
  | .seq a b => safePinned a && safePinned b
  | .ite a b => safePinned a && safePinned b
  | .loop b => safePinned b
  | .region _ b => safePinned b
  | .ret => false
  | _ => true

/-- Contains a CodeBlock (EXIT, CYCLE, GOTO, labelled statements and lowered PSyData calls are
CodeBlocks in this PSyclone version) or an ExtractNode: `ExtractTrans.excluded_node_types`. -/
def extractExcluded : Stmt → Bool
  | .seq a b => extractExcluded a || extractExcluded b
  | .ite a b => extractExcluded a || extractExcluded b
  | .loop b => extractExcluded b
  | .region r b => r.kind == .extract || extractExcluded b
  | .basic cb => cb
  | .exit | .cycle | .goto _ | .label _ | .emit _ => true
  | _ => false

inductive Verdict where
  | ok | empty | transfer | excluded
  deriving DecidableEq, Repr

/-- `validate` of the four transformations on a list of consecutive statements of one
Schedule (the other refusals of the real code concern directives, symbol-name clashes and
malformed node lists, which the generated programs do not contain). -/
def validate (kind : Kind) (T : List Nat) (mid : List Stmt) : Verdict :=
  if mid.isEmpty then .empty
  else if !safe T false (seqs mid) then .transfer
  else if kind == .extract && extractExcluded (seqs mid) then .excluded
  else .ok

/-- The same with the pinned rule. -/
def validatePinned (kind : Kind) (mid : List Stmt) : Verdict :=
  if mid.isEmpty then .empty
  else if kind == .extract && extractExcluded (seqs mid) then .excluded
  else if kind != .extract && !safePinned (seqs mid) then .excluded
  else .ok

/-! ## apply -/

/-- Where in the tree the Schedule that is being instrumented sits. -/
inductive Ctx where
  | hole
  | seqL (c : Ctx) (b : Stmt)
  | seqR (a : Stmt) (c : Ctx)
  | iteT (c : Ctx) (b : Stmt)
  | iteE (a : Stmt) (c : Ctx)
  | loopB (c : Ctx)
  | regionB (r : RInfo) (c : Ctx)
  deriving Repr

def plug : Ctx → Stmt → Stmt
  | .hole, s => s
  | .seqL c b, s => .seq (plug c s) b
  | .seqR a c, s => .seq a (plug c s)
  | .iteT c b, s => .ite (plug c s) b
  | .iteE a c, s => .ite a (plug c s)
  | .loopB c, s => .loop (plug c s)
  | .regionB r c, s => .region r (plug c s)

/-- `PSyDataTrans.apply`: the statements `mid` (between `pre` and `post` in their Schedule) are
detached and become the body of a new PSyData node inserted at their position. -/
def wrapped (c : Ctx) (pre mid post : List Stmt) (r : RInfo) : Stmt :=
  plug c (seqs (pre ++ [Stmt.region r (seqs mid)] ++ post))

def original (c : Ctx) (pre mid post : List Stmt) : Stmt :=
  plug c (seqs (pre ++ mid ++ post))

def applyAt (c : Ctx) (pre mid post : List Stmt) (r : RInfo) : Except Verdict Stmt :=
  match validate r.kind (targets (original c pre mid post)) mid with
  | .ok => .ok (wrapped c pre mid post r)
  | v => .error v

def applyAtPinned (c : Ctx) (pre mid post : List Stmt) (r : RInfo) : Except Verdict Stmt :=
  match validatePinned r.kind mid with
  | .ok => .ok (wrapped c pre mid post r)
  | v => .error v

/-! ## Region names -/

/-- PSyData nodes of a routine in pre-order (`routine.walk(PSyDataNode)`). -/
def regions : Stmt → List RInfo
  | .seq a b => regions a ++ regions b
  | .ite a b => regions a ++ regions b
  | .loop b => regions b
  | .region r b => r :: regions b
  | _ => []

/-- A region name as passed to `PreStart(module, region)`. -/
inductive RName where
  | user (m r : Nat)            -- `options["region_name"]`
  | auto (routine idx : Nat)    -- `(routine.name, f"r{idx}")`
  deriving DecidableEq, Repr

/-- `lower_to_language_level`: without a user-supplied name the region is called `r<idx>` where
`idx` is the number of PSyData regions (nodes or already lowered `PreStart` calls) that precede
it in a pre-order walk of the routine; the module name is the routine name. -/
def nameFrom (routine : Nat) : Nat → List RInfo → List RName
  | _, [] => []
  | i, r :: rest =>
    (match r.name with
     | some (m, n) => RName.user m n
     | none => RName.auto routine i) :: nameFrom routine (i+1) rest

def loweredNames (routine : Nat) (p : Stmt) : List RName := nameFrom routine 0 (regions p)

def isAuto : RName → Bool
  | .auto _ _ => true
  | _ => false

/-- `PSyDataTrans._used_kernel_names`: key (module, region-base) ↦ number of regions created. -/
abbrev Table := List ((Nat × Nat) × Nat)

def Table.get (t : Table) (key : Nat × Nat) : Nat :=
  match t with
  | [] => 0
  | (k, n) :: rest => if k = key then n else Table.get rest key

def Table.set (t : Table) (key : Nat × Nat) (v : Nat) : Table :=
  match t with
  | [] => [(key, v)]
  | (k, n) :: rest => if k = key then (k, v) :: rest else (k, n) :: Table.set rest key v

/-- A request to `get_unique_region_name`: either the user supplied `region_name`, or the
module name and the base (invoke name, plus the kernel name if the region has exactly one
kernel) computed from the nodes. -/
inductive Req where
  | user (m r : Nat)
  | auto (module base : Nat)
  deriving DecidableEq, Repr

/-- A generated name `(module, f"{base}:r{idx}")`. -/
inductive GName where
  | user (m r : Nat)
  | gen (module base idx : Nat)
  deriving DecidableEq, Repr

def uniqueName (t : Table) : Req → GName × Table
  | .user m r => (.user m r, t)
  | .auto m b => let idx := t.get (m, b); (.gen m b idx, t.set (m, b) (idx + 1))

def uniqueNames : Table → List Req → List GName
  | _, [] => []
  | t, q :: rest => let (n, t') := uniqueName t q; n :: uniqueNames t' rest

def GName.isGen : GName → Bool
  | .gen _ _ _ => true
  | _ => false

end C28
