/-! C28: model of PSyData regions (src/psyclone/psyir/nodes/psy_data_node.py,
src/psyclone/psyir/transformations/psy_data_trans.py, region_trans.py, profile_trans.py,
extract_trans.py, nan_test_trans.py, read_only_verify_trans.py).

A program is a statement tree with control transfers (EXIT, CYCLE, RETURN, GOTO/labels),
PSyData nodes (`region`) and lowered PSyData calls (`emit`).  Data is abstracted away: every
branch condition and every trip count is answered by an *oracle* `Nat → Nat` (query number ↦
answer), so "for all inputs" is "for all oracles".  Execution yields the trace of
PreStart/PostEnd events and an outcome.  Core Lean only. -/
namespace C28

/-- Run-time events: `PreStart` / `PostEnd` on the PSyData variable with id `v`. -/
inductive Ev where
  | start (v : Nat)
  | stop (v : Nat)
  deriving DecidableEq, Repr

/-- `exiting n` / `cycling n`: an EXIT / CYCLE is under way that belongs to the loop `n` levels
above the innermost enclosing loop (construct names: `EXIT outer`). -/
inductive Out where
  | normal | returning
  | exiting (n : Nat)
  | cycling (n : Nat)
  | jumping (l : Nat)
  deriving DecidableEq, Repr

/-- Directives with a body (semantically transparent for a serial execution). -/
inductive Dir where
  | ompParallel | ompDo | ompParallelDo | accParallel | accLoop | accKernels
  deriving DecidableEq, Repr

/-- `isinstance(d, (OMPDoDirective, ACCLoopDirective))` -/
def Dir.isLoopDir : Dir → Bool
  | .ompDo | .ompParallelDo | .accLoop => true
  | _ => false
/-- `isinstance(d, ACCDirective)` -/
def Dir.isAcc : Dir → Bool
  | .accParallel | .accLoop | .accKernels => true
  | _ => false
/-- `isinstance(d, (OMPParallelDirective, ACCParallelDirective))` -/
def Dir.isParallel : Dir → Bool
  | .ompParallel | .ompParallelDo | .accParallel => true
  | _ => false

/-- The four PSyData transformations / node classes. -/
inductive Kind where
  | profile | extract | nanTest | readOnly
  deriving DecidableEq, Repr

/-- What identifies a PSyDataNode: its PSyData variable (`profile_psy_data_1`, unique in the
routine's symbol table), its class, and the user-supplied `region_name` option if any. -/
structure RInfo where
  var : Nat
  kind : Kind
  name : Option (Nat × Nat)
  deriving DecidableEq, Repr

inductive Stmt where
  | skip
  | basic (cb : Bool)        -- a step without control transfer; `cb`: it is a CodeBlock (PRINT, ...)
  | seq (a b : Stmt)
  | ite (a b : Stmt)         -- IfBlock on an abstract condition
  | loop (psy : Bool) (body : Stmt)  -- loop with an abstract trip count; `psy`: it is a PSyIR `Loop` node
                             -- (not a WhileLoop, not a DO construct inside a CodeBlock)
  | exit (n : Nat)           -- EXIT of the loop `n` levels above the innermost one
  | cycle (n : Nat)
  | ret (cb : Bool)          -- RETURN; `cb`: a Return_Stmt inside a CodeBlock (not a PSyIR Return node)
  | dir (d : Dir) (body : Stmt)      -- directive with its body
  | goto (l : Nat)
  | label (l : Nat)          -- labelled CONTINUE
  | emit (e : Ev)            -- lowered `CALL var % PreStart(...)` / `CALL var % PostEnd`
  | region (r : RInfo) (body : Stmt)   -- PSyDataNode with its Schedule
  deriving DecidableEq, Repr

/-- A Schedule (statement list) as a right-nested `seq` spine. -/
def seqs : List Stmt → Stmt
  | [] => .skip
  | s :: rest => .seq s (seqs rest)

/-! ## Execution -/

structure Res where
  ev : List Ev
  out : Out
  k : Nat          -- number of oracle queries made so far
  deriving DecidableEq, Repr

/-- A statement that does nothing: in run mode it completes, while looking for label `L`
(mode `some L`) it is skipped. -/
def idle (m : Option Nat) (k : Nat) : Res :=
  ⟨[], match m with | none => .normal | some L => .jumping L, k⟩

/-- `n` iterations of a loop body; an EXIT of this loop ends it, a CYCLE of this loop ends the
iteration, EXIT/CYCLE of an outer loop, RETURN and GOTO leave the loop. -/
def iter (f : Nat → Res) : Nat → Nat → Res
  | 0, k => ⟨[], .normal, k⟩
  | n+1, k =>
    let r := f k
    match r.out with
    | .normal => let r2 := iter f n r.k; ⟨r.ev ++ r2.ev, r2.out, r2.k⟩
    | .cycling 0 => let r2 := iter f n r.k; ⟨r.ev ++ r2.ev, r2.out, r2.k⟩
    | .cycling (j+1) => ⟨r.ev, .cycling j, r.k⟩
    | .exiting 0 => ⟨r.ev, .normal, r.k⟩
    | .exiting (j+1) => ⟨r.ev, .exiting j, r.k⟩
    | _ => r

/-- Execution with oracle `o`.  Mode `none`: run.  Mode `some L`: control is looking forward
for the statement labelled `L` (after a `GOTO L`); blocks (IF, DO) cannot be jumped into, the
statements of a PSyData region are part of the enclosing statement list (that is what the
lowered code looks like), so a jump can land *inside* a region — skipping its `PreStart`.
A region whose body completes emits `PostEnd`; any other outcome of the body means that
control left the region without calling `PostEnd`. -/
def exec (o : Nat → Nat) : Stmt → Option Nat → Nat → Res
  | .skip, m, k => idle m k
  | .basic _, m, k => idle m k
  | .seq a b, m, k =>
    let r := exec o a m k
    match r.out with
    | .normal => let r2 := exec o b none r.k; ⟨r.ev ++ r2.ev, r2.out, r2.k⟩
    | .jumping L => let r2 := exec o b (some L) r.k; ⟨r.ev ++ r2.ev, r2.out, r2.k⟩
    | _ => r
  | .ite a b, none, k => if o k ≠ 0 then exec o a none (k+1) else exec o b none (k+1)
  | .ite _ _, some L, k => ⟨[], .jumping L, k⟩
  | .loop _ body, none, k => iter (fun k' => exec o body none k') (o k) (k+1)
  | .loop _ _, some L, k => ⟨[], .jumping L, k⟩
  | .dir _ body, none, k => exec o body none k
  | .dir _ _, some L, k => ⟨[], .jumping L, k⟩
  | .exit n, none, k => ⟨[], .exiting n, k⟩
  | .exit _, some L, k => ⟨[], .jumping L, k⟩
  | .cycle n, none, k => ⟨[], .cycling n, k⟩
  | .cycle _, some L, k => ⟨[], .jumping L, k⟩
  | .ret _, none, k => ⟨[], .returning, k⟩
  | .ret _, some L, k => ⟨[], .jumping L, k⟩
  | .goto l, none, k => ⟨[], .jumping l, k⟩
  | .goto _, some L, k => ⟨[], .jumping L, k⟩
  | .label _, none, k => ⟨[], .normal, k⟩
  | .label l, some L, k => if l = L then ⟨[], .normal, k⟩ else ⟨[], .jumping L, k⟩
  | .emit e, none, k => ⟨[e], .normal, k⟩
  | .emit _, some L, k => ⟨[], .jumping L, k⟩
  | .region r body, m, k =>
    let res := exec o body m k
    let pre := match m with | none => [Ev.start r.var] | some _ => []
    match res.out with
    | .normal => ⟨pre ++ res.ev ++ [Ev.stop r.var], .normal, res.k⟩
    | _ => ⟨pre ++ res.ev, res.out, res.k⟩

/-- One execution of a routine body. -/
def run (o : Nat → Nat) (p : Stmt) : Res := exec o p none 0

/-- `PSyDataNode.lower_to_language_level`: the node is replaced by the `PreStart` call, its
children, and the `PostEnd` call (the declaration/provide calls in between are straight-line
and are not events). -/
def lower : Stmt → Stmt
  | .seq a b => .seq (lower a) (lower b)
  | .ite a b => .ite (lower a) (lower b)
  | .loop p b => .loop p (lower b)
  | .dir d b => .dir d (lower b)
  | .region r b => .seq (.emit (.start r.var)) (.seq (lower b) (.emit (.stop r.var)))
  | s => s

/-! ## Matched pairs -/

/-- Stack discipline check: every `stop v` closes the innermost open `start v`, and nothing is
left open at the end. -/
def dyckCheck : List Nat → List Ev → Bool
  | st, [] => st.isEmpty
  | st, .start v :: w => dyckCheck (v :: st) w
  | [], .stop _ :: _ => false
  | t :: st, .stop v :: w => t == v && dyckCheck st w

/-! ## validate -/

/-- Labels used by the GOTOs of a program. -/
def targets : Stmt → List Nat
  | .seq a b => targets a ++ targets b
  | .ite a b => targets a ++ targets b
  | .loop _ b => targets b
  | .dir _ b => targets b
  | .region _ b => targets b
  | .goto l => [l]
  | _ => []

/-- The FIXED refusal rule of `PSyDataTrans.validate` for the statements of a region (`d`: number
of loops that enclose the statement and are themselves inside the region; `T`: labels used by the
GOTOs of the routine): no RETURN (`excluded_node_types` for PSyIR Return nodes — skipped when
`allowRet`, i.e. with `options["node-type-check"] = False`; `_leaves_region` for RETURN statements
inside CodeBlocks, always), no GOTO, no statement that is the target of a GOTO, no EXIT/CYCLE
(plain or with a construct name) that does not belong to a loop inside the region.  The harness
opens the fparser2 tree of every CodeBlock (ASSOCIATE/BLOCK bodies are statements of the enclosing
list, IF/SELECT CASE are `ite`, DO constructs are `loop`), so this function sees the same structure
as `_leaves_region`. -/
def safe (allowRet : Bool) (T : List Nat) : Nat → Stmt → Bool
  | _, .skip => true
  | _, .basic _ => true
  | _, .emit _ => true
  | d, .seq a b => safe allowRet T d a && safe allowRet T d b
  | d, .ite a b => safe allowRet T d a && safe allowRet T d b
  | d, .loop _ b => safe allowRet T (d+1) b
  | d, .dir _ b => safe allowRet T d b
  | d, .exit n => decide (n < d)
  | d, .cycle n => decide (n < d)
  | _, .ret cb => allowRet && !cb
  | _, .goto _ => false
  | _, .label l => !T.contains l
  | d, .region _ b => safe allowRet T d b

/-- The PINNED rule (before the fixes): `excluded_node_types = (Return,)` only. -/
def safePinned : Stmt → Bool
  | .seq a b => safePinned a && safePinned b
  | .ite a b => safePinned a && safePinned b
  | .loop _ b => safePinned b
  | .dir _ b => safePinned b
  | .region _ b => safePinned b
  | .ret cb => cb
  | _ => true

/-- Contains a CodeBlock (EXIT, CYCLE, GOTO, labelled statements and lowered PSyData calls are
CodeBlocks in this PSyclone version) or an ExtractNode: `ExtractTrans.excluded_node_types`. -/
def extractExcluded : Stmt → Bool
  | .seq a b => extractExcluded a || extractExcluded b
  | .ite a b => extractExcluded a || extractExcluded b
  | .loop _ b => extractExcluded b
  | .dir _ b => extractExcluded b
  | .region r b => r.kind == .extract || extractExcluded b
  | .basic cb => cb
  | .ret cb => cb
  | .exit _ | .cycle _ | .goto _ | .label _ | .emit _ => true
  | _ => false

/-! ## where a region is placed -/

/-- Where in the tree the Schedule that is being instrumented sits. -/
inductive Ctx where
  | hole
  | seqL (c : Ctx) (b : Stmt)
  | seqR (a : Stmt) (c : Ctx)
  | iteT (c : Ctx) (b : Stmt)
  | iteE (a : Stmt) (c : Ctx)
  | loopB (psy : Bool) (c : Ctx)
  | dirB (d : Dir) (c : Ctx)
  | regionB (r : RInfo) (c : Ctx)
  deriving Repr

def plug : Ctx → Stmt → Stmt
  | .hole, s => s
  | .seqL c b, s => .seq (plug c s) b
  | .seqR a c, s => .seq a (plug c s)
  | .iteT c b, s => .ite (plug c s) b
  | .iteE a c, s => .ite a (plug c s)
  | .loopB p c, s => .loop p (plug c s)
  | .dirB d c, s => .dir d (plug c s)
  | .regionB r c, s => .region r (plug c s)

/-- The directives that enclose the hole, innermost last. -/
def ancestorDirs : Ctx → List Dir
  | .hole => []
  | .seqL c _ => ancestorDirs c
  | .seqR _ c => ancestorDirs c
  | .iteT c _ => ancestorDirs c
  | .iteE _ c => ancestorDirs c
  | .loopB _ c => ancestorDirs c
  | .dirB d c => d :: ancestorDirs c
  | .regionB _ c => ancestorDirs c

/-- `node_list[0].parent.parent` when it is a directive: the hole is the directive's own body. -/
def parentDir : Ctx → Option Dir
  | .hole => none
  | .seqL c _ => parentDir c
  | .seqR _ c => parentDir c
  | .iteT c _ => parentDir c
  | .iteE _ c => parentDir c
  | .loopB _ c => parentDir c
  | .dirB d .hole => some d
  | .dirB _ c => parentDir c
  | .regionB _ c => parentDir c

def isPsyLoop : Stmt → Bool
  | .loop psy _ => psy
  | _ => false

/-! ## validate -/

inductive Verdict where
  | ok | empty | directive | option | clash | transfer | excluded
  deriving DecidableEq, Repr

/-- The options that matter: `options["node-type-check"]`, whether `options["prefix"]` (if given)
is one of the configured PSyData prefixes, whether `options["region_name"]` (if given) is a pair of
non-empty strings. -/
structure Opts where
  typeCheck : Bool := true
  prefixOK : Bool := true
  nameOK : Bool := true
  deriving DecidableEq, Repr

/-- Refusals that depend on the directives around the placement.
`PSyDataTrans.validate`: not directly inside an `OMPDoDirective`/`ACCLoopDirective`, not inside any
`ACCDirective`.  `ExtractTrans`/`ReadOnlyVerifyTrans`/`NanTestTrans.validate`: no `Loop` that is a
direct child of a directive's body, not inside an OpenMP/OpenACC parallel region. -/
def dirRefused (kind : Kind) (c : Ctx) (mid : List Stmt) : Bool :=
  (match parentDir c with | some d => d.isLoopDir | none => false)
  || (ancestorDirs c).any Dir.isAcc
  || (kind != .profile &&
      (((parentDir c).isSome && mid.any isPsyLoop) || (ancestorDirs c).any Dir.isParallel))

/-- `validate` of the four transformations on a list `mid` of consecutive statements of the
Schedule at `c`.  `clash`: the symbol table already has a symbol (without the PSyData tag) whose
name is that of the PSyData type or module of this transformation.  With
`options["node-type-check"] = False` the `excluded_node_types` test is skipped (the user takes
responsibility), but not the control-transfer test of the CodeBlocks. -/
def validate (kind : Kind) (opts : Opts) (clash : Bool) (T : List Nat) (c : Ctx) (mid : List Stmt) :
    Verdict :=
  if mid.isEmpty then .empty
  else if dirRefused kind c mid then .directive
  else if !opts.nameOK || !opts.prefixOK then .option
  else if clash then .clash
  else if !safe (!opts.typeCheck) T 0 (seqs mid) then .transfer
  else if opts.typeCheck && kind == .extract && extractExcluded (seqs mid) then .excluded
  else .ok

/-- The same with the pinned rule (before fixes/C28-*.patch). -/
def validatePinned (kind : Kind) (opts : Opts) (clash : Bool) (c : Ctx) (mid : List Stmt) : Verdict :=
  if mid.isEmpty then .empty
  else if dirRefused kind c mid then .directive
  else if !opts.nameOK || !opts.prefixOK then .option
  else if clash then .clash
  else if opts.typeCheck && kind == .extract && extractExcluded (seqs mid) then .excluded
  else if opts.typeCheck && kind != .extract && !safePinned (seqs mid) then .excluded
  else .ok

/-! ## apply -/

/-- Ids of the PSyData variables that occur in a program (nodes and lowered calls). -/
def usedVars : Stmt → List Nat
  | .seq a b => usedVars a ++ usedVars b
  | .ite a b => usedVars a ++ usedVars b
  | .loop _ b => usedVars b
  | .dir _ b => usedVars b
  | .region r b => r.var :: usedVars b
  | .emit (.start v) => [v]
  | .emit (.stop v) => [v]
  | _ => []

def kindNum : Kind → Nat
  | .profile => 0 | .extract => 1 | .nanTest => 2 | .readOnly => 3

/-- `symbol_table.next_available_name("<prefix>_psy_data")`: the variable `<prefix>_psy_data` has id
`kind`, `<prefix>_psy_data_n` has id `4*n + kind`; the first `n` whose name is free is taken. -/
def firstFree (kind : Nat) (used : List Nat) : Nat → Nat → Nat
  | 0, n => 4 * (n + used.foldl max 0 + 1) + kind     -- not reached: `fuel = used.length + 1`
  | fuel+1, n => if used.contains (4 * n + kind) then firstFree kind used fuel (n+1) else 4 * n + kind

def nextVar (kind : Kind) (used : List Nat) : Nat := firstFree (kindNum kind) used (used.length + 1) 0

/-- `PSyDataTrans.apply`: the statements `mid` (between `pre` and `post` in their Schedule) are
detached and become the body of a new PSyData node inserted at their position. -/
def wrapped (c : Ctx) (pre mid post : List Stmt) (r : RInfo) : Stmt :=
  plug c (seqs (pre ++ [Stmt.region r (seqs mid)] ++ post))

def original (c : Ctx) (pre mid post : List Stmt) : Stmt :=
  plug c (seqs (pre ++ mid ++ post))

def newRegion (c : Ctx) (pre mid post : List Stmt) (kind : Kind) (name : Option (Nat × Nat)) : RInfo :=
  ⟨nextVar kind (usedVars (original c pre mid post)), kind, name⟩

def applyAt (c : Ctx) (pre mid post : List Stmt) (kind : Kind) (name : Option (Nat × Nat))
    (opts : Opts) (clash : Bool) : Except Verdict Stmt :=
  match validate kind opts clash (targets (original c pre mid post)) c mid with
  | .ok => .ok (wrapped c pre mid post (newRegion c pre mid post kind name))
  | v => .error v

def applyAtPinned (c : Ctx) (pre mid post : List Stmt) (kind : Kind) (name : Option (Nat × Nat))
    (opts : Opts) (clash : Bool) : Except Verdict Stmt :=
  match validatePinned kind opts clash c mid with
  | .ok => .ok (wrapped c pre mid post (newRegion c pre mid post kind name))
  | v => .error v

/-! ## Region names -/

/-- PSyData nodes of a routine in pre-order (`routine.walk(PSyDataNode)`). -/
def regions : Stmt → List RInfo
  | .seq a b => regions a ++ regions b
  | .ite a b => regions a ++ regions b
  | .loop _ b => regions b
  | .dir _ b => regions b
  | .region r b => r :: regions b
  | _ => []

/-- A region name as passed to `PreStart(module, region)`. -/
inductive RName where
  | user (m r : Nat)            -- `options["region_name"]`
  | auto (routine idx : Nat)    -- `(routine.name, f"r{idx}")`
  deriving DecidableEq, Repr

/-- `lower_to_language_level`: without a user-supplied name the region is called `r<idx>` where
`idx` is the number of PSyData regions (nodes or already lowered `PreStart` calls) that precede
it in a pre-order walk of the routine; the module name is the routine name. -/
def nameFrom (routine : Nat) : Nat → List RInfo → List RName
  | _, [] => []
  | i, r :: rest =>
    (match r.name with
     | some (m, n) => RName.user m n
     | none => RName.auto routine i) :: nameFrom routine (i+1) rest

def loweredNames (routine : Nat) (p : Stmt) : List RName := nameFrom routine 0 (regions p)

def isAuto : RName → Bool
  | .auto _ _ => true
  | _ => false

/-- `PSyDataTrans._used_kernel_names`: key (module, region-base) ↦ number of regions created. -/
abbrev Table := List ((Nat × Nat) × Nat)

def Table.get (t : Table) (key : Nat × Nat) : Nat :=
  match t with
  | [] => 0
  | (k, n) :: rest => if k = key then n else Table.get rest key

def Table.set (t : Table) (key : Nat × Nat) (v : Nat) : Table :=
  match t with
  | [] => [(key, v)]
  | (k, n) :: rest => if k = key then (k, v) :: rest else (k, n) :: Table.set rest key v

/-- A request to `get_unique_region_name`: either the user supplied `region_name`, or the
module name and the base (invoke name, plus the kernel name if the region has exactly one
kernel) computed from the nodes. -/
inductive Req where
  | user (m r : Nat)
  | auto (module base : Nat)
  deriving DecidableEq, Repr

/-- A generated name `(module, f"{base}:r{idx}")`. -/
inductive GName where
  | user (m r : Nat)
  | gen (module base idx : Nat)
  deriving DecidableEq, Repr

def uniqueName (t : Table) : Req → GName × Table
  | .user m r => (.user m r, t)
  | .auto m b => let idx := t.get (m, b); (.gen m b idx, t.set (m, b) (idx + 1))

def uniqueNames : Table → List Req → List GName
  | _, [] => []
  | t, q :: rest => let (n, t') := uniqueName t q; n :: uniqueNames t' rest

def GName.isGen : GName → Bool
  | .gen _ _ _ => true
  | _ => false

/-- `PSyDataNode.gen_code` (PSyKAl code generation): the module name is the PSy-layer module,
the region is `f"{base}:r{idx}"` where `base` is the invoke name (plus the kernel name if the node
contains exactly one kernel) and `idx` is the position of the node among all PSyData nodes of the
PSy-layer tree (`self.root.walk(PSyDataNode)`), unless the node carries a user-supplied name
(which `GOceanExtractTrans`/`LFRicExtractTrans` obtain from `get_unique_region_name`). -/
def genCodeNamesFrom (module : Nat) : Nat → List (Option (Nat × Nat) × Nat) → List GName
  | _, [] => []
  | i, (some (m, r), _) :: rest => GName.user m r :: genCodeNamesFrom module (i+1) rest
  | i, (none, base) :: rest => GName.gen module base i :: genCodeNamesFrom module (i+1) rest

def genCodeNames (module : Nat) (nodes : List (Option (Nat × Nat) × Nat)) : List GName :=
  genCodeNamesFrom module 0 nodes

end C28
