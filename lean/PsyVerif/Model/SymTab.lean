/-! C16: model of `SymbolTable` (src/psyclone/psyir/symbols/symbol_table.py) and of the scope
walk it performs over `ScopingNode`s (src/psyclone/psyir/nodes/scoping_node.py).

* Names are lists of ASCII codes (`List Nat`); `lower` is Python's `str.lower()` on ASCII.
* A table is an association list `normalised key ↦ symbol record` in insertion order (Python
  `OrderedDict`), a tag map, an argument list and the scope node it is attached to.  Symbol records
  are stored by value and carry the identity (`id`) of the Python object.  This is faithful as long as
  a Symbol object is an entry of at most one table that is still used (ownership discipline of the
  histories, see Props/C16.lean); the table passed to a successful `merge` is emptied by the model.
* Every operation mirrors the order of the checks of the Python method, the exception class it
  raises, and whatever it has already mutated when it raises.
Core Lean only. -/
namespace C16

abbrev Name := List Nat

/-- `str.lower()` on ASCII codes. -/
def lowerC (c : Nat) : Nat := if 65 ≤ c ∧ c ≤ 90 then c + 32 else c
def lower (n : Name) : Name := n.map lowerC

/-- `str(idx)` as ASCII codes. -/
def digits (n : Nat) : Name := (Nat.toDigits 10 n).map Char.toNat

/-- Candidate names of `next_available_name`: `root`, `root_1`, `root_2`, … -/
def cand (root : Name) : Nat → Name
  | 0 => root
  | i+1 => root ++ 95 :: digits (i+1)

inductive Kind where
  | generic | data | routine | container | intrinsic | datatype
  deriving DecidableEq, Repr, Inhabited

/-- `isinstance(sym_of_kind k, class_of_kind c)` -/
def Kind.isa (k c : Kind) : Bool :=
  match c with
  | .generic => true
  | .routine => k == .routine || k == .intrinsic
  | c => k == c

inductive Iface where
  | automatic | argument | unresolved | static | commonblock
  /-- `ImportInterface(container_symbol, orig_name)`: identity and (immutable) name of the container symbol -/
  | imp (cid : Nat) (cname : Name) (orig : Option Name)
  deriving DecidableEq, Repr, Inhabited

def Iface.isImport : Iface → Bool
  | .imp .. => true
  | _ => false

/-- `ImportInterface.__eq__`: container names and orig_names compared case-insensitively. -/
def Iface.importEq : Iface → Iface → Bool
  | .imp _ c1 o1, .imp _ c2 o2 => lower c1 == lower c2 && lower (o1.getD []) == lower (o2.getD [])
  | _, _ => false

structure Sym where
  id : Nat
  name : Name
  kind : Kind
  iface : Iface
  wild : Bool := false
  deriving DecidableEq, Repr, Inhabited

inductive Err where
  | key | value | symbol | type | notimpl | internal
  deriving DecidableEq, Repr, Inhabited

abbrev Ents := List (Name × Sym)

structure Table where
  ents : Ents := []
  tags : List (Name × Nat) := []
  args : List Nat := []
  node : Option Nat := none
  deriving DecidableEq, Repr, Inhabited

/-! ### association-list primitives (Python dict operations) -/

def hasKey : Ents → Name → Bool
  | [], _ => false
  | (k, _) :: r, x => k == x || hasKey r x

def getKey : Ents → Name → Option Sym
  | [], _ => none
  | (k, s) :: r, x => if k == x then some s else getKey r x

def delKey : Ents → Name → Ents
  | [], _ => []
  | (k, s) :: r, x => if k == x then r else (k, s) :: delKey r x

def keys (e : Ents) : List Name := e.map Prod.fst
def ids (e : Ents) : List Nat := e.map (·.2.id)

def getId : Ents → Nat → Option Sym
  | [], _ => none
  | (_, s) :: r, i => if s.id == i then some s else getId r i

/-- mutate in place the symbol object stored under key `x` -/
def updKey : Ents → Name → (Sym → Sym) → Ents
  | [], _, _ => []
  | (k, s) :: r, x, f => if k == x then (k, f s) :: r else (k, s) :: updKey r x f

def tagGet : List (Name × Nat) → Name → Option Nat
  | [], _ => none
  | (g, i) :: r, x => if g == x then some i else tagGet r x

/-! ### the scope tree (static) and the walk of `parent_symbol_table` -/

structure NodeInfo where
  /-- proper ancestors, nearest first -/
  anc : List Nat
  /-- is a `ScopingNode` (has the attribute `symbol_table`) -/
  scoping : Bool
  deriving Repr, Inhabited

structure State where
  tabs : List Table := []
  nodes : List NodeInfo := []
  /-- next fresh symbol identity -/
  next : Nat := 0
  deriving Repr, Inhabited

def tableAtAux : List Table → Nat → Nat → Option Nat
  | [], _, _ => none
  | t :: r, n, i => if t.node == some n then some i else tableAtAux r n (i+1)

/-- `node.symbol_table` as a table index (`none` when the node has no table attached). -/
def tableAt (st : State) (n : Nat) : Option Nat := tableAtAux st.tabs n 0

def isScoping (st : State) (n : Nat) : Bool := (st.nodes.getD n ⟨[], false⟩).scoping

/-- Repeated `parent_symbol_table(scope_limit)` starting from node `cur` whose remaining proper
ancestors are the list argument: the tables of the enclosing scoping nodes, innermost first.  The
walk stops at `scope_limit`, and also at a scoping ancestor that has no table attached (quirk:
`return search_next.symbol_table` returns `None` there). -/
def chainFrom (st : State) (limit : Option Nat) : Nat → List Nat → List Nat
  | _, [] => []
  | cur, a :: rest =>
    if some cur == limit then []
    else if isScoping st a then
      match tableAt st a with
      | none => []
      | some t => t :: chainFrom st limit a rest
    else chainFrom st limit a rest

/-- the tables searched by `get_symbols(scope_limit)` / `get_tags(scope_limit)` of table `t`: itself first -/
def chain (st : State) (t : Nat) (limit : Option Nat) : List Nat :=
  t :: match (st.tabs.getD t {}).node with
       | none => []
       | some n => chainFrom st limit n (st.nodes.getD n ⟨[], false⟩).anc

def tab (st : State) (t : Nat) : Table := st.tabs.getD t {}

/-- `get_symbols()`: merged dict, inner scopes win (`if symbol_name not in all_symbols`). -/
def mergeDicts : Ents → List Ents → Ents
  | acc, [] => acc
  | acc, e :: r => mergeDicts (acc ++ e.filter (fun p => !hasKey acc p.1)) r

def getSymbols (st : State) (t : Nat) (limit : Option Nat) : Ents :=
  mergeDicts [] ((chain st t limit).map fun i => (tab st i).ents)

def mergeTags : List (Name × Nat) → List (List (Name × Nat)) → List (Name × Nat)
  | acc, [] => acc
  | acc, e :: r => mergeTags (acc ++ e.filter (fun p => (tagGet acc p.1).isNone)) r

def getTags (st : State) (t : Nat) (limit : Option Nat) : List (Name × Nat) :=
  mergeTags [] ((chain st t limit).map fun i => (tab st i).tags)

/-- `lookup(name, scope_limit=…)` -/
def lookup (st : State) (t : Nat) (name : Name) (limit : Option Nat) : Except Err Sym :=
  match getKey (getSymbols st t limit) (lower name) with
  | some s => .ok s
  | none => .error .key

/-- `lookup_with_tag(tag, scope_limit=…)`: identity of the tagged symbol -/
def lookupTag (st : State) (t : Nat) (tag : Name) (limit : Option Nat) : Except Err Nat :=
  match tagGet (getTags st t limit) tag with
  | some i => .ok i
  | none => .error .key

/-! ### next_available_name -/

/-- the `while self._normalize(candidate_name) in existing_names` loop; the fuel is never
exhausted when it is `existing.length + 1` (theorem `C16_next_terminates`). -/
def nextIdx (existing : List Name) (root : Name) : Nat → Nat → Nat
  | 0, i => i
  | f+1, i => if (lower (cand root i)) ∈ existing then nextIdx existing root f (i+1) else i

def psyirTmp : Name := [112, 115, 121, 105, 114, 95, 116, 109, 112]

def nextName (existing : List Name) (root : Name) : Name :=
  let root := if root.isEmpty then psyirTmp else root
  cand root (nextIdx existing root (existing.length + 1) 0)

/-! ### table-level operations -/

/-- `add(new_symbol, tag)`; `chainTags` are the tags visible from this table (`get_tags()`). -/
def addSym (t : Table) (chainTags : List Name) (s : Sym) (tag : Option Name) : Except Err Table :=
  if hasKey t.ents (lower s.name) then .error .key
  else match tag with
    | some g =>
      if g ∈ chainTags then .error .key
      else .ok { t with ents := t.ents ++ [(lower s.name, s)], tags := t.tags ++ [(g, s.id)] }
    | none => .ok { t with ents := t.ents ++ [(lower s.name, s)] }

/-- the checks of `rename_symbol` that depend on the symbol only -/
def renamable (s : Sym) : Bool :=
  s.kind != .container && !s.iface.isImport && s.iface != .unresolved && s.iface != .argument
    && s.iface != .commonblock

/-- `rename_symbol(symbol, name, dry_run)` (no CodeBlocks in scope). -/
def renameSym (t : Table) (i : Nat) (newName : Name) (dry : Bool) : Except Err Table :=
  match getId t.ents i with
  | none => .error .value
  | some s =>
    if !renamable s then .error .symbol
    else if hasKey t.ents (lower newName) then .error .key
    else if dry then .ok t
    else .ok { t with ents := delKey t.ents (lower s.name) ++ [(lower newName, { s with name := newName })] }

def importedFrom (e : Ents) (cid : Nat) : List Sym :=
  (e.map Prod.snd).filter fun s => match s.iface with
    | .imp c _ _ => c == cid
    | _ => false

/-- `remove(symbol)`; `s` is the current record of the supplied symbol object. -/
def removeSym (t : Table) (s : Sym) : Except Err Table :=
  if !(s.kind == .container || s.kind == .routine || s.kind == .intrinsic || s.kind == .generic) then
    .error .notimpl
  else match getKey t.ents (lower s.name) with
    | none => .error .key
    | some s' =>
      if s'.id != s.id then .error .internal
      else if s.kind == .container && !(importedFrom t.ents s.id).isEmpty then .error .value
      else .ok { t with tags := t.tags.filter (fun p => p.2 != s.id), ents := delKey t.ents (lower s.name) }

/-- `swap(old_symbol, new_symbol)` = same-name check, `remove(old)`, `add(new)`. -/
def swapSym (t : Table) (old new : Sym) : Except Err Table :=
  if lower old.name != lower new.name then .error .symbol
  else match removeSym t old with
    | .error e => .error e
    | .ok t' => addSym t' [] new none

/-- `type(self).copy_properties(symbol_in)` accepts `symbol_in` (else TypeError) -/
def copyAccepts (self inn : Kind) : Bool :=
  match self with
  | .generic | .container => true
  | .routine | .intrinsic => inn == .data || inn == .routine || inn == .intrinsic
  | .data => inn == .data
  | .datatype => inn == .datatype

def swapArgs (args : List Nat) (i j : Nat) : List Nat :=
  -- index1/index2 are computed first, then `args[index1] = symbol2`, `args[index2] = symbol1`
  let i1 := args.idxOf i
  let i2 := args.idxOf j
  let a1 := if i1 < args.length then args.set i1 j else args
  if i2 < args.length then a1.set i2 i else a1

/-- `swap_symbol_properties(symbol1, symbol2)`; `s1`, `s2` are the current records of the two symbol
objects, which are entries of this table.  The membership test uses the *raw* name
(`symbol.name not in self._symbols`), and `symbol2.copy_properties(tmp)` can raise after
`symbol1.copy_properties(symbol2)` has already changed `symbol1`. -/
def swapProps (t : Table) (s1 s2 : Sym) : Option Err × Table :=
  if !hasKey t.ents s1.name then (some .key, t)
  else if !hasKey t.ents s2.name then (some .key, t)
  else if lower s1.name == lower s2.name then (some .value, t)
  else if !copyAccepts s1.kind s2.kind then (some .type, t)
  else
    let t1 := { t with ents := updKey t.ents (lower s1.name) fun s => { s with iface := s2.iface } }
    if !copyAccepts s2.kind s1.kind then (some .type, t1)
    else
      (none, { t1 with ents := updKey t1.ents (lower s2.name) fun s => { s with iface := s1.iface },
                       args := swapArgs t.args s1.id s2.id })

/-- `_validate_arg_list` -/
def validateArgs : List (Option Sym) → Option Err
  | [] => none
  | none :: _ => some .type
  | some s :: r =>
    if s.kind != .data then some .type
    else if s.iface != .argument then some .value
    else validateArgs r

/-! ### merge -/

def containerNames (e : Ents) : List Name :=
  ((e.map Prod.snd).filter fun s => s.kind == .container && s.wild).map (·.name)

/-- `wildcard_imports()`: *raw* names of the wildcard-imported containers of a chain of tables -/
def wildcards (ts : List Ents) : List Name := (ts.map containerNames).flatten

structure MergeCtx where
  /-- entries of the ancestor tables of `self` (innermost first), read-only -/
  selfAnc : List Ents
  /-- entries of the ancestor tables of `other`, read-only -/
  otherAnc : List Ents
  skip : List Nat
  /-- lower-cased names of `IntrinsicCall.Intrinsic` -/
  intr : List Name

/-- keys seen by `next_available_name(…, other_table=other)` called on `self` -/
def existingNames (cx : MergeCtx) (self other : Table) : List Name :=
  keys (mergeDicts [] (self.ents :: cx.selfAnc)) ++ keys other.ents

/-- result of a (possibly failing) multi-step operation on the pair (self, other) -/
structure MR where
  err : Option Err
  self : Table
  other : Table
  deriving Repr

def setKind (t : Table) (k : Name) (kd : Kind) : Table :=
  { t with ents := updKey t.ents k fun s => { s with kind := kd } }

/-- `Symbol.specialise(IntrinsicSymbol)` is legal for a generic Symbol or a RoutineSymbol -/
def canSpecialise (k : Kind) : Bool := k == .generic || k == .routine

/-- verdict of one iteration of the loop of `check_for_clashes` (code with fixes/C16-defer-specialise.patch:
the specialisation of intrinsic-named unresolved symbols is deferred until every check has passed) -/
inductive CheckRes where
  | pass
  /-- accepted; the clashing pair is to be specialised to IntrinsicSymbol afterwards -/
  | spec
  | fail (e : Err)
  deriving DecidableEq, Repr

/-- one iteration of the loop of `check_for_clashes` -/
def checkOne (cx : MergeCtx) (self other : Table) (o : Sym) : CheckRes :=
  let k := lower o.name
  match getKey self.ents k with
  | none => .pass
  | some this =>
    if o.id ∈ cx.skip then .pass
    else if this.kind == .container && o.kind == .container then .pass
    else if this.kind == .intrinsic && o.kind == .intrinsic then .pass
    else if o.iface.isImport && this.iface.isImport then
      if this.iface.importEq o.iface then .pass else .fail .symbol
    else if o.iface == .unresolved && this.iface == .unresolved then
      let si := wildcards (self.ents :: cx.selfAnc)
      let oi := wildcards (other.ents :: cx.otherAnc)
      let shared := si.any (oi.contains ·)
      let unique := si.any (!oi.contains ·) || oi.any (!si.contains ·)
      if shared && !unique then .pass
      else if si.isEmpty && oi.isEmpty && cx.intr.contains (lower this.name)
          && (this.kind == .intrinsic || canSpecialise this.kind)
          && (o.kind == .intrinsic || canSpecialise o.kind) then .spec
      else .fail .symbol
    else
      match renameSym self this.id [] true with
      | .ok _ => .pass
      | .error .symbol =>
        match renameSym other o.id [] true with
        | .ok _ => .pass
        | .error e => .fail e
      | .error e => .fail e

/-- `check_for_clashes(other_table, symbols_to_skip)`: loop over `other_table.symbols`; on success the keys
of the pairs to specialise -/
def checkLoop (cx : MergeCtx) (self other : Table) : List Sym → Except Err (List Name)
  | [] => .ok []
  | o :: r =>
    match checkOne cx self other o with
    | .fail e => .error e
    | .pass => checkLoop cx self other r
    | .spec =>
      match checkLoop cx self other r with
      | .error e => .error e
      | .ok ks => .ok (lower o.name :: ks)

/-- the deferred `sym.specialise(IntrinsicSymbol)` calls -/
def specAll : Table → List Name → Table
  | t, [] => t
  | t, k :: r => specAll (setKind t k .intrinsic) r

/-- rename a symbol of `self` to the next available name derived from `root` -/
def renameFresh (cx : MergeCtx) (self other : Table) (i : Nat) (root : Name) : Except Err Table :=
  renameSym self i (nextName (existingNames cx self other) root) false

/-- inner loop of `_add_container_symbols_from_table` over the symbols imported from `c` -/
def importLoop (cx : MergeCtx) (c : Sym) : List Sym → Table → Table → MR
  | [], self, other => ⟨none, self, other⟩
  | i :: r, self, other =>
    let step1 : Except Err Table :=
      match getKey self.ents (lower i.name) with
      | some os => if !os.iface.isImport then renameFresh cx self other os.id os.name else .ok self
      | none => .ok self
    match step1 with
    | .error e => ⟨some e, self, other⟩
    | .ok self' =>
      -- isym.interface = ImportInterface(self.lookup(csym.name), orig_name=isym.interface.orig_name)
      match getKey (mergeDicts [] (self'.ents :: cx.selfAnc)) (lower c.name) with
      | none => ⟨some .key, self', other⟩
      | some sc =>
        let orig := match i.iface with | .imp _ _ o => o | _ => none
        let other' := { other with ents := updKey other.ents (lower i.name) fun s => { s with iface := .imp sc.id sc.name orig } }
        importLoop cx c r self' other'

/-- `_add_container_symbols_from_table`: loop over `other_table.containersymbols` -/
def containerLoop (cx : MergeCtx) : List Sym → Table → Table → MR
  | [], self, other => ⟨none, self, other⟩
  | c :: r, self, other =>
    let step1 : Except Err Table :=
      match getKey self.ents (lower c.name) with
      | some sc =>
        if sc.kind != .container then
          match renameFresh cx self other sc.id c.name with
          | .error e => .error e
          | .ok s' => addSym s' [] c none
        else if c.wild then .ok { self with ents := updKey self.ents (lower c.name) fun s => { s with wild := true } }
        else .ok self
      | none => addSym self [] c none
    match step1 with
    | .error e => ⟨some e, self, other⟩
    | .ok self' =>
      match importLoop cx c (importedFrom other.ents c.id) self' other with
      | ⟨none, s', o'⟩ => containerLoop cx r s' o'
      | res => res

/-- `_handle_symbol_clash(old_sym, other_table)` -/
def handleClash (cx : MergeCtx) (self other : Table) (o : Sym) : MR :=
  match o.iface with
  | .imp cid cname _ =>
    match getKey (mergeDicts [] (self.ents :: cx.selfAnc)) (lower cname) with
    | none => ⟨some .key, self, other⟩
    | some sc => if sc.id == cid then ⟨none, self, other⟩ else ⟨some .internal, self, other⟩
  | _ =>
    match getKey self.ents (lower o.name) with
    | none => ⟨some .key, self, other⟩
    | some ss =>
      if o.iface == .unresolved && ss.iface == .unresolved then ⟨none, self, other⟩
      else
        let nn := nextName (existingNames cx self other) o.name
        match renameSym other o.id nn false with
        | .ok other' =>
          match addSym self [] { o with name := nn } none with
          | .ok self' => ⟨none, self', other'⟩
          | .error e => ⟨some e, self, other'⟩
        | .error .symbol =>
          match renameSym self ss.id nn false with
          | .error e => ⟨some e, self, other⟩
          | .ok self' =>
            match addSym self' [] o none with
            | .ok self'' => ⟨none, self'', other⟩
            | .error e => ⟨some e, self', other⟩
        | .error e => ⟨some e, self, other⟩

/-- `_add_symbols_from_table`: loop over `other_table.symbols` -/
def symbolLoop (cx : MergeCtx) : List Sym → Table → Table → MR
  | [], self, other => ⟨none, self, other⟩
  | o :: r, self, other =>
    if o.id ∈ cx.skip || o.kind == .container then symbolLoop cx r self other
    else
      match addSym self [] o none with
      | .ok self' => symbolLoop cx r self' other
      | .error _ =>
        match handleClash cx self other o with
        | ⟨none, s', o'⟩ => symbolLoop cx r s' o'
        | res => res

def containersOf (e : Ents) : List Sym := (e.map Prod.snd).filter (·.kind == .container)

/-- `merge(other_table, symbols_to_skip)`; phase: 0 = rejected by `check_for_clashes`, 1 = failed while
adding containers, 2 = failed while adding symbols, 3 = success. -/
def mergeTables (cx : MergeCtx) (self other : Table) : MR × Nat :=
  match checkLoop cx self other (other.ents.map Prod.snd) with
  | .error e => (⟨some e, self, other⟩, 0)
  | .ok ks =>
    let s1 := specAll self ks
    let o1 := specAll other ks
    match containerLoop cx (containersOf o1.ents) s1 o1 with
    | ⟨some e, s, o⟩ => (⟨some e, s, o⟩, 1)
    | ⟨none, s2, o2⟩ =>
      match symbolLoop cx (o2.ents.map Prod.snd) s2 o2 with
      | ⟨some e, s, o⟩ => (⟨some e, s, o⟩, 2)
      | ⟨none, s3, o3⟩ => (⟨none, s3, o3⟩, 3)

/-! ### histories -/

/-- description of a symbol object created by an operation (`Symbol(name, …)`) -/
structure NewSym where
  name : Name
  kind : Kind
  iface : Iface
  wild : Bool := false
  deriving Repr, Inhabited

inductive Op where
  | create                                                     -- SymbolTable()
  | add (t : Nat) (s : NewSym) (tag : Option Name)             -- t.add(Symbol(...), tag)
  | newSymbol (t : Nat) (root : Name) (tag : Option Name) (shadowing : Bool) (kind : Kind)
      (allowRenaming : Bool) (iface : Iface) (wild : Bool)
  | nextName (t : Nat) (root : Name) (shadowing : Bool) (other : Option Nat)
  | lookup (t : Nat) (name : Name) (limit : Option Nat)
  | lookupTag (t : Nat) (tag : Name) (limit : Option Nat)
  | findOrCreate (t : Nat) (name : Name) (kind : Option Kind) (iface : Iface)
  | findOrCreateTag (t : Nat) (tag : Name) (root : Name) (kind : Option Kind) (iface : Iface)
  | rename (t : Nat) (sym : Nat) (name : Name)
  | remove (t : Nat) (sym : Nat)
  | swap (t : Nat) (old : Nat) (new : NewSym)
  | setArgs (t : Nat) (syms : List Nat)
  | swapProps (t : Nat) (s1 s2 : Nat)                          -- t.swap_symbol_properties(s1, s2)
  | merge (t : Nat) (other : Nat) (skip : List Nat) (intr : List Name)
  | attach (t : Nat) (node : Nat)
  | detach (t : Nat)
  deriving Repr, Inhabited

inductive Outcome where
  | ok
  | sym (id : Nat)
  | name (n : Name)
  | err (e : Err)
  /-- the operation is outside the alphabet of histories (unknown table / symbol object, or a merge of a
  table with itself or with one of its enclosing scopes) -/
  | unsupported
  deriving DecidableEq, Repr, Inhabited

def setTab (st : State) (t : Nat) (tb : Table) : State := { st with tabs := st.tabs.set t tb }

/-- current record of a symbol object: first table that holds it -/
def findSymAux : List Table → Nat → Option Sym
  | [], _ => none
  | t :: r, i => match getId t.ents i with
    | some s => some s
    | none => findSymAux r i

def findSym (st : State) (i : Nat) : Option Sym := findSymAux st.tabs i

def mkSym (st : State) (s : NewSym) : Sym := ⟨st.next, s.name, s.kind, s.iface, s.wild⟩

def ancEnts (st : State) (t : Nat) : List Ents := ((chain st t none).drop 1).map fun i => (tab st i).ents

/-- `new_symbol(root_name, tag, shadowing, symbol_type, allow_renaming, interface=…)` -/
def newSymbol (st : State) (t : Nat) (root : Name) (tag : Option Name) (shadowing : Bool) (kind : Kind)
    (allowRenaming : Bool) (iface : Iface) (wild : Bool) : Outcome × State :=
  let existing := if shadowing then keys (tab st t).ents else keys (getSymbols st t none)
  let nm := nextName existing root
  if !allowRenaming && nm != root then (.err .symbol, st)
  else
    let iface' := match iface with
      | .imp c cn o => if nm != root then .imp c cn (some root) else .imp c cn o
      | i => i
    let s : Sym := ⟨st.next, nm, kind, iface', wild⟩
    let st1 := { st with next := st.next + 1 }
    match addSym (tab st t) ((getTags st t none).map Prod.fst) s tag with
    | .error e => (.err e, st1)
    | .ok tb => (.sym s.id, setTab st1 t tb)

/-- the table is detached, or no ScopingNode lies below its node: no other table can see it -/
def leafScope (st : State) (o : Nat) : Bool :=
  match (tab st o).node with
  | none => true
  | some n => st.nodes.all fun ni => !(ni.scoping && ni.anc.contains n)

def step (st : State) : Op → Outcome × State
  | .create => (.ok, { st with tabs := st.tabs ++ [{}] })
  | .add t s tag =>
    if t < st.tabs.length then
      let sy := mkSym st s
      let st1 := { st with next := st.next + 1 }
      match addSym (tab st t) ((getTags st t none).map Prod.fst) sy tag with
      | .error e => (.err e, st1)
      | .ok tb => (.sym sy.id, setTab st1 t tb)
    else (.unsupported, st)
  | .newSymbol t root tag sh kind ar iface wild =>
    if t < st.tabs.length then newSymbol st t root tag sh kind ar iface wild else (.unsupported, st)
  | .nextName t root sh other =>
    if t < st.tabs.length then
      let ex := if sh then keys (tab st t).ents else keys (getSymbols st t none)
      let ex := match other with
        | some o => ex ++ keys (tab st o).ents
        | none => ex
      (.name (nextName ex root), st)
    else (.unsupported, st)
  | .lookup t name limit =>
    if t < st.tabs.length then
      match lookup st t name limit with
      | .ok s => (.sym s.id, st)
      | .error e => (.err e, st)
    else (.unsupported, st)
  | .lookupTag t tag limit =>
    if t < st.tabs.length then
      match lookupTag st t tag limit with
      | .ok i => (.sym i, st)
      | .error e => (.err e, st)
    else (.unsupported, st)
  | .findOrCreate t name kind iface =>
    if t < st.tabs.length then
      match lookup st t name none with
      | .ok s =>
        match kind with
        | some k => if s.kind.isa k then (.sym s.id, st) else (.err .symbol, st)
        | none => (.sym s.id, st)
      | .error _ => newSymbol st t name none false (kind.getD .generic) true iface false
    else (.unsupported, st)
  | .findOrCreateTag t tag root kind iface =>
    if t < st.tabs.length then
      match lookupTag st t tag none with
      | .ok i =>
        match kind, findSym st i with
        | some k, some s => if s.kind.isa k then (.sym i, st) else (.err .symbol, st)
        | some _, none => (.unsupported, st)
        | none, _ => (.sym i, st)
      | .error _ =>
        newSymbol st t (if root.isEmpty then tag else root) (some tag) false (kind.getD .generic) true iface false
    else (.unsupported, st)
  | .rename t i name =>
    if t < st.tabs.length then
      match renameSym (tab st t) i name false with
      | .error e => (.err e, st)
      | .ok tb => (.ok, setTab st t tb)
    else (.unsupported, st)
  | .remove t i =>
    if t < st.tabs.length then
      match findSym st i with
      | none => (.unsupported, st)
      | some s =>
        match removeSym (tab st t) s with
        | .error e => (.err e, st)
        | .ok tb => (.ok, setTab st t tb)
    else (.unsupported, st)
  | .swap t i new =>
    if t < st.tabs.length then
      match findSym st i with
      | none => (.unsupported, st)
      | some old =>
        let st1 := { st with next := st.next + 1 }
        match swapSym (tab st t) old (mkSym st new) with
        | .error e => (.err e, st1)
        | .ok tb => (.sym st.next, setTab st1 t tb)
    else (.unsupported, st)
  | .setArgs t is =>
    if t < st.tabs.length then
      match validateArgs (is.map (findSym st)) with
      | some e => (.err e, st)
      | none => (.ok, setTab st t { tab st t with args := is })
    else (.unsupported, st)
  | .swapProps t i j =>
    if t < st.tabs.length then
      match getId (tab st t).ents i, getId (tab st t).ents j with
      | some s1, some s2 =>
        match swapProps (tab st t) s1 s2 with
        | (some e, tb) => (.err e, setTab st t tb)
        | (none, tb) => (.ok, setTab st t tb)
      | _, _ => (.unsupported, st)
    else (.unsupported, st)
  | .merge t o skip intr =>
    if t < st.tabs.length && o < st.tabs.length && t != o && !(chain st t none).contains o
        && !(chain st o none).contains t && leafScope st o then
      let cx : MergeCtx := ⟨ancEnts st t, ancEnts st o, skip, intr⟩
      match mergeTables cx (tab st t) (tab st o) with
      | (⟨some e, s, ot⟩, _) => (.err e, setTab (setTab st t s) o ot)
      | (⟨none, s, ot⟩, _) => (.ok, setTab (setTab st t s) o { ot with ents := [], tags := [], args := [] })
    else (.unsupported, st)
  | .attach t n =>
    if t < st.tabs.length && n < st.nodes.length then
      if !isScoping st n then (.err .type, st)
      else if (tableAt st n).isSome then (.err .value, st)
      else if (tab st t).node.isSome then (.err .value, st)
      else (.ok, setTab st t { tab st t with node := some n })
    else (.unsupported, st)
  | .detach t =>
    if t < st.tabs.length then (.ok, setTab st t { tab st t with node := none }) else (.unsupported, st)

def run (st : State) : List Op → State
  | [] => st
  | op :: r => run (step st op).2 r

end C16
