/-! C27: model of `ModuleManager.sort_modules` (src/psyclone/parse/module_manager.py).
Module names are Nat ids; a dependency map is an association list in dict (insertion)
order.  Core Lean only. -/
namespace C27

abbrev Name := Nat
abbrev Graph := List (Name × List Name)

def keys (g : Graph) : List Name := g.map Prod.fst

/-- The consistency loop: unknown dependencies are removed. -/
def prune (g : Graph) : Graph := g.map fun (m, ds) => (m, ds.filter (fun d => (keys g).contains d))

/-- `for mod, dep in todo.items(): if not dep: break` — first entry without deps. -/
def firstFree : Graph → Option Name
  | [] => none
  | (m, ds) :: rest => if ds.isEmpty then some m else firstFree rest

/-- `sorted(todo.keys(), key=lambda x: len(todo[x]))[0]`: Python's sort is stable, so
this is the first entry among those with the minimal number of remaining deps. -/
def firstMin : Graph → Option (Name × Nat)
  | [] => none
  | (m, ds) :: rest =>
    match firstMin rest with
    | none => some (m, ds.length)
    | some (m', n') => if ds.length ≤ n' then some (m, ds.length) else some (m', n')

def pick (g : Graph) : Option Name :=
  match firstFree g with
  | some m => some m
  | none => (firstMin g).map Prod.fst

/-- `del todo[mod]` and `dep.remove(mod)` for every remaining entry. -/
def removeMod (g : Graph) (m : Name) : Graph :=
  (g.filter fun e => e.1 != m).map fun (k, ds) => (k, ds.filter (· != m))

/-- The `while todo:` loop; fuel = number of entries. -/
def sortAux : Nat → Graph → List Name
  | 0, _ => []
  | fuel+1, g =>
    match pick g with
    | none => []
    | some m => m :: sortAux fuel (removeMod g m)

def sortModules (g : Graph) : List Name := sortAux g.length (prune g)

end C27
