/-! C24: model of the argument lists of an LFRic invoke.

Mirrors
* `psyclone.parse.algorithm.get_kernel` — every kernel-call argument becomes an `Arg(form, text, varname)`
  where `text` is the lower-cased, fparser-normalised source text and `varname` the root used for naming;
  literals have no `varname`.  Texts and roots are `Nat` ids here (the harness interns the strings).
* `psyGen.Argument._complete_init`, `DynKernelArguments.__init__`, `LFRicKern._setup` — each non-literal
  argument text `t` is registered in the invoke's symbol table under the tag `AlgArgs_<t>` with
  `find_or_create_tag(tag, root_name=varname)`; the symbol name is `varname`, `varname_1`, … (first unused).
* `psyGen.Invoke.__init__` — `_alg_unique_args` (de-duplicated on `arg.text`) and `_psy_unique_vars`
  (de-duplicated on `arg.name`) over the kernel data arguments, literals skipped;
* `LFRicStencils.__init__` — unique extent arguments and unique direction arguments (each list de-duplicated
  on the text, `x_direction` / `y_direction` never passed, literal extents never passed, a literal
  direction is refused with a GenerationError);
* `LFRicInvoke.__init__` / `LFRicInvoke.gen_code` — the algorithm call passes
  `_alg_unique_args ++ stencil texts ++ qr texts`, the PSy routine declares
  `psy_unique_var_names ++ stencil names ++ qr names`.  (FIXED code: the stencil part of the algorithm
  list holds the argument *texts*, `LFRicStencils.unique_alg_args`, see fixes/C24-stencil-alg-text.patch.)
* `alg_gen.Alg.gen` — the `call invoke(...)` is replaced by `call <name>(<alg_unique_args>)`.

Core Lean only. -/
namespace C24

abbrev Text := Nat
abbrev Root := Nat
/-- A PSy-layer symbol name `root` (suffix 0) or `root_k`. -/
abbrev Name := Root × Nat

/-- What a position of a kernel call in the invoke is, according to the kernel metadata. -/
inductive Role where
  | data        -- scalar, field, field vector, operator
  | extent      -- stencil extent following a field with a stencil
  | direction   -- stencil direction following the extent of an `xory1d` stencil
  | qr          -- quadrature object (trailing arguments)
  deriving DecidableEq, Repr

/-- What is written at that position. -/
inductive Actual where
  | lit (v : Nat)                    -- literal (or literal expression); `v` = id of its text
  | var (t : Text) (r : Root)        -- anything with a `varname`: variable, element, component
  | dirconst (c : Nat)               -- `x_direction` / `y_direction` in a direction position
  deriving DecidableEq, Repr

structure Slot where
  role : Role
  act : Actual
  deriving DecidableEq, Repr

abbrev Kernel := List Slot
abbrev Invoke := List Kernel

/-! ## Python `if x not in acc: acc.append(x)` -/

def uniqAcc {α} [DecidableEq α] (acc : List α) : List α → List α
  | [] => acc
  | x :: xs => if x ∈ acc then uniqAcc acc xs else uniqAcc (acc ++ [x]) xs

def uniq {α} [DecidableEq α] (l : List α) : List α := uniqAcc [] l

/-! ## Symbol table: tags `AlgArgs_<text>` and name allocation -/

structure SymTab where
  tags : List (Text × Name)    -- insertion order
  used : List Name             -- every name in the table (reserved names included)
  deriving Repr

def lookupTag : List (Text × Name) → Text → Option Name
  | [], _ => none
  | (t', n) :: rest, t => if t' = t then some n else lookupTag rest t

/-- `SymbolTable.next_available_name`: `root`, `root_1`, `root_2`, … — first one not in use.
`fuel` = number of names in use + 1 always suffices. -/
def allocFrom (used : List Name) (r : Root) : Nat → Nat → Nat
  | 0, k => k
  | fuel + 1, k => if (r, k) ∈ used then allocFrom used r fuel (k + 1) else k

def alloc (used : List Name) (r : Root) : Name := (r, allocFrom used r (used.length + 1) 0)

/-- `find_or_create_tag("AlgArgs_" + text, root_name=varname)`. -/
def reg (st : SymTab) (p : Text × Root) : SymTab :=
  match lookupTag st.tags p.1 with
  | some _ => st
  | none =>
    let n := alloc st.used p.2
    { tags := st.tags ++ [(p.1, n)], used := n :: st.used }

def nameOf (st : SymTab) (t : Text) : Name := (lookupTag st.tags t).getD (0, 0)

def sourceAux : List (Text × Name) → Name → Option Text
  | [], _ => none
  | (t, n') :: rest, n => if n' = n then some t else sourceAux rest n

/-- The algorithm expression for which a PSy-layer name was created. -/
def sourceOf (st : SymTab) (n : Name) : Text := (sourceAux st.tags n).getD 0

/-! ## Order in which the arguments of one kernel call are registered -/

def varOf (s : Slot) : Option (Text × Root) :=
  match s.act with
  | .var t r => some (t, r)
  | _ => none

def textIf (ro : Role) (s : Slot) : Option Text :=
  if s.role = ro then (varOf s).map Prod.fst else none

def isStencil (s : Slot) : Bool :=
  match s.role with
  | .extent => true
  | .direction => true
  | _ => false

def isRole (ro : Role) (s : Slot) : Bool := decide (s.role = ro)

/-- `DynKernelArguments.__init__` creates the data arguments in order, then goes over the stencil
extents / directions; `LFRicKern._setup` registers the quadrature arguments afterwards. -/
def regOrder (k : Kernel) : List Slot :=
  k.filter (isRole .data) ++ k.filter isStencil ++ k.filter (isRole .qr)

def regList (inv : Invoke) : List (Text × Root) :=
  (inv.map fun k => (regOrder k).filterMap varOf).flatten

def build (reserved : List Name) (inv : Invoke) : SymTab :=
  (regList inv).foldl reg { tags := [], used := reserved }

/-! ## The two argument lists -/

/-- Texts of the variable arguments of one role, in the order written (all kernels). -/
def textsOf (ro : Role) (inv : Invoke) : List Text := inv.flatten.filterMap (textIf ro)

/-- Actual arguments of the rewritten algorithm call. -/
def actuals (inv : Invoke) : List Text :=
  uniq (textsOf .data inv) ++ uniq (textsOf .extent inv) ++ uniq (textsOf .direction inv)
    ++ uniq (textsOf .qr inv)

/-- Dummy arguments of the PSy-layer routine. -/
def dummies (st : SymTab) (inv : Invoke) : List Name :=
  uniq ((textsOf .data inv).map (nameOf st))
    ++ (uniq (textsOf .extent inv)).map (nameOf st)
    ++ (uniq (textsOf .direction inv)).map (nameOf st)
    ++ uniq ((textsOf .qr inv).map (nameOf st))

/-- What the PSy layer hands to the kernel for one position of the kernel call. -/
inductive KArg where
  | lit (v : Nat)          -- the literal itself
  | sym (n : Name)         -- (data reached through) the PSy-layer symbol `n`
  | dirconst (c : Nat)
  deriving DecidableEq, Repr

def kernArg (st : SymTab) (s : Slot) : KArg :=
  match s.act with
  | .lit v => .lit v
  | .var t _ => .sym (nameOf st t)
  | .dirconst c => .dirconst c

/-- `LFRicStencils.__init__`: "a literal is not a valid value for a stencil direction". -/
def badSlot (s : Slot) : Bool :=
  match s.role, s.act with
  | .direction, .lit _ => true
  | _, _ => false

/-- `Kern.__init__`: "Argument '…' is passed into kernel '…' code more than once from the algorithm
layer" — a non-literal text occurring twice among the data arguments of ONE kernel call. -/
def hasDup : List Text → Bool
  | [] => false
  | x :: xs => xs.contains x || hasDup xs

def dataTexts (k : Kernel) : List Text := k.filterMap (textIf .data)

def refused (inv : Invoke) : Bool :=
  inv.any (fun k => hasDup (dataTexts k)) || inv.flatten.any badSlot

structure Output where
  actuals : List Text
  dummies : List Name
  kcalls : List (List KArg)
  deriving Repr

def generate (reserved : List Name) (inv : Invoke) : Option Output :=
  if refused inv then none
  else
    let st := build reserved inv
    some { actuals := actuals inv, dummies := dummies st inv,
           kcalls := inv.map fun k => k.map (kernArg st) }

/-- Side condition of the partial theorem: no argument text is used in two different roles
(e.g. the same integer as a kernel scalar and as a stencil extent). -/
def roleTexts (inv : Invoke) : List (List Text) :=
  [textsOf .data inv, textsOf .extent inv, textsOf .direction inv, textsOf .qr inv]

def disjointB (a b : List Text) : Bool := a.all fun x => !(b.contains x)

def groupsDisjoint (inv : Invoke) : Bool :=
  let d := textsOf .data inv
  let e := textsOf .extent inv
  let x := textsOf .direction inv
  let q := textsOf .qr inv
  disjointB d e && disjointB d x && disjointB d q && disjointB e x && disjointB e q && disjointB x q

end C24
