/-! C24: model of the argument lists of an LFRic invoke.

Mirrors
* `psyclone.parse.algorithm.get_kernel` — every kernel-call argument becomes an `Arg(form, text, varname)`
  where `text` is the lower-cased, fparser-normalised source text and `varname` the root used for naming;
  literals have no `varname`.  Texts and roots are `Nat` ids here (the harness interns the strings).
* `psyGen.Argument._complete_init`, `DynKernelArguments.__init__`, `LFRicKern._setup` — each non-literal
  argument text `t` is registered in the invoke's symbol table under the tag `AlgArgs_<t>` with
  `find_or_create_tag(tag, root_name=varname)`; the symbol name is `varname`, `varname_1`, … (first unused).
* `psyGen.Invoke.__init__` — `_alg_unique_args` (de-duplicated on `arg.text`) and `_psy_unique_vars`
  (de-duplicated on `arg.name`) over the kernel data arguments, literals skipped;
* `LFRicStencils.__init__` — unique extent arguments and unique direction arguments (each list de-duplicated
  on the text, `x_direction` / `y_direction` never passed, literal extents never passed, a literal
  direction is refused with a GenerationError);
* `LFRicInvoke.__init__` / `LFRicInvoke.gen_code` — FIXED code (fixes/C24-stencil-alg-text.patch, committed, and
  fixes/C24-two-roles-dedup.patch): the algorithm call passes `_alg_unique_args`, then the stencil TEXTS
  (`LFRicStencils.unique_alg_args`) and the quadrature texts that are not yet in the list; the PSy routine
  declares `dict.fromkeys(psy_unique_var_names + stencil names + qr names)`.
* the kind of symbol each registration creates (`find_or_create_tag` with `symbol_type=DataSymbol` for kernel
  data arguments, plain `Symbol` for stencil extents, `find_or_create_integer_symbol` for directions and
  quadrature objects) and the resulting aborts (SymbolError / TypeError) when an expression registered in one
  role is looked up again in an incompatible role.
* `alg_gen.Alg.gen` — the `call invoke(...)` is replaced by `call <name>(<alg_unique_args>)`.

Core Lean only. -/
namespace C24

abbrev Text := Nat
abbrev Root := Nat
/-- A PSy-layer symbol name `root` (suffix 0) or `root_k`. -/
abbrev Name := Root × Nat

/-- What a position of a kernel call in the invoke is, according to the kernel metadata. -/
inductive Role where
  | data        -- scalar, field, field vector, operator
  | extent      -- stencil extent following a field with a stencil
  | direction   -- stencil direction following the extent of an `xory1d` stencil
  | qr          -- quadrature object (trailing arguments)
  deriving DecidableEq, Repr

/-- What is written at that position. -/
inductive Actual where
  | lit (v : Nat)                    -- literal (or literal expression); `v` = id of its text
  | var (t : Text) (r : Root)        -- anything with a `varname`: variable, element, component
  | dirconst (c : Nat)               -- `x_direction` / `y_direction` in a direction position
  deriving DecidableEq, Repr

structure Slot where
  role : Role
  act : Actual
  /-- id of the class of the expression AS SPELLED under PSyIR `SymbolicMaths.equal` (symbol names are
  case-insensitive, member names after `%` are not, index expressions are compared symbolically); only used
  by the PSyIR-based algorithm path (`actualsB`). -/
  cls : Nat
  deriving DecidableEq, Repr

abbrev Kernel := List Slot
abbrev Invoke := List Kernel

/-! ## Python `if x not in acc: acc.append(x)` -/

def uniqAcc {α} [DecidableEq α] (acc : List α) : List α → List α
  | [] => acc
  | x :: xs => if x ∈ acc then uniqAcc acc xs else uniqAcc (acc ++ [x]) xs

def uniq {α} [DecidableEq α] (l : List α) : List α := uniqAcc [] l

/-! ## Symbol table: tags `AlgArgs_<text>` and name allocation -/

/-- What kind of symbol the first registration of a tag created. -/
inductive SymKind where
  | generic     -- `find_or_create_tag(tag, root)`: plain Symbol (stencil extent)
  | intsym      -- `find_or_create_integer_symbol`: integer DataSymbol (direction, quadrature)
  | data        -- `find_or_create_tag(..., symbol_type=DataSymbol, datatype=infer_datatype())` (kernel data argument)
  deriving DecidableEq, Repr

structure SymTab where
  tags : List (Text × Name)    -- insertion order
  used : List Name             -- every name in the table (reserved names included)
  kinds : List (Text × SymKind)
  deriving Repr

def lookupTag : List (Text × Name) → Text → Option Name
  | [], _ => none
  | (t', n) :: rest, t => if t' = t then some n else lookupTag rest t

def lookupKind : List (Text × SymKind) → Text → Option SymKind
  | [], _ => none
  | (t', k) :: rest, t => if t' = t then some k else lookupKind rest t

/-- `SymbolTable.next_available_name`: `root`, `root_1`, `root_2`, … — first one not in use.
`fuel` = number of names in use + 1 always suffices. -/
def allocFrom (used : List Name) (r : Root) : Nat → Nat → Nat
  | 0, k => k
  | fuel + 1, k => if (r, k) ∈ used then allocFrom used r fuel (k + 1) else k

def alloc (used : List Name) (r : Root) : Name := (r, allocFrom used r (used.length + 1) 0)

/-- `find_or_create_tag("AlgArgs_" + text, root_name=varname)` (kind recorded for a new symbol). -/
def reg (st : SymTab) (p : Text × Root) (k : SymKind) : SymTab :=
  match lookupTag st.tags p.1 with
  | some _ => st
  | none =>
    let n := alloc st.used p.2
    { tags := st.tags ++ [(p.1, n)], used := n :: st.used, kinds := st.kinds ++ [(p.1, k)] }

def kindFor : Role → SymKind
  | .data => .data
  | .extent => .generic
  | .direction => .intsym
  | .qr => .intsym

/-- Is a lookup in role `ro` of a tag whose symbol has kind `k` accepted?
data: `isinstance(symbol, DataSymbol)` (else SymbolError); extent: no check; direction / quadrature:
DataSymbol whose datatype *equals* `LFRicIntegerScalarDataType()` — the datatype inferred for a kernel
data argument never compares equal (TypeError "not an integer"), a plain Symbol is "not a DataSymbol". -/
def compat : Option SymKind → Role → Bool
  | none, _ => true
  | some .generic, .data => false
  | some _, .data => true
  | some _, .extent => true
  | some .intsym, .direction => true
  | some _, .direction => false
  | some .intsym, .qr => true
  | some _, .qr => false

def regR (st : SymTab) (q : (Text × Root) × Role) : Option SymTab :=
  if compat (lookupKind st.kinds q.1.1) q.2 then some (reg st q.1 (kindFor q.2)) else none

def regAll : SymTab → List ((Text × Root) × Role) → Option SymTab
  | st, [] => some st
  | st, q :: qs =>
    match regR st q with
    | none => none
    | some st' => regAll st' qs

def nameOf (st : SymTab) (t : Text) : Name := (lookupTag st.tags t).getD (0, 0)

def sourceAux : List (Text × Name) → Name → Option Text
  | [], _ => none
  | (t, n') :: rest, n => if n' = n then some t else sourceAux rest n

/-- The algorithm expression for which a PSy-layer name was created. -/
def sourceOf (st : SymTab) (n : Name) : Text := (sourceAux st.tags n).getD 0

/-! ## Order in which the arguments of one kernel call are registered -/

def varOf (s : Slot) : Option (Text × Root) :=
  match s.act with
  | .var t r => some (t, r)
  | _ => none

def regOf (s : Slot) : Option ((Text × Root) × Role) := (varOf s).map fun p => (p, s.role)

def textIf (ro : Role) (s : Slot) : Option Text :=
  if s.role = ro then (varOf s).map Prod.fst else none

def isStencil (s : Slot) : Bool :=
  match s.role with
  | .extent => true
  | .direction => true
  | _ => false

def isRole (ro : Role) (s : Slot) : Bool := decide (s.role = ro)

/-- `LFRicStencils.__init__`: "a literal is not a valid value for a stencil direction". -/
def badSlot (s : Slot) : Bool :=
  match s.role, s.act with
  | .direction, .lit _ => true
  | _, _ => false

/-- `Kern.__init__`: "Argument '…' is passed into kernel '…' code more than once from the algorithm
layer" — a non-literal text occurring twice among the data arguments of ONE kernel call. -/
def hasDup : List Text → Bool
  | [] => false
  | x :: xs => xs.contains x || hasDup xs

def dataTexts (k : Kernel) : List Text := k.filterMap (textIf .data)

inductive Step where
  | ok (st : SymTab)
  | crashed            -- SymbolError / TypeError out of the symbol table
  | refused            -- GenerationError
  deriving Repr

/-- Creation of one kernel call: `DynKernelArguments.__init__` creates the data arguments in order, then goes
over the stencil extents / directions; back in `Kern.__init__` the repeated-argument check; `LFRicKern._setup`
then registers the quadrature arguments. -/
def kernelStep (st : SymTab) (k : Kernel) : Step :=
  match regAll st ((k.filter (isRole .data) ++ k.filter isStencil).filterMap regOf) with
  | none => .crashed
  | some st1 =>
    if hasDup (dataTexts k) then .refused
    else match regAll st1 ((k.filter (isRole .qr)).filterMap regOf) with
      | none => .crashed
      | some st2 => .ok st2

def buildK : SymTab → Invoke → Step
  | st, [] => .ok st
  | st, k :: ks =>
    match kernelStep st k with
    | .ok st' => buildK st' ks
    | .crashed => .crashed
    | .refused => .refused

def initTab (reserved : List Name) : SymTab := { tags := [], used := reserved, kinds := [] }

/-! ## The two argument lists -/

/-- Texts of the variable arguments of one role, in the order written (all kernels). -/
def textsOf (ro : Role) (inv : Invoke) : List Text := inv.flatten.filterMap (textIf ro)

/-- Actual arguments of the rewritten algorithm call: `_alg_unique_args` (data arguments), extended by the
stencil texts `dict.fromkeys(unique extents + unique directions)` not yet in the list, extended by the unique
quadrature texts not yet in the list. -/
def actuals (inv : Invoke) : List Text :=
  uniqAcc
    (uniqAcc (uniq (textsOf .data inv)) (uniq (uniq (textsOf .extent inv) ++ uniq (textsOf .direction inv))))
    (uniq (textsOf .qr inv))

/-- Dummy arguments of the PSy-layer routine:
`dict.fromkeys(psy_unique_var_names + stencil.unique_alg_vars + _psy_unique_qr_vars)`. -/
def dummies (st : SymTab) (inv : Invoke) : List Name :=
  uniq (uniq ((textsOf .data inv).map (nameOf st))
    ++ (uniq (textsOf .extent inv)).map (nameOf st)
    ++ (uniq (textsOf .direction inv)).map (nameOf st)
    ++ uniq ((textsOf .qr inv).map (nameOf st)))

/-- What the PSy layer hands to the kernel for one position of the kernel call. -/
inductive KArg where
  | lit (v : Nat)          -- the literal itself
  | sym (n : Name)         -- (data reached through) the PSy-layer symbol `n`
  | dirconst (c : Nat)
  deriving DecidableEq, Repr

def kernArg (st : SymTab) (s : Slot) : KArg :=
  match s.act with
  | .lit v => .lit v
  | .var t _ => .sym (nameOf st t)
  | .dirconst c => .dirconst c

structure Output where
  actuals : List Text
  dummies : List Name
  kcalls : List (List KArg)
  deriving Repr

inductive Result where
  | ok (o : Output)
  | crashed
  | refused
  deriving Repr

def generate (reserved : List Name) (inv : Invoke) : Result :=
  match buildK (initTab reserved) inv with
  | .crashed => .crashed
  | .refused => .refused
  | .ok st =>
    if inv.flatten.any badSlot then .refused
    else .ok { actuals := actuals inv, dummies := dummies st inv,
               kcalls := inv.map fun k => k.map (kernArg st) }

/-- The symbol table of an accepted invoke. -/
def tableOf (reserved : List Name) (inv : Invoke) : SymTab :=
  match buildK (initTab reserved) inv with
  | .ok st => st
  | _ => initTab reserved

/-- No argument text is used in two different roles (e.g. the same integer as a kernel scalar and as a
stencil extent). -/
def disjointB (a b : List Text) : Bool := a.all fun x => !(b.contains x)

def groupsDisjoint (inv : Invoke) : Bool :=
  let d := textsOf .data inv
  let e := textsOf .extent inv
  let x := textsOf .direction inv
  let q := textsOf .qr inv
  disjointB d e && disjointB d x && disjointB d q && disjointB e x && disjointB e q && disjointB x q

end C24
