import PsyVerif.Model.Atomic

/-! C26 — `LoopTiling2DTrans` = validate; `ChunkLoopTrans.apply(outer)`; `ChunkLoopTrans.apply(inner)`;
`LoopSwapTrans.apply(parent[position].walk(Loop)[1])`, each nested apply running its own validate on the
tree as mutated so far.  The state is the loop nest at the target (first-child / next-sibling encoding;
a non-loop statement is summarised by what the three validates read from it) together with the routine's
symbol table as seen by `find_or_create_tag` (symbols are the numbers `< bound`). -/
namespace C26.Tiling

/-- The step expression of a `Loop`: an INTEGER literal, or any other expression (with the symbols it
    references). -/
inductive Step where
  | lit (k : Int)
  | expr (vars : List Nat)
  deriving DecidableEq, Repr

def Step.vars : Step → List Nat
  | .lit _ => []
  | .expr vs => vs

def Step.litOr1 : Step → Int
  | .lit k => k
  | .expr _ => 1

/-- What the validates read from a `Loop`. -/
structure Hdr where
  var : Nat               -- loop variable (symbol id)
  start : List Nat        -- symbols referenced by the start expression
  stop : List Nat         -- … by the stop expression
  step : Step
  chunked : Bool          -- annotation 'chunked'
  tab : Bool              -- the loop-body Schedule owns a non-empty symbol table
  deriving DecidableEq, Repr

inductive Stmt where
  | nil
  /-- any non-loop statement: variables written inside it, contains a CodeBlock, contains an impure call -/
  | leaf (writes : List Nat) (codeblock impure : Bool) (next : Stmt)
  | loop (h : Hdr) (body : Stmt) (next : Stmt)
  deriving DecidableEq, Repr

/-- variables written in a statement list (`VariablesAccessInfo(...).is_written`): a loop writes its variable -/
def writes : Stmt → List Nat
  | .nil => []
  | .leaf w _ _ next => w ++ writes next
  | .loop h body next => h.var :: (writes body ++ writes next)

def hasCB : Stmt → Bool
  | .nil => false
  | .leaf _ cb _ next => cb || hasCB next
  | .loop _ body next => hasCB body || hasCB next

def hasImpure : Stmt → Bool
  | .nil => false
  | .leaf _ _ imp next => imp || hasImpure next
  | .loop _ body next => hasImpure body || hasImpure next

/-- Routine symbol table: symbols are `0 … bound-1`; `tags` is the tag dictionary. -/
structure Tab where
  bound : Nat
  tags : Nat → Option Nat

def elKey (v : Nat) : Nat := 2 * v          -- tag `<var>_el_inner`
def outKey (v : Nat) : Nat := 2 * v + 1     -- tag `<var>_out_var`

/-- `symbol_table.find_or_create_tag(tag, …)` -/
def findOrCreate (key : Nat) (t : Tab) : Nat × Tab :=
  match t.tags key with
  | some s => (s, t)
  | none => (t.bound, { bound := t.bound + 1, tags := fun k => if k = key then some t.bound else t.tags k })

structure St where
  nest : Stmt      -- the target loop (root) with its following siblings
  tab : Tab

/-- value of `options["tilesize"]` / `options["chunksize"]` -/
inductive OptVal where
  | absent
  | int (k : Int)      -- Python `isinstance(value, int)` (includes `True`/`False`)
  | other
  deriving DecidableEq, Repr

structure Opts where
  size : OptVal
  extraKey : Bool      -- some unsupported key is present
  deriving DecidableEq, Repr

def optsOk (o : Opts) : Bool :=
  !o.extraKey && (match o.size with | .absent => true | .int k => decide (0 < k) | .other => false)

def sizeOf (o : Opts) : Int := match o.size with | .int k => k | _ => 32

/-! ### ChunkLoopTrans -/

def chunkValidate (cs : Int) : Stmt → Bool
  | .loop h body _ =>
    (match h.step with
     | .lit k => decide (k.natAbs ≤ cs.natAbs) && decide (k ≠ 0)
                 -- fix 9fb9247: the step must divide the chunk size; fix bed3b8a: the bounds must not
                 -- mention the loop variable (both are refusals of validate, before any mutation)
                 && decide (cs.natAbs % k.natAbs = 0) && !(h.start ++ h.stop).contains h.var
     | .expr _ => false)
    && !h.chunked && !hasCB body
    && (h.var :: (h.start ++ h.stop)).all (fun v => !(writes body).contains v)
  | _ => false

def chunkApply (cs : Int) (s : Stmt) (t : Tab) : Stmt × Tab :=
  match s with
  | .loop h body next =>
    let (elin, t1) := findOrCreate (elKey h.var) t
    let (outv, t2) := findOrCreate (outKey h.var) t1
    let k : Int := h.step.litOr1
    let outer : Hdr := { var := outv, start := h.start, stop := h.stop,
                         step := .lit (if k < 0 then -cs else cs), chunked := true, tab := false }
    let inner : Hdr := { h with start := [outv], stop := [elin], chunked := true }
    (.loop outer (.leaf [elin] false false (.loop inner body .nil)) next, t2)
  | s => (s, t)

/-! ### LoopSwapTrans -/

def swapValidate : Stmt → Bool
  | .loop ho (.loop hi bi .nil) _ =>
    !hasCB bi && !hasImpure bi && !ho.tab && !hi.tab
    && !(ho.start ++ ho.stop ++ ho.step.vars).contains hi.var
    && !(hi.start ++ hi.stop ++ hi.step.vars).contains ho.var
  | _ => false

def swapApply : Stmt → Stmt
  | .loop ho (.loop hi bi .nil) next =>
    .loop { hi with tab := ho.tab } (.loop { ho with tab := hi.tab } bi .nil) next
  | s => s

/-! ### positions used by LoopTiling2DTrans.apply -/

/-- apply `f` to the first statement of the root loop's body (`node.loop_body.children[0]`) -/
def atInner0 (f : Stmt → Tab → Stmt × Tab) (s : Stmt) (t : Tab) : Stmt × Tab :=
  match s with
  | .loop h body next => let (b', t') := f body t; (.loop h b' next, t')
  | s => (s, t)

def inner0 : Stmt → Stmt
  | .loop _ body _ => body
  | _ => .nil

/-- the loop reached by `parent[position].walk(Loop)[1]`: the first loop, in pre-order, strictly inside the
    root loop (non-loop statements of the model contain no loops) -/
def firstLoopIn : Stmt → Option Stmt
  | .nil => none
  | .leaf _ _ _ next => firstLoopIn next
  | .loop h body next => some (.loop h body next)

def mapFirstLoopIn (f : Stmt → Stmt) : Stmt → Stmt
  | .nil => .nil
  | .leaf w c i next => .leaf w c i (mapFirstLoopIn f next)
  | .loop h body next => f (.loop h body next)

/-- after `chunk(outer)` the original inner loop object sits at root.body → (skip the `el_inner`
    assignment) → original outer → first child -/
def innerAfterChunk : Stmt → Stmt
  | .loop _ (.leaf _ _ _ (.loop _ body _)) _ => body
  | _ => .nil

def atInnerAfterChunk (f : Stmt → Tab → Stmt × Tab) (s : Stmt) (t : Tab) : Stmt × Tab :=
  match s with
  | .loop ho (.leaf w c i (.loop h body n2)) next =>
    let (b', t') := f body t
    (.loop ho (.leaf w c i (.loop h b' n2)) next, t')
  | s => (s, t)

/-! ### the three programs -/

def chunkProg (cs : Int) (get : Stmt → Stmt) (at_ : (Stmt → Tab → Stmt × Tab) → Stmt → Tab → Stmt × Tab) :
    Prog St :=
  validateThen (fun s => chunkValidate cs (get s.nest))
    (.prim (fun s => let (n, t) := at_ (chunkApply cs) s.nest s.tab; { nest := n, tab := t }) .done)

def swapProgWalk1 : Prog St :=
  validateThen (fun s => match firstLoopIn (inner0 s.nest) with
                         | some l => swapValidate l
                         | none => false)
    (.prim (fun s => match s.nest with
                     | .loop h body next => { s with nest := .loop h (mapFirstLoopIn swapApply body) next }
                     | _ => s) .done)

def tilingValidate (o : Opts) (s : St) : Bool :=
  (match s.nest with | .loop _ _ _ => true | _ => false)
  && optsOk o
  && swapValidate s.nest
  && chunkValidate (sizeOf o) s.nest
  && chunkValidate (sizeOf o) (inner0 s.nest)

/-- `LoopTiling2DTrans.apply` -/
def tilingProg (o : Opts) : Prog St :=
  validateThen (tilingValidate o)
    (.call (fun _ => chunkProg (sizeOf o) id (fun f => f))
      (.call (fun _ => chunkProg (sizeOf o) innerAfterChunk atInnerAfterChunk)
        (.call (fun _ => swapProgWalk1) .done)))

/-- `ChunkLoopTrans.apply(node, options)` as called by a user (option checks included) -/
def chunkTransProg (o : Opts) : Prog St :=
  validateThen (fun s => optsOk o && chunkValidate (sizeOf o) s.nest)
    (.prim (fun s => let (n, t) := chunkApply (sizeOf o) s.nest s.tab; { nest := n, tab := t }) .done)

/-- `LoopSwapTrans.apply(node)` as called by a user -/
def swapTransProg : Prog St :=
  validateThen (fun s => swapValidate s.nest) (.prim (fun s => { s with nest := swapApply s.nest }) .done)

end C26.Tiling
