import PsyVerif.Model.OMP
/-! # C09 — the array part of `ParallelLoopTrans.validate`: the PAIR LOOP of
`DependencyTools._array_access_parallelisable`

`validate` accepts a loop (no `force`) only if, for every array, EVERY ordered pair
(write access `w`, any access `o` of the same array — reads, other writes and `w` itself, wherever
the statement of `o` stands relative to the statement of `w`) passes `_is_loop_carried_dependency`.

* `stmtSAcc` — the access sequence of the body in the order of `reference_accesses`, each access
  with the number of its statement (`location`).
* `firstFailWith skip test` — the double loop (`for write_access in all_write_accesses: for
  other_access in var_info:`), returning the first pair that fails; `skip` is the hook used to
  state what happens when a class of pairs is NOT tested (the deployed code skips nothing:
  `firstFail`).
* `pairTest` — `_is_loop_carried_dependency` on the calibrated fragment (every subscript a literal
  or `x ± c` with `x` a loop variable, rank ≤ 2): partitions of subscripts that share a loop
  variable, `_independent_0_var` for two literals, distance 0 in the parallel variable, the early
  `return False` for a single subscript using two loop variables, `_independent_multi_subscript`.
* `pairsIndepB` — the static acceptance test: written scalars privatised + no failing pair.

Core Lean only. -/
namespace C09
open MiniF

/-- subscript classes of the calibrated fragment -/
inductive Sub where
  | lit (c : Int)
  | lv (x : Nat) (c : Int)     -- `x + c`
  | other
  deriving DecidableEq, Repr

def subOf : Expr → Sub
  | .lit c => .lit c
  | .var x => .lv x 0
  | .bin .add (.var x) (.lit c) => .lv x c
  | .bin .add (.lit c) (.var x) => .lv x c
  | .bin .sub (.var x) (.lit c) => .lv x (-c)
  | _ => .other

/-- one static access: variable, read/write, subscripts, number of its statement -/
structure SAcc where
  arr : Nat
  write : Bool
  subs : List Expr
  pos : Nat
  deriving DecidableEq, Repr

/-- read accesses of an expression (subscripts before the array itself, as `reference_accesses`) -/
def exprSAcc (n : Nat) : Expr → List SAcc
  | .lit _ => []
  | .var x => [⟨x, false, [], n⟩]
  | .idx1 a i => exprSAcc n i ++ [⟨a, false, [i], n⟩]
  | .idx2 a i j => exprSAcc n i ++ exprSAcc n j ++ [⟨a, false, [i, j], n⟩]
  | .un _ e => exprSAcc n e
  | .bin _ a b => exprSAcc n a ++ exprSAcc n b

/-- number of `location`s a statement consumes -/
def nloc : Stmt → Nat
  | .skip => 0
  | .seq a b => nloc a + nloc b
  | .assign _ _ => 1
  | .store1 _ _ _ => 1
  | .store2 _ _ _ _ => 1
  | .ite _ t f => 1 + nloc t + nloc f
  | .loop _ _ _ _ b => 1 + nloc b

/-- the access sequence of a statement whose first location is `n`
(assignment: right-hand side, then the subscripts of the left-hand side, then the write) -/
def stmtSAcc (n : Nat) : Stmt → List SAcc
  | .skip => []
  | .seq a b => stmtSAcc n a ++ stmtSAcc (n + nloc a) b
  | .assign x e => exprSAcc n e ++ [⟨x, true, [], n⟩]
  | .store1 a i e => exprSAcc n e ++ exprSAcc n i ++ [⟨a, true, [i], n⟩]
  | .store2 a i j e => exprSAcc n e ++ exprSAcc n i ++ exprSAcc n j ++ [⟨a, true, [i, j], n⟩]
  | .ite c t f => exprSAcc n c ++ stmtSAcc (n + 1) t ++ stmtSAcc (n + 1 + nloc t) f
  | .loop w lo hi st b =>
    [⟨w, true, [], n⟩, ⟨w, false, [], n⟩] ++ exprSAcc n lo ++ exprSAcc n hi ++ exprSAcc n st ++ stmtSAcc (n + 1) b

/-! ## the pair loop -/

/-- `for other_access in var_info:` for one write access: the first access of the same variable
that is neither skipped nor passes the test -/
def firstOther (skip test : SAcc → SAcc → Bool) (w : SAcc) (accs : List SAcc) : Option SAcc :=
  accs.find? fun o => o.arr == w.arr && !skip w o && !test w o

/-- `for write_access in all_write_accesses: for other_access in var_info:` — the first failing
pair (write, other), `none` if every tested pair passes -/
def firstFailWith (skip test : SAcc → SAcc → Bool) (accs : List SAcc) : Option (SAcc × SAcc) :=
  accs.findSome? fun w =>
    if w.write then (firstOther skip test w accs).map fun o => (w, o) else none

/-- the deployed loop tests every pair -/
def firstFail (test : SAcc → SAcc → Bool) (accs : List SAcc) : Option (SAcc × SAcc) :=
  firstFailWith (fun _ _ => false) test accs

/-! ## `_is_loop_carried_dependency` on the fragment -/

/-- outcome of one partition: `return True` / go on with the next partition / `return False` -/
inductive PV where
  | yes | cont | no
  deriving DecidableEq, Repr

def subVars : Sub → List Nat
  | .lv x _ => [x]
  | _ => []

/-- a partition consisting of a single subscript: two literals → `_independent_0_var`; one loop
variable → distance 0 in the parallel variable `v`; two loop variables → `return False` -/
def oneSub (v : Nat) : Sub → Sub → PV
  | .lit c, .lit c' => if c ≠ c' then .yes else .cont
  | .lv x c, .lv y c' => if x ≠ y then .no else if x = v ∧ c = c' then .yes else .cont
  | _, _ => .cont

/-- one subscript of a partition of several subscripts (`_independent_multi_subscript`):
skipped if it uses another loop variable, else distance 0 in `v` -/
def multiSub (v : Nat) : Sub → Sub → Bool
  | .lv x c, .lv y c' => x = v && y = v && c = c'
  | _, _ => false

def sharesVar (xs ys : List Nat) : Bool := xs.any fun x => ys.contains x

/-- `True` = the two accesses never touch the same element in different iterations of `v` -/
def pairTest (v : Nat) (w o : List Sub) : Bool :=
  match w, o with
  | [a], [b] => oneSub v a b == .yes
  | [a0, a1], [b0, b1] =>
    if sharesVar (subVars a0 ++ subVars b0) (subVars a1 ++ subVars b1) then multiSub v a0 b0 || multiSub v a1 b1
    else
      match oneSub v a0 b0 with
      | .yes => true
      | .no => false
      | .cont => oneSub v a1 b1 == .yes
  | _, _ => false        -- an access without subscripts: empty partition list

def pairTestA (v : Nat) (w o : SAcc) : Bool := pairTest v (w.subs.map subOf) (o.subs.map subOf)

/-! ## the static acceptance test -/

/-- the parallel variable is never assigned; every assigned scalar and every inner loop variable
is privatised -/
def scalarsOK (v : Nat) (privs : List Nat) : Stmt → Bool
  | .skip => true
  | .seq a b => scalarsOK v privs a && scalarsOK v privs b
  | .assign x _ => x != v && privs.contains x
  | .store1 a _ _ => a != v
  | .store2 a _ _ _ => a != v
  | .ite _ t f => scalarsOK v privs t && scalarsOK v privs f
  | .loop w _ _ _ b => w != v && privs.contains w && scalarsOK v privs b

/-- accesses of the body that are not accesses to privatised scalars -/
def sharedAccs (P : ParDo) : List SAcc := (stmtSAcc 1 P.body).filter fun a => !P.privs.contains a.arr

/-- **static independence by the pair loop** -/
def pairsIndepB (P : ParDo) : Bool :=
  scalarsOK P.v P.privs P.body && (firstFail (pairTestA P.v) (sharedAccs P)).isNone

/-- the same with a class of pairs left untested -/
def pairsIndepSkipB (skip : SAcc → SAcc → Bool) (P : ParDo) : Bool :=
  scalarsOK P.v P.privs P.body && (firstFailWith skip (pairTestA P.v) (sharedAccs P)).isNone

/-- accesses of the variables that are used with subscripts somewhere (`is_array_access`) -/
def arrayAccs (accs : List SAcc) : List SAcc :=
  accs.filter fun a => accs.any fun b => b.arr == a.arr && !b.subs.isEmpty

/-- accesses of the whole loop: the bounds (location 0), then the body -/
def loopSAcc (lo hi st : Expr) (body : Stmt) : List SAcc :=
  exprSAcc 0 lo ++ exprSAcc 0 hi ++ exprSAcc 0 st ++ stmtSAcc 1 body

/-- the array part of `ParallelLoopTrans.validate` (no `force`): no failing pair for any array -/
def validateArrays (v : Nat) (lo hi st : Expr) (body : Stmt) : Bool :=
  (firstFail (pairTestA v) (arrayAccs (loopSAcc lo hi st body))).isNone

/-- `ParallelLoopTrans.validate` on the fragment: scalar rule and array pair loop -/
def validateModel (v : Nat) (lo hi st : Expr) (body : Stmt) : Bool :=
  validateScalars (.loop v lo hi st body) && validateArrays v lo hi st body

/-- every array subscript of the body is a literal or `x ± c` with `x` a loop variable -/
def inPairFragment (P : ParDo) : Bool :=
  (loopSAcc P.lo P.hi P.step P.body).all fun a => a.subs.all fun e =>
    match subOf e with
    | .lit _ => true
    | .lv x _ => x == P.v || (loopVars P.body).contains x
    | .other => false

end C09
