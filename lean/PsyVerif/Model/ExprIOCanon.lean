import PsyVerif.Model.ExprIO
/-! # C02 — the reader's canonicalisation of intrinsic-call arguments (core Lean only).

`Fparser2Reader._intrinsic_handler` routes MINVAL, MAXVAL and SUM through
`_process_args(node, call, canonicalise=_canonicalise_minmaxsum)`; every other intrinsic keeps its
argument names and order exactly as written.  This file models that step on top of the grammar
model `P`/`parse` of `Model/ExprIO.lean`:

* `orderOk`  — the sanity check of `_process_args` (all named arguments follow all positional ones,
  `GenerationError` otherwise; only made when a canonicalise function is supplied);
* `canonMMS` — `_canonicalise_minmaxsum` on the two parallel lists `arg_nodes`/`arg_names`
  (here: the `cons kw e rest` cells of `Expr`), including its quirks: the array argument is only
  looked for by name when the FIRST argument is named; with three arguments of which fewer than two
  are named ALL three names are overwritten by `None, dim, mask`; two unnamed arguments are refused
  (`NotImplementedError` → CodeBlock);
* `canonTree` — the handler pass over the whole parse tree;
* `read` — the reader: grammar, then handlers.

Names are the harness' ids; which ids denote `minval/maxval/sum` and `array/dim/mask` is the
configuration `IntrCfg`, generated from the live code (`Gen/IntrinsicArgs.lean`). -/
namespace C02

structure IntrCfg where
  /-- ids of the intrinsics that `_intrinsic_handler` routes through `_canonicalise_minmaxsum` -/
  mms : List Nat
  array : Nat
  dim : Nat
  mask : Nat
  deriving DecidableEq, Repr, Inhabited

/-- how `_process_args` + `_canonicalise_minmaxsum` can fail -/
inductive CanonErr
  /-- `GenerationError`: a positional argument after a named one -/
  | generation
  /-- `InternalError`: first argument named but no argument is named `array` -/
  | internal
  /-- `NotImplementedError`: two arguments, none named (dim or mask?) → CodeBlock -/
  | notImplemented
  /-- `IndexError` on `arg_names[0]`: no argument at all -/
  | index
  deriving DecidableEq, Repr, Inhabited

inductive CanonRes
  | ok (args : Expr)
  | err (e : CanonErr)
  deriving DecidableEq, Repr, Inhabited

def argsLen : Expr → Nat
  | .cons _ _ rest => argsLen rest + 1
  | _ => 0

/-- `len([arg_name for arg_name in arg_names if arg_name])` -/
def numNamed : Expr → Nat
  | .cons kw _ rest => (if kw.isSome then 1 else 0) + numNamed rest
  | _ => 0

/-- every cell carries a keyword -/
def allNamed : Expr → Bool
  | .cons kw _ rest => kw.isSome && allNamed rest
  | _ => true

/-- the check of `_process_args`: skip the leading positional arguments, then every remaining
argument must be named. -/
def orderOk : Expr → Bool
  | .cons none _ rest => orderOk rest
  | e => allNamed e

/-- `pop(index of the first name equal to k)`: the argument found and the list without it. -/
def popKw (k : Nat) : Expr → Option (Expr × Expr)
  | .cons kw e rest =>
    if kw = some k then some (e, rest)
    else match popKw k rest with
      | some (x, rest') => some (x, .cons kw e rest')
      | none => none
  | _ => none

/-- `_canonicalise_minmaxsum(arg_nodes, arg_names, node)`. -/
def canonMMSCore (cfg : IntrCfg) (args : Expr) : CanonRes :=
  match args with
  | .cons (some _) _ _ =>
    -- first argument named: move the one called `array` to the front, without its name
    match popKw cfg.array args with
    | some (x, rest) => .ok (.cons none x rest)
    | none => .err .internal
  | .cons none a rest =>
    if argsLen args = 2 && numNamed args = 0 then .err .notImplemented
    else if argsLen args = 3 && numNamed args < 2 then
      match rest with
      | .cons _ b (.cons _ c tl) => .ok (.cons none a (.cons (some cfg.dim) b (.cons (some cfg.mask) c tl)))
      | _ => .ok args            -- unreachable: the length is 3
    else .ok args
  | _ => .err .index

/-- `_process_args(node, call, canonicalise=_canonicalise_minmaxsum)` on the argument lists. -/
def canonMMS (cfg : IntrCfg) (args : Expr) : CanonRes :=
  if orderOk args then canonMMSCore cfg args else .err .generation

/-- The handler pass: every call of an intrinsic in `cfg.mms` has its arguments canonicalised, any
refusal makes the whole expression unreadable (exception or CodeBlock); everything else is kept. -/
def canonTree (cfg : IntrCfg) : Expr → Option Expr
  | .lit l => some (.lit l)
  | .un u e => (canonTree cfg e).map (.un u)
  | .bin b l r =>
    match canonTree cfg l, canonTree cfg r with
    | some l', some r' => some (.bin b l' r')
    | _, _ => none
  | .part n a nx =>
    match canonTree cfg a, canonTree cfg nx with
    | some a', some nx' => some (.part n a' nx')
    | _, _ => none
  | .call f a =>
    match canonTree cfg a with
    | some a' =>
      if cfg.mms.contains f then
        match canonMMS cfg a' with
        | .ok a'' => some (.call f a'')
        | .err _ => none
      else some (.call f a')
    | none => none
  | .nil => some .nil
  | .cons kw e rest =>
    match canonTree cfg e, canonTree cfg rest with
    | some e', some r' => some (.cons kw e' r')
    | _, _ => none

/-- The reader: fparser2 grammar (`parse`), then the PSyIR handlers (`canonTree`). -/
def read (cfg : IntrCfg) (ts : List Tok) : Option Expr :=
  (parse ts).bind (canonTree cfg)

/-- PSyIR canonical form of a MINVAL/MAXVAL/SUM argument list (docstring of
`_canonicalise_minmaxsum`): the required argument positional, every optional argument named
(in ANY order). -/
def mmsArgsCanonical : Expr → Bool
  | .cons none _ rest => allNamed rest
  | _ => false

/-- every MINVAL/MAXVAL/SUM call of the tree is in PSyIR canonical form -/
def mmsCanonical (cfg : IntrCfg) : Expr → Bool
  | .lit _ => true
  | .un _ e => mmsCanonical cfg e
  | .bin _ l r => mmsCanonical cfg l && mmsCanonical cfg r
  | .part _ a nx => mmsCanonical cfg a && mmsCanonical cfg nx
  | .call f a => (!cfg.mms.contains f || mmsArgsCanonical a) && mmsCanonical cfg a
  | .nil => true
  | .cons _ e rest => mmsCanonical cfg e && mmsCanonical cfg rest

/-- Fortran 2008 C412 (R413 real-literal-constant): "if both kind-param and exponent-letter are present,
exponent-letter shall be E" — a literal token with exponent letter `d` must not carry a kind suffix. -/
def LitTok.std : LitTok → Bool
  | .num _ _ .d k => k == .none
  | _ => true

/-- every literal token of the list is a standard lexeme -/
def litToksStd : List Tok → Bool
  | .lit l :: r => l.std && litToksStd r
  | _ :: r => litToksStd r
  | [] => true

/-- argument list from a Lean list (for statements about permutations) -/
def ofArgs : List (Option Nat × Expr) → Expr
  | [] => .nil
  | (kw, e) :: r => .cons kw e (ofArgs r)

end C02
