import PsyVerif.Model.OMP
/-! # C09 — a finer-grained parallel semantics: threads interleave at STATEMENT granularity

The loop body is given as the list `ss` of its top-level statements (`P.body = MiniF.seqs ss`,
which is what the exporter produces).  An iteration is the sequence of *micro-steps*
`v = lo + k*step ; s₁ ; … ; sₘ`; every micro-step is executed atomically by one thread in its
view (own private copies, shared store elsewhere) — compound statements (an `if`, an inner loop)
are one micro-step.  A fine schedule is a list of events `(t, k)`: "thread `t` executes the next
micro-step of iteration `k`".  An event is enabled iff iteration `k` has micro-steps left and
thread `t` is either in the middle of iteration `k` or idle while `k` has not been started by
anybody; so each thread runs whole iterations one after another, in any order and with any
interleaving of the micro-steps of different threads.  Core Lean only. -/
namespace C09
open MiniF

/-- run a list of statements one after another -/
def execList : List Stmt → Store → Store
  | [], σ => σ
  | s :: r, σ => execList r (exec s σ)

/-- dynamic footprint of a list of statements -/
def fpList : List Stmt → Store → Fp
  | [], _ => ([], [])
  | s :: r, σ => fpSeq (fp s σ) (fpList r (exec s σ))

/-- the micro-steps of iteration number `k` -/
def iterProg (v : Nat) (lo step : Int) (ss : List Stmt) (k : Nat) : List Stmt :=
  .assign v (.lit (lo + (k : Int) * step)) :: ss

structure FState where
  shared : Store
  thr : List (Nat × PStore)
  /-- per iteration: the micro-steps not yet executed -/
  rem : Nat → List Stmt
  /-- per thread: the iteration it is in the middle of -/
  cur : Nat → Option Nat

inductive FOut where
  | ok (s : FState)
  | poison      -- an undefined private copy was read
  | invalid     -- the event was not enabled (not a schedule)

/-- thread `t` executes the next micro-step of iteration `k` -/
def stepFine (P : ParDo) (σ₀ : Store) (prog : Nat → List Stmt) (s : FState) (t k : Nat) : FOut :=
  match s.rem k with
  | [] => .invalid
  | st :: r =>
    if s.cur t = some k ∨ (s.cur t = none ∧ s.rem k = prog k) then
      match execP st (view P.privs s.shared (threadMem σ₀ P.undef0 s.thr t)) with
      | none => .poison
      | some V' => .ok ⟨unview P.privs s.shared V'.st, (t, V') :: s.thr,
          fun j => if j = k then r else s.rem j,
          fun u => if u = t then (if r = [] then none else some k) else s.cur u⟩
    else .invalid

def runFine (P : ParDo) (σ₀ : Store) (prog : Nat → List Stmt) : List (Nat × Nat) → FState → FOut
  | [], s => .ok s
  | (t, k) :: rest, s =>
    match stepFine P σ₀ prog s t k with
    | .ok s' => runFine P σ₀ prog rest s'
    | o => o

/-- the parallel loop under a fine-grained schedule; `ss` are the top-level statements of the body -/
def execOMPfine (P : ParDo) (ss : List Stmt) (events : List (Nat × Nat)) (σ : Store) : FOut :=
  let prog := iterProg P.v (eval P.lo σ) (eval P.step σ) ss
  runFine P σ prog events ⟨σ, [], fun k => if k < P.trips σ then prog k else [], fun _ => none⟩

/-- every iteration has been executed completely -/
def FState.Complete (s : FState) (n : Nat) : Prop := ∀ k, k < n → s.rem k = []

end C09
