import PsyVerif.Model.MiniF
/-! # C01 — the reader's lowerings (fparser2.py) over MiniF

Source-level constructs (`Src`): SELECT CASE, WHERE/ELSEWHERE over rank-1 arrays, DO with an
optional step, IF/ELSE IF chains (nested `ifc`), array-section assignment; with their
STANDARD semantics (`run`/`execSrc`).  `lower` mirrors `Fparser2Reader`:
`_case_construct_handler`/`_process_case_value_list`/`_process_case_value`,
`_where_construct_handler`/`_array_syntax_to_indexed`/`_array_notation_rank`,
`_do_construct_handler`/`_create_bounded_loop`, `_if_construct_handler`,
`_subscript_triplet_handler`.  A refusal (NotImplementedError) yields `codeBlock src`,
which the writer re-emits verbatim (semantics of the original statement).

MODE: the WHERE loop upper bound follows the FIXED code (fixes/C01-where-extent.patch):
extent `upper - lower + 1` of the declared bounds instead of the declared upper bound.

The type is one flat inductive (no nesting through `List Src`), all functions are
structurally recursive, so concrete programs reduce under `decide`.  Core Lean only. -/
namespace C01
open MiniF

/-- declared bounds of a rank-1 array; `typed` = the declaration became a PSyIR `ArrayType`
(literal non-negative bounds); otherwise it is an `UnsupportedFortranType` and the reader
queries `SIZE`/`LBOUND` instead of using the declared shape. -/
structure ArrDecl where
  lo : Int
  hi : Int
  typed : Bool
  deriving DecidableEq, Repr, Inhabited

abbrev Env := List (Nat × ArrDecl)

def Env.get : Env → Nat → ArrDecl
  | [], _ => ⟨1, 0, true⟩
  | (b, d) :: rest, a => if a = b then d else Env.get rest a

/-- a subscript triplet `lo:hi:st` with omitted parts (`(:)` = all `none`) -/
structure Sec where
  lo : Option Int
  hi : Option Int
  st : Option Int
  deriving DecidableEq, Repr, Inhabited

def Sec.full : Sec := ⟨none, none, none⟩

inductive CaseVal where
  | val (c : Int)
  | range (lo hi : Option Int)
  deriving DecidableEq, Repr, Inhabited

/-- array-valued (elemental) expressions of a WHERE / array assignment -/
inductive AExpr where
  | scal (e : Expr)
  | sec (a : Nat) (s : Sec)
  | un (op : UnOp) (e : AExpr)
  | bin (op : BinOp) (a b : AExpr)
  | sum (a : Nat)       -- SUM(a) of a whole rank-1 array: non-elemental, scalar result
  | sumDim (a : Nat)    -- SUM(a, dim=1)
  deriving DecidableEq, Repr, Inhabited

structure WAssign where
  a : Nat
  s : Sec
  rhs : AExpr
  deriving DecidableEq, Repr, Inhabited

/-- `WHERE (m) body [ELSEWHERE (m') body']* [ELSEWHERE body'']` -/
inductive WClauses where
  | nil
  | masked (m : AExpr) (body : List WAssign) (rest : WClauses)
  | final (body : List WAssign)
  deriving DecidableEq, Repr, Inhabited

inductive Src where
  | skip
  | seq (a b : Src)
  | assign (x : Nat) (e : Expr)
  | store1 (a : Nat) (i e : Expr)
  | store2 (a : Nat) (i j e : Expr)
  | ifc (c : Expr) (t f : Src)
  | doc (v : Nat) (lo hi : Expr) (st : Option Expr) (body : Src)
  /-- `SELECT CASE (sel)`; `cases` is a chain of `caseItem`/`caseDefault` ended by `caseEnd` -/
  | selectCase (logical : Bool) (sel : Expr) (cases : Src)
  | caseItem (vals : List CaseVal) (body rest : Src)
  | caseDefault (body rest : Src)
  | caseEnd
  /-- WHERE construct; `wv` is the loop variable the reader will create (a scratch variable
  that the source program does not mention) -/
  | whereC (tag wv : Nat) (cl : WClauses)
  /-- array assignment `a(s) = rhs` outside a WHERE (kept as array notation by the reader) -/
  | arrAssign (tag a : Nat) (s : Sec) (rhs : AExpr)
  | codeBlock (s : Src)
  deriving DecidableEq, Repr, Inhabited

/-! ## Standard semantics -/

def secStart (env : Env) (a : Nat) (s : Sec) : Int := s.lo.getD (env.get a).lo
def secStop (env : Env) (a : Nat) (s : Sec) : Int := s.hi.getD (env.get a).hi
def secStride (s : Sec) : Int := s.st.getD 1
/-- number of elements of a section: `MAX(0, (hi - lo + st) / st)` -/
def secExtent (env : Env) (a : Nat) (s : Sec) : Nat :=
  trip (secStart env a s) (secStop env a s) (secStride s)

def arrExtent (env : Env) (a : Nat) : Nat := ((env.get a).hi - (env.get a).lo + 1).toNat

/-- `σ(a,lo) + … + σ(a,lo+n-1)` -/
def sumArr (σ : Store) (a : Nat) (lo : Int) : Nat → Int
  | 0 => 0
  | n+1 => sumArr σ a lo n + σ (a, lo + n, 0)

/-- value of an array expression at position `k` (0-based) of its shape -/
def evalA (env : Env) (k : Nat) : AExpr → Store → Int
  | .scal e, σ => eval e σ
  | .sec a s, σ => σ (a, secStart env a s + k * secStride s, 0)
  | .un op e, σ => evalUn op (evalA env k e σ)
  | .bin op a b, σ => evalBin op (evalA env k a σ) (evalA env k b σ)
  | .sum a, σ => sumArr σ a (env.get a).lo (arrExtent env a)
  | .sumDim a, σ => sumArr σ a (env.get a).lo (arrExtent env a)

/-- masked assignment `a(s) = rhs`: the RHS is evaluated completely (in `σ₀`) before any
element is stored; elements `k < n` with `ctl k` are stored. -/
def maskedStore (env : Env) (ctl : Nat → Bool) (w : WAssign) (σ₀ : Store) : Nat → Store → Store
  | 0, τ => τ
  | n+1, τ =>
    let τ' := maskedStore env ctl w σ₀ n τ
    if ctl n then τ'.set (w.a, secStart env w.a w.s + n * secStride w.s, 0) (evalA env n w.rhs σ₀) else τ'

def maskedAssign (env : Env) (n : Nat) (ctl : Nat → Bool) (w : WAssign) (σ : Store) : Store :=
  maskedStore env ctl w σ n σ

/-- the assignments of one WHERE block, statement by statement over the whole mask -/
def stdAssigns (env : Env) (n : Nat) (ctl : Nat → Bool) : List WAssign → Store → Store
  | [], σ => σ
  | w :: ws, σ => stdAssigns env n ctl ws (maskedAssign env n ctl w σ)

/-- F2003 7.4.3.2: each mask is evaluated once, for all elements, when its WHERE /
ELSEWHERE statement is executed; `pend` is the pending control mask. -/
def stdClauses (env : Env) (n : Nat) (pend : Nat → Bool) : WClauses → Store → Store
  | .nil, σ => σ
  | .masked m body rest, σ =>
    stdClauses env n (fun k => pend k && !(evalA env k m σ != 0)) rest
      (stdAssigns env n (fun k => pend k && (evalA env k m σ != 0)) body σ)
  | .final body, σ => stdAssigns env n pend body σ

/-- first array section of an expression in pre-order (what `walk(ArrayMixin)` finds) -/
def firstSec : AExpr → Option (Nat × Sec)
  | .scal _ => none
  | .sec a s => some (a, s)
  | .un _ e => firstSec e
  | .bin _ a b => match firstSec a with
    | some r => some r
    | none => firstSec b
  | .sum _ => none
  | .sumDim _ => none

/-- shape of the construct = shape of its mask (all sections of a standard-conforming WHERE
have the same shape) -/
def whereExtent (env : Env) : WClauses → Nat
  | .masked m _ _ => match firstSec m with
    | some (a, s) => secExtent env a s
    | none => 0
  | _ => 0

/-- the standard semantics of a WHERE construct -/
def execWhere (env : Env) (cl : WClauses) (σ : Store) : Store :=
  stdClauses env (whereExtent env cl) (fun _ => true) cl σ

def matchVal (logical : Bool) (v : Int) : CaseVal → Bool
  | .val c => if logical then ((v != 0) == (c != 0)) else v == c
  | .range lo hi =>
    (match lo with | none => true | some l => decide (l ≤ v)) &&
    (match hi with | none => true | some h => decide (v ≤ h))

/-- One structural function for statements and case chains.  In statement position the
`Bool`/`Int` arguments are ignored and the flag returned is `false`; on a case chain they are
the selector kind and the selector VALUE (evaluated once by `selectCase`), and the flag
tells whether a case matched.  The first matching case in textual order is executed (the
standard forbids overlapping cases, so this is the unique match); the default body is
executed iff no case matches, wherever `CASE DEFAULT` stands.  A lowered WHERE leaves
`extent + 1` in its scratch loop variable; the source semantics does the same to `wv`
(see `execWhere` for the semantics proper). -/
def run (env : Env) : Src → Bool → Int → Store → Bool × Store
  | .skip, _, _, σ => (false, σ)
  | .seq a b, _, _, σ => (false, (run env b false 0 (run env a false 0 σ).2).2)
  | .assign x e, _, _, σ => (false, σ.set (x, 0, 0) (eval e σ))
  | .store1 a i e, _, _, σ => (false, σ.set (a, eval i σ, 0) (eval e σ))
  | .store2 a i j e, _, _, σ => (false, σ.set (a, eval i σ, eval j σ) (eval e σ))
  | .ifc c t f, _, _, σ =>
    (false, if eval c σ ≠ 0 then (run env t false 0 σ).2 else (run env f false 0 σ).2)
  | .doc v lo hi st body, _, _, σ =>
    let s := match st with | none => 1 | some e => eval e σ
    (false, runIters (fun τ => (run env body false 0 τ).2) v (eval lo σ) s
      (trip (eval lo σ) (eval hi σ) s) 0 σ)
  | .selectCase lg sel cases, _, _, σ => (false, (run env cases lg (eval sel σ) σ).2)
  | .caseItem vals body rest, lg, v, σ =>
    if vals.any (matchVal lg v) then (true, (run env body false 0 σ).2) else run env rest lg v σ
  | .caseDefault body rest, lg, v, σ =>
    if (run env rest lg v σ).1 then run env rest lg v σ else (true, (run env body false 0 σ).2)
  | .caseEnd, _, _, σ => (false, σ)
  | .whereC _ wv cl, _, _, σ =>
    (false, (execWhere env cl σ).set (wv, 0, 0) ((whereExtent env cl : Int) + 1))
  | .arrAssign _ a s rhs, _, _, σ =>
    (false, maskedAssign env (secExtent env a s) (fun _ => true) ⟨a, s, rhs⟩ σ)
  | .codeBlock s, _, _, σ => (false, (run env s false 0 σ).2)

def execSrc (env : Env) (s : Src) (σ : Store) : Store := (run env s false 0 σ).2

/-! ## The lowering -/

/-- a source integer literal as the reader builds it: `-3` is `MINUS(3)` -/
def litE (n : Int) : Expr := if n < 0 then .un .neg (.lit (-n)) else .lit n

/-- `_process_case_value`: `==` / `.EQV.` for a value, `>=`/`<=` (joined by `.AND.`) for a range -/
def caseCond (lg : Bool) (sel : Expr) : CaseVal → Expr
  | .val c => if lg then .bin .eqv sel (.lit c) else .bin .eq sel (litE c)
  | .range (some l) (some h) => .bin .and (.bin .ge sel (litE l)) (.bin .le sel (litE h))
  | .range (some l) none => .bin .ge sel (litE l)
  | .range none (some h) => .bin .le sel (litE h)
  | .range none none => .lit 1

/-- `_process_case_value_list`: right-nested `.OR.`; the selector is copied into every test -/
def caseConds (lg : Bool) (sel : Expr) : List CaseVal → Expr
  | [] => .lit 0
  | [v] => caseCond lg sel v
  | v :: vs => .bin .or (caseCond lg sel v) (caseConds lg sel vs)

def Src.seqs : List Src → Src
  | [] => .skip
  | [s] => s
  | s :: rest => .seq s (Src.seqs rest)

/-- `is_lower_bound`/`is_upper_bound`/`is_full_range`: an omitted bound (LBOUND/UBOUND) or,
for a typed declaration, a literal equal to the declared bound; step literal 1 -/
def isFull (env : Env) (a : Nat) (s : Sec) : Bool :=
  (match s.lo with | none => true | some l => (env.get a).typed && l == (env.get a).lo) &&
  (match s.hi with | none => true | some h => (env.get a).typed && h == (env.get a).hi) &&
  (match s.st with | none => true | some t => t == 1)

/-- `lbound + widx - 1` -/
def offIdx (b : Expr) (wv : Nat) : Expr := .bin .sub (.bin .add b (.var wv)) (.lit 1)

/-- `_array_syntax_to_indexed`: index replacing a range.  Full range: relative to
`LBOUND(a,1)`; otherwise relative to the section's start (its stride is IGNORED);
a literal start `1` gives the bare loop index. -/
def idxExpr (env : Env) (wv a : Nat) (s : Sec) : Expr :=
  if isFull env a s then offIdx (.lit (env.get a).lo) wv
  else match s.lo with
    | none => offIdx (.lit (env.get a).lo) wv
    | some l => if l = 1 then .var wv else offIdx (litE l) wv

/-- `SUM(a)` over the declared extent, as the exporter unrolls it -/
def sumExpr (a : Nat) (lo : Int) : Nat → Expr
  | 0 => .lit 0
  | n+1 => .bin .add (sumExpr a lo n) (.idx1 a (.lit (lo + n)))

def lowerA (env : Env) (wv : Nat) : AExpr → Expr
  | .scal e => e
  | .sec a s => .idx1 a (idxExpr env wv a s)
  | .un op e => .un op (lowerA env wv e)
  | .bin op a b => .bin op (lowerA env wv a) (lowerA env wv b)
  | .sum a => sumExpr a (env.get a).lo (arrExtent env a)
  | .sumDim a => sumExpr a (env.get a).lo (arrExtent env a)

/-- upper bound of the loop over the mask shape (`mask_shape[..]` / `ArrayMixin._extent`) -/
def whereUpper (env : Env) (a : Nat) (s : Sec) : Expr :=
  let d := env.get a
  if isFull env a s then
    if d.typed then
      (if d.lo = 1 then .lit d.hi else .bin .add (.bin .sub (.lit d.hi) (.lit d.lo)) (.lit 1))
    else .lit (d.hi - d.lo + 1)
  else
    let start := match s.lo with | none => Expr.lit d.lo | some l => litE l
    let stop := match s.hi with | none => Expr.lit d.hi | some h => litE h
    let unit := match s.st with | none => true | some t => t == 1
    if s.lo == some 1 && unit then stop
    else
      let ext := Expr.bin .sub stop start
      let r := match s.st with
        | none => ext
        | some t => if t == 1 then ext else .bin .div ext (litE t)
      .bin .add r (.lit 1)

def hasSumDim : AExpr → Bool
  | .scal _ => false
  | .sec _ _ => false
  | .un _ e => hasSumDim e
  | .bin _ a b => hasSumDim a || hasSumDim b
  | .sum _ => false
  | .sumDim _ => true

def lowerAssigns (env : Env) (wv : Nat) (ws : List WAssign) : Src :=
  Src.seqs (ws.map fun w => .store1 w.a (idxExpr env wv w.a w.s) (lowerA env wv w.rhs))

/-- the ELSEWHERE chain as nested IFs -/
def lowerClauses (env : Env) (wv : Nat) : WClauses → Src
  | .nil => .skip
  | .masked m body rest => .ifc (lowerA env wv m) (lowerAssigns env wv body) (lowerClauses env wv rest)
  | .final body => lowerAssigns env wv body

/-- the refusals of `_where_construct_handler`/`_array_notation_rank` (→ CodeBlock): an array
reduction with a `dim=` argument anywhere, or an assignment whose LHS is not a full range -/
def refusedClauses (env : Env) : WClauses → Bool
  | .nil => false
  | .masked m body rest =>
    hasSumDim m || body.any (fun w => hasSumDim w.rhs || !isFull env w.a w.s) || refusedClauses env rest
  | .final body => body.any (fun w => hasSumDim w.rhs || !isFull env w.a w.s)

def lowerWhere (env : Env) (wv : Nat) (cl : WClauses) : Option Src :=
  match cl with
  | .masked m _ _ =>
    if refusedClauses env cl then none
    else match firstSec m with
      | none => none
      | some (a, s) =>
        some (.doc wv (.lit 1) (whereUpper env a s) (some (.lit 1)) (lowerClauses env wv cl))
  | _ => none

/-- `lower`: in statement position call it as `low env s false (.lit 0) .skip`.  On a case
chain `lg`/`sel` are the selector (re-evaluated in every test, as the code does) and `d` the
lowered default body, which ends the IF chain wherever `CASE DEFAULT` stood. -/
def low (env : Env) : Src → Bool → Expr → Src → Src
  | .skip, _, _, _ => .skip
  | .seq a b, _, _, _ => .seq (low env a false (.lit 0) .skip) (low env b false (.lit 0) .skip)
  | .assign x e, _, _, _ => .assign x e
  | .store1 a i e, _, _, _ => .store1 a i e
  | .store2 a i j e, _, _, _ => .store2 a i j e
  | .ifc c t f, _, _, _ => .ifc c (low env t false (.lit 0) .skip) (low env f false (.lit 0) .skip)
  | .doc v lo hi st body, _, _, _ =>
    .doc v lo hi (some (match st with | none => .lit 1 | some e => e)) (low env body false (.lit 0) .skip)
  | .selectCase lg sel cases, _, _, _ => low env cases lg sel .skip
  | .caseItem vals body rest, lg, sel, d =>
    .ifc (caseConds lg sel vals) (low env body false (.lit 0) .skip) (low env rest lg sel d)
  | .caseDefault body rest, lg, sel, _ => low env rest lg sel (low env body false (.lit 0) .skip)
  | .caseEnd, _, _, d => d
  | .whereC tag wv cl, _, _, _ =>
    match lowerWhere env wv cl with
    | some s => s
    | none => .codeBlock (.whereC tag wv cl)
  | .arrAssign tag a s rhs, _, _, _ => .codeBlock (.arrAssign tag a s rhs)
  | .codeBlock s, _, _, _ => .codeBlock s

def lower (env : Env) (s : Src) : Src := low env s false (.lit 0) .skip

/-- flatten `seq` nests and drop `skip`s (the reader splices the statements of a
default-only SELECT CASE into the parent schedule) -/
def flat : Src → List Src → List Src
  | .skip, acc => acc
  | .seq a b, acc => flat a (flat b acc)
  | .ifc c t f, acc => .ifc c (Src.seqs (flat t [])) (Src.seqs (flat f [])) :: acc
  | .doc v lo hi st b, acc => .doc v lo hi st (Src.seqs (flat b [])) :: acc
  | s, acc => s :: acc

def norm (s : Src) : Src := Src.seqs (flat s [])

/-- into MiniF, when no source-only construct is left -/
def toMiniF : Src → Option Stmt
  | .skip => some .skip
  | .seq a b => match toMiniF a, toMiniF b with
    | some x, some y => some (.seq x y)
    | _, _ => none
  | .assign x e => some (.assign x e)
  | .store1 a i e => some (.store1 a i e)
  | .store2 a i j e => some (.store2 a i j e)
  | .ifc c t f => match toMiniF t, toMiniF f with
    | some x, some y => some (.ite c x y)
    | _, _ => none
  | .doc v lo hi (some st) b => match toMiniF b with
    | some x => some (.loop v lo hi st x)
    | none => none
  | _ => none

/-! ## Well-formedness and the side condition of the WHERE theorem -/

/-- `chain = false`: a statement; `chain = true`: a case chain -/
def wf : Src → Bool → Bool
  | .skip, c => !c
  | .seq a b, c => !c && wf a false && wf b false
  | .assign _ _, c => !c
  | .store1 _ _ _, c => !c
  | .store2 _ _ _ _, c => !c
  | .ifc _ t f, c => !c && wf t false && wf f false
  | .doc _ _ _ _ b, c => !c && wf b false
  | .selectCase _ _ cs, c => !c && wf cs true
  | .caseItem _ body rest, c => c && wf body false && wf rest true
  | .caseDefault body rest, c => c && wf body false && wf rest true
  | .caseEnd, c => c
  | .whereC _ _ _, c => !c
  | .arrAssign _ _ _ _, c => !c
  | .codeBlock s, c => !c && wf s false

def assignedArrs : WClauses → List Nat
  | .nil => []
  | .masked _ body rest => body.map (·.a) ++ assignedArrs rest
  | .final body => body.map (·.a)

/-- variables of an expression (as in `MiniF.evars`, restated here because Model files do
not import Lemmas) -/
def exprVars : Expr → List Nat
  | .lit _ => []
  | .var x => [x]
  | .idx1 a i => a :: exprVars i
  | .idx2 a i j => a :: (exprVars i ++ exprVars j)
  | .un _ e => exprVars e
  | .bin _ a b => exprVars a ++ exprVars b

/-- an expression is *elemental w.r.t. the assigned arrays `A`*: every section has unit
stride, a section of an assigned array is aligned with the assignments (starts at the
array's lower bound), no reduction reads an assigned array, scalar sub-expressions read
neither an assigned array nor the loop variable. -/
def elemA (env : Env) (A : List Nat) (wv : Nat) : AExpr → Bool
  | .scal e => (exprVars e).all fun x => !A.contains x && x != wv
  | .sec a s => secStride s == 1 && a != wv && (!A.contains a || secStart env a s == (env.get a).lo)
  | .un _ e => elemA env A wv e
  | .bin _ a b => elemA env A wv a && elemA env A wv b
  | .sum a => !A.contains a && a != wv
  | .sumDim a => !A.contains a && a != wv

def elemAssigns (env : Env) (A : List Nat) (wv : Nat) (ws : List WAssign) : Bool :=
  ws.all fun w => isFull env w.a w.s && elemA env A wv w.rhs

def elemClauses (env : Env) (A : List Nat) (wv : Nat) : WClauses → Bool
  | .nil => true
  | .masked m body rest => elemA env A wv m && elemAssigns env A wv body && elemClauses env A wv rest
  | .final body => elemAssigns env A wv body

/-- `WhereElemental`: the decidable side condition of `lower_where_sound_partial` -/
def whereElemental (env : Env) (wv : Nat) (cl : WClauses) : Bool :=
  !(assignedArrs cl).contains wv && elemClauses env (assignedArrs cl) wv cl

/-- every WHERE in the program is either refused (CodeBlock) or elemental -/
def good (env : Env) : Src → Bool
  | .skip => true
  | .seq a b => good env a && good env b
  | .assign _ _ => true
  | .store1 _ _ _ => true
  | .store2 _ _ _ _ => true
  | .ifc _ t f => good env t && good env f
  | .doc _ _ _ _ b => good env b
  | .selectCase _ _ cs => good env cs
  | .caseItem _ body rest => good env body && good env rest
  | .caseDefault body rest => good env body && good env rest
  | .caseEnd => true
  | .whereC _ wv cl => (lowerWhere env wv cl).isNone || whereElemental env wv cl
  | .arrAssign _ _ _ _ => true
  | .codeBlock _ => true

end C01
