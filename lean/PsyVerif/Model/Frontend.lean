import PsyVerif.Model.MiniF
/-! # C01 — the reader's lowerings (fparser2.py) over MiniF

Source-level constructs (`Src`): SELECT CASE, WHERE/ELSEWHERE over rank-1 and rank-2 arrays (cells of
the mask shape), DO with an optional step, DO WHILE / DO forever (fuel-bounded), IF/ELSE IF chains
(nested `ifc`), named DO / IF constructs, EXIT / CYCLE / GO TO / labelled statements (`jump`),
array-section assignment, array reductions; with their STANDARD semantics (`run`/`execSrc`).
`lower` mirrors `Fparser2Reader`:
`_case_construct_handler`/`_process_case_value_list`/`_process_case_value`,
`_where_construct_handler`/`_array_syntax_to_indexed`/`_array_notation_rank`,
`_do_construct_handler` (WhileLoop; "construct name referred to inside" → CodeBlock)/
`_create_bounded_loop`, `_if_construct_handler`, `_subscript_triplet_handler`.  A refusal
(NotImplementedError) or an unsupported statement yields `codeBlock src`, which the writer re-emits
verbatim (semantics of the original statement).

MODE: the WHERE loop upper bounds follow the FIXED code (fixes/C01-where-extent.patch, committed):
extent `upper - lower + 1` of the declared bounds instead of the declared upper bound; construct
names are compared case-insensitively (fixes/C01-construct-name-case.patch, committed).

The type is one flat inductive (no nesting through `List Src`), all functions are
structurally recursive, so concrete programs reduce under `decide`.  Core Lean only. -/
namespace C01
open MiniF

/-- declared bounds of an array (`lo2:hi2` = second dimension of a rank-2 array, `0:0` for rank 1); `typed` = the declaration became a PSyIR `ArrayType`
(literal non-negative bounds); otherwise it is an `UnsupportedFortranType` and the reader
queries `SIZE`/`LBOUND` instead of using the declared shape. -/
structure ArrDecl where
  lo : Int
  hi : Int
  typed : Bool
  lo2 : Int
  hi2 : Int
  deriving DecidableEq, Repr, Inhabited

abbrev Env := List (Nat × ArrDecl)

def Env.get : Env → Nat → ArrDecl
  | [], _ => ⟨1, 0, true, 0, 0⟩
  | (b, d) :: rest, a => if a = b then d else Env.get rest a

/-- a subscript triplet `lo:hi:st` with omitted parts (`(:)` = all `none`) -/
structure Sec where
  lo : Option Int
  hi : Option Int
  st : Option Int
  deriving DecidableEq, Repr, Inhabited

def Sec.full : Sec := ⟨none, none, none⟩

inductive CaseVal where
  | val (c : Int)
  | range (lo hi : Option Int)
  deriving DecidableEq, Repr, Inhabited

/-- the array reductions (non-elemental intrinsics with a scalar result for a rank-1 array) -/
inductive Red where
  | sum | maxval | minval | product
  deriving DecidableEq, Repr, Inhabited

/-- array-valued (elemental) expressions of a WHERE / array assignment -/
inductive AExpr where
  | scal (e : Expr)
  | sec (a : Nat) (s : Sec)
  | sec2 (a : Nat) (s1 s2 : Sec)        -- section of a rank-2 array, a range in both dimensions
  | un (op : UnOp) (e : AExpr)
  | bin (op : BinOp) (a b : AExpr)
  | red (k : Red) (a : Nat)       -- SUM(a) / MAXVAL(a) / … of a whole rank-1 array: non-elemental, scalar result
  | redDim (k : Red) (a : Nat)    -- SUM(a, dim=1) / …: named `dim` argument
  deriving DecidableEq, Repr, Inhabited

/-- `a(s) = rhs` (rank 1, `s2 = none`) or `a(s, s2) = rhs` (rank 2) -/
structure WAssign where
  a : Nat
  s : Sec
  rhs : AExpr
  s2 : Option Sec
  deriving DecidableEq, Repr, Inhabited

/-- `WHERE (m) body [ELSEWHERE (m') body']* [ELSEWHERE body'']` -/
inductive WClauses where
  | nil
  | masked (m : AExpr) (body : List WAssign) (rest : WClauses)
  | final (body : List WAssign)
  deriving DecidableEq, Repr, Inhabited

inductive Src where
  | skip
  | seq (a b : Src)
  | assign (x : Nat) (e : Expr)
  | store1 (a : Nat) (i e : Expr)
  | store2 (a : Nat) (i j e : Expr)
  | ifc (c : Expr) (t f : Src)
  | doc (v : Nat) (lo hi : Expr) (st : Option Expr) (body : Src)
  /-- `SELECT CASE (sel)`; `cases` is a chain of `caseItem`/`caseDefault` ended by `caseEnd` -/
  | selectCase (logical : Bool) (sel : Expr) (cases : Src)
  | caseItem (vals : List CaseVal) (body rest : Src)
  | caseDefault (body rest : Src)
  | caseEnd
  /-- WHERE construct; `wv` is the loop variable the reader will create (a scratch variable
  that the source program does not mention) -/
  | whereC (tag wv : Nat) (cl : WClauses)
  /-- array assignment `a(s) = rhs` outside a WHERE (kept as array notation by the reader) -/
  | arrAssign (tag a : Nat) (s : Sec) (rhs : AExpr)
  | codeBlock (s : Src)
  /-- `DO WHILE (c)` / `DO` (no condition): a PSyIR `WhileLoop` -/
  | doWhile (c : Option Expr) (body : Src)
  /-- `name: DO … END DO name`; `inner` is the DO (counted or WHILE) -/
  | namedDo (tag name : Nat) (inner : Src)
  /-- `name: IF … END IF name` -/
  | namedIf (name : Nat) (inner : Src)
  /-- an unsupported statement: `kind` 0 = `EXIT [name]`, 1 = `CYCLE [name]`, 2 = `GO TO label`,
  3 = a labelled statement (`label CONTINUE`); always a CodeBlock -/
  | jump (tag kind : Nat) (name : Option Nat)
  deriving DecidableEq, Repr, Inhabited

/-! ## Standard semantics -/

def secStart (env : Env) (a : Nat) (s : Sec) : Int := s.lo.getD (env.get a).lo
def secStop (env : Env) (a : Nat) (s : Sec) : Int := s.hi.getD (env.get a).hi
def secStride (s : Sec) : Int := s.st.getD 1
/-- number of elements of a section: `MAX(0, (hi - lo + st) / st)` -/
def secExtent (env : Env) (a : Nat) (s : Sec) : Nat :=
  trip (secStart env a s) (secStop env a s) (secStride s)

def secStart2 (env : Env) (a : Nat) (s : Sec) : Int := s.lo.getD (env.get a).lo2
def secStop2 (env : Env) (a : Nat) (s : Sec) : Int := s.hi.getD (env.get a).hi2
def secExtent2 (env : Env) (a : Nat) (s : Sec) : Nat :=
  trip (secStart2 env a s) (secStop2 env a s) (secStride s)

def arrExtent (env : Env) (a : Nat) : Nat := ((env.get a).hi - (env.get a).lo + 1).toNat

def redBin : Red → BinOp
  | .sum => .add
  | .maxval => .max
  | .minval => .min
  | .product => .mul

/-- the reduction of `σ(a,lo) … σ(a,lo+n-1)`; MAXVAL/MINVAL start from the first element (their value for an
empty array, `-HUGE`/`HUGE`, is outside the exactly representable domain) -/
def redArr (k : Red) (σ : Store) (a : Nat) (lo : Int) : Nat → Int
  | 0 => match k with
    | .sum => 0
    | .product => 1
    | _ => σ (a, lo, 0)
  | n+1 => evalBin (redBin k) (redArr k σ a lo n) (σ (a, lo + n, 0))

/-- a position (0-based, per dimension) of the shape of a WHERE; rank 1 uses `(k, 0)` -/
abbrev Cell := Nat × Nat

/-- value of an array expression at cell `c` of its shape -/
def evalA (env : Env) (c : Cell) : AExpr → Store → Int
  | .scal e, σ => eval e σ
  | .sec a s, σ => σ (a, secStart env a s + c.1 * secStride s, 0)
  | .sec2 a s1 s2, σ =>
    σ (a, secStart env a s1 + c.1 * secStride s1, secStart2 env a s2 + c.2 * secStride s2)
  | .un op e, σ => evalUn op (evalA env c e σ)
  | .bin op a b, σ => evalBin op (evalA env c a σ) (evalA env c b σ)
  | .red k a, σ => redArr k σ a (env.get a).lo (arrExtent env a)
  | .redDim k a, σ => redArr k σ a (env.get a).lo (arrExtent env a)

/-- the element of the LHS at cell `c` -/
def lhsLoc (env : Env) (w : WAssign) (c : Cell) : Loc :=
  (w.a, secStart env w.a w.s + c.1 * secStride w.s,
    match w.s2 with
    | none => 0
    | some s2 => secStart2 env w.a s2 + c.2 * secStride s2)

/-- masked assignment: the RHS is evaluated completely (in `σ`) before any element is stored;
the cells of `cs` selected by `ctl` are stored. -/
def maskedAssign (env : Env) (cs : List Cell) (ctl : Cell → Bool) (w : WAssign) (σ : Store) : Store :=
  cs.foldl (fun τ c => if ctl c then τ.set (lhsLoc env w c) (evalA env c w.rhs σ) else τ) σ

/-- the assignments of one WHERE block, statement by statement over the whole mask -/
def stdAssigns (env : Env) (cs : List Cell) (ctl : Cell → Bool) : List WAssign → Store → Store
  | [], σ => σ
  | w :: ws, σ => stdAssigns env cs ctl ws (maskedAssign env cs ctl w σ)

/-- F2003 7.4.3.2: each mask is evaluated once, for all elements, when its WHERE /
ELSEWHERE statement is executed; `pend` is the pending control mask. -/
def stdClauses (env : Env) (cs : List Cell) (pend : Cell → Bool) : WClauses → Store → Store
  | .nil, σ => σ
  | .masked m body rest, σ =>
    stdClauses env cs (fun k => pend k && !(evalA env k m σ != 0)) rest
      (stdAssigns env cs (fun k => pend k && (evalA env k m σ != 0)) body σ)
  | .final body, σ => stdAssigns env cs pend body σ

/-- first array section of an expression in pre-order (what `walk(ArrayMixin)` finds); the
second section is present for a rank-2 section -/
def firstSec : AExpr → Option (Nat × Sec × Option Sec)
  | .scal _ => none
  | .sec a s => some (a, s, none)
  | .sec2 a s1 s2 => some (a, s1, some s2)
  | .un _ e => firstSec e
  | .bin _ a b => match firstSec a with
    | some r => some r
    | none => firstSec b
  | .red _ _ => none
  | .redDim _ _ => none

/-- `[(0,k2), …, (n-1,k2)]` -/
def rowCells (k2 : Nat) : Nat → List Cell
  | 0 => []
  | n+1 => rowCells k2 n ++ [(n, k2)]

/-- the cells of an `n1 × n2` shape in array-element order (first index fastest) -/
def cells (n1 : Nat) : Nat → List Cell
  | 0 => []
  | m+1 => cells n1 m ++ rowCells m n1

/-- shape of the construct = shape of its mask (all sections of a standard-conforming WHERE
have the same shape): extent of dimension 1 and, for rank 2, of dimension 2 -/
def whereShape (env : Env) : WClauses → Option (Nat × Option Nat)
  | .masked m _ _ => match firstSec m with
    | some (a, s, none) => some (secExtent env a s, none)
    | some (a, s1, some s2) => some (secExtent env a s1, some (secExtent2 env a s2))
    | none => none
  | _ => none

def shapeCells : Option (Nat × Option Nat) → List Cell
  | none => []
  | some (n1, none) => cells n1 1
  | some (n1, some n2) => cells n1 n2

/-- the standard semantics of a WHERE construct -/
def execWhere (env : Env) (cl : WClauses) (σ : Store) : Store :=
  stdClauses env (shapeCells (whereShape env cl)) (fun _ => true) cl σ

/-- the loop variables of the generated nest (`wv` = dimension 1, innermost; `wv + 1` = dimension 2)
hold `extent + 1` after the loops; the inner one is untouched if the outer loop has no iteration -/
def whereScratch (wv : Nat) (sh : Option (Nat × Option Nat)) (τ : Store) : Store :=
  match sh with
  | none => τ
  | some (n1, none) => τ.set (wv, 0, 0) ((n1 : Int) + 1)
  | some (n1, some n2) =>
    if n2 = 0 then τ.set (wv + 1, 0, 0) 1
    else (τ.set (wv, 0, 0) ((n1 : Int) + 1)).set (wv + 1, 0, 0) ((n2 : Int) + 1)

def matchVal (logical : Bool) (v : Int) : CaseVal → Bool
  | .val c => if logical then ((v != 0) == (c != 0)) else v == c
  | .range lo hi =>
    (match lo with | none => true | some l => decide (l ≤ v)) &&
    (match hi with | none => true | some h => decide (v ≤ h))

/-- `DO WHILE`: at most `fuel` iterations (the semantics is fuel-bounded; every theorem holds for every fuel) -/
def whileIter (f : Store → Store) (c : Expr) : Nat → Store → Store
  | 0, σ => σ
  | n+1, σ => if eval c σ ≠ 0 then whileIter f c n (f σ) else σ

/-- One structural function for statements and case chains.  In statement position the
`Bool`/`Int` arguments are ignored and the flag returned is `false`; on a case chain they are
the selector kind and the selector VALUE (evaluated once by `selectCase`), and the flag
tells whether a case matched.  The first matching case in textual order is executed (the
standard forbids overlapping cases, so this is the unique match); the default body is
executed iff no case matches, wherever `CASE DEFAULT` stands.  A lowered WHERE leaves
`extent + 1` in its scratch loop variable(s); the source semantics does the same (`whereScratch`)
(see `execWhere` for the semantics proper).  EXIT / CYCLE / GO TO are opaque to the model (identity):
the lowering never moves or changes them, it only wraps them in CodeBlocks; their behaviour is
checked end to end on the real code. -/
def run (fuel : Nat) (env : Env) : Src → Bool → Int → Store → Bool × Store
  | .skip, _, _, σ => (false, σ)
  | .seq a b, _, _, σ => (false, (run fuel env b false 0 (run fuel env a false 0 σ).2).2)
  | .assign x e, _, _, σ => (false, σ.set (x, 0, 0) (eval e σ))
  | .store1 a i e, _, _, σ => (false, σ.set (a, eval i σ, 0) (eval e σ))
  | .store2 a i j e, _, _, σ => (false, σ.set (a, eval i σ, eval j σ) (eval e σ))
  | .ifc c t f, _, _, σ =>
    (false, if eval c σ ≠ 0 then (run fuel env t false 0 σ).2 else (run fuel env f false 0 σ).2)
  | .doc v lo hi st body, _, _, σ =>
    let s := match st with | none => 1 | some e => eval e σ
    (false, runIters (fun τ => (run fuel env body false 0 τ).2) v (eval lo σ) s
      (trip (eval lo σ) (eval hi σ) s) 0 σ)
  | .selectCase lg sel cases, _, _, σ => (false, (run fuel env cases lg (eval sel σ) σ).2)
  | .caseItem vals body rest, lg, v, σ =>
    if vals.any (matchVal lg v) then (true, (run fuel env body false 0 σ).2) else run fuel env rest lg v σ
  | .caseDefault body rest, lg, v, σ =>
    if (run fuel env rest lg v σ).1 then run fuel env rest lg v σ else (true, (run fuel env body false 0 σ).2)
  | .caseEnd, _, _, σ => (false, σ)
  | .whereC _ wv cl, _, _, σ =>
    (false, whereScratch wv (whereShape env cl) (execWhere env cl σ))
  | .arrAssign _ a s rhs, _, _, σ =>
    (false, maskedAssign env (cells (secExtent env a s) 1) (fun _ => true) ⟨a, s, rhs, none⟩ σ)
  | .codeBlock s, _, _, σ => (false, (run fuel env s false 0 σ).2)
  | .doWhile c body, _, _, σ =>
    (false, whileIter (fun τ => (run fuel env body false 0 τ).2)
      (match c with | none => .lit 1 | some e => e) fuel σ)
  | .namedDo _ _ inner, _, _, σ => (false, (run fuel env inner false 0 σ).2)
  | .namedIf _ inner, _, _, σ => (false, (run fuel env inner false 0 σ).2)
  | .jump _ _ _, _, _, σ => (false, σ)

def execSrc (fuel : Nat) (env : Env) (s : Src) (σ : Store) : Store := (run fuel env s false 0 σ).2

/-! ## The lowering -/

/-- a source integer literal as the reader builds it: `-3` is `MINUS(3)` -/
def litE (n : Int) : Expr := if n < 0 then .un .neg (.lit (-n)) else .lit n

/-- `_process_case_value`: `==` / `.EQV.` for a value, `>=`/`<=` (joined by `.AND.`) for a range -/
def caseCond (lg : Bool) (sel : Expr) : CaseVal → Expr
  | .val c => if lg then .bin .eqv sel (.lit c) else .bin .eq sel (litE c)
  | .range (some l) (some h) => .bin .and (.bin .ge sel (litE l)) (.bin .le sel (litE h))
  | .range (some l) none => .bin .ge sel (litE l)
  | .range none (some h) => .bin .le sel (litE h)
  | .range none none => .lit 1

/-- `_process_case_value_list`: right-nested `.OR.`; the selector is copied into every test -/
def caseConds (lg : Bool) (sel : Expr) : List CaseVal → Expr
  | [] => .lit 0
  | [v] => caseCond lg sel v
  | v :: vs => .bin .or (caseCond lg sel v) (caseConds lg sel vs)

def Src.seqs : List Src → Src
  | [] => .skip
  | [s] => s
  | s :: rest => .seq s (Src.seqs rest)

/-- `is_lower_bound`/`is_upper_bound`/`is_full_range`: an omitted bound (LBOUND/UBOUND) or,
for a typed declaration, a literal equal to the declared bound; step literal 1.
`lo`/`hi` are the declared bounds of the dimension. -/
def isFullD (typed : Bool) (lo hi : Int) (s : Sec) : Bool :=
  (match s.lo with | none => true | some l => typed && l == lo) &&
  (match s.hi with | none => true | some h => typed && h == hi) &&
  (match s.st with | none => true | some t => t == 1)

def isFull (env : Env) (a : Nat) (s : Sec) : Bool :=
  isFullD (env.get a).typed (env.get a).lo (env.get a).hi s
def isFull2 (env : Env) (a : Nat) (s : Sec) : Bool :=
  isFullD (env.get a).typed (env.get a).lo2 (env.get a).hi2 s

/-- `lbound + widx - 1` -/
def offIdx (b : Expr) (wv : Nat) : Expr := .bin .sub (.bin .add b (.var wv)) (.lit 1)

/-- `_array_syntax_to_indexed`: index replacing a range of a dimension with declared lower bound
`lo`.  Full range: relative to `LBOUND(a,d)`; otherwise relative to the section's start (its
stride is IGNORED); a literal start `1` gives the bare loop index. -/
def idxExprD (full : Bool) (lo : Int) (wv : Nat) (s : Sec) : Expr :=
  if full then offIdx (.lit lo) wv
  else match s.lo with
    | none => offIdx (.lit lo) wv
    | some l => if l = 1 then .var wv else offIdx (litE l) wv

def idxExpr (env : Env) (wv a : Nat) (s : Sec) : Expr :=
  idxExprD (isFull env a s) (env.get a).lo wv s
def idxExpr2 (env : Env) (wv a : Nat) (s : Sec) : Expr :=
  idxExprD (isFull2 env a s) (env.get a).lo2 wv s

/-- `SUM(a)` / `MAXVAL(a)` / … over the declared extent, as the exporter unrolls it -/
def redExpr (k : Red) (a : Nat) (lo : Int) : Nat → Expr
  | 0 => match k with
    | .sum => .lit 0
    | .product => .lit 1
    | _ => .idx1 a (.lit lo)
  | n+1 => .bin (redBin k) (redExpr k a lo n) (.idx1 a (.lit (lo + n)))

/-- `wv` indexes dimension 1 and `wv + 1` dimension 2 -/
def lowerA (env : Env) (wv : Nat) : AExpr → Expr
  | .scal e => e
  | .sec a s => .idx1 a (idxExpr env wv a s)
  | .sec2 a s1 s2 => .idx2 a (idxExpr env wv a s1) (idxExpr2 env (wv + 1) a s2)
  | .un op e => .un op (lowerA env wv e)
  | .bin op a b => .bin op (lowerA env wv a) (lowerA env wv b)
  | .red k a => redExpr k a (env.get a).lo (arrExtent env a)
  | .redDim k a => redExpr k a (env.get a).lo (arrExtent env a)

/-- upper bound of the loop over one dimension of the mask shape (`mask_shape[..]` /
`ArrayMixin._extent`).  `allFull`: every dimension of the mask's first array is a full range (its
datatype is then the declared one); `lo`/`hi`: declared bounds of this dimension. -/
def whereUpperD (typed allFull : Bool) (lo hi : Int) (s : Sec) : Expr :=
  if allFull then
    if typed then
      (if lo = 1 then .lit hi else .bin .add (.bin .sub (.lit hi) (.lit lo)) (.lit 1))
    else .lit (hi - lo + 1)
  else
    let start := match s.lo with | none => Expr.lit lo | some l => litE l
    let stop := match s.hi with | none => Expr.lit hi | some h => litE h
    let unit := match s.st with | none => true | some t => t == 1
    if s.lo == none && s.hi == none && unit then .lit (hi - lo + 1)      -- `SIZE(a, dim)`
    else if s.lo == some 1 && unit then stop
    else
      let ext := Expr.bin .sub stop start
      let r := match s.st with
        | none => ext
        | some t => if t == 1 then ext else .bin .div ext (litE t)
      .bin .add r (.lit 1)

def whereUpper (env : Env) (a : Nat) (s : Sec) : Expr :=
  whereUpperD (env.get a).typed (isFull env a s) (env.get a).lo (env.get a).hi s

def hasSumDim : AExpr → Bool
  | .scal _ => false
  | .sec _ _ => false
  | .sec2 _ _ _ => false
  | .un _ e => hasSumDim e
  | .bin _ a b => hasSumDim a || hasSumDim b
  | .red _ _ => false
  | .redDim _ _ => true

/-- does the expression hold a section of the other rank (`r2` = the WHERE is of rank 2)?
(`_array_syntax_to_indexed`: "array sections of differing ranks" → CodeBlock) -/
def otherRank (r2 : Bool) : AExpr → Bool
  | .scal _ => false
  | .sec _ _ => r2
  | .sec2 _ _ _ => !r2
  | .un _ e => otherRank r2 e
  | .bin _ a b => otherRank r2 a || otherRank r2 b
  | .red _ _ => false
  | .redDim _ _ => false

def lhsIdx (env : Env) (wv : Nat) (w : WAssign) : Src :=
  match w.s2 with
  | none => .store1 w.a (idxExpr env wv w.a w.s) (lowerA env wv w.rhs)
  | some s2 => .store2 w.a (idxExpr env wv w.a w.s) (idxExpr2 env (wv + 1) w.a s2) (lowerA env wv w.rhs)

def lowerAssigns (env : Env) (wv : Nat) (ws : List WAssign) : Src :=
  Src.seqs (ws.map (lhsIdx env wv))

/-- the ELSEWHERE chain as nested IFs -/
def lowerClauses (env : Env) (wv : Nat) : WClauses → Src
  | .nil => .skip
  | .masked m body rest => .ifc (lowerA env wv m) (lowerAssigns env wv body) (lowerClauses env wv rest)
  | .final body => lowerAssigns env wv body

/-- LHS of the right rank with a full range in every dimension -/
def lhsOk (env : Env) (r2 : Bool) (w : WAssign) : Bool :=
  isFull env w.a w.s &&
  (match w.s2 with
   | none => !r2
   | some s2 => r2 && isFull2 env w.a s2)

def refusedAssigns (env : Env) (r2 : Bool) (ws : List WAssign) : Bool :=
  ws.any (fun w => hasSumDim w.rhs || otherRank r2 w.rhs || !lhsOk env r2 w)

/-- the refusals of `_where_construct_handler`/`_array_notation_rank`/`_array_syntax_to_indexed`
(→ CodeBlock): an array reduction with a `dim=` argument anywhere, an assignment whose LHS is not a
full range of the construct's rank, sections of differing ranks -/
def refusedClauses (env : Env) (r2 : Bool) : WClauses → Bool
  | .nil => false
  | .masked m body rest =>
    hasSumDim m || otherRank r2 m || refusedAssigns env r2 body || refusedClauses env r2 rest
  | .final body => refusedAssigns env r2 body

def lowerWhere (env : Env) (wv : Nat) (cl : WClauses) : Option Src :=
  match cl with
  | .masked m _ _ =>
    match firstSec m with
    | none => none
    | some (a, s, none) =>
      if refusedClauses env false cl then none
      else some (.doc wv (.lit 1) (whereUpper env a s) (some (.lit 1)) (lowerClauses env wv cl))
    | some (a, s1, some s2) =>
      if refusedClauses env true cl then none
      else
        let d := env.get a
        let allFull := isFull env a s1 && isFull2 env a s2
        some (.doc (wv + 1) (.lit 1) (whereUpperD d.typed allFull d.lo2 d.hi2 s2) (some (.lit 1))
          (.doc wv (.lit 1) (whereUpperD d.typed allFull d.lo d.hi s1) (some (.lit 1))
            (lowerClauses env wv cl)))
  | _ => none

/-- `_do_construct_handler`: is the construct name `n` referred to (by `EXIT n` / `CYCLE n`) anywhere
inside?  (The code walks every `Name` of the parse tree of the construct, nested constructs and
CodeBlocks included; construct names are distinct from all other names of the scoping unit.) -/
def refersTo (n : Nat) : Src → Bool
  | .skip => false
  | .seq a b => refersTo n a || refersTo n b
  | .assign _ _ => false
  | .store1 _ _ _ => false
  | .store2 _ _ _ _ => false
  | .ifc _ t f => refersTo n t || refersTo n f
  | .doc _ _ _ _ b => refersTo n b
  | .selectCase _ _ cs => refersTo n cs
  | .caseItem _ body rest => refersTo n body || refersTo n rest
  | .caseDefault body rest => refersTo n body || refersTo n rest
  | .caseEnd => false
  | .whereC _ _ _ => false
  | .arrAssign _ _ _ _ => false
  | .codeBlock s => refersTo n s
  | .doWhile _ b => refersTo n b
  | .namedDo _ _ inner => refersTo n inner
  | .namedIf _ inner => refersTo n inner
  | .jump _ kind nm => (kind == 0 || kind == 1) && nm == some n

/-- `lower`: in statement position call it as `low env s false (.lit 0) .skip`.  On a case
chain `lg`/`sel` are the selector (re-evaluated in every test, as the code does) and `d` the
lowered default body, which ends the IF chain wherever `CASE DEFAULT` stood. -/
def low (env : Env) : Src → Bool → Expr → Src → Src
  | .skip, _, _, _ => .skip
  | .seq a b, _, _, _ => .seq (low env a false (.lit 0) .skip) (low env b false (.lit 0) .skip)
  | .assign x e, _, _, _ => .assign x e
  | .store1 a i e, _, _, _ => .store1 a i e
  | .store2 a i j e, _, _, _ => .store2 a i j e
  | .ifc c t f, _, _, _ => .ifc c (low env t false (.lit 0) .skip) (low env f false (.lit 0) .skip)
  | .doc v lo hi st body, _, _, _ =>
    .doc v lo hi (some (match st with | none => .lit 1 | some e => e)) (low env body false (.lit 0) .skip)
  | .selectCase lg sel cases, _, _, _ => low env cases lg sel .skip
  | .caseItem vals body rest, lg, sel, d =>
    .ifc (caseConds lg sel vals) (low env body false (.lit 0) .skip) (low env rest lg sel d)
  | .caseDefault body rest, lg, sel, _ => low env rest lg sel (low env body false (.lit 0) .skip)
  | .caseEnd, _, _, d => d
  | .whereC tag wv cl, _, _, _ =>
    match lowerWhere env wv cl with
    | some s => s
    | none => .codeBlock (.whereC tag wv cl)
  | .arrAssign tag a s rhs, _, _, _ => .codeBlock (.arrAssign tag a s rhs)
  | .codeBlock s, _, _, _ => .codeBlock s
  | .doWhile c body, _, _, _ =>
    .doWhile (some (match c with | none => .lit 1 | some e => e)) (low env body false (.lit 0) .skip)
  -- a named DO whose name is referred to inside is kept as ONE CodeBlock; otherwise the name is dropped
  | .namedDo tag name inner, _, _, _ =>
    if refersTo name inner then .codeBlock (.namedDo tag name inner) else low env inner false (.lit 0) .skip
  -- the name of an IF construct is always dropped
  | .namedIf _ inner, _, _, _ => low env inner false (.lit 0) .skip
  | .jump t k n, _, _, _ => .codeBlock (.jump t k n)

def lower (env : Env) (s : Src) : Src := low env s false (.lit 0) .skip

/-- flatten `seq` nests and drop `skip`s (the reader splices the statements of a
default-only SELECT CASE into the parent schedule) -/
def flat : Src → List Src → List Src
  | .skip, acc => acc
  | .seq a b, acc => flat a (flat b acc)
  | .ifc c t f, acc => .ifc c (Src.seqs (flat t [])) (Src.seqs (flat f [])) :: acc
  | .doc v lo hi st b, acc => .doc v lo hi st (Src.seqs (flat b [])) :: acc
  | .doWhile c b, acc => .doWhile c (Src.seqs (flat b [])) :: acc
  | s, acc => s :: acc

def norm (s : Src) : Src := Src.seqs (flat s [])

/-- into MiniF, when no source-only construct is left -/
def toMiniF : Src → Option Stmt
  | .skip => some .skip
  | .seq a b => match toMiniF a, toMiniF b with
    | some x, some y => some (.seq x y)
    | _, _ => none
  | .assign x e => some (.assign x e)
  | .store1 a i e => some (.store1 a i e)
  | .store2 a i j e => some (.store2 a i j e)
  | .ifc c t f => match toMiniF t, toMiniF f with
    | some x, some y => some (.ite c x y)
    | _, _ => none
  | .doc v lo hi (some st) b => match toMiniF b with
    | some x => some (.loop v lo hi st x)
    | none => none
  | _ => none

/-! ## Well-formedness and the side condition of the WHERE theorem -/

/-- `chain = false`: a statement; `chain = true`: a case chain -/
def wf : Src → Bool → Bool
  | .skip, c => !c
  | .seq a b, c => !c && wf a false && wf b false
  | .assign _ _, c => !c
  | .store1 _ _ _, c => !c
  | .store2 _ _ _ _, c => !c
  | .ifc _ t f, c => !c && wf t false && wf f false
  | .doc _ _ _ _ b, c => !c && wf b false
  | .selectCase _ _ cs, c => !c && wf cs true
  | .caseItem _ body rest, c => c && wf body false && wf rest true
  | .caseDefault body rest, c => c && wf body false && wf rest true
  | .caseEnd, c => c
  | .whereC _ _ _, c => !c
  | .arrAssign _ _ _ _, c => !c
  | .codeBlock s, c => !c && wf s false
  | .doWhile _ b, c => !c && wf b false
  | .namedDo _ _ inner, c => !c && wf inner false
  | .namedIf _ inner, c => !c && wf inner false
  | .jump _ _ _, c => !c

def assignedArrs : WClauses → List Nat
  | .nil => []
  | .masked _ body rest => body.map (·.a) ++ assignedArrs rest
  | .final body => body.map (·.a)

/-- variables of an expression (as in `MiniF.evars`, restated here because Model files do
not import Lemmas) -/
def exprVars : Expr → List Nat
  | .lit _ => []
  | .var x => [x]
  | .idx1 a i => a :: exprVars i
  | .idx2 a i j => a :: (exprVars i ++ exprVars j)
  | .un _ e => exprVars e
  | .bin _ a b => exprVars a ++ exprVars b

/-- an expression is *elemental w.r.t. the assigned arrays `A`* in a WHERE of rank 1 (`r2 = false`)
or 2: every section has the construct's rank and unit strides, a section of an assigned array is
aligned with the assignments (starts at the array's lower bounds), no reduction reads an assigned
array, scalar sub-expressions read neither an assigned array nor a loop variable (`wv`, `wv + 1`). -/
def elemA (env : Env) (A : List Nat) (wv : Nat) (r2 : Bool) : AExpr → Bool
  | .scal e => (exprVars e).all fun x => !A.contains x && x != wv && x != wv + 1
  | .sec a s =>
    !r2 && secStride s == 1 && a != wv && a != wv + 1 &&
      (!A.contains a || secStart env a s == (env.get a).lo)
  | .sec2 a s1 s2 =>
    r2 && secStride s1 == 1 && secStride s2 == 1 && a != wv && a != wv + 1 &&
      (!A.contains a || (secStart env a s1 == (env.get a).lo && secStart2 env a s2 == (env.get a).lo2))
  | .un _ e => elemA env A wv r2 e
  | .bin _ a b => elemA env A wv r2 a && elemA env A wv r2 b
  | .red _ a => !A.contains a && a != wv && a != wv + 1
  | .redDim _ a => !A.contains a && a != wv && a != wv + 1

def elemAssigns (env : Env) (A : List Nat) (wv : Nat) (r2 : Bool) (ws : List WAssign) : Bool :=
  ws.all fun w => lhsOk env r2 w && elemA env A wv r2 w.rhs

def elemClauses (env : Env) (A : List Nat) (wv : Nat) (r2 : Bool) : WClauses → Bool
  | .nil => true
  | .masked m body rest =>
    elemA env A wv r2 m && elemAssigns env A wv r2 body && elemClauses env A wv r2 rest
  | .final body => elemAssigns env A wv r2 body

def whereRank2 (env : Env) (cl : WClauses) : Bool :=
  match whereShape env cl with
  | some (_, some _) => true
  | _ => false

/-- `WhereElemental`: the decidable side condition of `lower_where_sound_partial` -/
def whereElemental (env : Env) (wv : Nat) (cl : WClauses) : Bool :=
  !(assignedArrs cl).contains wv && !(assignedArrs cl).contains (wv + 1) &&
    elemClauses env (assignedArrs cl) wv (whereRank2 env cl) cl

/-- every WHERE in the program is either refused (CodeBlock) or elemental -/
def good (env : Env) : Src → Bool
  | .skip => true
  | .seq a b => good env a && good env b
  | .assign _ _ => true
  | .store1 _ _ _ => true
  | .store2 _ _ _ _ => true
  | .ifc _ t f => good env t && good env f
  | .doc _ _ _ _ b => good env b
  | .selectCase _ _ cs => good env cs
  | .caseItem _ body rest => good env body && good env rest
  | .caseDefault body rest => good env body && good env rest
  | .caseEnd => true
  | .whereC _ wv cl => (lowerWhere env wv cl).isNone || whereElemental env wv cl
  | .arrAssign _ _ _ _ => true
  | .codeBlock _ => true
  | .doWhile _ b => good env b
  | .namedDo _ name inner => refersTo name inner || good env inner
  | .namedIf _ inner => good env inner
  | .jump _ _ _ => true

end C01
