import PsyVerif.Model.MiniF
/-! # C08 model — `DependencyTools.can_loop_be_parallelised` over MiniF loops

Mirrors `psyclone.psyir.tools.dependency_tools.DependencyTools`:

* `stmtAcc`/`loopAccesses`  the access summary `VariablesAccessInfo(loop)` builds (per access: variable,
  READ/WRITE, subscript expressions, "nested in an IF or inner loop" flag), in the order the real
  `reference_accesses` methods add them (RHS reads, LHS index reads, LHS write; loop: variable WRITE, READ,
  bounds; IF: condition, then, else);
* `norm`       the closed form the SymPy route decides: `(Σ cₐ·a + k)/den` over syntactic atoms.  Integer `/`
  by a non-zero literal is translated to *exact rational* scaling — as `SymPyWriter` + SymPy do (after
  fixes/C08-integer-division.patch a subscript with a `/` never reaches SymPy: `hasDiv`);
* FIXED-mode model: fixes/C08-dvar-loop (name loop), C08-integer-division (`hasDiv` guards), C08-symbolic-coefficient
  (a product with the loop variable gives no distance), C08-stale-subscript (`staleSubscript`),
  C08-inner-variable-subscript (`onlyVar` in the multi-subscript test);
* `independent0` (`_independent_0_var`/`never_equal`), `depDistance` (`_get_dependency_distance`, including the
  `d_<var>` fresh-name loop — FIXED version `freshD`, pinned version `freshPinned`), `partition` (`_partition`),
  `indepPair` (`_is_loop_carried_dependency` + `_independent_multi_subscript`), `arrayPar`, `scalarPar`,
  `canParallelise` (with `test_all_variables=True`; message classes = DTCode numbers);
* `execT`      tracing semantics of MiniF (element-level read/write events) and `iterTraces`, the
  per-iteration footprints of a sequentially executed loop (used by the driver and by the theorems).
Core Lean only. -/
namespace C08
open MiniF

/-! ## variables of expressions / statements (copies of `MiniF.evars/rvars/wvars`, which live in a Lemmas file) -/

def evars : Expr → List Nat
  | .lit _ => []
  | .var x => [x]
  | .idx1 a i => a :: evars i
  | .idx2 a i j => a :: (evars i ++ evars j)
  | .un _ e => evars e
  | .bin _ a b => evars a ++ evars b

def rvars : Stmt → List Nat
  | .skip => []
  | .seq a b => rvars a ++ rvars b
  | .assign _ e => evars e
  | .store1 _ i e => evars i ++ evars e
  | .store2 _ i j e => evars i ++ evars j ++ evars e
  | .ite c t f => evars c ++ rvars t ++ rvars f
  | .loop _ lo hi st b => evars lo ++ evars hi ++ evars st ++ rvars b

def wvars : Stmt → List Nat
  | .skip => []
  | .seq a b => wvars a ++ wvars b
  | .assign x _ => [x]
  | .store1 a _ _ => [a]
  | .store2 a _ _ _ => [a]
  | .ite _ t f => wvars t ++ wvars f
  | .loop v _ _ _ b => v :: wvars b

/-- loop variables of all loops inside a statement, pre-order (`loop.walk(Loop)`) -/
def loopVars : Stmt → List Nat
  | .seq a b => loopVars a ++ loopVars b
  | .ite _ t f => loopVars t ++ loopVars f
  | .loop v _ _ _ b => v :: loopVars b
  | _ => []

/-! ## the closed form of subscripts -/

/-- `(Σ c·atom + k) / den`, `den > 0`; atoms are compared syntactically -/
structure Lin where
  den : Int
  terms : List (Expr × Int)
  k : Int
  deriving Repr

def scaleT (c : Int) : List (Expr × Int) → List (Expr × Int)
  | [] => []
  | (a, x) :: ts => (a, c * x) :: scaleT c ts

def Lin.const (n : Int) : Lin := ⟨1, [], n⟩
def Lin.atom (e : Expr) : Lin := ⟨1, [(e, 1)], 0⟩
def Lin.neg (f : Lin) : Lin := ⟨f.den, scaleT (-1) f.terms, -f.k⟩
def Lin.add (f g : Lin) : Lin :=
  ⟨f.den * g.den, scaleT g.den f.terms ++ scaleT f.den g.terms, f.k * g.den + g.k * f.den⟩
def Lin.sub (f g : Lin) : Lin := f.add g.neg
/-- multiply by the rational `num/den` (`den ≠ 0`) -/
def Lin.smul (num den : Int) (f : Lin) : Lin :=
  if den > 0 then ⟨f.den * den, scaleT num f.terms, num * f.k⟩
  else ⟨f.den * (-den), scaleT (-num) f.terms, -num * f.k⟩

def norm : Expr → Lin
  | .lit n => .const n
  | .un .neg e => (norm e).neg
  | .un .plus e => norm e
  | .bin .add a b => (norm a).add (norm b)
  | .bin .sub a b => (norm a).sub (norm b)
  | .bin .mul a b =>
      if (norm a).terms.isEmpty then (norm b).smul (norm a).k (norm a).den
      else if (norm b).terms.isEmpty then (norm a).smul (norm b).k (norm b).den
      else .atom (.bin .mul a b)
  | .bin .div a b =>
      if (norm b).terms.isEmpty && (norm b).k != 0 then (norm a).smul (norm b).den (norm b).k
      else .atom (.bin .div a b)
  | e => .atom e

/-- total coefficient (numerator) of an atom -/
def coef : List (Expr × Int) → Expr → Int
  | [], _ => 0
  | (b, c) :: ts, a => (if b = a then c else 0) + coef ts a

/-- all atoms have the same rational coefficient in both forms -/
def sameTerms (f g : Lin) : Bool :=
  (f.terms ++ g.terms).all fun p => coef f.terms p.1 * g.den == coef g.terms p.1 * f.den

/-- some atom other than the plain loop variable mentions the loop variable -/
def nonAffine (i : Nat) (f : Lin) : Bool :=
  f.terms.any fun p => p.1 != .var i && decide (i ∈ evars p.1)

/-- `_has_division`: a `/` anywhere in the subscript (also inside the subscript of an index array) -/
def hasDiv : Expr → Bool
  | .lit _ => false
  | .var _ => false
  | .idx1 _ i => hasDiv i
  | .idx2 _ i j => hasDiv i || hasDiv j
  | .un _ e => hasDiv e
  | .bin op a b => op == .div || hasDiv a || hasDiv b

/-- the atoms on which the real analysis was calibrated: an atom that mentions a loop variable is the
variable itself, an array element (SymPy: unknown function), a MOD call, a product or a power (for these SymPy
finds no integer distance: several solutions, or — after the fix — a symbolic coefficient) -/
def fragAtom (lvars : List Nat) : Expr → Bool
  | .var _ => true
  | .idx1 _ _ => true
  | .idx2 _ _ _ => true
  | .bin .mod _ _ => true
  | .bin .mul _ _ => true
  | .bin .pow _ _ => true
  | e => lvars.all fun v => !decide (v ∈ evars e)

/-- a subscript with a division is refused outright; otherwise all atoms must be calibrated ones -/
def fragExpr (lvars : List Nat) (e : Expr) : Bool :=
  hasDiv e || (norm e).terms.all fun p => fragAtom lvars p.1

/-! ## `_independent_0_var` / `SymbolicMaths.never_equal` -/

/-- the difference simplifies to a non-zero *integer* -/
def independent0 (w o : Expr) : Bool :=
  let f := norm w; let g := norm o
  !hasDiv w && !hasDiv o && sameTerms f g &&
    (let num := f.k * g.den - g.k * f.den
     num != 0 && num % (f.den * g.den) == 0)

/-! ## the `d_<var>` fresh-name loop of `_get_dependency_distance`

Candidate `0` is the name `d_<var>`, candidate `n+1` the name `d<n+1>_<var>`; `taken` lists the candidates
that are keys of the SymPy type map (i.e. names of variables used in the two subscripts). -/

/-- FIXED loop (`idx += 1` in the body): first candidate not taken; `none` = fuel exhausted -/
def freshLoop (taken : List Nat) : Nat → Nat → Option Nat
  | 0, _ => none
  | fuel + 1, idx => if idx ∈ taken then freshLoop taken fuel (idx + 1) else some idx

def freshD (taken : List Nat) : Option Nat := freshLoop taken (taken.length + 1) 0

/-- PINNED loop: `idx` stays `1`, so after `d_<var>` only `d1_<var>` is ever tried -/
def pinnedLoop (taken : List Nat) : Nat → Nat → Option Nat
  | 0, _ => none
  | fuel + 1, cand => if cand ∈ taken then pinnedLoop taken fuel 1 else some cand

def freshPinned (taken : List Nat) (fuel : Nat) : Option Nat := pinnedLoop taken fuel 0

/-! ## `_get_dependency_distance` -/

/-- `dnames`: (variable id, candidate number) for every variable whose name is `d_<loopvar>`/`dN_<loopvar>` -/
def takenOf (dnames : List (Nat × Nat)) (w o : Expr) : List Nat :=
  (dnames.filter fun p => decide (p.1 ∈ evars w ++ evars o)).map (·.2)

/-- solve `w(i) = o(i + d)` for `d`; `some d` iff the unique solution is an integer not mentioning `i` -/
def depDistance (i : Nat) (dnames : List (Nat × Nat)) (w o : Expr) : Option Int :=
  if hasDiv w || hasDiv o then none
  else if i ∈ evars w ++ evars o then
    match freshD (takenOf dnames w o) with
    | none => none
    | some _ =>
      let f := norm w; let g := norm o
      if nonAffine i f || nonAffine i g then none
      else if coef g.terms (.var i) == 0 then none
      else if !sameTerms f g then none
      else
        let num := f.k * g.den - g.k * f.den
        let dd := coef g.terms (.var i) * f.den
        if num % dd == 0 then some (num / dd) else none
  else none

/-! ## `_partition` -/

/-- (set of loop variables, subscript positions) -/
abbrev Part := List Nat × List Nat

def lvOf (lvars : List Nat) (e : Expr) : List Nat := lvars.filter fun v => decide (v ∈ evars e)

def union (a b : List Nat) : List Nat := a ++ b.filter fun x => !decide (x ∈ a)

def initParts (lvars : List Nat) : List Expr → List Expr → Nat → List Part
  | w :: ws, o :: os, p => (union (lvOf lvars w) (lvOf lvars o), [p]) :: initParts lvars ws os (p + 1)
  | _, _, _ => []

/-- merge into `acc` every later partition that uses `v`, deleting it from the list -/
def absorb (v : Nat) : List Part → Part → Part × List Part
  | [], acc => (acc, [])
  | q :: rest, acc =>
    if v ∈ q.1 then absorb v rest (union acc.1 q.1, acc.2 ++ q.2)
    else let r := absorb v rest acc; (r.1, q :: r.2)

def mergeVar (v : Nat) : List Part → List Part
  | [] => []
  | q :: rest =>
    if v ∈ q.1 then let r := absorb v rest q; r.1 :: r.2
    else q :: mergeVar v rest

def partition (lvars : List Nat) (w o : List Expr) : List Part :=
  lvars.foldl (fun ps v => mergeVar v ps) (initParts lvars w o 0)

/-- The Python `while k < len(partition_infos)` loop of `_partition` for ONE loop variable, literally: state =
(list, `k`, `first_use`); a partition using `v` is either remembered as `first_use` or merged into
`partition_infos[first_use]` and deleted (`k` stays).  `none` = fuel exhausted.  `Props/C08.partWhile_eq` shows
that fuel `len + 1` always suffices and that the result is `mergeVar v`. -/
def partWhile (v : Nat) : Nat → List Part → Nat → Option Nat → Option (List Part)
  | 0, _, _, _ => none
  | fuel + 1, ps, k, fu =>
    if h : k < ps.length then
      if v ∈ (ps[k]).1 then
        match fu with
        | none => partWhile v fuel ps (k + 1) (some k)
        | some f =>
          let first := ps.getD f ([], [])
          partWhile v fuel ((ps.set f (union first.1 (ps[k]).1, first.2 ++ (ps[k]).2)).eraseIdx k) k (some f)
      else partWhile v fuel ps (k + 1) fu
    else some ps

/-- `_partition` with the literal while loop and fuel `len + 1` per loop variable -/
def partitionW (lvars : List Nat) (w o : List Expr) : Option (List Part) :=
  lvars.foldlM (fun ps v => partWhile v (ps.length + 1) ps 0 none) (initParts lvars w o 0)

/-! ## `_is_loop_carried_dependency` (returns `true` when the pair is shown INDEPENDENT, as the Python does) -/

def sub (es : List Expr) (p : Nat) : Expr := es.getD p (.lit 0)

/-- no loop variable other than `i` occurs in the two subscripts (`_independent_multi_subscript` skips the others) -/
def onlyVar (lvars : List Nat) (i : Nat) (w o : Expr) : Bool :=
  lvars.all fun u => u == i || (!decide (u ∈ evars w) && !decide (u ∈ evars o))

def decideParts (lvars : List Nat) (i : Nat) (dnames : List (Nat × Nat)) (w o : List Expr) : List Part → Bool
  | [] => false
  | (vs, [p]) :: rest =>
    if vs.length = 0 then
      (if independent0 (sub w p) (sub o p) then true else decideParts lvars i dnames w o rest)
    else if vs.length = 1 then
      (if depDistance i dnames (sub w p) (sub o p) == some 0 then true else decideParts lvars i dnames w o rest)
    else false
  | (_, ps) :: rest =>
    if ps.any (fun p => onlyVar lvars i (sub w p) (sub o p) &&
        depDistance i dnames (sub w p) (sub o p) == some 0) then true
    else decideParts lvars i dnames w o rest

def indepPair (lvars : List Nat) (dnames : List (Nat × Nat)) (w o : List Expr) : Bool :=
  decideParts lvars (lvars.headD 0) dnames w o (partition lvars w o)

/-! ## access summary (`VariablesAccessInfo`) -/

structure Access where
  var : Nat
  write : Bool
  subs : List Expr
  cond : Bool
  deriving Repr, DecidableEq

def exprAcc (c : Bool) : Expr → List Access
  | .lit _ => []
  | .var x => [⟨x, false, [], c⟩]
  | .idx1 a i => exprAcc c i ++ [⟨a, false, [i], c⟩]
  | .idx2 a i j => exprAcc c i ++ exprAcc c j ++ [⟨a, false, [i, j], c⟩]
  | .un _ e => exprAcc c e
  | .bin _ a b => exprAcc c a ++ exprAcc c b

def stmtAcc (c : Bool) : Stmt → List Access
  | .skip => []
  | .seq a b => stmtAcc c a ++ stmtAcc c b
  | .assign x e => exprAcc c e ++ [⟨x, true, [], c⟩]
  | .store1 a i e => exprAcc c e ++ exprAcc c i ++ [⟨a, true, [i], c⟩]
  | .store2 a i j e => exprAcc c e ++ exprAcc c i ++ exprAcc c j ++ [⟨a, true, [i, j], c⟩]
  | .ite cnd t f => exprAcc c cnd ++ stmtAcc true t ++ stmtAcc true f
  | .loop v lo hi st b =>
    [⟨v, true, [], c⟩, ⟨v, false, [], c⟩] ++ exprAcc c lo ++ exprAcc c hi ++ exprAcc c st ++ stmtAcc true b

/-- accesses of the analysed loop `do v = lo, hi, st; body` -/
def loopAccesses (v : Nat) (lo hi st : Expr) (body : Stmt) : List Access :=
  [⟨v, true, [], false⟩, ⟨v, false, [], false⟩] ++ exprAcc false lo ++ exprAcc false hi ++ exprAcc false st
    ++ stmtAcc false body

/-! ## `_array_access_parallelisable`, `_is_scalar_parallelisable`, `can_loop_be_parallelised` -/

/-- DTCode numbers -/
abbrev Code := Nat
def WARN_SCALAR_WRITTEN_ONCE : Code := 101
def WARN_SCALAR_REDUCTION : Code := 102
def ERROR_WRITE_WRITE_RACE : Code := 201
def ERROR_DEPENDENCY : Code := 202

/-- scan all accesses `o` (with position `q`) against write number `pw` -/
def scanOthers (lvars : List Nat) (dnames : List (Nat × Nat)) (w : Access) (pw : Nat) :
    List Access → Nat → Option Code
  | [], _ => none
  | o :: rest, q =>
    if indepPair lvars dnames w.subs o.subs then scanOthers lvars dnames w pw rest (q + 1)
    else some (if q = pw then ERROR_WRITE_WRITE_RACE else ERROR_DEPENDENCY)

def scanWrites (lvars : List Nat) (dnames : List (Nat × Nat)) (all : List Access) :
    List Access → Nat → Option Code
  | [], _ => none
  | w :: rest, pw =>
    if w.write then
      match scanOthers lvars dnames w pw all 0 with
      | some c => some c
      | none => scanWrites lvars dnames all rest (pw + 1)
    else scanWrites lvars dnames all rest (pw + 1)

/-- `none` = parallelisable; `accs` = all accesses of ONE variable -/
def arrayPar (lvars : List Nat) (dnames : List (Nat × Nat)) (accs : List Access) : Option Code :=
  if accs.all (fun a => !a.write) then none else scanWrites lvars dnames accs accs 0

def scalarPar (accs : List Access) : Option Code :=
  if accs.all (fun a => !a.write) then none
  else match accs with
    | [_] => some WARN_SCALAR_WRITTEN_ONCE
    | a :: _ => if a.write then none else some WARN_SCALAR_REDUCTION
    | [] => none

def accsOf (x : Nat) (accs : List Access) : List Access := accs.filter fun a => a.var == x

def isArray (accs : List Access) : Bool := accs.any fun a => !a.subs.isEmpty

/-- the loop writes variable `y` (`VariablesAccessInfo.is_written`) -/
def isWritten (all : List Access) (y : Nat) : Bool := all.any fun a => a.var == y && a.write

/-- some subscript of these accesses uses a variable, not a loop variable, that the loop writes -/
def staleSubscript (lvars : List Nat) (all accs : List Access) : Bool :=
  accs.any fun a => a.subs.any fun s => (evars s).any fun y => !decide (y ∈ lvars) && isWritten all y

def varVerdict (lvars : List Nat) (dnames : List (Nat × Nat)) (all : List Access) (x : Nat) : Option Code :=
  if x ∈ lvars then none
  else if isArray (accsOf x all) then
    (if staleSubscript lvars all (accsOf x all) then some ERROR_DEPENDENCY
     else arrayPar lvars dnames (accsOf x all))
  else scalarPar (accsOf x all)

/-- the messages of `can_loop_be_parallelised(loop, test_all_variables=True)`: (code, variable) -/
def messages (dnames : List (Nat × Nat)) (v : Nat) (lo hi st : Expr) (body : Stmt) : List (Code × Nat) :=
  let all := loopAccesses v lo hi st body
  let lvars := v :: loopVars body
  (all.map (·.var)).eraseDups.filterMap fun x =>
    match varVerdict lvars dnames all x with
    | some c => some (c, x)
    | none => none

/-- `can_loop_be_parallelised(loop)` with the default `test_all_variables=False`: the variables are visited in
the order of the sorted signatures (`order`) and the analysis stops at the first one that is refused -/
def firstMessage (order : List Nat) (msgs : List (Code × Nat)) : Option (Code × Nat) :=
  order.findSome? fun x => msgs.find? fun m => m.2 == x

def canParallelise (dnames : List (Nat × Nat)) (v : Nat) (lo hi st : Expr) (body : Stmt) : Bool :=
  let all := loopAccesses v lo hi st body
  let lvars := v :: loopVars body
  all.all fun a => (varVerdict lvars dnames all a.var).isNone

/-- every array subscript of the loop is in the calibrated fragment -/
def inFragment (v : Nat) (lo hi st : Expr) (body : Stmt) : Bool :=
  (loopAccesses v lo hi st body).all fun a => a.subs.all (fragExpr (v :: loopVars body))

/-! ## the property's exception: scalars every iteration unconditionally writes before reading -/

def mentions (x : Nat) (s : Stmt) : Bool := decide (x ∈ rvars s) || decide (x ∈ wvars s)

/-- on every path through `s` the first access to scalar `x` is a write that is executed unconditionally
(a DO statement unconditionally assigns its own variable; its body may run zero times) -/
def mustWriteFirst (x : Nat) : Stmt → Bool
  | .assign y e => y == x && !decide (x ∈ evars e)
  | .seq a b => mustWriteFirst x a || (!mentions x a && mustWriteFirst x b)
  | .ite c t f => !decide (x ∈ evars c) && mustWriteFirst x t && mustWriteFirst x f
  | .loop v lo hi st _ => v == x && !decide (x ∈ evars lo ++ evars hi ++ evars st)
  | _ => false

/-- scalar (never subscripted in the body) that every iteration unconditionally writes before reading -/
def privScalar (body : Stmt) (x : Nat) : Bool :=
  !isArray (accsOf x (stmtAcc false body)) && mustWriteFirst x body

/-! ## tracing semantics -/

/-- (is-write, location) -/
abbrev Ev := Bool × Loc

def evalT : Expr → Store → List Ev
  | .lit _, _ => []
  | .var x, _ => [(false, (x, 0, 0))]
  | .idx1 a i, σ => evalT i σ ++ [(false, (a, eval i σ, 0))]
  | .idx2 a i j, σ => evalT i σ ++ evalT j σ ++ [(false, (a, eval i σ, eval j σ))]
  | .un _ e, σ => evalT e σ
  | .bin _ a b, σ => evalT a σ ++ evalT b σ

def runItersT (f : Store → Store × List Ev) (v : Nat) (lo step : Int) : Nat → Int → Store → Store × List Ev
  | 0, k, σ => (σ.set (v, 0, 0) (lo + k * step), [(true, (v, 0, 0))])
  | n + 1, k, σ =>
    let r := f (σ.set (v, 0, 0) (lo + k * step))
    let r2 := runItersT f v lo step n (k + 1) r.1
    (r2.1, (true, (v, 0, 0)) :: (r.2 ++ r2.2))

def execT : Stmt → Store → Store × List Ev
  | .skip, σ => (σ, [])
  | .seq a b, σ =>
    let r := execT a σ
    let r2 := execT b r.1
    (r2.1, r.2 ++ r2.2)
  | .assign x e, σ => (σ.set (x, 0, 0) (eval e σ), evalT e σ ++ [(true, (x, 0, 0))])
  | .store1 a i e, σ => (σ.set (a, eval i σ, 0) (eval e σ), evalT e σ ++ evalT i σ ++ [(true, (a, eval i σ, 0))])
  | .store2 a i j e, σ =>
    (σ.set (a, eval i σ, eval j σ) (eval e σ),
      evalT e σ ++ evalT i σ ++ evalT j σ ++ [(true, (a, eval i σ, eval j σ))])
  | .ite c t f, σ =>
    if eval c σ ≠ 0 then let r := execT t σ; (r.1, evalT c σ ++ r.2)
    else let r := execT f σ; (r.1, evalT c σ ++ r.2)
  | .loop v lo hi step body, σ =>
    let r := runItersT (execT body) v (eval lo σ) (eval step σ)
      (trip (eval lo σ) (eval hi σ) (eval step σ)) 0 σ
    (r.1, evalT lo σ ++ evalT hi σ ++ evalT step σ ++ r.2)

/-- events of ONE iteration of the analysed loop: the body run with the loop variable set to `val` -/
def iterTrace (v : Nat) (body : Stmt) (σ : Store) (val : Int) : List Ev :=
  (execT body (σ.set (v, 0, 0) val)).2

/-- the traces of `n` consecutive iterations of the sequentially executed loop, starting at number `k` -/
def iterTraces (v : Nat) (body : Stmt) (lo step : Int) : Nat → Int → Store → List (List Ev)
  | 0, _, _ => []
  | n + 1, k, σ =>
    let r := execT body (σ.set (v, 0, 0) (lo + k * step))
    r.2 :: iterTraces v body lo step n (k + 1) r.1

end C08
