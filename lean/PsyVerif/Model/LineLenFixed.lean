import PsyVerif.Model.LineLen
/-! C18, FIXED mode: model of `FortLineLength.process` with the three repairs
`fixes/C18-compound-operator-split.patch` (`find_break_point` never answers the first `=` of `==`/`=>`),
`fixes/C18-unbreakable-fallback.patch` (`_break_point`: statements and comments are broken at the end of the
window when no key is found; directives still raise) and
`fixes/C18-trailing-blank-after-ampersand.patch` (white space after the final `&` of a too-long line is
removed first).  The pinned definitions (`rfind`, `findBreak`, `loop`, `processLine`, `process`) stay in
`Model/LineLen.lean` for the counterexample theorems.  Core Lean only. -/
namespace C18

/-- a candidate index is rejected when the key is `=` and the next character is `=` or `>` -/
def okAt (key : Line) : Line → Bool
  | _ :: n :: _ => !(key == [61] && (n == 61 || n == 62))
  | _ => true

/-- `rfind` followed by the `while key == "=" …` re-search of the repaired `find_break_point`: the highest
index in the window at which `key` occurs and `okAt` holds -/
def rfindF (key : Line) (start stop : Nat) : Line → Nat → Option Nat
  | [], _ => none
  | c :: cs, i =>
    match rfindF key start stop cs (i + 1) with
    | some j => some j
    | none =>
      if start ≤ i && i + key.length ≤ stop && isPrefix key (c :: cs) && okAt key (c :: cs) then some i else none

/-- repaired `find_break_point` -/
def findBreakF (l : Line) (maxIdx : Nat) : List Line → Option Nat
  | [] => none
  | key :: keys =>
    match rfindF key (fnw l + 1) maxIdx l 0 with
    | some idx => some (idx + key.length)
    | none => findBreakF l maxIdx keys

def isDirT (t : Nat) : Bool := t == 1 || t == 2

/-- `FortLineLength._break_point` -/
def breakPt (t : Nat) (l : Line) (m : Nat) (keys : List Line) : Option Nat :=
  match findBreakF l m keys with
  | some bp => some bp
  | none => if isDirT t then none else some m

def loopF (t : Nat) (cs ce : Line) (keys : List Line) (L : Nat) : Nat → Line → Except Err (List Line)
  | 0, _ => .error .fuel
  | n + 1, r =>
    if r.length + cs.length > L then
      match breakPt t r (L - ce.length - cs.length) keys with
      | none => .error .internal
      | some bp =>
        match loopF t cs ce keys L n (r.drop bp) with
        | .ok ps => .ok ((cs ++ r.take bp ++ ce) :: ps)
        | .error e => .error e
    else if r.isEmpty then .ok [] else .ok [cs ++ r]

def piecesF (t : Nat) (cs ce : Line) (keys : List Line) (L : Nat) (l : Line) (bp : Nat) : Except Err (List Line) :=
  match loopF t cs ce keys L (l.length + 1) (l.drop bp) with
  | .ok ps => .ok ((l.take bp ++ ce) :: ps)
  | .error e => .error e

/-- the part of the loop body from `c_start = …` on, for a line of type `t` that is longer than `L` -/
def coreF (L t : Nat) (l : Line) : Except Err (List Line) :=
  let cs := Gen.contStart t
  let ce := Gen.contEnd t
  let keys := Gen.keyList t
  match findBreakF l (L - ce.length) keys with
  | some bp => piecesF t cs ce keys L l bp
  | none =>
    let l' := lstrip l
    if l'.length < L then .ok [l']
    else match breakPt t l' (L - ce.length) keys with
      | some bp => piecesF t cs ce keys L l' bp
      | none => .error .internal

/-- `str.rstrip()` -/
def rstrip (l : Line) : Line := (l.reverse.dropWhile isWs).reverse

/-- `line.rstrip().endswith("&")` -/
def endsAmp (l : Line) : Bool := (rstrip l).getLast? == some 38

/-- the line the repaired `process` actually wraps: without the white space after a final `&` -/
def wrapped (l : Line) : Line := if lineType l != 3 && endsAmp l then rstrip l else l

def processLineF (L : Nat) (l : Line) : Except Err (List Line) :=
  if l.length > L then
    let t := lineType l
    if t != 3 && endsAmp l then
      let l' := rstrip l
      if l'.length ≤ L then .ok [l'] else coreF L t l'
    else coreF L t l
  else .ok [l]

def processF (L : Nat) : List Line → Except Err (List Line)
  | [] => .ok []
  | l :: ls =>
    match processLineF L l with
    | .error e => .error e
    | .ok ps =>
      match processF L ls with
      | .error e => .error e
      | .ok qs => .ok (ps ++ qs)

/-- Side condition of `C18_same_program_partial` for the repaired code: as `safeLine` but WITHOUT the restriction on
`==`/`=>` in directives (repaired).  What is left: a statement/directive line that has to be split has no trailing
commentary (known finding C18-trailing-comment-split) and does not end with white space (lines with blanks after a
final `&` are repaired too: theorem `C18_fixed_trailing_blank_witness`; the general proof is not done). -/
def noStrip (l : Line) : Bool := lineType l == 3 || !endsAmp l || lastNonWs l

def safeLineF (st : St) (l : Line) : Bool :=
  noStrip l &&
  match classify l with
  | 0 => true
  | 1 | 2 => (cutBang ((lstrip l).drop 5)).2.isNone && lastNonWs l
  | 3 => true
  | _ => (scan (stmtQ st) (content st l)).2.1.isNone && lastNonWs l

def SafeFileF (L : Nat) : St → List Line → Bool
  | _, [] => true
  | st, l :: ls => (decide (l.length ≤ L) || safeLineF st l) && SafeFileF L (step st l).1 ls

/-- side condition of the "never fails" clause for the repaired code: only directive lines can fail -/
def BreakableF (L : Nat) (l : Line) : Bool := !isDirT (lineType l) || Breakable L (wrapped l)

end C18
