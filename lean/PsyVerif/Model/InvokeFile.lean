import PsyVerif.Model.Invoke
/-! C24, file level: which PSy routine the k-th rewritten `call` of the algorithm layer refers to.

Mirrors
* `parse.algorithm.Parser.invoke_info` — the `call invoke(...)` statements are collected in the order of a walk
  over the parse tree; `get_invoke_label` lower-cases and validates the optional `name="..."`;
  `check_invoke_label` refuses a label already used (FIXED code, fixes/C24-invoke-label-clash.patch: compared
  after the "invoke_" prefix has been added, and a label that would read `invoke_<digit>…` is refused because
  those names belong to the unnamed invokes);
* `parse.algorithm.InvokeCall.__init__` — a label gets "invoke_" prepended unless it already starts with it;
* `psyGen.Invokes.__init__` / `psyGen.Invoke.__init__` — invoke number `idx` is called by its label, else
  `invoke_<idx>_<kernel type>` if it consists of one user kernel, else `invoke_<idx>`;
* `alg_gen.Alg.gen` — a second walk over the same statements; the `idx`-th invoke call is replaced by
  `call <invoke_list[idx].name>(<invoke_list[idx].alg_unique_args>)`;
* `PSy.gen` — one routine per element of `invoke_list`, in that order.

Strings are ids; the shape of a label that matters is kept as structure (the harness classifies). -/
namespace C24

/-- The lower-cased label of a named invoke. -/
inductive LabelForm where
  | plain (l : Nat)            -- a Fortran name that does not start with "invoke_"; `l` = id of the string
  | pre (l : Nat)              -- "invoke_" ++ s, s (id `l`) not starting with a digit
  | preIdx (i : Nat)           -- "invoke_<i>"
  | preIdxKern (i k : Nat)     -- "invoke_<i>_<s>", `k` = id of the string s
  | preDigits (l : Nat)        -- any other "invoke_<digit>…" (cannot equal a generated name)
  deriving DecidableEq, Repr

/-- A PSy routine name: `invoke_<string l>`, `invoke_<i>`, `invoke_<i>_<string k>`. -/
inductive RName where
  | lab (l : Nat)
  | idx (i : Nat)
  | idxKern (i k : Nat)
  | other (l : Nat)            -- "invoke_<digit>…" of no generated shape
  deriving DecidableEq, Repr

structure InvokeDecl where
  label : Option LabelForm
  heads : List (Option Nat)    -- per kernel call: `some k` = user kernel with type-name id k, `none` = built-in
  body : Invoke
  deriving Repr

/-- `InvokeCall.__init__`: the full name of a labelled invoke. -/
def labelName : LabelForm → RName
  | .plain l => .lab l
  | .pre l => .lab l
  | .preIdx i => .idx i
  | .preIdxKern i k => .idxKern i k
  | .preDigits l => .other l

/-- `Invoke.__init__`. -/
def routineName (idx : Nat) (d : InvokeDecl) : RName :=
  match d.label with
  | some lf => labelName lf
  | none =>
    match d.heads with
    | [some k] => .idxKern idx k
    | _ => .idx idx

/-- `Parser.check_invoke_label` (FIXED): the label is refused if its full name is already taken by an earlier
label or if it reads `invoke_<digit>…`. -/
def labelReserved : LabelForm → Bool
  | .preIdx _ => true
  | .preIdxKern _ _ => true
  | .preDigits _ => true
  | _ => false

def labelsOK : List RName → List InvokeDecl → Bool
  | _, [] => true
  | seen, d :: ds =>
    match d.label with
    | none => labelsOK seen ds
    | some lf =>
      if labelReserved lf || seen.contains (labelName lf) then false
      else labelsOK (labelName lf :: seen) ds

/-- `check_invoke_label` of the PINNED code: only the raw label text is compared. -/
def labelsOKPinned : List LabelForm → List InvokeDecl → Bool
  | _, [] => true
  | seen, d :: ds =>
    match d.label with
    | none => labelsOKPinned seen ds
    | some lf => if seen.contains lf then false else labelsOKPinned (lf :: seen) ds

structure PsyInvoke where
  name : RName
  out : Output
  deriving Repr

inductive ListResult where
  | ok (l : List PsyInvoke)
  | crashed
  | refused
  deriving Repr

/-- `Invokes.__init__`: the invokes are created in order, each with its own symbol table; the first one that is
refused / aborts ends the run. -/
def psyInvokes (reserved : List Name) : Nat → List InvokeDecl → ListResult
  | _, [] => .ok []
  | idx, d :: ds =>
    match generate reserved d.body with
    | .crashed => .crashed
    | .refused => .refused
    | .ok o =>
      match psyInvokes reserved (idx + 1) ds with
      | .ok rest => .ok (⟨routineName idx d, o⟩ :: rest)
      | .crashed => .crashed
      | .refused => .refused

structure FileOut where
  calls : List (RName × List Text)        -- the rewritten `call`s of the algorithm layer, in file order
  routines : List (RName × List Name)     -- the routines of the PSy module, in order
  kcalls : List (List (List KArg))
  deriving Repr

inductive FileResult where
  | ok (o : FileOut)
  | crashed
  | refused
  deriving Repr

/-- `Alg.gen`: `idx` counts the invoke calls met so far; call number `idx` is rewritten from `invoke_list[idx]`. -/
def rewriteCalls (invokeList : List PsyInvoke) : Nat → Nat → List (RName × List Text)
  | 0, _ => []
  | n + 1, idx =>
    match invokeList[idx]? with
    | some p => (p.name, p.out.actuals) :: rewriteCalls invokeList n (idx + 1)
    | none => []        -- IndexError; cannot happen: both walks see the same invoke calls

def genFileWith (labelCheck : List InvokeDecl → Bool) (reserved : List Name) (ds : List InvokeDecl) : FileResult :=
  if !labelCheck ds then .refused
  else
    match psyInvokes reserved 0 ds with
    | .crashed => .crashed
    | .refused => .refused
    | .ok l =>
      .ok { calls := rewriteCalls l ds.length 0,
            routines := l.map fun p => (p.name, p.out.dummies),
            kcalls := l.map fun p => p.out.kcalls }

def genFile := genFileWith (labelsOK [])
def genFilePinned := genFileWith (labelsOKPinned [])

/-- Side condition for the pinned code: no label starts with "invoke_". -/
def noInvokePrefix (ds : List InvokeDecl) : Bool :=
  ds.all fun d => match d.label with
    | some (.plain _) => true
    | none => true
    | _ => false

/-! ## PSy-layer internal names that are made by string concatenation (no symbol table)

`DynKernelArgument.proxy_name` = `<name>_proxy` (fields, field vectors, operators; quadrature objects get
`<name>_proxy` too), `FunctionSpace.map_name / ndf_name / undf_name` = `map_<fs>`, `ndf_<fs>`, `undf_<fs>`.
They are declared and assigned in the routine without asking the symbol table, so they can coincide with a
dummy argument.  Strings are ids: the harness supplies the (finite) part of the string relation that matters —
for which argument names `n` the string `<n>_proxy` is the root of some name, and the roots of the
function-space names the routine will define. -/

structure Internals where
  proxied : List Text                -- texts of the arguments that get a proxy
  proxyRoot : List (Name × Root)     -- rendered name ↦ root id of `<rendered name>_proxy`
  spaceRoots : List Root             -- roots of the `map_/ndf_/undf_<space>` names of this routine
  deriving Repr

def lookupProxy : List (Name × Root) → Name → Option Root
  | [], _ => none
  | (n', r) :: rest, n => if n' = n then some r else lookupProxy rest n

/-- The names the routine declares locally by concatenation. -/
def internalNames (st : SymTab) (I : Internals) : List Name :=
  (I.proxied.filterMap fun t => (lookupProxy I.proxyRoot (nameOf st t)).map fun r => (r, 0))
    ++ I.spaceRoots.map fun r => (r, 0)

/-- Dummy arguments that the routine declares a second time / overwrites. -/
def clashes (st : SymTab) (inv : Invoke) (I : Internals) : List Name :=
  (internalNames st I).filter fun n => decide (n ∈ dummies st inv)

/-- Side condition: no argument of the invoke has a root that is one of the concatenated names. -/
def reservedRoots (I : Internals) : List Root := I.proxyRoot.map Prod.snd ++ I.spaceRoots

def noReservedNames (inv : Invoke) (I : Internals) : Bool :=
  inv.flatten.all fun s => match s.act with
    | .var _ r => !(reservedRoots I).contains r
    | _ => true

/-! ## The PSyIR-based algorithm path (`generator.LFRIC_TESTING`, `LFRicAlgInvoke2PSyCallTrans.get_arguments`)

Arguments are `_add_arg`-ed: a Literal is not passed, a Reference is passed unless `SymbolicMaths.equal` finds it
equal to one already in the list.  Four lists (data, stencil extents, stencil directions, quadrature), merged
with `_add_arg` (FIXED code, fixes/C24-two-roles-dedup.patch; the pinned code concatenated them). -/

def pairOf (ro : Role) (s : Slot) : Option (Text × Nat) :=
  if s.role = ro then (match s.act with | .var t _ => some (t, s.cls) | _ => none) else none

def pairsOf (ro : Role) (inv : Invoke) : List (Text × Nat) := inv.flatten.filterMap (pairOf ro)

def uniqByAcc (acc : List (Text × Nat)) : List (Text × Nat) → List (Text × Nat)
  | [] => acc
  | x :: xs => if acc.any (fun p => p.2 == x.2) then uniqByAcc acc xs else uniqByAcc (acc ++ [x]) xs

def actualsB (inv : Invoke) : List Text :=
  (uniqByAcc (uniqByAcc (uniqByAcc (uniqByAcc [] (pairsOf .data inv)) (uniqByAcc [] (pairsOf .extent inv)))
      (uniqByAcc [] (pairsOf .direction inv))) (uniqByAcc [] (pairsOf .qr inv))).map Prod.fst

/-- `LFRicAlgorithmInvokeCall._def_routine_root_name`: an invoke that consists of ONE built-in is called
`invoke_<idx>` even when it has a label; otherwise as on the default path. -/
def routineNameB (idx : Nat) (d : InvokeDecl) : RName :=
  match d.heads with
  | [none] => .idx idx
  | _ => routineName idx d

/-- The spelling classes and the texts describe the same partition of the written expressions. -/
def allPairs (inv : Invoke) : List (Text × Nat) :=
  pairsOf .data inv ++ pairsOf .extent inv ++ pairsOf .direction inv ++ pairsOf .qr inv

def classesAgree (inv : Invoke) : Bool :=
  (allPairs inv).all fun p => (allPairs inv).all fun q => decide (p.2 = q.2 ↔ p.1 = q.1)

end C24
