import PsyVerif.Model.MiniF
/-! # C05 — models of the generic PSyIR loop transformations over MiniF

Each transformation of `psyclone/psyir/transformations/` is mirrored by a decidable
acceptance function `…Validate : Target → Except Refusal Unit` and an `…Apply : Target → Stmt`
that builds the statement the Python `apply` leaves in the tree.  The models follow the code
that exists, including what it does NOT check (no dependence-distance test in `LoopFuseTrans`,
no dependence test at all in `LoopSwapTrans`, no trip-count test in `HoistTrans`, chunk size
not required to be a multiple of the step in `ChunkLoopTrans`, `- (chunk + 1)` for negative
steps, …).  Variables are `Nat` ids; fresh symbols created by a transformation are supplied
in the target (`out`, `el`, …) — the harness passes the ids of the names the real code
created.  Core Lean only. -/
namespace C05
open MiniF

/-- classes of `TransformationError` raised by the modelled `validate` methods -/
inductive Refusal where
  | badOption            -- chunksize / tilesize not a positive integer
  | nonLiteralStep       -- ChunkLoopTrans: step is not a Literal
  | stepTooLarge         -- ChunkLoopTrans: |step| > |chunksize|
  | alreadyChunked       -- ChunkLoopTrans: 'chunked' annotation present
  | zeroStep             -- ChunkLoopTrans: literal step 0
  | boundWritten         -- ChunkLoopTrans: loop variable / bound variable written in the body
  | notAdjacent          -- LoopFuseTrans: |pos1 - pos2| ≠ 1
  | boundsDiffer         -- LoopFuseTrans: iteration spaces differ
  | loopVarUsed          -- LoopFuseTrans: other loop's variable accessed
  | scalarDep            -- LoopFuseTrans._validate_written_scalar
  | arrayIndexDep        -- LoopFuseTrans._validate_written_array: loop variable in different index positions
  | arrayNoLoopVar       -- LoopFuseTrans._validate_written_array: written array not indexed by the loop variable
  | emptyBody            -- LoopSwapTrans: outer loop has no statements
  | innerNotLoop         -- LoopSwapTrans: first inner statement is not a loop
  | notSingleInner       -- LoopSwapTrans: more than one inner statement
  | innerVarInOuterBounds
  | outerVarInInnerBounds
  | notAssignment        -- HoistTrans: target is not an assignment directly inside a loop
  | hoistReadAndWritten  -- HoistTrans: written variable also read in the statement
  | hoistAccessedBefore  -- HoistTrans: written variable accessed earlier in the loop
  | hoistOtherWrite      -- HoistTrans: written variable written elsewhere in the loop
  | hoistReadsWritten    -- HoistTrans: statement reads a variable written in the loop
  | stepNotDividing      -- ChunkLoopTrans (repaired): the step does not divide the chunk size
  | boundSelf            -- ChunkLoopTrans (repaired): start/stop mention the loop variable itself
  deriving DecidableEq, Repr, Inhabited

def Refusal.name : Refusal → String
  | .badOption => "badOption" | .nonLiteralStep => "nonLiteralStep" | .stepTooLarge => "stepTooLarge"
  | .alreadyChunked => "alreadyChunked" | .zeroStep => "zeroStep" | .boundWritten => "boundWritten"
  | .notAdjacent => "notAdjacent" | .boundsDiffer => "boundsDiffer" | .loopVarUsed => "loopVarUsed"
  | .scalarDep => "scalarDep" | .arrayIndexDep => "arrayIndexDep" | .arrayNoLoopVar => "arrayNoLoopVar"
  | .emptyBody => "emptyBody" | .innerNotLoop => "innerNotLoop" | .notSingleInner => "notSingleInner"
  | .innerVarInOuterBounds => "innerVarInOuterBounds" | .outerVarInInnerBounds => "outerVarInInnerBounds"
  | .notAssignment => "notAssignment" | .hoistReadAndWritten => "hoistReadAndWritten"
  | .hoistAccessedBefore => "hoistAccessedBefore" | .hoistOtherWrite => "hoistOtherWrite"
  | .hoistReadsWritten => "hoistReadsWritten"
  | .stepNotDividing => "stepNotDividing" | .boundSelf => "boundSelf"

/-! ## variable access information (the part of `VariablesAccessInfo` the validators use) -/

/-- variables referenced by an expression (`VariablesAccessInfo(expr).all_signatures`) -/
def eVars : Expr → List Nat
  | .lit _ => []
  | .var x => [x]
  | .idx1 a i => a :: eVars i
  | .idx2 a i j => a :: (eVars i ++ eVars j)
  | .un _ e => eVars e
  | .bin _ a b => eVars a ++ eVars b

/-- variables read by a statement (loop variables count as written AND read, as in
`Loop.reference_accesses`, but only their WRITE is relevant to the validators below) -/
def rVars : Stmt → List Nat
  | .skip => []
  | .seq a b => rVars a ++ rVars b
  | .assign _ e => eVars e
  | .store1 _ i e => eVars i ++ eVars e
  | .store2 _ i j e => eVars i ++ eVars j ++ eVars e
  | .ite c t f => eVars c ++ rVars t ++ rVars f
  | .loop _ lo hi st b => eVars lo ++ eVars hi ++ eVars st ++ rVars b

/-- variables written by a statement (`is_written()`): assignment targets and loop variables -/
def wVars : Stmt → List Nat
  | .skip => []
  | .seq a b => wVars a ++ wVars b
  | .assign x _ => [x]
  | .store1 a _ _ => [a]
  | .store2 a _ _ _ => [a]
  | .ite _ t f => wVars t ++ wVars f
  | .loop v _ _ _ b => v :: wVars b

/-- one entry of a `SingleVariableAccessInfo`: variable, access type, subscripts -/
structure Acc where
  x : Nat
  write : Bool
  subs : List Expr
  deriving DecidableEq, Repr, Inhabited

/-- accesses of an expression in PSyclone order (subscripts before the array itself) -/
def eAcc : Expr → List Acc
  | .lit _ => []
  | .var x => [⟨x, false, []⟩]
  | .idx1 a i => eAcc i ++ [⟨a, false, [i]⟩]
  | .idx2 a i j => eAcc i ++ eAcc j ++ [⟨a, false, [i, j]⟩]
  | .un _ e => eAcc e
  | .bin _ a b => eAcc a ++ eAcc b

/-- accesses of a statement in PSyclone order: an assignment lists the right-hand side first,
then the subscripts of the left-hand side, then the WRITE; a loop lists WRITE and READ of its
variable, then start, stop, step, then the body -/
def sAcc : Stmt → List Acc
  | .skip => []
  | .seq a b => sAcc a ++ sAcc b
  | .assign x e => eAcc e ++ [⟨x, true, []⟩]
  | .store1 a i e => eAcc e ++ eAcc i ++ [⟨a, true, [i]⟩]
  | .store2 a i j e => eAcc e ++ eAcc i ++ eAcc j ++ [⟨a, true, [i, j]⟩]
  | .ite c t f => eAcc c ++ sAcc t ++ sAcc f
  | .loop v lo hi st b => [⟨v, true, []⟩, ⟨v, false, []⟩] ++ eAcc lo ++ eAcc hi ++ eAcc st ++ sAcc b

/-- a loop header and body -/
structure LoopN where
  v : Nat
  lo : Expr
  hi : Expr
  st : Expr
  body : Stmt
  deriving DecidableEq, Repr, Inhabited

def LoopN.stmt (l : LoopN) : Stmt := .loop l.v l.lo l.hi l.st l.body

/-! ## ChunkLoopTrans -/

structure ChunkTarget where
  l : LoopN
  /-- `options["chunksize"]` (32 when absent) -/
  chunk : Int
  /-- the loop already carries the 'chunked' annotation -/
  chunked : Bool
  /-- fresh symbols `<v>_out_var`, `<v>_el_inner` -/
  out : Nat
  el : Nat
  deriving Repr, Inhabited

def chunkValidate (t : ChunkTarget) : Except Refusal Unit :=
  if t.chunk ≤ 0 then .error .badOption else
  match t.l.st with
  | .lit s =>
    if s.natAbs > t.chunk.natAbs then .error .stepTooLarge
    else if t.chunked then .error .alreadyChunked
    else if s = 0 then .error .zeroStep
    else if (t.l.v :: (eVars t.l.lo ++ eVars t.l.hi)).any (fun x => decide (x ∈ wVars t.l.body)) then
      .error .boundWritten
    else .ok ()
  | _ => .error .nonLiteralStep

/-- what `ChunkLoopTrans.apply` leaves in place of the loop (`s` is the literal step) -/
def chunkApplyStep (t : ChunkTarget) (s : Int) : Stmt :=
  if s > 0 then
    .loop t.out t.l.lo t.l.hi (.lit t.chunk)
      (.seq (.assign t.el (.bin .min (.bin .add (.var t.out) (.bin .sub (.lit t.chunk) (.lit 1))) t.l.hi))
            (.loop t.l.v (.var t.out) (.var t.el) t.l.st t.l.body))
  else
    .loop t.out t.l.lo t.l.hi (.lit (-t.chunk))
      (.seq (.assign t.el (.bin .max (.bin .sub (.var t.out) (.bin .add (.lit t.chunk) (.lit 1))) t.l.hi))
            (.loop t.l.v (.var t.out) (.var t.el) t.l.st t.l.body))

def chunkApply (t : ChunkTarget) : Stmt :=
  match t.l.st with
  | .lit s => chunkApplyStep t s
  | _ => t.l.stmt

/-! ## LoopFuseTrans -/

structure FuseTarget where
  /-- first and second ARGUMENT of `apply(node1, node2)` -/
  l1 : LoopN
  l2 : LoopN
  /-- `abs(node1.position - node2.position) == 1` -/
  adjacent : Bool
  /-- `node2` precedes `node1` in the parent (the position test uses `abs`) -/
  reversed : Bool
  deriving Repr, Inhabited

/-- the program fragment before the transformation -/
def FuseTarget.original (t : FuseTarget) : Stmt :=
  if t.reversed then .seq t.l2.stmt t.l1.stmt else .seq t.l1.stmt t.l2.stmt

def accOf (x : Nat) (as : List Acc) : List Acc := as.filter (fun a => a.x == x)

/-- `_validate_written_array`: every access of the array, paired with the FIRST access of the
first loop, must use the loop variable in exactly one subscript position (the partitions that
mention the loop variable are merged; a merged partition with more than one subscript is an
error; no partition mentioning it is an error).  No distance test. -/
def fuseArrayCheck (v : Nat) (all : List Acc) : Except Refusal Unit :=
  match all with
  | [] => .ok ()
  | first :: _ =>
    all.foldl (fun (r : Except Refusal Unit) (other : Acc) =>
      match r with
      | .error e => .error e
      | .ok () =>
        let n := ((first.subs.zip other.subs).filter
          (fun p => decide (v ∈ eVars p.1) || decide (v ∈ eVars p.2))).length
        if n = 0 then .error .arrayNoLoopVar
        else if n > 1 then .error .arrayIndexDep
        else .ok ()) (.ok ())

/-- `_validate_written_scalar`: the first access in each loop must be a WRITE -/
def fuseScalarCheck (a1 a2 : List Acc) : Except Refusal Unit :=
  match a1, a2 with
  | f1 :: _, f2 :: _ => if f1.write && f2.write then .ok () else .error .scalarDep
  | _, _ => .ok ()

def dedup : List Nat → List Nat
  | [] => []
  | x :: xs => x :: (dedup xs).filter (· != x)

def fuseValidate (t : FuseTarget) : Except Refusal Unit :=
  if !t.adjacent then .error .notAdjacent else
  -- SymbolicMaths.equal on start/stop/step, modelled as syntactic equality
  if !(t.l1.lo == t.l2.lo && t.l1.hi == t.l2.hi && t.l1.st == t.l2.st) then .error .boundsDiffer else
  let acc1 := sAcc t.l1.stmt
  let acc2 := sAcc t.l2.stmt
  if t.l1.v != t.l2.v && ((accOf t.l2.v acc1).length > 0 || (accOf t.l1.v acc2).length > 0) then
    .error .loopVarUsed
  else
  (dedup (acc1.map (·.x))).foldl (fun (r : Except Refusal Unit) (x : Nat) =>
    match r with
    | .error e => .error e
    | .ok () =>
      let i1 := accOf x acc1
      let i2 := accOf x acc2
      if x == t.l1.v || i2.length == 0 then .ok ()
      else if i1.all (fun a => !a.write) && i2.all (fun a => !a.write) then .ok ()
      else if i1.any (fun a => a.subs.length > 0) then fuseArrayCheck t.l1.v (i1 ++ i2)
      else fuseScalarCheck i1 i2) (.ok ())

/-- `ref.symbol = loop_var1` for every `Reference` to `loop_var2` in the second body -/
def renE (a b : Nat) : Expr → Expr
  | .lit n => .lit n
  | .var x => .var (if x = a then b else x)
  | .idx1 arr i => .idx1 arr (renE a b i)
  | .idx2 arr i j => .idx2 arr (renE a b i) (renE a b j)
  | .un op e => .un op (renE a b e)
  | .bin op x y => .bin op (renE a b x) (renE a b y)

def renS (a b : Nat) : Stmt → Stmt
  | .skip => .skip
  | .seq s t => .seq (renS a b s) (renS a b t)
  | .assign x e => .assign (if x = a then b else x) (renE a b e)
  | .store1 arr i e => .store1 arr (renE a b i) (renE a b e)
  | .store2 arr i j e => .store2 arr (renE a b i) (renE a b j) (renE a b e)
  | .ite c t f => .ite (renE a b c) (renS a b t) (renS a b f)
  | .loop v lo hi st body => .loop v (renE a b lo) (renE a b hi) (renE a b st) (renS a b body)

/-- `node1.loop_body.children.extend(node2.loop_body.pop_all_children())` -/
def fuseApply (t : FuseTarget) : Stmt :=
  .loop t.l1.v t.l1.lo t.l1.hi t.l1.st
    (.seq t.l1.body (if t.l1.v = t.l2.v then t.l2.body else renS t.l2.v t.l1.v t.l2.body))

/-! ## LoopSwapTrans -/

structure SwapTarget where
  v : Nat
  lo : Expr
  hi : Expr
  st : Expr
  /-- children of the outer loop body -/
  body : List Stmt
  deriving Repr, Inhabited

def SwapTarget.original (t : SwapTarget) : Stmt := .loop t.v t.lo t.hi t.st (seqs t.body)

/-- no dependence test of any kind -/
def swapValidate (t : SwapTarget) : Except Refusal Unit :=
  match t.body with
  | [] => .error .emptyBody
  | .loop vi loi hii sti _ :: rest =>
    if rest.length > 0 then .error .notSingleInner
    else if decide (vi ∈ eVars t.lo ++ eVars t.hi ++ eVars t.st) then .error .innerVarInOuterBounds
    else if decide (t.v ∈ eVars loi ++ eVars hii ++ eVars sti) then .error .outerVarInInnerBounds
    else .ok ()
  | _ :: _ => .error .innerNotLoop

def swapApply (t : SwapTarget) : Stmt :=
  match t.body with
  | .loop vi loi hii sti bi :: _ => .loop vi loi hii sti (.loop t.v t.lo t.hi t.st bi)
  | _ => t.original

/-! ## HoistTrans -/

structure HoistTarget where
  v : Nat
  lo : Expr
  hi : Expr
  st : Expr
  /-- direct children of the loop body before the target statement -/
  pre : List Stmt
  /-- the target statement -/
  s : Stmt
  /-- direct children after it -/
  post : List Stmt
  deriving Repr, Inhabited

def HoistTarget.original (t : HoistTarget) : Stmt :=
  .loop t.v t.lo t.hi t.st (seqs (t.pre ++ t.s :: t.post))

/-- the variable an assignment writes -/
def assignedVar : Stmt → Option Nat
  | .assign x _ => some x
  | .store1 a _ _ => some a
  | .store2 a _ _ _ => some a
  | _ => none

def countWrites (x : Nat) (as : List Acc) : Nat := (as.filter (fun a => a.x == x && a.write)).length

/-- `HoistTrans._validate_dependencies` (no test that the loop runs at least once) -/
def hoistValidate (t : HoistTarget) : Except Refusal Unit :=
  match assignedVar t.s with
  | none => .error .notAssignment
  | some x =>
    let loopAcc := sAcc t.original
    if decide (x ∈ rVars t.s) then .error .hoistReadAndWritten
    else if decide (x = t.v) || decide (x ∈ eVars t.lo ++ eVars t.hi ++ eVars t.st)
            || (accOf x (sAcc (seqs t.pre))).length > 0 then .error .hoistAccessedBefore
    else if countWrites x loopAcc > 1 then .error .hoistOtherWrite
    else if (rVars t.s).any (fun r => decide (r ∈ wVars t.original)) then .error .hoistReadsWritten
    else .ok ()

/-- `loop.parent.children.insert(loop.position, node)` -/
def hoistApply (t : HoistTarget) : Stmt :=
  .seq t.s (.loop t.v t.lo t.hi t.st (seqs (t.pre ++ t.post)))

/-! ## HoistLoopBoundExprTrans -/

structure HoistBoundTarget where
  l : LoopN
  /-- fresh symbols `loop_start`, `loop_stop`, `loop_step` (only used for the bounds that are hoisted) -/
  fLo : Nat
  fHi : Nat
  fSt : Nat
  deriving Repr, Inhabited

/-- bounds that stay in place: a `Literal` or a plain scalar `Reference` -/
def isSimpleBound : Expr → Bool
  | .lit _ => true
  | .var _ => true
  | _ => false

/-- `bound.replace_with(Reference(symbol))` and the assignment `symbol = bound` -/
def hoistOne (f : Nat) (e : Expr) : List Stmt × Expr :=
  if isSimpleBound e then ([], e) else ([.assign f e], .var f)

/-- validate only tests structural context (Routine ancestor, not directly in a Directive),
which always holds for the targets of this model -/
def hoistBoundValidate (_t : HoistBoundTarget) : Except Refusal Unit := .ok ()

/-- every assignment is inserted at the loop's old position, so they end up in the order
step, stop, start -/
def hoistBoundApply (t : HoistBoundTarget) : Stmt :=
  let lo := hoistOne t.fLo t.l.lo
  let hi := hoistOne t.fHi t.l.hi
  let st := hoistOne t.fSt t.l.st
  seqs (st.1 ++ hi.1 ++ lo.1 ++ [.loop t.l.v lo.2 hi.2 st.2 t.l.body])

/-! ## ReplaceInductionVariablesTrans -/

structure ReplaceIVTarget where
  v : Nat
  lo : Expr
  hi : Expr
  st : Expr
  /-- direct children of the loop body -/
  body : List Stmt
  deriving Repr, Inhabited

def ReplaceIVTarget.original (t : ReplaceIVTarget) : Stmt := .loop t.v t.lo t.hi t.st (seqs t.body)

/-- `_replace_references`: every `Reference` equal to the scalar `x` is replaced by a copy of `r`
(array accesses, assignment targets and loop variables are not `Reference`s to `x`) -/
def substE (x : Nat) (r : Expr) : Expr → Expr
  | .lit n => .lit n
  | .var y => if y = x then r else .var y
  | .idx1 a i => .idx1 a (substE x r i)
  | .idx2 a i j => .idx2 a (substE x r i) (substE x r j)
  | .un op e => .un op (substE x r e)
  | .bin op a b => .bin op (substE x r a) (substE x r b)

def substS (x : Nat) (r : Expr) : Stmt → Stmt
  | .skip => .skip
  | .seq a b => .seq (substS x r a) (substS x r b)
  | .assign y e => .assign y (substE x r e)
  | .store1 a i e => .store1 a (substE x r i) (substE x r e)
  | .store2 a i j e => .store2 a (substE x r i) (substE x r j) (substE x r e)
  | .ite c t f => .ite (substE x r c) (substS x r t) (substS x r f)
  | .loop v lo hi st b => .loop v (substE x r lo) (substE x r hi) (substE x r st) (substS x r b)

/-- `_is_induction_variable` for the scalar assignment `x = e` at position `k` of the loop body:
nothing on the right-hand side is written in the loop body, the assignment is the first access
of `x` in the body, and every later access of `x` is a READ (a call argument is READWRITE and is
exported as a read followed by a write) -/
def isIV (body : List Stmt) (k : Nat) (x : Nat) (e : Expr) : Bool :=
  (eVars e).all (fun r => !decide (r ∈ wVars (seqs body)))
  && (accOf x (sAcc (seqs (body.take k)))).isEmpty
  && !decide (x ∈ wVars (seqs (body.drop (k + 1))))

/-- state of `apply`: loop header, remaining body, statements already placed after the loop -/
structure RivState where
  lo : Expr
  hi : Expr
  st : Expr
  body : List Stmt
  posts : List Stmt
  deriving Repr, Inhabited

/-- the `while indx < len(children)` loop of `apply` (fuel bounds the number of steps) -/
def rivGo (v : Nat) : Nat → Nat → RivState → RivState
  | 0, _, s => s
  | fuel + 1, idx, s =>
    match s.body[idx]? with
    | none => s
    | some (.assign x e) =>
      if isIV s.body idx x e then
        -- detach, substitute in the whole loop (header included), post-loop assignment with
        -- the loop variable replaced by `v - step` (the step expression AFTER the substitution),
        -- inserted directly after the loop
        let post := Stmt.assign x (substE v (.bin .sub (.var v) (substE x e s.st)) e)
        rivGo v fuel idx ⟨substE x e s.lo, substE x e s.hi, substE x e s.st,
          (s.body.eraseIdx idx).map (substS x e), post :: s.posts⟩
      else rivGo v fuel (idx + 1) s
    | some _ => rivGo v fuel (idx + 1) s

/-- validate only requires a Loop -/
def replaceIVValidate (_t : ReplaceIVTarget) : Except Refusal Unit := .ok ()

def replaceIVApply (t : ReplaceIVTarget) : Stmt :=
  let s := rivGo t.v (2 * t.body.length + 1) 0 ⟨t.lo, t.hi, t.st, t.body, []⟩
  seqs (.loop t.v s.lo s.hi s.st (seqs s.body) :: s.posts)

/-! ## LoopTiling2DTrans = chunk(outer) ; chunk(inner) ; swap(element loop of outer, chunk loop of inner) -/

structure TileTarget where
  v : Nat
  lo : Expr
  hi : Expr
  st : Expr
  /-- children of the outer loop body -/
  body : List Stmt
  /-- `options["tilesize"]` (32 when absent) -/
  tile : Int
  outO : Nat
  elO : Nat
  outI : Nat
  elI : Nat
  deriving Repr, Inhabited

def TileTarget.original (t : TileTarget) : Stmt := .loop t.v t.lo t.hi t.st (seqs t.body)

def tileValidate (t : TileTarget) : Except Refusal Unit :=
  if t.tile ≤ 0 then .error .badOption else
  match swapValidate ⟨t.v, t.lo, t.hi, t.st, t.body⟩ with
  | .error e => .error e
  | .ok () =>
    match chunkValidate ⟨⟨t.v, t.lo, t.hi, t.st, seqs t.body⟩, t.tile, false, t.outO, t.elO⟩ with
    | .error e => .error e
    | .ok () =>
      match t.body with
      | .loop vi loi hii sti bi :: _ => chunkValidate ⟨⟨vi, loi, hii, sti, bi⟩, t.tile, false, t.outI, t.elI⟩
      | _ => .ok ()

/-- the assignment of the inner end variable and the step of the chunk loop -/
def chunkEl (out el : Nat) (hi : Expr) (s chunk : Int) : Stmt × Expr :=
  if s > 0 then
    (.assign el (.bin .min (.bin .add (.var out) (.bin .sub (.lit chunk) (.lit 1))) hi), .lit chunk)
  else
    (.assign el (.bin .max (.bin .sub (.var out) (.bin .add (.lit chunk) (.lit 1))) hi), .lit (-chunk))

def tileApply (t : TileTarget) : Stmt :=
  match t.st, t.body with
  | .lit so, .loop vi loi hii (.lit si) bi :: _ =>
    let o := chunkEl t.outO t.elO t.hi so t.tile
    let i := chunkEl t.outI t.elI hii si t.tile
    .loop t.outO t.lo t.hi o.2
      (.seq o.1
        (.loop t.outI loi hii i.2
          (.loop t.v (.var t.outO) (.var t.elO) t.st
            (.seq i.1 (.loop vi (.var t.outI) (.var t.elI) (.lit si) bi)))))
  | _, _ => t.original

/-! ## candidate repairs (`/verif/fixes/C05-*.patch`)

Each flag says whether one small repair is present in the code under test; the harness probes
the live code on every run (one canonical target per flag) and passes the flags with every
protocol line, so the model always describes the tree it is compared with.  With all flags off
the functions below are the pinned ones. -/

structure Fixes where
  /-- `C05-fuse-argument-order`: `validate` refuses `apply(second, first)` -/
  fuseOrder : Bool := false
  /-- `C05-chunk-step-divides`: the step must divide the chunk size -/
  chunkDiv : Bool := false
  /-- `C05-chunk-bound-loopvar`: start/stop must not mention the loop variable -/
  chunkSelf : Bool := false
  deriving DecidableEq, Repr, Inhabited

def chunkValidateF (f : Fixes) (t : ChunkTarget) : Except Refusal Unit :=
  if t.chunk ≤ 0 then .error .badOption else
  match t.l.st with
  | .lit s =>
    if s.natAbs > t.chunk.natAbs then .error .stepTooLarge
    else if t.chunked then .error .alreadyChunked
    else if s = 0 then .error .zeroStep
    else if f.chunkDiv && t.chunk.natAbs % s.natAbs != 0 then .error .stepNotDividing
    else if f.chunkSelf && decide (t.l.v ∈ eVars t.l.lo ++ eVars t.l.hi) then .error .boundSelf
    else if (t.l.v :: (eVars t.l.lo ++ eVars t.l.hi)).any (fun x => decide (x ∈ wVars t.l.body)) then
      .error .boundWritten
    else .ok ()
  | _ => .error .nonLiteralStep

/-- the order test follows the adjacency test and raises the same class of error -/
def fuseValidateF (f : Fixes) (t : FuseTarget) : Except Refusal Unit :=
  if !t.adjacent then .error .notAdjacent
  else if f.fuseOrder && t.reversed then .error .notAdjacent
  else fuseValidate t

def tileValidateF (f : Fixes) (t : TileTarget) : Except Refusal Unit :=
  if t.tile ≤ 0 then .error .badOption else
  match swapValidate ⟨t.v, t.lo, t.hi, t.st, t.body⟩ with
  | .error e => .error e
  | .ok () =>
    match chunkValidateF f ⟨⟨t.v, t.lo, t.hi, t.st, seqs t.body⟩, t.tile, false, t.outO, t.elO⟩ with
    | .error e => .error e
    | .ok () =>
      match t.body with
      | .loop vi loi hii sti bi :: _ => chunkValidateF f ⟨⟨vi, loi, hii, sti, bi⟩, t.tile, false, t.outI, t.elI⟩
      | _ => .ok ()

/-! ## FoldConditionalReturnExpressionsTrans

MiniF has no RETURN.  `RStmt` adds it around return-free MiniF statements: `base s` is any MiniF
statement (loops included — a RETURN inside a loop is outside this model), `ret` is RETURN, and
`ite` is an IfBlock whose branches may return.  `execR` yields the store and whether the routine
has returned. -/

inductive RStmt where
  | skip
  | seq (a b : RStmt)
  | base (s : Stmt)
  | ret
  /-- `hasElse` = the IfBlock has an `else_body` (possibly empty) -/
  | ite (c : Expr) (t f : RStmt) (hasElse : Bool)
  deriving DecidableEq, Repr, Inhabited

def execR : RStmt → Store → Store × Bool
  | .skip, σ => (σ, false)
  | .seq a b, σ =>
    let r := execR a σ
    if r.2 then r else execR b r.1
  | .base s, σ => (exec s σ, false)
  | .ret, σ => (σ, true)
  | .ite c t f _, σ => if eval c σ ≠ 0 then execR t σ else execR f σ

/-- right-nested sequence of a statement list (as `MiniF.seqs`) -/
def seqsR : List RStmt → RStmt
  | [] => .skip
  | [s] => s
  | s :: rest => .seq s (seqsR rest)

/-- `isinstance(node.if_body[0], Return)` -/
def firstIsRet : RStmt → Bool
  | .ret => true
  | .seq a _ => firstIsRet a
  | _ => false

/-- `is_conditional_return`: an IfBlock without else whose first statement is a Return -/
def condRet : RStmt → Option Expr
  | .ite c t .skip false => if firstIsRet t then some c else none
  | _ => none

/-- validate only requires a Routine -/
def foldValidate (_body : List RStmt) : Except Refusal Unit := .ok ()

/-- the loop over `routine[:]`: a conditional return becomes `if (.not. c)` holding everything
that followed it (which is processed in the same way inside its new parent) -/
def foldApply : List RStmt → List RStmt
  | [] => []
  | s :: rest =>
    match condRet s with
    | some c => [.ite (.un .not c) (seqsR (foldApply rest)) .skip false]
    | none => s :: foldApply rest

end C05
