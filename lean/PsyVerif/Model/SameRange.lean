import PsyVerif.Model.ArrayLower
/-! # C06 — `ArrayMixin.is_lower_bound / is_upper_bound / is_full_range / same_range` and the index
expression `ArrayAssignment2LoopsTrans.apply` derives from them

An access `a(i1, lo:hi:st, i3)` is kept in the form the PSyIR has it: per index position either a scalar
expression or a range whose bounds are `LBOUND(arr, d)` / `UBOUND(arr, d)` calls (what `:` is parsed to) or
plain expressions; the array's declared shape is what `ArrayType.shape` records.  All arrays are local
`DataSymbol`s of `ArrayType` (the branches "no type information → False" of the Python are outside the model).
`SymbolicMaths.equal` is a PARAMETER `eq` of every function here; the theorems need it to be sound
(`eq a b = true → a, b have the same value in every store`), the driver instantiates it with `linEq`
(linear normal form, proved sound) and the harness checks on every case that the real
`SymbolicMaths.equal` gave the same answers on the pairs it was asked.  Core Lean only. -/
namespace C06
open MiniF

/-- `ArrayType.shape[i]`.  The components marked *ghost* are run-time bounds PSyclone does not see; they
only give LBOUND/UBOUND a value in the semantics. -/
inductive DimDecl where
  /-- `lo:hi` (or `n` = `1:n`): `ArrayBounds(lo, hi)` -/
  | bounds (lo hi : Expr)
  /-- `lo:` (assumed shape with explicit lower bound): `ArrayBounds(lo, Extent.ATTRIBUTE)`; ghost upper -/
  | lowerOnly (lo ghi : Expr)
  /-- `:` assumed shape: `Extent.ATTRIBUTE`; LBOUND is 1; ghost upper -/
  | attribute (ghi : Expr)
  /-- `:` allocatable / pointer: `Extent.DEFERRED`; ghost lower and upper -/
  | deferred (glo ghi : Expr)
  deriving DecidableEq, Repr, Inhabited

/-- run-time value (as an expression) of `LBOUND` for a dimension declared this way -/
def DimDecl.lbE : DimDecl → Expr
  | .bounds lo _ => lo
  | .lowerOnly lo _ => lo
  | .attribute _ => .lit 1
  | .deferred glo _ => glo

def DimDecl.ubE : DimDecl → Expr
  | .bounds _ hi => hi
  | .lowerOnly _ ghi => ghi
  | .attribute ghi => ghi
  | .deferred _ ghi => ghi

/-- a range bound as it stands in the PSyIR -/
inductive Bnd where
  /-- `LBOUND(arr, dim+1)` -/
  | lb (arr dim : Nat)
  /-- `UBOUND(arr, dim+1)` -/
  | ub (arr dim : Nat)
  | e (x : Expr)
  deriving DecidableEq, Repr, Inhabited

inductive Idx where
  | rng (start stop : Bnd) (step : Expr)
  | at (e : Expr)
  deriving DecidableEq, Repr, Inhabited

def Idx.isRange : Idx → Bool
  | .rng .. => true
  | .at _ => false

/-- an `ArrayReference`: symbol, declared shape of the symbol, index list -/
structure Acc where
  arr : Nat
  shape : List DimDecl
  idx : List Idx
  deriving DecidableEq, Repr, Inhabited

/-- `SymbolicMaths.equal` on bounds: an LBOUND/UBOUND call is only equal to the identical call -/
def Bnd.eqv (eq : Expr → Expr → Bool) : Bnd → Bnd → Bool
  | .lb a d, .lb a' d' => a == a' && d == d'
  | .ub a d, .ub a' d' => a == a' && d == d'
  | .e x, .e y => eq x y
  | _, _ => false

/-- `_is_bound_op(expr, LBOUND, index)` for a plain array reference -/
def isLBoundOp (a : Acc) (index : Nat) : Bnd → Bool
  | .lb ar d => ar == a.arr && d == index
  | _ => false

def isUBoundOp (a : Acc) (index : Nat) : Bnd → Bool
  | .ub ar d => ar == a.arr && d == index
  | _ => false

/-- `ArrayMixin.is_lower_bound(index)` (total: an index position that does not exist answers False here;
`sameRange` checks positions first, as the Python does) -/
def isLower (eq : Expr → Expr → Bool) (a : Acc) (index : Nat) : Bool :=
  match a.idx[index]? with
  | none => false
  | some ix =>
    let ab : Bnd := match ix with
      | .rng s _ _ => s
      | .at x => .e x
    if ix.isRange && isLBoundOp a index ab then true
    else match a.shape[index]? with
      | some (.bounds lo _) => Bnd.eqv eq (.e lo) ab
      | some (.lowerOnly lo _) => Bnd.eqv eq (.e lo) ab
      | _ => false          -- Extent.ATTRIBUTE / Extent.DEFERRED: "size unspecified at compile time"

/-- `ArrayMixin.is_upper_bound(index)`; `none` = the Python raises (`Extent.ATTRIBUTE` handed to
SymbolicMaths for a dimension declared `lo:` and accessed with an explicit stop) -/
def isUpper (eq : Expr → Expr → Bool) (a : Acc) (index : Nat) : Option Bool :=
  match a.idx[index]? with
  | none => none
  | some ix =>
    let ab : Bnd := match ix with
      | .rng _ t _ => t
      | .at x => .e x
    if ix.isRange && isUBoundOp a index ab then some true
    else match a.shape[index]? with
      | some (.bounds _ hi) => some (Bnd.eqv eq (.e hi) ab)
      | some (.lowerOnly _ _) => none
      | some (.attribute _) => some false
      | some (.deferred _ _) => some false
      | none => none

/-- `ArrayMixin.is_full_range(index)` -/
def isFullRange (eq : Expr → Expr → Bool) (a : Acc) (index : Nat) : Option Bool :=
  match a.idx[index]? with
  | some (.rng _ _ step) =>
    if isLower eq a index then
      match isUpper eq a index with
      | none => none
      | some u => some (u && decide (step = .lit 1))
    else some false
  | some (.at _) => some false
  | none => none

/-- the start value `same_range` compares for one side: the DECLARED lower bound when the access starts at the
lower bound (`Literal 1` for `Extent.ATTRIBUTE`), else the explicit start; `none` = `return False` -/
def startOf (a : Acc) (index : Nat) (isLow : Bool) (start : Bnd) : Option Bnd :=
  if isLow then
    match a.shape[index]? with
    | some (.bounds lo _) => some (.e lo)
    | some (.lowerOnly lo _) => some (.e lo)
    | some (.attribute _) => some (.e (.lit 1))
    | _ => none
  else some start

/-- the stop value for one side; `none` = the Python raises (`.upper` of an `Extent`, or an `Extent` handed to
SymbolicMaths) -/
def stopOf (eq : Expr → Expr → Bool) (a : Acc) (index : Nat) (stop : Bnd) : Option Bnd :=
  match isUpper eq a index with
  | none => none
  | some false => some stop
  | some true =>
    match a.shape[index]? with
    | some (.bounds _ hi) => some (.e hi)
    | _ => none

def nRangesBefore (a : Acc) (index : Nat) : Nat := ((a.idx.take index).filter Idx.isRange).length

/-- `ArrayMixin.same_range(index, array2, index2)`.
`fixed = false` is the code at HEAD: when both accesses are to the SAME array and both ranges start at the lower
bound it answers True at once — also when `index ≠ index2`, i.e. for two DIFFERENT dimensions of that array
(known finding C06-same-array-cross-dimension).  `fixed = true` takes the shortcut only for `index = index2`
(fixes/C06-same-range-same-dimension.patch).  `sameStmt`: both accesses are in the same Assignment.
`none` = the Python raises. -/
def sameRange (fixed : Bool) (eq : Expr → Expr → Bool) (sameStmt : Bool)
    (a1 : Acc) (i1 : Nat) (a2 : Acc) (i2 : Nat) : Option Bool :=
  match a1.idx[i1]?, a2.idx[i2]? with
  | some (.rng s1 t1 p1), some (.rng s2 t2 p2) =>
    let sameArr := a1.arr == a2.arr
    let assume := (sameStmt || sameArr) && nRangesBefore a1 i1 == nRangesBefore a2 i2
    let low1 := isLower eq a1 i1
    let low2 := isLower eq a2 i2
    if low1 && sameArr && (!fixed || i1 == i2) && low2 then some true
    else match startOf a1 i1 low1 s1 with
      | none => some false
      | some r1 =>
        match startOf a2 i2 low2 s2 with
        | none => some false
        | some r2 =>
          if !Bnd.eqv eq r1 r2 then some false
          else if assume then some (eq p1 p2)
          else match stopOf eq a1 i1 t1 with
            | none => none
            | some u1 =>
              match stopOf eq a2 i2 t2 with
              | none => none
              | some u2 => if !Bnd.eqv eq u1 u2 then some false else some (eq p1 p2)
  | _, _ => none

/-! ## semantics of bounds -/

/-- declarations in force: array ↦ shape -/
abbrev Decls := Nat → List DimDecl

def Bnd.resolve (D : Decls) : Bnd → Expr
  | .lb a d => ((D a)[d]?.map DimDecl.lbE).getD (.lit 1)
  | .ub a d => ((D a)[d]?.map DimDecl.ubE).getD (.lit 0)
  | .e x => x

def Bnd.val (D : Decls) (σ : Store) (b : Bnd) : Int := eval (b.resolve D) σ

/-- the index expression `apply` puts in place of the range `s2` of another access when the lhs range is `s1`
and the loop variable is `idx`: the loop variable if `same_range` said True, else
`idx + (start2 - start1)` (bounds resolved to their run-time value) -/
def idxExprB (D : Decls) (same : Bool) (idx : Nat) (s1 s2 : Bnd) : Expr :=
  if same then .var idx else .bin .add (.var idx) (.bin .sub (s2.resolve D) (s1.resolve D))

/-! ## from accesses (rank ≤ 2, one range) to the sections of `Model/ArrayLower` -/

def Acc.toSec (D : Decls) (a : Acc) : Option Sec :=
  match a.idx with
  | [.rng s t p] => some ⟨a.arr, .r1, s.resolve D, t.resolve D, p⟩
  | [.rng s t p, .at j] => some ⟨a.arr, .row j, s.resolve D, t.resolve D, p⟩
  | [.at i, .rng s t p] => some ⟨a.arr, .col i, s.resolve D, t.resolve D, p⟩
  | _ => none

/-- position of the (single) range -/
def Acc.rpos (a : Acc) : Nat := (a.idx.findIdx Idx.isRange)

/-- decision table used by the generalised lowering: section ↦ did `same_range` say True -/
def decOf (D : Decls) (fixed : Bool) (eq : Expr → Expr → Bool) (l : Acc) (accs : List Acc) (s : Sec) : Bool :=
  accs.any (fun a => decide (a.toSec D = some s) &&
    (sameRange fixed eq true l l.rpos a a.rpos == some true))

/-- index expression with an explicit decision (`idxExpr` of `Model/ArrayLower` is the instance
"decide by syntactic equality of the resolved bounds") -/
def idxExprD (same : Bool) (idx : Nat) (l s : Sec) : Expr :=
  if same then .var idx else .bin .add (.var idx) (.bin .sub s.lo l.lo)

def AExpr.lowerD (dec : Sec → Bool) (idx : Nat) (l : Sec) : AExpr → Expr
  | .sc e => e
  | .sec s => s.ref (idxExprD (dec s) idx l s)
  | .un op e => .un op (e.lowerD dec idx l)
  | .bin op a b => .bin op (a.lowerD dec idx l) (b.lowerD dec idx l)

/-- `ArrayAssignment2LoopsTrans.apply` with the `same_range` decisions `dec` -/
def applyAAD (dec : Sec → Bool) (idx : Nat) (a : AAIn) : Stmt :=
  .loop idx a.lhs.lo a.lhs.hi a.lhs.st (a.lhs.store (.var idx) (a.rhs.lowerD dec idx a.lhs))

/-- the whole transformation on accesses: lhs access `l`, rhs `e` over the sections of `accs` -/
def transAAacc (D : Decls) (fixed : Bool) (eq : Expr → Expr → Bool) (idx : Nat) (l : Acc) (accs : List Acc)
    (a : AAIn) : Except Refusal Stmt :=
  match validateAA a with
  | some r => .error r
  | none => .ok (applyAAD (decOf D fixed eq l accs) idx a)

/-! ## a sound stand-in for `SymbolicMaths.equal` on bound expressions: linear normal form -/

/-- add `c·x` to a list of (variable, coefficient) terms, merging with an existing term for `x` -/
def addTerm (x : Nat) (c : Int) : List (Nat × Int) → List (Nat × Int)
  | [] => [(x, c)]
  | (y, d) :: rest => if y = x then (y, d + c) :: rest else (y, d) :: addTerm x c rest

/-- `acc + k·p` -/
def addScaled (k : Int) : List (Nat × Int) → List (Nat × Int) → List (Nat × Int)
  | [], acc => acc
  | (x, c) :: rest, acc => addScaled k rest (addTerm x (k * c) acc)

structure Lin where
  const : Int
  terms : List (Nat × Int)
  deriving DecidableEq, Repr, Inhabited

def Lin.scale (k : Int) (p : Lin) : Lin := ⟨k * p.const, addScaled k p.terms []⟩
def Lin.add (p q : Lin) : Lin := ⟨p.const + q.const, addScaled 1 q.terms p.terms⟩

/-- linear normal form of an integer expression over scalar variables (`none`: not linear) -/
def linNorm : Expr → Option Lin
  | .lit n => some ⟨n, []⟩
  | .var x => some ⟨0, [(x, 1)]⟩
  | .un .neg e => (linNorm e).map (Lin.scale (-1))
  | .un .plus e => linNorm e
  | .bin .add a b => do some ((← linNorm a).add (← linNorm b))
  | .bin .sub a b => do some ((← linNorm a).add ((← linNorm b).scale (-1)))
  | .bin .mul a b => do
      let p ← linNorm a
      let q ← linNorm b
      if p.terms.all (fun t => t.2 == 0) then some (q.scale p.const)
      else if q.terms.all (fun t => t.2 == 0) then some (p.scale q.const)
      else none
  | _ => none

def Lin.isZero (p : Lin) : Bool := p.const == 0 && p.terms.all (fun t => t.2 == 0)

/-- `a - b` normalises to zero -/
def linEq (a b : Expr) : Bool :=
  match linNorm (.bin .sub a b) with
  | some p => p.isZero
  | none => false

end C06
