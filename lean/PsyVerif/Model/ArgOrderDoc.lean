import PsyVerif.Model.ArgOrder
/-! # C21: the documented argument-ordering rules

`docOrder` formalises the sub-sections of doc/user_guide/dynamo0p3.rst, "Subroutine": "Rules for
General-Purpose Kernels" (rules 1–7), "Rules for CMA Kernels" (Assembly 1–6, Application/
Inverse-Application 1–6, Matrix-Matrix 1–3), "Rules for Inter-Grid Kernels" (1–6) and "Rules for
Domain Kernels", each read literally and independently of the code.  `docSection` says which
sub-section applies; `none` (out of scope) for the two boundary-condition kernels recognised by
name (no documented rules), for user-supplied DoF kernels (the guide says they are not implemented)
and for CMA / inter-grid / domain kernels that request basis functions, reference-element or mesh
properties (their sub-sections are silent about those).

Reading choices (stated as assumptions of the check):
* rule 3.2.1–3.2.4 are taken in the order printed: size, [max branch length], dofmap, [direction];
* rule 3.3 (field vector): the component arrays, then the stencil arguments of rule 3.2;
* rule 4.3 "for each operation on the function space (basis, diff_basis), in the order specified
  in the metadata": the order of `gh_basis` / `gh_diff_basis` inside the `func_type` entry;
* rule 5: the face counts are passed in the order in which they are first needed (the text gives
  no order), then one array per property in metadata order. -/
namespace C21

def Metadata.hasLma (md : Metadata) : Bool := md.args.any Arg.isOp

/-- rule 3.2.1 – 3.2.4 -/
def docStencil : Stencil → List Atom
  | .none => []
  | .cross2d => [.stencilSize2d, .maxBranch, .stencilMap2d]
  | .xory1d => [.stencilSize, .stencilMap, .direction]
  | _ => [.stencilSize, .stencilMap]

/-- rule 3 -/
def docArg : Arg → List Atom
  | .scalar dt acc => [.scalar dt acc]
  | .field dt vec acc _ st _ =>
    (if vec > 1 then List.replicate vec (Atom.fieldData dt acc) else [Atom.fieldData dt acc]) ++ docStencil st
  | .op acc _ _ => [.opNcell3d, .opData acc]
  | .cma .. => []

/-- rule 4.3.1 / 4.3.2 for one operation -/
def docOperation (md : Metadata) (quad eval : Atom) : List Atom :=
  md.shapes.flatMap fun s => if s.isQuad then [quad] else List.replicate md.evalTargets.length eval

/-- rule 4.3 -/
def docFuncs (md : Metadata) : Option Func → List Atom
  | none => []
  | some f =>
    let b := if f.basis then docOperation md .basisQuad .basisEval else []
    let d := if f.diff then docOperation md .diffBasisQuad .diffBasisEval else []
    if f.diffFirst then d ++ b else b ++ d

/-- rule 4 -/
def docSpace (md : Metadata) (fs : FS) : List Atom :=
  [Atom.ndf] ++ (if md.fieldOnSpace fs then [Atom.undf, Atom.dofmap] else []) ++ docFuncs md (md.findFunc fs)

/-- rule 5 -/
def docRefElement (props : List RefProp) : List Atom :=
  let ps := dedup props
  (dedup (ps.map RefProp.faces)).map Atom.nfacesRe ++ ps.map Atom.refArray

/-- rules 5.1-5.3: the normals arrays are documented as "rank-2 ``integer`` array of kind ``i_def``" -/
def docRefArrayTy : Ty := .integer

/-- rule 6 -/
def docMesh (md : Metadata) : List Atom :=
  if md.mesh.contains .adjacentFace then
    (if md.refelem.contains .normalsH || md.refelem.contains .outH then [] else [Atom.nfacesRe .h]) ++
    [Atom.adjacentFace]
  else []

/-- rule 7 -/
def docQuadrature (md : Metadata) : List Atom :=
  md.shapes.flatMap fun
    | .xyoz => [.npXy, .npZ, .weightsXy, .weightsZ]
    | .face => [.nfacesQr, .npXyz, .weightsXyz]
    | .edge => [.nedgesQr, .npXyz, .weightsXyz]
    | .evaluator => []

/-- "Rules for General-Purpose Kernels", rules 1-7 -/
def docGeneral (md : Metadata) : List Atom :=
  (if md.hasLma then [Atom.cell] else []) ++ [Atom.nlayers] ++
  md.args.flatMap docArg ++
  (dedup (md.args.flatMap Arg.spaces)).flatMap (docSpace md) ++
  docRefElement md.refelem ++ docMesh md ++ docQuadrature md

/-! ### "Rules for CMA Kernels" -/

/-- Assembly rule 5.2 (and "see Rule 5 of CMA Assembly kernels" in the other two sub-sections):
the matrix, then nrow, [ncol if the from-space is not the to-space], bandwidth, alpha, beta,
gamma_m, gamma_p -/
def docCmaOperator (acc : Access) (to frm : FS) : List Atom :=
  [Atom.cmaMatrix acc, .cmaParam .nrow] ++ (if to != frm then [Atom.cmaParam .ncol] else []) ++
  [.cmaParam .bandwidth, .cmaParam .alpha, .cmaParam .beta, .cmaParam .gammaM, .cmaParam .gammaP]

/-- Assembly rule 5: an LMA operator is just the array (the single `ncell_3d` is rule 4) -/
def docAssemblyArg : Arg → List Atom
  | .op acc _ _ => [.opData acc]
  | .cma acc t f => docCmaOperator acc t f
  | a => docArg a

/-- Assembly rule 6 -/
def docAssemblySpace (md : Metadata) (fs : FS) : List Atom :=
  [Atom.ndf] ++ (if md.fieldOnSpace fs then [Atom.undf, Atom.dofmap] else []) ++
  (if md.cmaOnSpace fs then [Atom.bandedMap] else [])

/-- Assembly rules 1-6 -/
def docAssembly (md : Metadata) : List Atom :=
  [Atom.cell, .nlayers, .ncell2d, .opNcell3d] ++ md.args.flatMap docAssemblyArg ++
  (dedup (md.args.flatMap Arg.spaces)).flatMap (docAssemblySpace md)

def docApplyArg : Arg → List Atom
  | .cma acc t f => docCmaOperator acc t f
  | .field dt _ acc _ _ _ => [.fieldData dt acc]
  | _ => []

/-- Application rules 5 and 6: the indirection map of the to-space, then that of the from-space if
it is a different space -/
def docIndirection : List Arg → List Atom
  | [] => []
  | .cma _ t f :: _ => [Atom.indirectionMap] ++ (if t != f then [Atom.indirectionMap] else [])
  | _ :: rest => docIndirection rest

/-- Application / inverse application rules 1-6 -/
def docApply (md : Metadata) : List Atom :=
  [Atom.cell, .ncell2d] ++ md.args.flatMap docApplyArg ++
  (dedup (md.args.flatMap Arg.spaces)).flatMap (fun _ => [Atom.ndf, .undf, .dofmap]) ++
  docIndirection md.args

def docMatrixMatrixArg : Arg → List Atom
  | .cma acc t f => docCmaOperator acc t f
  | .scalar dt acc => [.scalar dt acc]
  | _ => []

/-- Matrix-matrix rules 1-3 -/
def docMatrixMatrix (md : Metadata) : List Atom :=
  [Atom.cell, .ncell2d] ++ md.args.flatMap docMatrixMatrixArg

/-! ### "Rules for Inter-Grid Kernels" -/

/-- rule 6 -/
def docInterGridSpace (md : Metadata) (fs : FS) : List Atom :=
  if md.fineSpace fs then [Atom.ndf, .undf, .dofmapWhole] else [Atom.undf, .dofmap]

/-- rules 1-6 -/
def docInterGrid (md : Metadata) : List Atom :=
  [Atom.nlayers, .cellMap, .ncpcX, .ncpcY, .ncellF] ++ md.args.flatMap docArg ++
  (dedup (md.args.flatMap Arg.spaces)).flatMap (docInterGridSpace md)

/-! ### "Rules for Domain Kernels": the general-purpose rules with `ncell_2d_no_halos` "as the second
argument to the kernel (after nlayers)"; nothing else is said to differ (in particular the dofmap
is still the rank-1 dofmap of rule 4.2.2) -/
def docDomain (md : Metadata) : List Atom :=
  [Atom.nlayers, .ncell2dNoHalos] ++ md.args.flatMap docArg ++
  (dedup (md.args.flatMap Arg.spaces)).flatMap (docSpace md) ++
  docRefElement md.refelem ++ docMesh md ++ docQuadrature md

inductive DocSection | general | cmaAssembly | cmaApply | cmaMatrixMatrix | interGrid | domain
  deriving DecidableEq, Repr

/-- no basis functions, reference-element or mesh properties requested -/
def Metadata.plain (md : Metadata) : Bool := md.funcs.isEmpty && md.shapes.isEmpty && md.refelem.isEmpty && md.mesh.isEmpty

/-- which sub-section of the user guide gives the argument rules of this kernel -/
def docSection (md : Metadata) : Option DocSection :=
  if md.bc != .none || md.operatesOn == .dof then none
  else if md.isIntergrid then
    (if md.operatesOn == .cellColumn && !md.hasOperator && md.plain then some .interGrid else none)
  else if md.operatesOn == .domain then (if !md.hasOperator && md.plain then some .domain else none)
  else match md.cmaOp with
    | .none => some .general
    | .assembly => if md.plain then some .cmaAssembly else none
    | .apply => if md.plain then some .cmaApply else none
    | .matrixMatrix => if md.plain then some .cmaMatrixMatrix else none

def docScope (md : Metadata) : Bool :=
  md.operatesOn == .cellColumn && !md.hasCma && !md.isIntergrid && md.bc == .none

def docOrderOf (md : Metadata) : DocSection → List Atom
  | .general => docGeneral md
  | .cmaAssembly => docAssembly md
  | .cmaApply => docApply md
  | .cmaMatrixMatrix => docMatrixMatrix md
  | .interGrid => docInterGrid md
  | .domain => docDomain md

/-- the documented argument list (all sub-sections) -/
def docOrderAll (md : Metadata) : Option (List Atom) := (docSection md).map (docOrderOf md)

/-- the documented argument list of a general-purpose kernel -/
def docOrder (md : Metadata) : Option (List Atom) :=
  if docScope md then some (docGeneral md) else none

end C21
