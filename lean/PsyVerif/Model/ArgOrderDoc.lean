import PsyVerif.Model.ArgOrder
/-! # C21: the documented argument-ordering rules

`docOrder` formalises doc/user_guide/dynamo0p3.rst, section "Rules for General-Purpose Kernels"
(rules 1–7), read literally and independently of the code.  Scope: kernels that operate on cell
columns, have no CMA operator, are not inter-grid and are not one of the two boundary-condition
kernels recognised by name (those have their own sections, or none); `none` outside that scope.

Reading choices (stated as assumptions of the check):
* rule 3.2.1–3.2.4 are taken in the order printed: size, [max branch length], dofmap, [direction];
* rule 3.3 (field vector): the component arrays, then the stencil arguments of rule 3.2;
* rule 4.3 "for each operation on the function space (basis, diff_basis), in the order specified
  in the metadata": the order of `gh_basis` / `gh_diff_basis` inside the `func_type` entry;
* rule 5: the face counts are passed in the order in which they are first needed (the text gives
  no order), then one array per property in metadata order. -/
namespace C21

def Metadata.hasLma (md : Metadata) : Bool := md.args.any Arg.isOp

/-- rule 3.2.1 – 3.2.4 -/
def docStencil : Stencil → List Atom
  | .none => []
  | .cross2d => [.stencilSize2d, .maxBranch, .stencilMap2d]
  | .xory1d => [.stencilSize, .stencilMap, .direction]
  | _ => [.stencilSize, .stencilMap]

/-- rule 3 -/
def docArg : Arg → List Atom
  | .scalar dt acc => [.scalar dt acc]
  | .field dt vec acc _ st _ =>
    (if vec > 1 then List.replicate vec (Atom.fieldData dt acc) else [Atom.fieldData dt acc]) ++ docStencil st
  | .op acc _ _ => [.opNcell3d, .opData acc]
  | .cma .. => []

/-- rule 4.3.1 / 4.3.2 for one operation -/
def docOperation (md : Metadata) (quad eval : Atom) : List Atom :=
  md.shapes.flatMap fun s => if s.isQuad then [quad] else List.replicate md.evalTargets.length eval

/-- rule 4.3 -/
def docFuncs (md : Metadata) : Option Func → List Atom
  | none => []
  | some f =>
    let b := if f.basis then docOperation md .basisQuad .basisEval else []
    let d := if f.diff then docOperation md .diffBasisQuad .diffBasisEval else []
    if f.diffFirst then d ++ b else b ++ d

/-- rule 4 -/
def docSpace (md : Metadata) (fs : FS) : List Atom :=
  [Atom.ndf] ++ (if md.fieldOnSpace fs then [Atom.undf, Atom.dofmap] else []) ++ docFuncs md (md.findFunc fs)

/-- rule 5 -/
def docRefElement (props : List RefProp) : List Atom :=
  let ps := dedup props
  (dedup (ps.map RefProp.faces)).map Atom.nfacesRe ++ ps.map Atom.refArray

/-- rule 6 -/
def docMesh (md : Metadata) : List Atom :=
  if md.mesh.contains .adjacentFace then
    (if md.refelem.contains .normalsH || md.refelem.contains .outH then [] else [Atom.nfacesRe .h]) ++
    [Atom.adjacentFace]
  else []

/-- rule 7 -/
def docQuadrature (md : Metadata) : List Atom :=
  md.shapes.flatMap fun
    | .xyoz => [.npXy, .npZ, .weightsXy, .weightsZ]
    | .face => [.nfacesQr, .npXyz, .weightsXyz]
    | .edge => [.nedgesQr, .npXyz, .weightsXyz]
    | .evaluator => []

def docScope (md : Metadata) : Bool :=
  md.operatesOn == .cellColumn && !md.hasCma && !md.isIntergrid && md.bc == .none

def docOrder (md : Metadata) : Option (List Atom) :=
  if docScope md then
    some ((if md.hasLma then [Atom.cell] else []) ++ [Atom.nlayers] ++
          md.args.flatMap docArg ++
          (dedup (md.args.flatMap Arg.spaces)).flatMap (docSpace md) ++
          docRefElement md.refelem ++ docMesh md ++ docQuadrature md)
  else none

end C21
