import PsyVerif.Model.Inline
/-! # C07 — the index map of `InlineTrans._update_actual_indices` for array actuals of ANY rank

`Model/Inline.lean` fixes four shapes of array actual (`sec1`, `sec2`, `col`, `row`; rank ≤ 2,
the ranks MiniF can execute).  This file models the routine itself: the actual argument is a list
of index positions, each either a scalar index or a section (`Range`), in any order and of any
length; the formal's declared lower bounds and the (already substituted) indices of the local
reference are consumed left to right, one per section — exactly the loop

    local_idx_posn = 0
    for pos, idx in enumerate(new_indices[:]):
        if not isinstance(idx, Range): continue
        if actual_arg.is_lower_bound(pos): actual_start = actual_arg.get_lbound_expression(pos)
        else:                              actual_start = idx.start
        ...
        new_indices[pos] = self._create_inlined_idx(…, local_indices[local_idx_posn],
                                                    local_decln_start, actual_start)
        local_idx_posn += 1

and the Fortran rule it has to implement (argument association of an array section with an
assumed-shape / explicit-shape dummy: dummy element `k` of a dimension declared with lower bound
`lo` is the element `start + (k - lo) * step` of the section; scalar positions keep the value they
had at the call).  Core Lean only. -/
namespace C07
open MiniF

/-- one index position of an array actual argument `a(…)`; `dlo` is the DECLARED lower bound of
that dimension of the actual array (a literal in the modelled fragment) -/
inductive AIdx where
  /-- a scalar index expression -/
  | ix (dlo : Int) (e : Expr)
  /-- a section `start : … [: step]`; `start = none` stands for an omitted lower bound (`:`; the
  frontend writes `LBOUND(a, pos)` there); `step = 1` when omitted -/
  | sec (dlo : Int) (start : Option Expr) (step : Int)
  deriving DecidableEq, Repr, Inhabited

def AIdx.isSec : AIdx → Bool
  | .ix .. => false
  | .sec .. => true

def AIdx.dlo : AIdx → Int
  | .ix d _ => d
  | .sec d _ _ => d

/-- `ArrayMixin.is_lower_bound(pos)` for an array with literal declared bounds: the start of the
Range is the `LBOUND` intrinsic, or the access expression equals the declared lower bound (for a
scalar index the index itself is the "access bound") -/
def AIdx.isLowerBound : AIdx → Bool
  | .ix d e => decide (e = .lit d)
  | .sec _ none _ => true
  | .sec d (some s) _ => decide (s = .lit d)

/-- `idx.start` of a Range.  (For an omitted start it is the `LBOUND` call, which `actualStart`
never uses because `isLowerBound` holds; it is represented by the value it denotes.) -/
def AIdx.startExpr : AIdx → Expr
  | .ix _ e => e
  | .sec d none _ => .lit d
  | .sec _ (some s) _ => s

/-- the `actual_start` chosen by `_update_actual_indices` for the position `d`:
`get_lbound_expression(pos)` (the declared bound) if `is_lower_bound(pos)`, else `idx.start` -/
def actualStart (d : AIdx) : Expr :=
  if d.isLowerBound then .lit d.dlo else d.startExpr

/-- **`_update_actual_indices`** for an element reference `x(ks)` to a formal declared with lower
bounds `los`, bound to the actual `a(as)`: every Range of the actual is replaced by
`_create_inlined_idx(local index, declared start, actual start)` (= `shiftIdx`), scalar positions
are copied.  `none` when the number of Ranges differs from the rank of the formal / of the local
reference (validate refuses those calls: "reshapes an argument"). -/
def updateIdx : List AIdx → List Int → List Expr → Option (List Expr)
  | [], [], [] => some []
  | [], _, _ => none
  | .ix _ e :: as, los, ks =>
    match updateIdx as los ks with
    | some out => some (e :: out)
    | none => none
  | .sec d st stp :: as, lo :: los, k :: ks =>
    match updateIdx as los ks with
    | some out => some (shiftIdx lo (actualStart (.sec d st stp)) k :: out)
    | none => none
  | .sec .. :: _, _, _ => none

/-- the per-argument stride test of `validate`: every Range must have a literal step 1 -/
def unitSteps : List AIdx → Bool
  | [] => true
  | .ix .. :: as => unitSteps as
  | .sec _ _ stp :: as => decide (stp = 1) && unitSteps as

/-- number of Ranges = rank of the actual argument (`len(actual_arg.datatype.shape)`) -/
def secCount : List AIdx → Nat
  | [] => 0
  | .ix .. :: as => secCount as
  | .sec .. :: as => secCount as + 1

/-- some scalar index is an operation / call (then `actual_arg.datatype` is unknown) -/
def opIndices : List AIdx → Bool
  | [] => false
  | .ix _ e :: as => opExpr e || opIndices as
  | .sec .. :: as => opIndices as

/-- the checks `validate` makes on an array actual `a(as)` (at least one Range) passed to a formal of
rank `frank`, in the order of the code: type known, same rank, unit strides -/
def checkIdx (frank : Nat) (as : List AIdx) : Option Refusal :=
  if opIndices as then some .unknownType
  else if frank ≠ secCount as then some .rank
  else if unitSteps as then none else some .stride

/-- **Fortran argument association** (the specification): the element `ks` of the dummy array,
declared with lower bounds `los`, is the element of the actual array whose subscripts are: at a
scalar position the value of the index in the store `σ₀` of the call; at the j-th section
`start_j + (k_j - lo_j) * step_j` (start = declared lower bound when omitted). -/
def assocElem (σ₀ : Store) : List AIdx → List Int → List Int → Option (List Int)
  | [], [], [] => some []
  | [], _, _ => none
  | .ix _ e :: as, los, ks =>
    match assocElem σ₀ as los ks with
    | some out => some (eval e σ₀ :: out)
    | none => none
  | .sec d st stp :: as, lo :: los, k :: ks =>
    match assocElem σ₀ as los ks with
    | some out => some (((match st with | none => d | some s => eval s σ₀) + (k - lo) * stp) :: out)
    | none => none
  | .sec .. :: _, _, _ => none

/-- the four array shapes of `Model/Inline.lean` as index lists (`d1`, `d2`: declared lower bounds
of the actual array, irrelevant for an explicit start) -/
def aidxOf (d1 d2 : Int) : Actual → List AIdx
  | .sec1 _ st u => [.sec d1 (some st) (if u then 1 else 2)]
  | .sec2 _ st1 st2 u => [.sec d1 (some st1) (if u then 1 else 2), .sec d2 (some st2) (if u then 1 else 2)]
  | .col _ st1 j u => [.sec d1 (some st1) (if u then 1 else 2), .ix d2 j]
  | .row _ i st2 u => [.ix d1 i, .sec d2 (some st2) (if u then 1 else 2)]
  | _ => []

end C07
