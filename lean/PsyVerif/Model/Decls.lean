/-! C03 / C04: model of the declaration-writing mechanism of the Fortran back end
(`FortranWriter.gen_decls`, `_gen_parameter_decls`, `gen_use`, `gen_access_stmts`,
`gen_default_access_stmt`, `routine_node`'s scope merging — src/psyclone/psyir/backend/fortran.py),
of the reader's declaration processing (`Fparser2Reader.process_declarations`,
`process_access_statements`, `_process_use_stmts`, `_process_routine_symbols` —
src/psyclone/psyir/frontend/fparser2.py) and of the renaming performed by
`SymbolTable.merge/_handle_symbol_clash` (src/psyclone/psyir/symbols/symbol_table.py).

* A scoping unit (one routine, or the specification part of one module) is a list of symbol
  records in symbol-table (dict insertion) order.  A record carries its class (what `gen_decls`
  does with it), the names its declaration reads (`ideps`: initial value and kind — the inputs
  `_gen_parameter_decls` looks at; `xdeps`: array bounds, type names, lengths, names imported by an
  interface body — inputs the writer does not look at), visibility and whether it is a
  RoutineSymbol.
* The written text is a list of `Item`s (use statements, declarations, access statements,
  executable statements / comments / directives / code blocks as opaque tokens, contained routines).
* `access` name lists are sorted (the code as repaired by fixes/C03-access-stmt-order.patch);
  `writeUnitPinned` keeps the pinned behaviour (symbol-table order) for the counterexample.
* Names are `Nat`s whose order is the order of Python's `sorted()` on the names.
Core Lean only. -/
namespace Decls

abbrev Name := Nat

inductive Cls where
  /-- ContainerSymbol (`use c`), with its wildcard flag -/
  | container (wild : Bool)
  /-- symbol with an ImportInterface from container `c` -/
  | imported (c : Name)
  /-- no declaration is written: IntrinsicSymbol, RoutineSymbol that is a module procedure / unresolved,
  PreprocessorInterface -/
  | skipped
  /-- non-routine symbol with an UnresolvedInterface (needs a wildcard import) -/
  | unresolved
  /-- RoutineSymbol whose interface the back end refuses -/
  | routineBad
  /-- GenericInterfaceSymbol or RoutineSymbol of UnsupportedFortranType (interface block) -/
  | iface
  /-- DataSymbol with `is_constant` -/
  | param
  /-- DataSymbol with an ArgumentInterface -/
  | arg
  /-- DataTypeSymbol -/
  | dtype
  /-- every other symbol (local / module variables, unsupported declarations, …) -/
  | other
  deriving DecidableEq, Repr, Inhabited

structure Sym where
  name : Name
  cls : Cls
  routine : Bool := false
  pub : Bool := true
  ideps : List Name := []
  xdeps : List Name := []
  deriving DecidableEq, Repr, Inhabited

def Sym.deps (s : Sym) : List Name := s.ideps ++ s.xdeps

/-- does `gen_decls` write a declaration for the symbol? -/
def Cls.declarable : Cls → Bool
  | .iface | .param | .arg | .dtype | .other => true
  | _ => false

/-- position of the class in the `gen_decls` convention (1 routines/interfaces, 2 constants,
3 arguments, 4 derived types, 5 the rest) -/
def Cls.group : Cls → Nat
  | .iface => 1 | .param => 2 | .arg => 3 | .dtype => 4 | .other => 5 | _ => 0

def names (l : List Sym) : List Name := l.map (·.name)

def findSym (l : List Sym) (n : Name) : Option Sym := l.find? (·.name == n)

/-! ### `_gen_parameter_decls` -/

/-- `decln_inputs`: for each local constant, the tracked inputs that are themselves local constants -/
abbrev PGraph := List (Name × List Name)

def pkeys (g : PGraph) : List Name := g.map Prod.fst

/-- `inputs.issubset(declared)` -/
def ready (declared : List Name) (e : Name × List Name) : Bool := e.2.all (fun d => declared.contains d)

/-- `for symbol in local_constants[:]: if inputs.issubset(declared): … break` -/
def pickReady (declared : List Name) : PGraph → Option (Name × List Name)
  | [] => none
  | e :: rest => if ready declared e then some e else pickReady declared rest

/-- the `while local_constants:` loop; `none` = `VisitorError("Unable to satisfy dependencies …")`.
The fuel is the number of constants (each round removes one). -/
def orderAux : Nat → List Name → PGraph → Option (List Name)
  | _, _, [] => some []
  | 0, _, _ :: _ => none
  | fuel+1, declared, e0 :: rest0 =>
    match pickReady declared (e0 :: rest0) with
    | none => none
    | some e =>
      match orderAux fuel (e.1 :: declared) ((e0 :: rest0).filter (fun x => x.1 != e.1)) with
      | none => none
      | some out => some (e.1 :: out)

def orderParams (g : PGraph) : Option (List Name) := orderAux g.length [] g

def isParam (s : Sym) : Bool := s.cls == .param

/-- the dependency graph `_gen_parameter_decls` builds from a table -/
def paramGraph (syms : List Sym) : PGraph :=
  let ps := syms.filter isParam
  ps.map fun s => (s.name, s.ideps.filter fun d => (names ps).contains d)

/-! ### `gen_decls` -/

inductive Err where
  | unresolvedNoWildcard | routineBad | paramDeps | argsInModule | argMissing | clash | reader
  deriving DecidableEq, Repr, Inhabited

structure Unit where
  isModule : Bool := false
  /-- module default visibility is PRIVATE -/
  defPrivate : Bool := false
  /-- a wildcard import (or `_psyclone_internal_interface`) is visible from an enclosing scope -/
  outerWild : Bool := false
  /-- names visible in enclosing scopes (host association) -/
  outer : List Name := []
  syms : List Sym := []
  /-- `argument_list` (the routine statement); `gen_decls` declares the arguments in table order -/
  args : List Name := []
  /-- executable part: statements, comments, directives, code blocks (opaque) -/
  body : List Nat := []
  /-- module only: names of the contained routines, in order -/
  routines : List Name := []
  deriving DecidableEq, Repr, Inhabited

def hasWildcard (u : Unit) : Bool :=
  u.outerWild || u.syms.any fun s => s.cls == .container true

def ofCls (syms : List Sym) (c : Cls) : List Sym := syms.filter (fun s => s.cls == c)

def paramSyms (syms : List Sym) (order : List Name) : List Sym :=
  order.filterMap (findSym (syms.filter isParam))

/-- `gen_decls`: the symbols for which a declaration is written, in the order written -/
def genDecls (u : Unit) : Except Err (List Sym) :=
  if u.syms.any (fun s => s.cls == .unresolved) && !hasWildcard u then .error .unresolvedNoWildcard
  else if u.syms.any (fun s => s.cls == .routineBad) then .error .routineBad
  else match orderParams (paramGraph u.syms) with
    | none => .error .paramDeps
    | some order =>
      -- `symbol_table.argument_datasymbols`: the argument symbols in symbol-table order
      if u.isModule && !(ofCls u.syms .arg).isEmpty then .error .argsInModule
      else
        .ok (ofCls u.syms .iface ++ paramSyms u.syms order ++ ofCls u.syms .arg ++ ofCls u.syms .dtype
          ++ ofCls u.syms .other)

/-! ### sorting (`sorted()` on names) -/

def insertSorted (a : Name) : List Name → List Name
  | [] => [a]
  | b :: rest => if a ≤ b then a :: b :: rest else b :: insertSorted a rest

def isort : List Name → List Name
  | [] => []
  | a :: rest => insertSorted a (isort rest)

/-! ### the written text -/

inductive Item where
  | use (c : Name) (wild : Bool) (only : List Name)
  | decl (s : Sym)
  | defaultAccess (priv : Bool)
  | access (pub : Bool) (ns : List Name)
  | stmt (tok : Nat)
  | routineDef (n : Name)
  deriving DecidableEq, Repr, Inhabited

def isContainer (s : Sym) : Bool := match s.cls with | .container _ => true | _ => false
def containerWild (s : Sym) : Bool := match s.cls with | .container w => w | _ => false

/-- `gen_use` for every ContainerSymbol, in table order; the only-list is sorted -/
def genUses (syms : List Sym) : List Item :=
  (syms.filter isContainer).map fun c =>
    .use c.name (containerWild c) (isort (names (syms.filter fun s => s.cls == .imported c.name)))

/-- the symbols `gen_access_stmts` looks at -/
def accessible (s : Sym) : Bool :=
  s.routine || s.cls == .unresolved || (match s.cls with | .imported _ => true | _ => false)

/-- names `gen_access_stmts` lists: visibility differs from the default; (public list, private list)
in symbol-table order -/
def accessLists (u : Unit) : List Name × List Name :=
  let acc := u.syms.filter accessible
  if u.defPrivate then (names (acc.filter (·.pub)), [])
  else ([], names (acc.filter (fun s => !s.pub)))

def mkAccess (pl : List Name × List Name) : List Item :=
  (if pl.1.isEmpty then [] else [.access true pl.1]) ++ (if pl.2.isEmpty then [] else [.access false pl.2])

/-- fixed code: names sorted -/
def genAccess (u : Unit) : List Item :=
  let pl := accessLists u
  mkAccess (isort pl.1, isort pl.2)

/-- pinned code: names in symbol-table order -/
def genAccessPinned (u : Unit) : List Item := mkAccess (accessLists u)

/-- visibility is only written in a module; elsewhere it is not part of the text -/
def normVis (isModule : Bool) (s : Sym) : Sym := if isModule then s else { s with pub := true }

/-- `container_node` / `routine_node` after the scopes have been merged -/
def writeWith (access : Unit → List Item) (u : Unit) : Except Err (List Item) :=
  match genDecls u with
  | .error e => .error e
  | .ok ds =>
    .ok (genUses u.syms ++ ds.map (fun s => .decl (normVis u.isModule s))
      ++ (if u.isModule then .defaultAccess u.defPrivate :: access u else [])
      ++ u.body.map .stmt ++ (if u.isModule then u.routines.map .routineDef else []))

def writeUnit : Unit → Except Err (List Item) := writeWith genAccess
def writeUnitPinned : Unit → Except Err (List Item) := writeWith genAccessPinned

/-! ### the reader -/

def declsOf : List Item → List Sym
  | [] => []
  | .decl s :: r => s :: declsOf r
  | _ :: r => declsOf r

def stmtsOf : List Item → List Nat
  | [] => []
  | .stmt t :: r => t :: stmtsOf r
  | _ :: r => stmtsOf r

def routinesOf : List Item → List Name
  | [] => []
  | .routineDef n :: r => n :: routinesOf r
  | _ :: r => routinesOf r

/-- `process_access_statements`: default visibility -/
def defPrivateOf : List Item → Bool
  | [] => false
  | .defaultAccess p :: _ => p
  | _ :: r => defPrivateOf r

/-- explicit public / private names, in text order -/
def explicitOf (pub : Bool) : List Item → List Name
  | [] => []
  | .access p ns :: r => if p == pub then ns ++ explicitOf pub r else explicitOf pub r
  | _ :: r => explicitOf pub r

/-- `visibility_map.get(name, default_visibility)` -/
def visOf (items : List Item) (n : Name) : Bool :=
  if (explicitOf true items).contains n then true
  else if (explicitOf false items).contains n then false
  else !defPrivateOf items

/-- `_process_use_stmts`: container symbol, then the only-list symbols in text order -/
def useSyms (items : List Item) : List Item → List Sym
  | [] => []
  | .use c w only :: r =>
    { name := c, cls := .container w } ::
      only.map (fun n => { name := n, cls := .imported c, pub := visOf items n }) ++ useSyms items r
  | _ :: r => useSyms items r

def known (outer : List Name) (tab : List Sym) (n : Name) : Bool := outer.contains n || (names tab).contains n

/-- a name read by a declaration that is not (yet) in scope: `_find_or_create_unresolved_symbol`
appends an unresolved symbol at this point -/
def addPlaceholders (outer : List Name) (vis : Name → Bool) : List Sym → List Name → List Sym
  | tab, [] => tab
  | tab, d :: ds =>
    if known outer tab d then addPlaceholders outer vis tab ds
    else addPlaceholders outer vis (tab ++ [{ name := d, cls := .unresolved, pub := vis d }]) ds

/-- replace, in place, the entry called `s.name` -/
def specialise (s : Sym) : List Sym → List Sym
  | [] => []
  | x :: r => if x.name == s.name then s :: r else x :: specialise s r

/-- one `Type_Declaration_Stmt` / `Interface_Block`: names it reads are looked up (placeholders are
created), then the symbol is added, or an earlier placeholder of that name is specialised in place -/
def addDecl (outer : List Name) (vis : Name → Bool) (tab : List Sym) (s : Sym) : List Sym :=
  -- an interface block is kept as text: the names it mentions are not looked up
  let tab := if s.cls == .iface then tab else addPlaceholders outer vis tab s.deps
  if (names tab).contains s.name then specialise s tab else tab ++ [s]

def isDtype (s : Sym) : Bool := s.cls == .dtype

/-- names in access statements that are still unknown become unresolved symbols -/
def accessOnly (vis : Name → Bool) : List Sym → List Name → List Sym
  | tab, [] => tab
  | tab, n :: ns =>
    if (names tab).contains n then accessOnly vis tab ns
    else accessOnly vis (tab ++ [{ name := n, cls := .unresolved, pub := vis n }]) ns

/-- the reader refuses (crashes on) a derived type that reads a name declared by a later
ordinary declaration of the same unit, and a routine whose argument has no declaration -/
def readable (args : List Name) (items : List Item) : Bool :=
  let ds := declsOf items
  (ds.filter isDtype).all (fun t => t.deps.all fun d => !(names (ds.filter (fun s => !isDtype s))).contains d)
  && args.all (fun a => (names ds).contains a)

/-- `_module_handler` / `_subroutine_handler` + `process_declarations` on the written text.  What is
not in the text (argument list of the routine statement, host scope) is passed separately. -/
def readItems (isModule outerWild : Bool) (outer args : List Name) (items : List Item) : Except Err Unit :=
  if !readable args items then .error .reader else
  let vis := visOf items
  let ds := declsOf items
  -- `_process_routine_symbols`
  let t0 : List Sym := (routinesOf items).map fun n => { name := n, cls := .skipped, routine := true, pub := vis n }
  let t1 := t0 ++ useSyms items items
  -- derived types first
  let t2 := (ds.filter isDtype).foldl (addDecl outer vis) t1
  let t3 := (ds.filter (fun s => !isDtype s)).foldl (addDecl outer vis) t2
  let t4 := accessOnly vis t3 (explicitOf true items ++ explicitOf false items)
  -- `specify_argument_list`: the named symbols get an ArgumentInterface
  let t5 := t4.map fun s => if args.contains s.name && s.cls == .other then { s with cls := .arg } else s
  .ok { isModule := isModule, defPrivate := defPrivateOf items, outerWild := outerWild, outer := outer,
        syms := t5, args := args, body := stmtsOf items, routines := routinesOf items }

def readBack (u : Unit) (items : List Item) : Except Err Unit :=
  readItems u.isModule u.outerWild u.outer u.args items

/-- write, read back, write again -/
def roundTrip (w : Unit → Except Err (List Item)) (u : Unit) : Except Err (List Item) :=
  match w u with
  | .error e => .error e
  | .ok items =>
    match readBack u items with
    | .error e => .error e
    | .ok u' => w u'

/-! ### `routine_node`: merging the inner scopes, `_handle_symbol_clash` -/

inductive MKind where
  /-- can be renamed -/
  | free
  /-- `rename_symbol` raises: argument, common block, accessed in a CodeBlock -/
  | fixed
  /-- imported / unresolved: two symbols of the same name denote the same entity -/
  | shared
  deriving DecidableEq, Repr, Inhabited

/-- a symbol object (`id` = identity) and its current name; generic in the type of names.
`cb` = the names (as spelt) occurring in the CodeBlocks below the scoping node that owns the symbol's
table: `rename_symbol` refuses a symbol whose name occurs there, compared after `_normalize`
(lower-casing), because the text of a CodeBlock is not updated by a rename. -/
structure MSym (N : Type) where
  id : Nat
  name : N
  kind : MKind
  cb : List N := []
  deriving DecidableEq, Repr, Inhabited

/-- `old_name in [self._normalize(sname) for sname in cblock.get_symbol_names()]` -/
def mentioned {N} [DecidableEq N] (norm : N → N) (cb : List N) (n : N) : Prop := norm n ∈ cb.map norm

instance {N} [DecidableEq N] (norm : N → N) (cb : List N) (n : N) : Decidable (mentioned norm cb n) := by
  unfold mentioned; infer_instance

def mnames {N} (l : List (MSym N)) : List N := l.map (·.name)

/-- `rename_symbol(self_sym, n)` where `self_sym = lookup(old)` -/
def renameNm {N} [DecidableEq N] (old n : N) : List (MSym N) → List (MSym N)
  | [] => []
  | s :: r => if s.name = old then { s with name := n } :: r else s :: renameNm old n r

/-- state of one `merge(other)`: the growing routine table and the (current) names of `other` -/
structure MState (N : Type) where
  self : List (MSym N)
  otherNames : List N
  deriving Repr

def replaceName {N} [DecidableEq N] (old new : N) : List N → List N
  | [] => []
  | x :: r => if x = old then new :: r else x :: replaceName old new r

/-- `_add_symbols_from_table` for one symbol `o` of `other`.  `fresh existing root` is
`next_available_name(root, other_table=other)` with `existing` = names of this table, of its
ancestors (`outer`) and of `other`.  `cbSelf` = names in the CodeBlocks below this table's node (for
`routine_node`: the whole routine); the incoming symbol is checked against its own scope's CodeBlocks
(`o.cb`).  `none` = `check_for_clashes` raised (no renaming possible). -/
def mergeOne {N} [DecidableEq N] (fresh : List N → N → N) (norm : N → N) (outer cbSelf : List N)
    (st : MState N) (o : MSym N) : Option (MState N) :=
  match st.self.find? (fun s => s.name = o.name) with
  | none => some { st with self := st.self ++ [o] }
  | some s =>
    if s.kind = .shared ∧ o.kind = .shared then some st
    else
      let n' := fresh (mnames st.self ++ outer ++ st.otherNames) o.name
      if o.kind = .free ∧ ¬ mentioned norm o.cb o.name then
        some { self := st.self ++ [{ o with name := n' }], otherNames := replaceName o.name n' st.otherNames }
      else if s.kind = .free ∧ ¬ mentioned norm cbSelf s.name then
        some { self := renameNm s.name n' st.self ++ [o], otherNames := st.otherNames }
      else none

def mergeGo {N} [DecidableEq N] (fresh : List N → N → N) (norm : N → N) (outer cbSelf : List N) :
    List (MSym N) → MState N → Option (MState N)
  | [], st => some st
  | o :: r, st => match mergeOne fresh norm outer cbSelf st o with
    | none => none
    | some st' => mergeGo fresh norm outer cbSelf r st'

def mergeTable {N} [DecidableEq N] (fresh : List N → N → N) (norm : N → N) (outer cbSelf : List N)
    (self : List (MSym N)) (other : List (MSym N)) : Option (List (MSym N)) :=
  (mergeGo fresh norm outer cbSelf other { self := self, otherNames := mnames other }).map (·.self)

/-- `for schedule in node.walk(Schedule): whole_routine_scope.merge(sched_table)`; the routine's own
table comes first and is merged into an empty table -/
def mergeScopes {N} [DecidableEq N] (fresh : List N → N → N) (norm : N → N) (outer cbSelf : List N) :
    List (MSym N) → List (List (MSym N)) → Option (List (MSym N))
  | self, [] => some self
  | self, t :: ts =>
    match mergeTable fresh norm outer cbSelf self t with
    | none => none
    | some self' => mergeScopes fresh norm outer cbSelf self' ts

/-- the name under which the symbol object `i` is written -/
def nameOfId {N} (l : List (MSym N)) (i : Nat) : Option N := (l.find? (·.id == i)).map (·.name)

/-- what a written name denotes in the merged (single) routine scope -/
def resolve {N} [DecidableEq N] (l : List (MSym N)) (n : N) : Option Nat := (l.find? (fun s => s.name = n)).map (·.id)

end Decls
