import PsyVerif.Gen.LineLen
/-! C18: model of `FortLineLength.process`, `_get_line_type` and `find_break_point`
(src/psyclone/line_length.py), and the independent specification `logical` of "the same
program once continuation lines are joined" (Fortran 2008 §3.3.2.4 free-form continuation,
OpenMP/OpenACC sentinel continuation, comments).

Characters are code points (`Nat`), a line is a `List Nat` without `\n`, a text is a list of
lines (`str.split('\n')`).  The tables (`contStart`, `contEnd`, `keyList`, classifier
prefixes) come from `PsyVerif/Gen/LineLen.lean`, regenerated from the live Python object on
every run.  Core Lean only. -/
namespace C18

abbrev Ch := Nat
abbrev Line := List Nat

/-! ## Python string primitives -/

/-- `str.isspace()` / regex `\s` restricted to ASCII: 9..13 and 28..32. -/
def isWs (c : Nat) : Bool := (9 ≤ c && c ≤ 13) || (28 ≤ c && c ≤ 32)

def lower (c : Nat) : Nat := if 65 ≤ c && c ≤ 90 then c + 32 else c

/-- `str.lstrip()` -/
def lstrip : Line → Line
  | [] => []
  | c :: cs => if isWs c then lstrip cs else c :: cs

/-- `len(line) - len(line.lstrip())` -/
def fnw (l : Line) : Nat := l.length - (lstrip l).length

/-- `l.startswith(p)` -/
def isPrefix : Line → Line → Bool
  | [], _ => true
  | _ :: _, [] => false
  | p :: ps, c :: cs => p == c && isPrefix ps cs

/-- regex `^\s*(p1|p2|…)` with or without `re.I` (prefixes stored in lower case when `ci`). -/
def matchesAny (ps : List Line) (ci : Bool) (l : Line) : Bool :=
  let s := lstrip l
  let s := if ci then s.map lower else s
  ps.any (fun p => isPrefix p s)

/-- `_get_line_type`: 0 statement, 1 openmp, 2 openacc, 3 comment, 4 unknown. -/
def lineType (l : Line) : Nat :=
  if matchesAny Gen.statPrefixes Gen.statIgnoreCase l then 0
  else if matchesAny Gen.ompPrefixes Gen.ompIgnoreCase l then 1
  else if matchesAny Gen.accPrefixes Gen.accIgnoreCase l then 2
  else if matchesAny Gen.commentPrefixes Gen.commentIgnoreCase l then 3
  else 4

/-- `l.rfind(key, start, stop)` where `l` is the suffix of the line starting at index `i`:
the highest index `j ≥ max i start` with `j + len key ≤ stop` at which `key` occurs. -/
def rfind (key : Line) (start stop : Nat) : Line → Nat → Option Nat
  | [], _ => none
  | c :: cs, i =>
    match rfind key start stop cs (i + 1) with
    | some j => some j
    | none => if start ≤ i && i + key.length ≤ stop && isPrefix key (c :: cs) then some i else none

/-- `find_break_point(line, max_index, key_list)`; `none` = `InternalError`.
(`idx > 0` always holds for a found index because the search starts at `fnw+1 ≥ 1`.) -/
def findBreak (l : Line) (maxIdx : Nat) : List Line → Option Nat
  | [] => none
  | key :: keys =>
    match rfind key (fnw l + 1) maxIdx l 0 with
    | some idx => some (idx + key.length)
    | none => findBreak l maxIdx keys

/-! ## `process` -/

inductive Err where
  | internal   -- `InternalError` raised by `find_break_point`
  | fuel       -- never returned when fuel ≥ length (theorem `C18_fuel_adequate`)
  deriving DecidableEq, Repr

/-- the `while len(line) + len(c_start) > L` loop followed by `if line:` -/
def loop (cs ce : Line) (keys : List Line) (L : Nat) : Nat → Line → Except Err (List Line)
  | 0, _ => .error .fuel
  | n + 1, r =>
    if r.length + cs.length > L then
      match findBreak r (L - ce.length - cs.length) keys with
      | none => .error .internal
      | some bp =>
        match loop cs ce keys L n (r.drop bp) with
        | .ok ps => .ok ((cs ++ r.take bp ++ ce) :: ps)
        | .error e => .error e
    else if r.isEmpty then .ok [] else .ok [cs ++ r]

/-- everything after a successful first `find_break_point` -/
def pieces (cs ce : Line) (keys : List Line) (L : Nat) (l : Line) (bp : Nat) : Except Err (List Line) :=
  match loop cs ce keys L (l.length + 1) (l.drop bp) with
  | .ok ps => .ok ((l.take bp ++ ce) :: ps)
  | .error e => .error e

/-- the body of the `for line in fortran_in.split('\n')` loop -/
def processLine (L : Nat) (l : Line) : Except Err (List Line) :=
  if l.length > L then
    let t := lineType l
    let cs := Gen.contStart t
    let ce := Gen.contEnd t
    let keys := Gen.keyList t
    match findBreak l (L - ce.length) keys with
    | some bp => pieces cs ce keys L l bp
    | none =>
      let l' := lstrip l
      if l'.length < L then .ok [l']
      else match findBreak l' (L - ce.length) keys with
        | some bp => pieces cs ce keys L l' bp
        | none => .error .internal
  else .ok [l]

def process (L : Nat) : List Line → Except Err (List Line)
  | [] => .ok []
  | l :: ls =>
    match processLine L l with
    | .error e => .error e
    | .ok ps =>
      match process L ls with
      | .error e => .error e
      | .ok qs => .ok (ps ++ qs)

/-- `long_lines` -/
def longLines (L : Nat) (ls : List Line) : Bool := ls.any (fun l => l.length > L)

/-- largest `len(c_start) + len(c_end)`; Python's slice arithmetic is only modelled for `L` above it. -/
def maxAffix : Nat :=
  [0, 1, 2, 3, 4].foldl (fun m t => max m ((Gen.contStart t).length + (Gen.contEnd t).length)) 0

/-! ## Specification: logical lines of free-form source -/

/-- What a text "means": statements (joined text, leading blanks of the initial line removed),
directives (kind 1 = `!$omp`, 2 = `!$acc`; token list) and comments (text from `!`). -/
inductive Item where
  | stmt (t : Line)
  | dir (k : Nat) (toks : List Line)
  | comment (t : Line)
  deriving DecidableEq, Repr

/-- character context: outside, inside '…', inside "…" -/
inductive Q where
  | code | sq | dq
  deriving DecidableEq, Repr

def Q.next : Q → Nat → Q
  | .code, c => if c = 39 then .sq else if c = 34 then .dq else .code
  | .sq, c => if c = 39 then .code else .sq
  | .dq, c => if c = 34 then .code else .dq

/-- Scan statement text from quote state `q`.  Returns the part before commentary, the commentary
(from the first `!` outside character context) and the quote state at the end. -/
def scan : Q → Line → Line × Option Line × Q
  | q, [] => ([], none, q)
  | q, c :: cs =>
    if q = .code ∧ c = 33 then ([], some (c :: cs), .code)
    else
      let r := scan (q.next c) cs
      (c :: r.1, r.2.1, r.2.2)

/-- If the last non-blank character is `&`: the text before it. -/
def splitCont (b : Line) : Option Line :=
  match (b.reverse.dropWhile isWs) with
  | 38 :: rest => some rest.reverse
  | _ => none

/-- directive text before commentary / the commentary -/
def cutBang : Line → Line × Option Line
  | [] => ([], none)
  | c :: cs => if c = 33 then ([], some (c :: cs)) else let r := cutBang cs; (c :: r.1, r.2)

/-! ### directive tokens
Blanks separate tokens; `,` `(` `)` `=` are single-character tokens except that `==` and `=>`
are one token; every other maximal run is a word. -/
def isPunct (c : Nat) : Bool := c = 44 || c = 40 || c = 41 || c = 61
def wordCh (c : Nat) : Bool := !isWs c && !isPunct c
def joins (cur : Line) (c : Nat) : Bool :=
  (!cur.isEmpty && cur.all wordCh && wordCh c) || (cur == [61] && (c = 61 || c = 62))

structure LexSt where
  toks : List Line
  cur : Line
  deriving DecidableEq, Repr

def flushTok (s : LexSt) : List Line := if s.cur.isEmpty then s.toks else s.toks ++ [s.cur]

def lexStep (s : LexSt) (c : Nat) : LexSt :=
  if isWs c then ⟨flushTok s, []⟩
  else if joins s.cur c then ⟨s.toks, s.cur ++ [c]⟩
  else ⟨flushTok s, [c]⟩

def lexFeed (s : LexSt) (l : Line) : LexSt := l.foldl lexStep s

/-! ### the line-joining state machine -/

inductive Aux where
  | none
  | com (t : Line)                 -- comment that a following `!& ` line continues
  | dir (k : Nat) (s : LexSt)      -- directive waiting for its `!$omp&` / `!$acc&` continuation
  deriving DecidableEq, Repr

structure St where
  stmt : Option (Line × Q)         -- statement being continued: text so far, quote state
  aux : Aux
  deriving DecidableEq, Repr

def St.init : St := ⟨none, .none⟩

def flushAux : Aux → List Item
  | .none => []
  | .com t => [.comment t]
  | .dir k s => [.dir k (flushTok s)]

def optComment : Option Line → List Item
  | some c => [.comment c]
  | none => []

/-- 0 blank line, 1 `!$omp`, 2 `!$acc`, 3 other line whose first non-blank is `!`, 4 code -/
def classify (l : Line) : Nat :=
  match lstrip l with
  | [] => 0
  | 33 :: rest =>
    let low := (33 :: rest).map lower
    if isPrefix [33, 36, 111, 109, 112] low then 1
    else if isPrefix [33, 36, 97, 99, 99] low then 2
    else 3
  | _ => 4

def stmtText (st : St) : Line := match st.stmt with | some p => p.1 | none => []
def stmtQ (st : St) : Q := match st.stmt with | some p => p.2 | none => .code

/-- the part of a code line that belongs to the statement: an initial line without its indentation;
a continuation line from just after its leading `&`, or (no leading `&`: a token boundary) a blank
followed by the line without its indentation -/
def contentOf (pending : Bool) (s : Line) : Line :=
  if pending then
    match s with
    | 38 :: rest => rest
    | r => 32 :: r
  else s

def content (st : St) (l : Line) : Line := contentOf st.stmt.isSome (lstrip l)

def stepCode (st : St) (l : Line) : St × List Item :=
  let r := scan (stmtQ st) (content st l)
  match splitCont r.1 with
  | some b => (⟨some (stmtText st ++ b, r.2.2), .none⟩, flushAux st.aux ++ optComment r.2.1)
  | none => (⟨none, .none⟩, flushAux st.aux ++ optComment r.2.1 ++ [.stmt (stmtText st ++ r.1)])

/-- text of a directive line after the 5-character sentinel: is it a continuation (`&` follows the
sentinel), and the directive text proper -/
def dirIsCont (rest : Line) : Bool := match rest with | 38 :: _ => true | _ => false
def dirBody (rest : Line) : Line := if dirIsCont rest then rest.drop 1 else rest

def dirStart (aux : Aux) (k : Nat) (isCont : Bool) : LexSt × List Item :=
  match aux with
  | .dir k' s => if isCont && k' = k then (s, []) else (⟨[], []⟩, flushAux aux)
  | a => (⟨[], []⟩, flushAux a)

def stepDir (st : St) (k : Nat) (l : Line) : St × List Item :=
  let rest := (lstrip l).drop 5
  let start := dirStart st.aux k (dirIsCont rest)
  let cb := cutBang (dirBody rest)
  match splitCont cb.1 with
  | some b => (⟨st.stmt, .dir k (lexFeed start.1 (b ++ [32]))⟩, start.2 ++ optComment cb.2)   -- the line end separates tokens
  | none => (⟨st.stmt, .none⟩, start.2 ++ optComment cb.2 ++ [.dir k (flushTok (lexFeed start.1 cb.1))])

/-- PSyclone's comment continuation `!& `: the text after it -/
def comCont (s : Line) : Option Line := if isPrefix [33, 38, 32] s then some (s.drop 3) else none

def stepComment (st : St) (l : Line) : St × List Item :=
  match comCont (lstrip l), st.aux with
  | some rest, .com t => (⟨st.stmt, .com (t ++ rest)⟩, [])
  | _, a => (⟨st.stmt, .com (lstrip l)⟩, flushAux a)

def step (st : St) (l : Line) : St × List Item :=
  match classify l with
  | 0 => (st, [])
  | 1 => stepDir st 1 l
  | 2 => stepDir st 2 l
  | 3 => stepComment st l
  | _ => stepCode st l

def run : St → List Line → St × List Item
  | st, [] => (st, [])
  | st, l :: ls =>
    let a := step st l
    let b := run a.1 ls
    (b.1, a.2 ++ b.2)

def flushSt (st : St) : List Item :=
  flushAux st.aux ++ (match st.stmt with | some p => [.stmt p.1] | none => [])

/-- the logical lines of a text -/
def logical (ls : List Line) : List Item :=
  let r := run St.init ls
  r.2 ++ flushSt r.1


/-! ## Side condition of `C18_same_program_partial` (the defect classes of the pinned code) -/

def noCompoundEq : Line → Bool
  | a :: b :: rest => !(a == 61 && (b == 61 || b == 62)) && noCompoundEq (b :: rest)
  | _ => true

def lastNonWs (l : Line) : Bool := match l.getLast? with | some c => !isWs c | none => true

/-- A line that is going to be split, met in state `st`, is outside the known defect classes:
a statement/directive line has no commentary and no white space after its last character, and a
directive line has no `==`/`=>`. -/
def safeLine (st : St) (l : Line) : Bool :=
  match classify l with
  | 0 => true
  | 1 | 2 => (cutBang ((lstrip l).drop 5)).2.isNone && noCompoundEq l && lastNonWs l
  | 3 => true
  | _ => (scan (stmtQ st) (content st l)).2.1.isNone && lastNonWs l

def SafeFile (L : Nat) : St → List Line → Bool
  | _, [] => true
  | st, l :: ls => (decide (l.length ≤ L) || safeLine st l) && SafeFile L (step st l).1 ls

/-! ## Side condition of `C18_total_partial` -/

/-- a blank at an index `j` with `fnw s + 1 ≤ j < W`: a usable break point in the window -/
def hasBlank (W : Nat) (s : Line) : Bool :=
  (List.range W).any (fun j => decide (fnw s + 1 ≤ j) && s[j]? == some 32)

/-- every suffix that would still have to be split has a usable blank in the (smallest) window -/
def suffixesOK (csLen W L : Nat) (s : Line) : Bool :=
  (List.range (s.length + 1)).all (fun i => decide ((s.drop i).length + csLen ≤ L) || hasBlank W (s.drop i))

/-- Decidable sufficient condition for `process` not to raise on a line: the line is short enough, or
(after removing the indentation) from every position on, once the first non-blank character is passed,
a blank occurs before the window `L - len(c_end) - len(c_start)` closes. -/
def Breakable (L : Nat) (l : Line) : Bool :=
  decide (l.length ≤ L) ||
    (let t := lineType l
     let W := L - (Gen.contEnd t).length - (Gen.contStart t).length
     (decide ((lstrip l).length < L) || hasBlank W (lstrip l)) &&
       suffixesOK (Gen.contStart t).length W L (lstrip l))

end C18
