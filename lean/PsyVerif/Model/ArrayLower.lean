import PsyVerif.Model.MiniF
/-! # C06 — array-syntax and intrinsic lowering (model of the PSyclone transformations)

Source forms that MiniF does not have (array-section assignment, reductions over
sections, DOT_PRODUCT, MATMUL) get their own semantics here; the transformations
(`ArrayAssignment2LoopsTrans`, `Abs2CodeTrans`, `Sign2CodeTrans`, `Min/Max2CodeTrans`,
`Sum/Product/Minval/Maxval2LoopTrans`, `DotProduct2CodeTrans`, `Matmul2CodeTrans`,
`ArrayAccess2LoopTrans`) are modelled as functions producing plain MiniF statements,
mirroring the Python (with the fixes of `fixes/C06-*.patch`).  Core Lean only. -/
namespace C06
open MiniF

/-- variables (scalars and arrays) occurring in an expression (same as `MiniF.evars`) -/
def vars : Expr → List Nat
  | .lit _ => []
  | .var x => [x]
  | .idx1 a i => a :: vars i
  | .idx2 a i j => a :: (vars i ++ vars j)
  | .un _ e => vars e
  | .bin _ a b => vars a ++ vars b

/-- replace the scalar variable `r` by the expression `e` -/
def subst (r : Nat) (e : Expr) : Expr → Expr
  | .lit n => .lit n
  | .var x => if x = r then e else .var x
  | .idx1 a i => .idx1 a (subst r e i)
  | .idx2 a i j => .idx2 a (subst r e i) (subst r e j)
  | .un op a => .un op (subst r e a)
  | .bin op a b => .bin op (subst r e a) (subst r e b)

/-! ## assignment targets -/

/-- left-hand side of a scalar assignment: variable or array element -/
inductive Tgt where
  | sc (x : Nat)
  | e1 (a : Nat) (i : Expr)
  | e2 (a : Nat) (i j : Expr)
  deriving DecidableEq, Repr, Inhabited

def Tgt.assign : Tgt → Expr → Stmt
  | .sc x, e => .assign x e
  | .e1 a i, e => .store1 a i e
  | .e2 a i j, e => .store2 a i j e

def Tgt.ref : Tgt → Expr
  | .sc x => .var x
  | .e1 a i => .idx1 a i
  | .e2 a i j => .idx2 a i j

def Tgt.sym : Tgt → Nat
  | .sc x => x
  | .e1 a _ => a
  | .e2 a _ _ => a

/-- variables of the index expressions -/
def Tgt.ivars : Tgt → List Nat
  | .sc _ => []
  | .e1 _ i => vars i
  | .e2 _ i j => vars i ++ vars j

def Tgt.loc : Tgt → Store → Loc
  | .sc x, _ => (x, 0, 0)
  | .e1 a i, σ => (a, eval i σ, 0)
  | .e2 a i j, σ => (a, eval i σ, eval j σ)

def Tgt.subst (r : Nat) (e : Expr) : Tgt → Tgt
  | .sc x => .sc x
  | .e1 a i => .e1 a (C06.subst r e i)
  | .e2 a i j => .e2 a (C06.subst r e i) (C06.subst r e j)

/-- a scalar assignment statement `tgt = rhs` -/
structure Asg where
  tgt : Tgt
  rhs : Expr
  deriving DecidableEq, Repr, Inhabited

def Asg.stmt (s : Asg) : Stmt := s.tgt.assign s.rhs
def Asg.subst (r : Nat) (e : Expr) (s : Asg) : Asg := ⟨s.tgt.subst r e, C06.subst r e s.rhs⟩
def Asg.vars (s : Asg) : List Nat := s.tgt.sym :: (s.tgt.ivars ++ C06.vars s.rhs)

/-! ## ABS, SIGN, MIN, MAX → IF code

The assignment is given with the variable `res` standing where the intrinsic call was
(this is the assignment the transformation leaves behind); the original statement is
`S.subst res (INTRINSIC args)`. -/

/-- `Abs2CodeTrans.apply`: `tmp = X; if (tmp > 0.0) res = tmp else res = tmp * -1.0; S` -/
def absCode (res tmp : Nat) (x : Expr) : Stmt :=
  .seq (.assign tmp x)
    (.ite (.bin .gt (.var tmp) (.lit 0)) (.assign res (.var tmp))
      (.assign res (.bin .mul (.var tmp) (.lit (-1)))))

def abs2code (res tmp : Nat) (x : Expr) (s : Asg) : Stmt := .seq (absCode res tmp x) s.stmt
def absOrig (res : Nat) (x : Expr) (s : Asg) : Stmt := (s.subst res (.un .abs x)).stmt

/-- `Sign2CodeTrans.apply`: `res = ABS(A)` lowered by Abs2CodeTrans (temporaries `ares`,
`atmp`), then `tmp = B; if (tmp < 0.0) res = res * -1.0; S` -/
def signCode (res tmp ares atmp : Nat) (a b : Expr) : Stmt :=
  .seq (absCode ares atmp a)
    (.seq (.assign res (.var ares))
      (.seq (.assign tmp b)
        (.ite (.bin .lt (.var tmp) (.lit 0)) (.assign res (.bin .mul (.var res) (.lit (-1)))) .skip)))

def sign2code (res tmp ares atmp : Nat) (a b : Expr) (s : Asg) : Stmt :=
  .seq (signCode res tmp ares atmp a b) s.stmt
def signOrig (res : Nat) (a b : Expr) (s : Asg) : Stmt := (s.subst res (.bin .sign a b)).stmt

/-- one step of `MinOrMax2CodeTrans.apply`: `tmp = B; if (tmp < res) res = tmp` (`>` for MAX) -/
def mmStep (isMax : Bool) (res tmp : Nat) (b : Expr) : Stmt :=
  .seq (.assign tmp b)
    (.ite (.bin (if isMax then .gt else .lt) (.var tmp) (.var res)) (.assign res (.var tmp)) .skip)

def mmSteps (isMax : Bool) (res tmp : Nat) : List Expr → Stmt
  | [] => .skip
  | b :: rest => .seq (mmStep isMax res tmp b) (mmSteps isMax res tmp rest)

/-- `res = A; (tmp = B; if ..)*` -/
def mmCode (isMax : Bool) (res tmp : Nat) (a : Expr) (rest : List Expr) : Stmt :=
  .seq (.assign res a) (mmSteps isMax res tmp rest)

def minmax2code (isMax : Bool) (res tmp : Nat) (a : Expr) (rest : List Expr) (s : Asg) : Stmt :=
  .seq (mmCode isMax res tmp a rest) s.stmt

def mmOp (isMax : Bool) : BinOp := if isMax then .max else .min
/-- `MIN(A, B, C, …)` as the exporter writes it: left-nested binary operators -/
def mmExpr (isMax : Bool) (a : Expr) (rest : List Expr) : Expr := rest.foldl (.bin (mmOp isMax)) a
def minmaxOrig (isMax : Bool) (res : Nat) (a : Expr) (rest : List Expr) (s : Asg) : Stmt :=
  (s.subst res (mmExpr isMax a rest)).stmt

/-! ## array sections and elementwise expressions -/

/-- position of the section in the array reference -/
inductive Fix where
  | r1                -- `a(lo:hi:st)`
  | row (j : Expr)    -- `m(lo:hi:st, j)`
  | col (i : Expr)    -- `m(i, lo:hi:st)`
  deriving DecidableEq, Repr, Inhabited

def Fix.kind : Fix → Nat
  | .r1 => 0
  | .row _ => 1
  | .col _ => 2

def Fix.vars : Fix → List Nat
  | .r1 => []
  | .row j => C06.vars j
  | .col i => C06.vars i

structure Sec where
  arr : Nat
  fix : Fix
  lo : Expr
  hi : Expr
  st : Expr
  deriving DecidableEq, Repr, Inhabited

/-- the element reference `a(e)` / `m(e, j)` / `m(i, e)` -/
def Sec.ref (s : Sec) (e : Expr) : Expr :=
  match s.fix with
  | .r1 => .idx1 s.arr e
  | .row j => .idx2 s.arr e j
  | .col i => .idx2 s.arr i e

def Sec.store (s : Sec) (e rhs : Expr) : Stmt :=
  match s.fix with
  | .r1 => .store1 s.arr e rhs
  | .row j => .store2 s.arr e j rhs
  | .col i => .store2 s.arr i e rhs

/-- location of the element with section-dimension index `v` -/
def Sec.loc (s : Sec) (v : Int) (σ : Store) : Loc :=
  match s.fix with
  | .r1 => (s.arr, v, 0)
  | .row j => (s.arr, v, eval j σ)
  | .col i => (s.arr, eval i σ, v)

/-- variables read by the scalar parts of a section (fixed index, bounds) -/
def Sec.svars (s : Sec) : List Nat := s.fix.vars ++ (C06.vars s.lo ++ (C06.vars s.hi ++ C06.vars s.st))

/-- value of element number `k` (0-based) of the section -/
def Sec.at (s : Sec) (σ : Store) (k : Int) : Int :=
  σ (s.loc (eval s.lo σ + k * eval s.st σ) σ)

/-- number of elements -/
def Sec.count (s : Sec) (σ : Store) : Nat := trip (eval s.lo σ) (eval s.hi σ) (eval s.st σ)

/-- elementwise expression over sections and scalars -/
inductive AExpr where
  | sc (e : Expr)
  | sec (s : Sec)
  | un (op : UnOp) (e : AExpr)
  | bin (op : BinOp) (a b : AExpr)
  deriving DecidableEq, Repr, Inhabited

/-- the sections, in the order of a pre-order walk -/
def AExpr.secs : AExpr → List Sec
  | .sc _ => []
  | .sec s => [s]
  | .un _ e => e.secs
  | .bin _ a b => a.secs ++ b.secs

/-- variables of the scalar parts -/
def AExpr.svars : AExpr → List Nat
  | .sc e => C06.vars e
  | .sec s => s.svars
  | .un _ e => e.svars
  | .bin _ a b => a.svars ++ b.svars

/-- all variables, including the arrays of the sections -/
def AExpr.allvars : AExpr → List Nat
  | .sc e => C06.vars e
  | .sec s => s.arr :: s.svars
  | .un _ e => e.allvars
  | .bin _ a b => a.allvars ++ b.allvars

/-- value of element `k` of the elementwise expression in store `σ` -/
def AExpr.evalAt : AExpr → Store → Int → Int
  | .sc e, σ, _ => eval e σ
  | .sec s, σ, k => s.at σ k
  | .un op e, σ, k => evalUn op (e.evalAt σ k)
  | .bin op a b, σ, k => evalBin op (a.evalAt σ k) (b.evalAt σ k)

/-! ## array assignment `lhs(lo:hi:st) = E` -/

structure AAIn where
  lhs : Sec
  rhs : AExpr
  /-- the rhs contains a call that is not elemental (e.g. SUM) -/
  badCall : Bool
  /-- option used by the reduction transformations: the assignment is only a
  device to build the loops, its lhs is never written -/
  allowOverlap : Bool
  deriving DecidableEq, Repr, Inhabited

/-- store the values `g 0 … g (n-1)` into the locations `f 0 … f (n-1)` -/
def writeVals (f : Int → Loc) (g : Int → Int) : Nat → Store → Store
  | 0, τ => τ
  | n+1, τ => (writeVals f g n τ).set (f n) (g n)

/-- **Fortran semantics of the array assignment**: bounds, fixed indices and ALL
right-hand-side element values are evaluated in the initial store, then stored. -/
def execAA (a : AAIn) (σ : Store) : Store :=
  writeVals (fun k => a.lhs.loc (eval a.lhs.lo σ + k * eval a.lhs.st σ) σ)
    (fun k => a.rhs.evalAt σ k) (a.lhs.count σ) σ

inductive Refusal where
  | notElemental | overlap | stride | dim | noArray | notSupported
  deriving DecidableEq, Repr, Inhabited

/-- the ranges of `s` are the ranges of `l` (same position, same bounds and stride) -/
def sameRanges (l s : Sec) : Bool :=
  s.fix.kind == l.fix.kind && decide (s.lo = l.lo) && decide (s.hi = l.hi) && decide (s.st = l.st)

/-- every access to the lhs array uses the lhs ranges; no scalar part reads the lhs array -/
def overlapOK (a : AAIn) : Bool :=
  a.rhs.secs.all (fun s => s.arr != a.lhs.arr || sameRanges a.lhs s) &&
  !(a.rhs.svars ++ a.lhs.svars).contains a.lhs.arr

def strideOK (l : Sec) (e : AExpr) : Bool := e.secs.all (fun s => decide (s.st = l.st))

/-- `ArrayAssignment2LoopsTrans.validate` (fixed) on the modelled domain -/
def validateAA (a : AAIn) : Option Refusal :=
  if a.badCall then some .notElemental
  else if !strideOK a.lhs a.rhs then some .stride
  else if !a.allowOverlap && !overlapOK a then some .overlap
  else none

/-- the pinned (unfixed) `validate`: no overlap and no stride test -/
def validateAA_pinned (a : AAIn) : Option Refusal :=
  if a.badCall then some .notElemental else none

/-- index expression for a section expanded together with lhs range `l`
(`same_range` → the loop variable, else `idx + (start - lhs_start)`) -/
def idxExpr (idx : Nat) (l s : Sec) : Expr :=
  if s.lo = l.lo ∧ s.st = l.st then .var idx
  else .bin .add (.var idx) (.bin .sub s.lo l.lo)

def AExpr.lower (idx : Nat) (l : Sec) : AExpr → Expr
  | .sc e => e
  | .sec s => s.ref (idxExpr idx l s)
  | .un op e => .un op (e.lower idx l)
  | .bin op a b => .bin op (a.lower idx l) (b.lower idx l)

/-- `ArrayAssignment2LoopsTrans.apply` after validation -/
def applyAA (idx : Nat) (a : AAIn) : Stmt :=
  .loop idx a.lhs.lo a.lhs.hi a.lhs.st (a.lhs.store (.var idx) (a.rhs.lower idx a.lhs))

def transAA (idx : Nat) (a : AAIn) : Except Refusal Stmt :=
  match validateAA a with
  | some r => .error r
  | none => .ok (applyAA idx a)

/-! ## SUM / PRODUCT / MINVAL / MAXVAL → loop -/

inductive RedKind where
  | sum | product | minval | maxval
  deriving DecidableEq, Repr, Inhabited

def RedKind.op : RedKind → BinOp
  | .sum => .add
  | .product => .mul
  | .minval => .min
  | .maxval => .max

/-- initial value: `0`, `1`, `HUGE(x)`, `-HUGE(x)` -/
def RedKind.init (huge : Int) : RedKind → Expr
  | .sum => .lit 0
  | .product => .lit 1
  | .minval => .lit huge
  | .maxval => .un .neg (.lit huge)

def RedKind.initVal (huge : Int) : RedKind → Int
  | .sum => 0
  | .product => 1
  | .minval => huge
  | .maxval => -huge

structure RedIn where
  kind : RedKind
  expr : AExpr            -- the reduced elementwise expression
  mask : Option AExpr
  dim : Bool              -- a DIM argument is present
  tgt : Tgt               -- lhs of the enclosing assignment
  hole : Nat              -- placeholder variable standing for the intrinsic call in `ctx`
  ctx : Expr              -- rhs of the enclosing assignment
  huge : Int
  deriving DecidableEq, Repr, Inhabited

/-- fold over the first `n` elements, in element order, skipping masked-out elements -/
def foldRed (op : BinOp) (f : Int → Int) (m : Int → Int) : Nat → Int → Int
  | 0, acc => acc
  | n+1, acc =>
    let a := foldRed op f m n acc
    if m n ≠ 0 then evalBin op a (f n) else a

def maskAt (m : Option AExpr) (σ : Store) (k : Int) : Int :=
  match m with
  | none => 1
  | some e => e.evalAt σ k

/-- **value of the reduction intrinsic** in store `σ`; the extent is that of the first section -/
def redVal (r : RedIn) (lead : Sec) (σ : Store) : Int :=
  foldRed r.kind.op (fun k => r.expr.evalAt σ k) (maskAt r.mask σ) (lead.count σ) (r.kind.initVal r.huge)

/-- semantics of the original assignment `tgt = ctx[hole := INTRINSIC(expr, mask)]` -/
def execRedOrig (r : RedIn) (lead : Sec) (σ : Store) : Store :=
  exec (r.tgt.assign r.ctx) (σ.set (r.hole, 0, 0) (redVal r lead σ))

def maskVars (m : Option AExpr) : List Nat :=
  match m with
  | none => []
  | some e => e.allvars

/-- the lhs symbol is used on the rhs (or in the lhs indices): accumulate in a temporary -/
def RedIn.increment (r : RedIn) : Bool :=
  (C06.vars r.ctx ++ r.expr.allvars ++ maskVars r.mask ++ r.tgt.ivars).contains r.tgt.sym

/-- the synthetic assignment `lead = expr .AND. mask` handed to ArrayAssignment2LoopsTrans -/
def RedIn.synthetic (r : RedIn) (lead : Sec) : AAIn :=
  { lhs := lead,
    rhs := match r.mask with
      | none => r.expr
      | some m => .bin .and r.expr m,
    badCall := false, allowOverlap := true }

def redLoop (idx : Nat) (r : RedIn) (lead : Sec) (acc : Tgt) : Stmt :=
  let body := acc.assign (.bin r.kind.op acc.ref (r.expr.lower idx lead))
  .loop idx lead.lo lead.hi lead.st
    (match r.mask with
     | none => body
     | some m => .ite (m.lower idx lead) body .skip)

/-- `ArrayReductionBaseTrans.validate` + `apply` (fixed) -/
def transRed (idx tmp : Nat) (r : RedIn) : Except Refusal Stmt :=
  if r.dim then .error .dim
  else match r.expr.secs with
  | [] => .error .noArray
  | lead :: _ =>
    match validateAA (r.synthetic lead) with
    | some e => .error e
    | none =>
      let acc : Tgt := if r.increment then .sc tmp else r.tgt
      let core := Stmt.seq (acc.assign (r.kind.init r.huge)) (redLoop idx r lead acc)
      if r.increment || decide (r.ctx ≠ .var r.hole) then
        .ok (.seq core (r.tgt.assign (subst r.hole acc.ref r.ctx)))
      else .ok core

/-! ## DOT_PRODUCT and MATMUL (pinned behaviour: one array's declared bounds index all operands) -/

/-- a whole rank-1 array (or full first dimension) with declared bounds -/
structure Vec where
  arr : Nat
  lb : Int
  ub : Int
  deriving DecidableEq, Repr, Inhabited

/-- value of DOT_PRODUCT(v1, v2): element k of v1 times element k of v2 -/
def dotVal (v1 v2 : Vec) (σ : Store) : Int :=
  foldRed .add (fun k => σ (v1.arr, v1.lb + k, 0) * σ (v2.arr, v2.lb + k, 0)) (fun _ => 1)
    (trip v1.lb v1.ub 1) 0

/-- `DotProduct2CodeTrans.apply`: `res = 0.0; do i = lb1, ub1; res = res + v1(i)*v2(i)` -/
def dotCode (res i : Nat) (v1 v2 : Vec) : Stmt :=
  .seq (.assign res (.lit 0))
    (.loop i (.lit v1.lb) (.lit v1.ub) (.lit 1)
      (.assign res (.bin .add (.var res) (.bin .mul (.idx1 v1.arr (.var i)) (.idx1 v2.arr (.var i))))))

def dot2code (res i : Nat) (v1 v2 : Vec) (s : Asg) : Stmt := .seq (dotCode res i v1 v2) s.stmt

/-- semantics of the original `S[res := DOT_PRODUCT(v1, v2)]` -/
def execDotOrig (res : Nat) (v1 v2 : Vec) (s : Asg) (σ : Store) : Store :=
  exec s.stmt (σ.set (res, 0, 0) (dotVal v1 v2 σ))

/-- a whole rank-2 array with declared bounds -/
structure Mat where
  arr : Nat
  lb1 : Int
  ub1 : Int
  lb2 : Int
  ub2 : Int
  deriving DecidableEq, Repr, Inhabited

/-- `Matmul2CodeTrans._apply_matrix_vector`:
`do i = lb1(A), ub1(A); r(i) = 0.0; do j = lb(x), ub(x); r(i) = r(i) + A(i,j)*x(j)` -/
def matvecCode (i j : Nat) (r : Vec) (a : Mat) (x : Vec) : Stmt :=
  .loop i (.lit a.lb1) (.lit a.ub1) (.lit 1)
    (.seq (.store1 r.arr (.var i) (.lit 0))
      (.loop j (.lit x.lb) (.lit x.ub) (.lit 1)
        (.store1 r.arr (.var i)
          (.bin .add (.idx1 r.arr (.var i))
            (.bin .mul (.idx2 a.arr (.var i) (.var j)) (.idx1 x.arr (.var j)))))))

/-- row `p` (0-based) of MATMUL(A, x) -/
def matvecVal (a : Mat) (x : Vec) (σ : Store) (p : Int) : Int :=
  foldRed .add (fun k => σ (a.arr, a.lb1 + p, a.lb2 + k) * σ (x.arr, x.lb + k, 0)) (fun _ => 1)
    (trip a.lb2 a.ub2 1) 0

/-- **Fortran semantics of `r = MATMUL(A, x)`** (result and operands are distinct arrays) -/
def execMatvec (r : Vec) (a : Mat) (x : Vec) (σ : Store) : Store :=
  writeVals (fun p => (r.arr, r.lb + p, 0)) (fun p => matvecVal a x σ p) (trip a.lb1 a.ub1 1) σ

/-- the lower bounds the generated loops silently assume to coincide -/
def matvecAligned (r : Vec) (a : Mat) (x : Vec) : Bool :=
  decide (r.lb = a.lb1) && decide (x.lb = a.lb2) && decide (x.ub - x.lb = a.ub2 - a.lb2)

/-! ## ArrayAccess2LoopTrans: `a(e) = rhs` → `do idx = e, e, 1; a(idx) = rhs[e := idx]` is modelled
on rank-1 targets: every rhs rank-1 array access must have the index `e` (validate) -/

structure AccIn where
  arr : Nat
  index : Expr
  /-- rhs with the variable `hole` wherever an array is indexed by `index` -/
  rhs : Expr
  hole : Nat
  deriving DecidableEq, Repr, Inhabited

def applyAcc (idx : Nat) (a : AccIn) : Stmt :=
  .loop idx a.index a.index (.lit 1) (.store1 a.arr (.var idx) (subst a.hole (.var idx) a.rhs))

def accOrig (a : AccIn) : Stmt := .store1 a.arr a.index (subst a.hole a.index a.rhs)


/-! ## Reference2ArrayRangeTrans: `a` → `a(lb:ub:1)` with the declared bounds -/

/-- value of element `k` (0-based, array element order) of the whole rank-1 array -/
def Vec.at (v : Vec) (σ : Store) (k : Int) : Int := σ (v.arr, v.lb + k, 0)
def Vec.count (v : Vec) : Nat := trip v.lb v.ub 1
/-- `Reference2ArrayRangeTrans.apply` on a rank-1 array with declared bounds -/
def ref2range (v : Vec) : Sec := ⟨v.arr, .r1, .lit v.lb, .lit v.ub, .lit 1⟩

/-! ## DOT_PRODUCT with sliced arguments: the operands are sections `a(:)`, `m(:,j)` over the full first
dimension; the loop runs over the declared bounds of the first operand and indexes BOTH with `i` -/

def dotCodeS (res i : Nat) (s1 s2 : Sec) : Stmt :=
  .seq (.assign res (.lit 0))
    (.loop i s1.lo s1.hi (.lit 1)
      (.assign res (.bin .add (.var res) (.bin .mul (s1.ref (.var i)) (s2.ref (.var i))))))

def dot2codeS (res i : Nat) (s1 s2 : Sec) (s : Asg) : Stmt := .seq (dotCodeS res i s1 s2) s.stmt

def dotValS (s1 s2 : Sec) (σ : Store) : Int :=
  foldRed .add (fun k => s1.at σ k * s2.at σ k) (fun _ => 1) (s1.count σ) 0

def execDotOrigS (res : Nat) (s1 s2 : Sec) (s : Asg) (σ : Store) : Store :=
  exec s.stmt (σ.set (res, 0, 0) (dotValS s1 s2 σ))

/-! ## matrix-matrix MATMUL -/

/-- `Matmul2CodeTrans._apply_matrix_matrix`:
`do j = lb2(B), ub2(B); do i = lb1(A), ub1(A); r(i,j) = 0.0; do ii = lb2(A), ub2(A); r(i,j) = r(i,j) + A(i,ii)*B(ii,j)` -/
def matmatCode (i j ii : Nat) (r a b : Mat) : Stmt :=
  .loop j (.lit b.lb2) (.lit b.ub2) (.lit 1)
    (.loop i (.lit a.lb1) (.lit a.ub1) (.lit 1)
      (.seq (.store2 r.arr (.var i) (.var j) (.lit 0))
        (.loop ii (.lit a.lb2) (.lit a.ub2) (.lit 1)
          (.store2 r.arr (.var i) (.var j)
            (.bin .add (.idx2 r.arr (.var i) (.var j))
              (.bin .mul (.idx2 a.arr (.var i) (.var ii)) (.idx2 b.arr (.var ii) (.var j))))))))

/-- element (p, q) (0-based) of MATMUL(A, B) -/
def matmatVal (a b : Mat) (σ : Store) (p q : Int) : Int :=
  foldRed .add (fun k => σ (a.arr, a.lb1 + p, a.lb2 + k) * σ (b.arr, b.lb1 + k, b.lb2 + q)) (fun _ => 1)
    (trip a.lb2 a.ub2 1) 0

/-- columns `0 … n-1` of the result written (values computed in the initial store `σ`) -/
def matmatCols (r a b : Mat) (σ : Store) : Nat → Store
  | 0 => σ
  | q+1 => writeVals (fun p => (r.arr, r.lb1 + p, r.lb2 + q)) (fun p => matmatVal a b σ p q)
      (trip a.lb1 a.ub1 1) (matmatCols r a b σ q)

/-- **Fortran semantics of `r = MATMUL(A, B)`** (result distinct from the operands) -/
def execMatmat (r a b : Mat) (σ : Store) : Store := matmatCols r a b σ (trip b.lb2 b.ub2 1)

def matmatAligned (r a b : Mat) : Bool :=
  decide (r.lb1 = a.lb1) && decide (r.lb2 = b.lb2) && decide (b.lb1 = a.lb2) &&
  decide (b.ub1 - b.lb1 = a.ub2 - a.lb2)

/-! ## rank-2 array assignment `m(l1:h1:s1, l2:h2:s2) = E` → loop nest (outer loop = 2nd dimension) -/

structure Sec2 where
  arr : Nat
  lo1 : Expr
  hi1 : Expr
  st1 : Expr
  lo2 : Expr
  hi2 : Expr
  st2 : Expr
  deriving DecidableEq, Repr, Inhabited

def Sec2.svars (s : Sec2) : List Nat :=
  C06.vars s.lo1 ++ (C06.vars s.hi1 ++ (C06.vars s.st1 ++ (C06.vars s.lo2 ++ (C06.vars s.hi2 ++ C06.vars s.st2))))

/-- element (k1, k2) of the section -/
def Sec2.at (s : Sec2) (σ : Store) (k1 k2 : Int) : Int :=
  σ (s.arr, eval s.lo1 σ + k1 * eval s.st1 σ, eval s.lo2 σ + k2 * eval s.st2 σ)

inductive AExpr2 where
  | sc (e : Expr)
  | sec (s : Sec2)
  | un (op : UnOp) (e : AExpr2)
  | bin (op : BinOp) (a b : AExpr2)
  deriving DecidableEq, Repr, Inhabited

def AExpr2.secs : AExpr2 → List Sec2
  | .sc _ => []
  | .sec s => [s]
  | .un _ e => e.secs
  | .bin _ a b => a.secs ++ b.secs

def AExpr2.svars : AExpr2 → List Nat
  | .sc e => C06.vars e
  | .sec s => s.svars
  | .un _ e => e.svars
  | .bin _ a b => a.svars ++ b.svars

def AExpr2.allvars : AExpr2 → List Nat
  | .sc e => C06.vars e
  | .sec s => s.arr :: s.svars
  | .un _ e => e.allvars
  | .bin _ a b => a.allvars ++ b.allvars

def AExpr2.evalAt : AExpr2 → Store → Int → Int → Int
  | .sc e, σ, _, _ => eval e σ
  | .sec s, σ, k1, k2 => s.at σ k1 k2
  | .un op e, σ, k1, k2 => evalUn op (e.evalAt σ k1 k2)
  | .bin op a b, σ, k1, k2 => evalBin op (a.evalAt σ k1 k2) (b.evalAt σ k1 k2)

structure AAIn2 where
  lhs : Sec2
  rhs : AExpr2
  deriving DecidableEq, Repr, Inhabited

/-- columns `0 … n-1` of the lhs section stored; all values come from the initial store `σ` -/
def aa2Cols (a : AAIn2) (σ : Store) : Nat → Store
  | 0 => σ
  | q+1 => writeVals
      (fun p => (a.lhs.arr, eval a.lhs.lo1 σ + p * eval a.lhs.st1 σ, eval a.lhs.lo2 σ + q * eval a.lhs.st2 σ))
      (fun p => a.rhs.evalAt σ p q) (trip (eval a.lhs.lo1 σ) (eval a.lhs.hi1 σ) (eval a.lhs.st1 σ))
      (aa2Cols a σ q)

/-- **Fortran semantics of the rank-2 array assignment** -/
def execAA2 (a : AAIn2) (σ : Store) : Store :=
  aa2Cols a σ (trip (eval a.lhs.lo2 σ) (eval a.lhs.hi2 σ) (eval a.lhs.st2 σ))

def sameRanges2 (l s : Sec2) : Bool :=
  decide (s.lo1 = l.lo1) && decide (s.hi1 = l.hi1) && decide (s.st1 = l.st1) &&
  decide (s.lo2 = l.lo2) && decide (s.hi2 = l.hi2) && decide (s.st2 = l.st2)

def overlapOK2 (a : AAIn2) : Bool :=
  a.rhs.secs.all (fun s => s.arr != a.lhs.arr || sameRanges2 a.lhs s) &&
  !(a.rhs.svars ++ a.lhs.svars).contains a.lhs.arr

def strideOK2 (l : Sec2) (e : AExpr2) : Bool :=
  e.secs.all (fun s => decide (s.st1 = l.st1) && decide (s.st2 = l.st2))

/-- `ArrayAssignment2LoopsTrans.validate` (fixed) for rank-2 sections -/
def validateAA2 (a : AAIn2) : Option Refusal :=
  if !strideOK2 a.lhs a.rhs then some .stride
  else if !overlapOK2 a then some .overlap
  else none

/-- index expression for one dimension (`same_range` → loop variable, else offset) -/
def idxExpr' (idx : Nat) (llo lst slo sst : Expr) : Expr :=
  if slo = llo ∧ sst = lst then .var idx else .bin .add (.var idx) (.bin .sub slo llo)

/-- after expanding the 2nd range: a rank-1 (`row`) section of every rank-2 section -/
def Sec2.row (s : Sec2) (idx2 : Nat) (l : Sec2) : Sec :=
  ⟨s.arr, .row (idxExpr' idx2 l.lo2 l.st2 s.lo2 s.st2), s.lo1, s.hi1, s.st1⟩

def AExpr2.rows (idx2 : Nat) (l : Sec2) : AExpr2 → AExpr
  | .sc e => .sc e
  | .sec s => .sec (s.row idx2 l)
  | .un op e => .un op (e.rows idx2 l)
  | .bin op a b => .bin op (a.rows idx2 l) (b.rows idx2 l)

/-- the rank-1 assignment that is left inside the outer loop -/
def AAIn2.inner (idx2 : Nat) (a : AAIn2) : AAIn :=
  { lhs := a.lhs.row idx2 a.lhs, rhs := a.rhs.rows idx2 a.lhs, badCall := false, allowOverlap := false }

/-- `ArrayAssignment2LoopsTrans.apply` on a rank-2 section: outer loop over the 2nd range (`idx2`),
inner loop over the 1st range (`idx1`) -/
def applyAA2 (idx2 idx1 : Nat) (a : AAIn2) : Stmt :=
  .loop idx2 a.lhs.lo2 a.lhs.hi2 a.lhs.st2 (applyAA idx1 (a.inner idx2))

def transAA2 (idx2 idx1 : Nat) (a : AAIn2) : Except Refusal Stmt :=
  match validateAA2 a with
  | some r => .error r
  | none => .ok (applyAA2 idx2 idx1 a)

end C06
