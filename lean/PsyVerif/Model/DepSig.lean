import PsyVerif.Model.DepTools
/-! # C08 model — signatures (structure members)

PSyclone identifies what a loop accesses by `Signature`s: a base name (`Signature.var_name`, the symbol that is
looked up) and a path of member names — `cfg%off` = ⟨cfg, [off]⟩, `p(i)%x` = ⟨p, [x]⟩ with the flattened
subscript list `[i]`, `g%a(i)` = ⟨g, [a]⟩ with `[i]`.  The variable ids of the MiniF loops the model analyses ARE
signatures: `SigTab` maps every id to its signature.  `can_loop_be_parallelised` uses the *full* signature
(`str(signature)`) to
* skip loop variables, group the accesses (`var_accesses[signature]`) and name the variable in messages,
* build the set of variables modified in the loop and intersect it with the signatures used in the subscripts
  (`ComponentIndices.get_subscripts_of`),
and the base name only to look up the symbol for the array/scalar decision (which, for the accesses of the
modelled subset, is decided by the access list alone: `SingleVariableAccessInfo.is_array`).

* `sigTabOk`       the checked precondition: ids and signatures are in bijection and no signature is a proper prefix
                   of another one (no access to a whole structure next to an access to one of its members);
* `staleSubscriptBy`  the modified-subscript-variable test with the set of written variables keyed by an arbitrary
                   function of the signature: the identity gives the code at HEAD (`staleSubscript`), `nameKey` the
                   variant that records `var_name` only (under which a recomputed `cfg%off` goes unnoticed).
Core Lean only. -/
namespace C08
open MiniF

/-- `psyclone.core.Signature`: base name and member path (ids of component names) -/
structure Sig where
  base : Nat
  path : List Nat
  deriving DecidableEq, Repr

/-- variable id ↦ signature -/
abbrev SigTab := List (Nat × Sig)

def sigOf : SigTab → Nat → Option Sig
  | [], _ => none
  | (y, s) :: rest, x => if y = x then some s else sigOf rest x

def prefixOf : List Nat → List Nat → Bool
  | [], _ => true
  | _ :: _, [] => false
  | a :: as, b :: bs => a == b && prefixOf as bs

/-- `s` names a structure that contains `t` (`cfg` and `cfg%off`, `cfg%sub` and `cfg%sub%x`) -/
def Sig.properPrefix (s t : Sig) : Bool :=
  s.base == t.base && decide (s.path.length < t.path.length) && prefixOf s.path t.path

def nodupB {α : Type} [DecidableEq α] : List α → Bool
  | [] => true
  | a :: as => !decide (a ∈ as) && nodupB as

/-- the table is a bijection between ids and signatures, and no listed signature contains another one -/
def sigTabOk (tab : SigTab) : Bool :=
  nodupB (tab.map (·.1)) && nodupB (tab.map (·.2)) &&
    tab.all fun p => tab.all fun q => !p.2.properPrefix q.2

/-- every variable of the loop has a signature -/
def sigCovers (tab : SigTab) (xs : List Nat) : Bool := xs.all fun x => (sigOf tab x).isSome

/-! ## the modified-subscript-variable test over signatures -/

/-- `written = {key(sig) | sig written in the loop} − loop variables`; a subscript is stale when the FULL
signature of a variable it uses is in `written` (`get_subscripts_of` compares `str(sig)`).  `key x = none` stands
for a string that is no signature of the loop. -/
def staleSubscriptBy (key : Nat → Option Nat) (lvars : List Nat) (all accs : List Access) : Bool :=
  accs.any fun a => a.subs.any fun s => (evars s).any fun y =>
    !decide (y ∈ lvars) && all.any fun b => b.write && key b.var == some y

/-- HEAD: the full signature -/
def sigKey (x : Nat) : Option Nat := some x

/-- the id of the signature that consists of the base name only (`Signature.var_name`), if the loop has one -/
def idOfSig : SigTab → Sig → Option Nat
  | [], _ => none
  | (y, s) :: rest, t => if s = t then some y else idOfSig rest t

/-- the by-name variant: a written `cfg%off` is recorded as `cfg` -/
def nameKey (tab : SigTab) (x : Nat) : Option Nat :=
  match sigOf tab x with
  | some s => idOfSig tab ⟨s.base, []⟩
  | none => some x

/-! ## signature-level storage -/

/-- the storage a traced event touches, named by signature: `cfg%off` ↦ (⟨cfg,[off]⟩, 0, 0),
`p(3)%x` ↦ (⟨p,[x]⟩, 3, 0) -/
abbrev SLoc := Sig × Int × Int

def slocOf (tab : SigTab) (l : Loc) : Option SLoc := (sigOf tab l.1).map fun s => (s, l.2.1, l.2.2)

/-- two pieces of storage overlap: the same signature and subscripts, or one is (an element of) a structure that
contains the other (subscripts then say nothing: conservative) -/
def overlaps (a b : SLoc) : Prop :=
  (a.1 = b.1 ∧ a.2 = b.2) ∨ a.1.properPrefix b.1 = true ∨ b.1.properPrefix a.1 = true

end C08
