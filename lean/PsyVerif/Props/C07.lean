import PsyVerif.Lemmas.Inline
import PsyVerif.Model.InlineIdx
/-! # C07 — Inlining a call preserves the caller's behaviour

Model: `PsyVerif/Model/Inline.lean` (`validate`, `apply`, `renOf` mirror `InlineTrans.validate`,
`_replace_formal_arg` / `_replace_formal_struc_arg` / `_create_inlined_idx` and the renaming of merged
locals; `execCall` is an independent by-reference CALL semantics).
Helper lemmas (substitution lemma `execE_subst`, frame simulation `execE_rel`, `wvars_substS`):
`PsyVerif/Lemmas/Inline.lean`.

Four defects were found on the pinned tree (each reproduced with gfortran by the harness):

1. `call s(a(i), i)` where `s` modifies `i`: the element is re-selected after the change;
2. `call s(i+1, i, n)`: an expression actual is re-evaluated after the callee changed `i`;
3. a formal argument used as DO variable was not replaced (`Loop.variable` is a Symbol)
   — **fixed** by `fixes/C07-loopvar-formal.patch` (replace it when the actual is a plain variable,
   refuse otherwise); the model follows the fixed code;
4. a callee local with the name of a variable of an *enclosing* scope (module variable) was merged
   without renaming and captured the caller's references
   — **fixed** by `fixes/C07-outer-capture.patch`; the model follows the fixed code, and
   `C07_inline_no_capture` holds without any side condition.

The index map of `_update_actual_indices` (array-section actuals) is modelled for ANY rank and any
position of the sections in `Model/InlineIdx.lean`; `C07_index_map_sound` proves it against Fortran's
argument-association rule, `C07_*_is_index_map` show the four fixed shapes of `Model/Inline.lean` are
instances of it.

1 and 2 are not repaired by a small patch: `C07_statement` (the full property) is refuted by two
kernel-checked witnesses and proved under the decidable side condition `IndexStable`. -/
namespace C07
open MiniF

deriving instance DecidableEq for Except

/-! ## helper lemmas -/

theorem le_maxList {xs : List Nat} {x : Nat} (h : x ∈ xs) : x ≤ maxList xs := by
  induction xs with
  | nil => cases h
  | cons y ys ih =>
    simp only [maxList]
    rcases List.mem_cons.mp h with h | h
    · subst h; exact Nat.le_max_left _ _
    · exact Nat.le_trans (ih h) (Nat.le_max_right _ _)

theorem inline_ok {c : Call} {s : Stmt} (h : inline c = .ok s) : validate c = .ok () ∧ s = apply c := by
  unfold inline at h
  split at h
  · cases h
  · rename_i hv
    cases h
    exact ⟨hv, rfl⟩

/-- with no callee locals the frame is irrelevant -/
theorem execCall_no_locals {c : Call} (h : c.locals = []) (fr : Nat → Nat) (σ : Store) :
    execCall fr c σ = execCall id c σ := by
  have : envOf fr c σ = envOf id c σ := by
    funext x
    simp [envOf, roleOf, h]
  simp only [execCall, this]

/-- storage that could be used for the callee's locals: not visible to the caller, distinct
locals at distinct places -/
def FreshFrame (c : Call) (fr : Nat → Nat) : Prop :=
  (∀ l ∈ c.locals, fr l ∉ visible c) ∧ (∀ l ∈ c.locals, ∀ l' ∈ c.locals, fr l = fr l' → l = l')

/-! ## The property -/

/-- **Full statement** (false of the code, see the two witnesses): whenever `InlineTrans` accepts a
legal call, the statements that replace the call leave every caller-visible location exactly as
the call would have, for every store — the callee's locals being placed in some storage the
caller cannot see. -/
def C07_statement : Prop :=
  ∀ (c : Call) (s : Stmt), inline c = .ok s → Legal c →
    ∃ fr, FreshFrame c fr ∧
      ∀ σ : Store, ∀ x ∈ visible c, ∀ i j, (exec s σ) (x, i, j) = (execCall fr c σ) (x, i, j)

/-- **Soundness (partial).**  For every accepted legal call whose actual arguments' subscripts /
section bounds / expression operands are not written by the inlined body, the inlined statements
compute *exactly* the store of the by-reference call (callee locals placed where the merge put
them), from every store. -/
theorem C07_inline_sound_partial (c : Call) (s : Stmt) (hin : inline c = .ok s)
    (hl : Legal c) (hst : IndexStable c) :
    ∀ σ : Store, exec s σ = execCall (renOf c) c σ := by
  intro σ
  obtain ⟨_, rfl⟩ := inline_ok hin
  exact exec_subst_eq_execCall (renOf c) c hl
    (by intro x hx; exact hst x (by rw [written_eq]; exact hx)) σ

/-- a renamed local gets a name that occurs in neither table nor in any enclosing scope -/
theorem C07_rename_fresh (c : Call) (l : Nat) (h : l ∈ visible c) : renOf c l ∉ allNames c := by
  intro hmem
  have := le_maxList hmem
  have hv : l ∈ c.localNames ∨ l ∈ c.outerNames := by simpa [visible] using h
  simp only [renOf, hv, if_true] at this
  omega

/-- **No capture** (unconditional on the fixed code).  After the merge the callee's locals occupy
names the caller cannot see, and distinct locals occupy distinct names. -/
theorem C07_inline_no_capture (c : Call) : FreshFrame c (renOf c) := by
  have hall : ∀ l ∈ c.locals, l ≤ maxList (allNames c) := fun l hl =>
    le_maxList (by simp [allNames, hl])
  constructor
  · intro l _ hvis
    by_cases hloc : l ∈ visible c
    · exact C07_rename_fresh c l hloc (by
        simp only [visible, List.mem_append] at hvis
        simp only [allNames, List.mem_append]
        rcases hvis with h1 | h1
        · exact Or.inl (Or.inl (Or.inl h1))
        · exact Or.inl (Or.inl (Or.inr h1)))
    · have hv : ¬ (l ∈ c.localNames ∨ l ∈ c.outerNames) := by simpa [visible] using hloc
      simp only [renOf, hv, if_false] at hvis
      exact hloc hvis
  · intro l hl l' hl' heq
    have h1 := hall l hl
    have h2 := hall l' hl'
    simp only [renOf] at heq
    split at heq <;> split at heq <;> omega

/-- the frame the driver uses to execute original programs is fresh for every call -/
theorem C07_farFrame_fresh (c : Call) : FreshFrame c (farFrame c) := by
  constructor
  · intro l _ hvis
    have : farFrame c l ∈ allNames c := by
      simp only [visible, List.mem_append] at hvis
      simp only [allNames, List.mem_append]
      rcases hvis with h1 | h1
      · exact Or.inl (Or.inl (Or.inl h1))
      · exact Or.inl (Or.inl (Or.inr h1))
    have := le_maxList this
    simp only [farFrame] at this
    omega
  · intro l _ l' _ heq
    simp only [farFrame] at heq
    omega

/-- **The property, under the side condition.** -/
theorem C07_inline_visible_partial (c : Call) (s : Stmt) (hin : inline c = .ok s)
    (hl : Legal c) (hst : IndexStable c) :
    ∃ fr, FreshFrame c fr ∧
      ∀ σ : Store, ∀ x ∈ visible c, ∀ i j, (exec s σ) (x, i, j) = (execCall fr c σ) (x, i, j) :=
  ⟨renOf c, C07_inline_no_capture c, fun σ _ _ i j => by
    rw [C07_inline_sound_partial c s hin hl hst σ]⟩

/-- scalar-variable actuals: nothing can be re-selected, so no stability condition is needed -/
theorem C07_scalar_actuals_sound (c : Call) (s : Stmt) (hin : inline c = .ok s) (hwf : Legal c)
    (hsc : ∀ a ∈ c.actuals, ∃ y, a = Actual.var y) : ∀ σ : Store, exec s σ = execCall (renOf c) c σ := by
  apply C07_inline_sound_partial c s hin hwf
  have : ∀ as : List Actual, (∀ a ∈ as, ∃ y, a = Actual.var y) → keyVars as = [] := by
    intro as
    induction as with
    | nil => intro _; rfl
    | cons a as ih =>
      intro h
      obtain ⟨y, rfl⟩ := h a (by simp)
      simp [keyVars, actualKeyVars, ih (fun a ha => h a (List.mem_cons_of_mem _ ha))]
  intro x _
  rw [this _ hsc]
  simp

/-- expression (and literal) actuals: sound as soon as the inlined body writes no variable
the expressions read -/
theorem C07_expr_actuals_sound (c : Call) (s : Stmt) (hin : inline c = .ok s) (hwf : Legal c)
    (hsc : ∀ a ∈ c.actuals, (∃ y, a = Actual.var y) ∨ ∃ e, a = Actual.expr e ∧ ∀ v ∈ exprVars e, v ∉ written s) :
    ∀ σ : Store, exec s σ = execCall (renOf c) c σ := by
  apply C07_inline_sound_partial c s hin hwf
  obtain ⟨_, rfl⟩ := inline_ok hin
  have : ∀ as : List Actual,
      (∀ a ∈ as, (∃ y, a = Actual.var y) ∨ ∃ e, a = Actual.expr e ∧ ∀ v ∈ exprVars e, v ∉ written (apply c)) →
      ∀ v ∈ keyVars as, v ∉ written (apply c) := by
    intro as
    induction as with
    | nil => intro _ v hv; cases hv
    | cons a as ih =>
      intro h v hv
      simp only [keyVars, List.mem_append] at hv
      rcases hv with hv | hv
      · rcases h a (by simp) with ⟨y, rfl⟩ | ⟨e, rfl, he⟩
        · cases hv
        · exact he v hv
      · exact ih (fun a ha => h a (List.mem_cons_of_mem _ ha)) v hv
  intro x hx hk
  exact this _ hsc x hk hx

/-- **Whole programs.**  Replacing every call of a caller program by its inlined body
preserves the program's store transformer, when every call site meets the side conditions. -/
theorem C07_inline_program_sound (p : CStmt)
    (h : ∀ c ∈ calls p, Legal c ∧ IndexStable c) :
    ∀ σ : Store, exec (inlineAll p) σ = execC renOf p σ := by
  induction p with
  | base s => intro σ; rfl
  | call c =>
    intro σ
    obtain ⟨hwf, hst⟩ := h c (by simp [calls])
    exact exec_subst_eq_execCall (renOf c) c hwf
      (by intro x hx; exact hst x (by rw [written_eq]; exact hx)) σ
  | fcall c res st =>
    intro σ
    obtain ⟨hwf, hst⟩ := h c (by simp [calls])
    simp only [inlineAll, exec, execC]
    have := exec_subst_eq_execCall (renOf c) c hwf
      (by intro x hx; exact hst x (by rw [written_eq]; exact hx)) σ
    show exec _ (exec (substS (roleOf (renOf c) c) c.body) σ) = _
    rw [this]
  | seq a b iha ihb =>
    intro σ
    simp only [inlineAll, exec, execC]
    rw [iha (fun c hc => h c (by simp [calls, hc])), ihb (fun c hc => h c (by simp [calls, hc]))]
  | ite cnd t f iht ihf =>
    intro σ
    simp only [inlineAll, exec, execC]
    rw [iht (fun c hc => h c (by simp [calls, hc])), ihf (fun c hc => h c (by simp [calls, hc]))]
  | loop v lo hi st b ih =>
    intro σ
    have : exec (inlineAll b) = execC renOf b := funext (ih (fun c hc => h c (by simp [calls, hc])))
    simp only [inlineAll, exec, execC, this]

/-- **Function references.**  `x = … f(args) …` becomes `<inlined body of f>; x = … inlined_f …`:
the result is the store of running the function (with its side effects) and then the
assignment with the value the result variable holds on return. -/
theorem C07_function_call_sound (c : Call) (res : Nat) (st : Stmt) (hl : Legal c) (hst : IndexStable c) :
    ∀ σ : Store, exec (.seq (apply c) (useAt res (renOf c res) st)) σ
      = exec (useAt res (renOf c res) st) (execCall (renOf c) c σ) :=
  fun σ => C07_inline_program_sound (.fcall c res st) (by intro c' hc'; simp [calls] at hc'; subst hc'; exact ⟨hl, hst⟩) σ

/-- the result variable of an inlined function (a callee local named like the function, which the
caller sees) is renamed to a name that occurs nowhere -/
theorem C07_function_result_fresh (c : Call) (res : Nat) (hvis : res ∈ visible c) :
    renOf c res ∉ allNames c := C07_rename_fresh c res hvis

/-! ### what an accepted call looks like (the refusals of `validate`) -/

/-- **No early RETURN.**  An accepted routine has no RETURN except possibly one as its very last
statement (which `apply` drops): nothing that is copied into the caller can leave the caller, and
the RETURN-free `body` is the whole routine. -/
theorem C07_validate_no_early_return (c : Call) (h : validate c = .ok ()) :
    earlyReturns c = 0 ∧ (c.nReturns = 0 ∨ (c.nReturns = 1 ∧ c.lastIsReturn = true)) := by
  unfold validate at h
  split at h
  · cases h
  · rename_i h0
    unfold earlyReturns
    cases hl : c.lastIsReturn <;> simp [hl] at h0 ⊢ <;> omega

theorem C07_validate_ok (c : Call) (h : validate c = .ok ()) :
    c.params.length = c.actuals.length ∧ checkArgs c.params c.actuals = none ∧
    (∀ x ∈ stmtVars c.body, x ∈ paramNames c ++ c.locals) ∧ (∀ l ∈ c.locals, l ∉ c.statics) ∧
    (∀ v ∈ loopVars c.body, badLoopVar c v = false) := by
  unfold validate at h
  split at h
  · cases h
  split at h
  · cases h
  · rename_i h1
    split at h
    · cases h
    · rename_i h2
      split at h
      · cases h
      · rename_i h3
        split at h
        · cases h
        · rename_i h5
          split at h
          · cases h
          · rename_i h4
            refine ⟨by simpa using h3, h4, ?_, ?_, ?_⟩
            · intro x hx
              simp only [List.any_eq_true, not_exists, not_and, Bool.not_eq_true] at h2
              have := h2 x hx
              simp at this
              simp only [List.mem_append]
              by_cases hp : x ∈ paramNames c
              · exact Or.inl hp
              · exact Or.inr (this hp)
            · intro l hl hs
              simp only [List.any_eq_true, not_exists, not_and, Bool.not_eq_true] at h1
              have := h1 l hl
              simp [hs] at this
            · intro v hv
              simp only [List.any_eq_true, not_exists, not_and, Bool.not_eq_true] at h5
              exact h5 v hv

/-- every name in an accepted body is a formal (with its actual) or a local of the routine -/
theorem C07_validate_closed (c : Call) (h : validate c = .ok ()) :
    ∀ x ∈ stmtVars c.body, (findFormal c.params c.actuals x).isSome = true ∨ x ∈ c.locals := by
  obtain ⟨hlen, _, hcl, _, _⟩ := C07_validate_ok c h
  intro x hx
  rcases List.mem_append.mp (hcl x hx) with hp | hl
  · exact Or.inl (findFormal_isSome (by omega) hp)
  · exact Or.inr hl

/-- an accepted array formal receives an array (section) of the same rank with unit strides whose
scalar indices are not operations; an expression is never passed to an array formal -/
theorem C07_validate_array_args (p : Param) (a : Actual) (hp : p.rank ≠ 0) (h : checkArg p a = none) :
    actualRank a = p.rank ∧ unitStride a = true ∧ (∀ e, a ≠ .expr e) ∧ opIndexed a = false := by
  unfold checkArg at h
  rw [if_neg hp] at h
  split at h
  · cases h
  · cases h
  · rename_i hne1 hne2
    split at h
    · cases h
    · rename_i hop
      split at h
      · cases h
      · rename_i hr
        split at h
        · rename_i hu
          refine ⟨by omega, hu, ?_, by simpa using hop⟩
          intro e he
          subst he
          simp [actualRank] at hr
          exact hp hr
        · cases h

/-! ### the callee frame is irrelevant; the inlined body does not clobber -/

/-- **Frame independence.**  The result of an accepted, well-scoped CALL on the caller-visible
locations does not depend on where the callee's locals are stored, as long as the storage is
fresh for the caller — given the same (arbitrary) initial contents of the locals. -/
theorem C07_frame_independent (c : Call) (hv : validate c = .ok ()) (hsc : WellScoped c)
    (fr₁ fr₂ : Nat → Nat) (h₁ : FreshFrame c fr₁) (h₂ : FreshFrame c fr₂) (σ₁ σ₂ : Store)
    (hvis : ∀ x ∈ visible c, ∀ i j, σ₁ (x, i, j) = σ₂ (x, i, j))
    (hjunk : ∀ l ∈ c.locals, ∀ i j, σ₁ (fr₁ l, i, j) = σ₂ (fr₂ l, i, j)) :
    ∀ x ∈ visible c, ∀ i j, (execCall fr₁ c σ₁) (x, i, j) = (execCall fr₂ c σ₂) (x, i, j) := by
  have hf : FrameOK (fun x => x ∈ visible c) c.locals fr₁ fr₂ := ⟨h₁.1, h₂.1, h₁.2, h₂.2⟩
  have hs : StoreRel (fun x => x ∈ visible c) c.locals fr₁ fr₂ σ₁ σ₂ := ⟨hvis, hjunk⟩
  have hclosed := C07_validate_closed c hv
  have hb : ∀ x ∈ stmtVars c.body, BindRel (fun x => x ∈ visible c) c.locals fr₁ fr₂
      (envOf fr₁ c σ₁ x) (envOf fr₂ c σ₂ x) := by
    intro x hx
    simp only [envOf, roleOf]
    cases hff : findFormal c.params c.actuals x with
    | some pa =>
      obtain ⟨p, a⟩ := pa
      simp only [bindRole]
      exact bindActual_rel p a (hsc a (findFormal_mem hff).1) hvis
    | none =>
      rcases hclosed x hx with h | h
      · rw [hff] at h; cases h
      · simp only [h, if_true, bindRole]
        exact .frame x h
  have := execE_rel hf c.body hs hb
  exact fun x hx i j => this.vis x hx i j

/-- **Soundness for any fresh frame**: the inlined statements agree, on everything the caller can
see, with the CALL executed with its locals in *any* storage fresh for the caller. -/
theorem C07_inline_sound_any_frame (c : Call) (s : Stmt) (hin : inline c = .ok s) (hl : Legal c)
    (hst : IndexStable c) (hsc : WellScoped c) (fr : Nat → Nat) (hfr : FreshFrame c fr) (σ τ : Store)
    (hvis : ∀ x ∈ visible c, ∀ i j, σ (x, i, j) = τ (x, i, j))
    (hjunk : ∀ l ∈ c.locals, ∀ i j, σ (renOf c l, i, j) = τ (fr l, i, j)) :
    ∀ x ∈ visible c, ∀ i j, (exec s σ) (x, i, j) = (execCall fr c τ) (x, i, j) := by
  intro x hx i j
  rw [C07_inline_sound_partial c s hin hl hst σ]
  exact C07_frame_independent c (inline_ok hin).1 hsc (renOf c) fr (C07_inline_no_capture c) hfr σ τ
    hvis hjunk x hx i j

/-- **No clobber.**  Every variable the inlined body writes is either a merged local (under its
new name) or the caller variable that an actual argument gives access to, for a formal the
callee body itself writes — i.e. a variable the CALL writes too. -/
theorem C07_inline_no_clobber (c : Call) (hv : validate c = .ok ()) (hl : Legal c) :
    ∀ x ∈ written (apply c), (∃ l ∈ c.locals, x = renOf c l) ∨
      ∃ y ∈ written c.body, ∃ p a, findFormal c.params c.actuals y = some (p, a) ∧ actualBase a = some x := by
  intro x hx
  rw [written_eq] at hx
  obtain ⟨y, hy, hxy, hne⟩ := wvars_substS _ _ hl x hx
  have hcl := C07_validate_closed c hv y (wvars_subset_stmtVars _ y hy)
  unfold roleOf at hxy hne
  cases hff : findFormal c.params c.actuals y with
  | some pa =>
    obtain ⟨p, a⟩ := pa
    rw [hff] at hxy hne
    refine Or.inr ⟨y, by rw [written_eq]; exact hy, p, a, hff, ?_⟩
    cases a <;> simp_all [actualBase, NotExprRole, target]
  | none =>
    rw [hff] at hxy hne hcl
    have hloc : y ∈ c.locals := by simpa using hcl
    simp only [hloc, if_true, target] at hxy
    exact Or.inl ⟨y, hloc, hxy⟩

/-- a caller-visible variable written by the inlined body is reachable through an actual argument -/
theorem C07_inline_no_clobber_visible (c : Call) (hv : validate c = .ok ()) (hl : Legal c) :
    ∀ x ∈ written (apply c), x ∈ visible c → ∃ a ∈ c.actuals, actualBase a = some x := by
  intro x hx hvis
  rcases C07_inline_no_clobber c hv hl x hx with ⟨l, hl', rfl⟩ | ⟨y, _, p, a, hff, hb⟩
  · exact absurd hvis ((C07_inline_no_capture c).1 l hl')
  · exact ⟨a, (findFormal_mem hff).1, hb⟩

/-! ### witnesses: the code violates the full statement -/

/-- `call s(a(i), i)` with `s(x,k): k = k + 1; x = 100`  (names: a=0 i=1 x=2 k=3) -/
def cexIdx : Call :=
  { localNames := [0, 1], outerNames := [], params := [⟨2, 0, 1, 1⟩, ⟨3, 0, 1, 1⟩], locals := [], statics := [],
    body := .seq (.assign 3 (.bin .add (.var 3) (.lit 1))) (.assign 2 (.lit 100)),
    actuals := [.elem1 0 (.var 1), .var 1] }

example : inline cexIdx = .ok (.seq (.assign 1 (.bin .add (.var 1) (.lit 1))) (.store1 0 (.var 1) (.lit 100))) := by
  decide
example : Legal cexIdx ∧ WellScoped cexIdx ∧ ¬ IndexStable cexIdx := by decide

/-- With `i = 2`: the call stores 100 into `a(2)`, the inlined code into `a(3)`. -/
theorem C07_inline_index_modified_counterexample : ¬ C07_statement := by
  intro h
  obtain ⟨fr, _, hs⟩ := h cexIdx (apply cexIdx) (by decide) (by decide)
  have := hs (storeOf [((1, 0, 0), 2)]) 0 (by decide) 2 0
  rw [execCall_no_locals rfl] at this
  exact absurd this (by decide)

/-- `call s(i+1, i, n)` with `s(x,k,m): k = k + 1; m = x`  (names: i=1 n=4 x=2 k=3 m=5) -/
def cexExpr : Call :=
  { localNames := [1, 4], outerNames := [], params := [⟨2, 0, 1, 1⟩, ⟨3, 0, 1, 1⟩, ⟨5, 0, 1, 1⟩], locals := [],
    statics := [], body := .seq (.assign 3 (.bin .add (.var 3) (.lit 1))) (.assign 5 (.var 2)),
    actuals := [.expr (.bin .add (.var 1) (.lit 1)), .var 1, .var 4] }

/-- With `i = 2`: the call gives `n = 3` (value of `i+1` at the call), the inlined code `n = 4`. -/
theorem C07_expr_actual_counterexample : ¬ C07_statement := by
  intro h
  obtain ⟨fr, _, hs⟩ := h cexExpr (apply cexExpr) (by decide) (by decide)
  have := hs (storeOf [((1, 0, 0), 2)]) 4 (by decide) 0 0
  rw [execCall_no_locals rfl] at this
  exact absurd this (by decide)

/-! ### the two repaired defects: the fixed model is right on the former witnesses -/

/-- `call s(i, n)` with `s(k,m): do k = 1, 3; m = m + k; enddo`, the caller also has a variable
named `k`  (names: i=1 n=4 k=3 m=5) -/
def cexLoop : Call :=
  { localNames := [1, 4, 3], outerNames := [], params := [⟨3, 0, 1, 1⟩, ⟨5, 0, 1, 1⟩], locals := [], statics := [],
    body := .loop 3 (.lit 1) (.lit 3) (.lit 1) (.assign 5 (.bin .add (.var 5) (.var 3))),
    actuals := [.var 1, .var 4] }

example : Legal cexLoop ∧ IndexStable cexLoop := by decide
/-- the loop now runs over the actual `i` -/
example : inline cexLoop = .ok (.loop 1 (.lit 1) (.lit 3) (.lit 1) (.assign 4 (.bin .add (.var 4) (.var 1)))) := by
  decide
/-- … and an element actual for a DO-variable formal is refused -/
example : validate { cexLoop with actuals := [.elem1 0 (.var 1), .var 4] } = .error .loopVarActual := by decide

/-- module variable `g`, caller `call s(i)`, callee `s(x)` has a local `g`: `g = 5; x = g`
(names: g=0 i=1 x=2) -/
def cexCapture : Call :=
  { localNames := [1], outerNames := [0], params := [⟨2, 0, 1, 1⟩], locals := [0], statics := [],
    body := .seq (.assign 0 (.lit 5)) (.assign 2 (.var 0)), actuals := [.var 1] }

/-- the local `g` is renamed (to 3): the module variable is no longer captured -/
example : apply cexCapture = .seq (.assign 3 (.lit 5)) (.assign 1 (.var 3)) := by decide
example : (exec (apply cexCapture) (storeOf [((0, 0, 0), 1)])) (0, 0, 0) = 1 := by decide

/-! ### a function reference -/

/-- `t = t + f(n, a) * 2` with `f(x, v): q = x + 1; q = q + v(2); f = q * 2`, `a(0:10)`, `v(:)`
(names: a=0 n=4 t=5 f=6 x=2 v=8 q=7; the function name `f` is visible in the enclosing scope) -/
def exFun : Call :=
  { localNames := [0, 4, 5], outerNames := [6], params := [⟨2, 0, 1, 1⟩, ⟨8, 1, 1, 1⟩], locals := [6, 7], statics := [],
    body := .seq (.assign 7 (.bin .add (.var 2) (.lit 1)))
      (.seq (.assign 7 (.bin .add (.var 7) (.idx1 8 (.lit 2)))) (.assign 6 (.bin .mul (.var 7) (.lit 2)))),
    actuals := [.var 4, .sec1 0 (.lit 0) true] }

def exFunUse : Stmt := .assign 5 (.bin .add (.var 5) (.bin .mul (.var 6) (.lit 2)))

example : validate exFun = .ok () ∧ Legal exFun ∧ IndexStable exFun ∧ WellScoped exFun := by decide
/-- the result variable `f` is renamed (to 15) and replaces the call -/
example : inlineAll (.fcall exFun 6 exFunUse) =
    .seq (.seq (.assign 7 (.bin .add (.var 4) (.lit 1)))
        (.seq (.assign 7 (.bin .add (.var 7) (.idx1 0 (.bin .add (.bin .sub (.lit 2) (.lit 1)) (.lit 0)))))
          (.assign 15 (.bin .mul (.var 7) (.lit 2)))))
      (.assign 5 (.bin .add (.var 5) (.bin .mul (.var 15) (.lit 2)))) := by decide
/-- n = 3, a(1) = 10, t = 1  ⇒  f = (3 + 1 + 10) * 2 = 28, t = 1 + 28 * 2 = 57 -/
example : (execC farFrame (.fcall exFun 6 exFunUse) (storeOf [((4, 0, 0), 3), ((0, 1, 0), 10), ((5, 0, 0), 1)])) (5, 0, 0) = 57 := by
  decide
example : (exec (inlineAll (.fcall exFun 6 exFunUse)) (storeOf [((4, 0, 0), 3), ((0, 1, 0), 10), ((5, 0, 0), 1)])) (5, 0, 0) = 57 := by
  decide

/-! ### non-vacuity: the hypotheses are satisfiable on a non-trivial call -/

/-- caller: `a`(0), `i`(1), `n`(4), `m`(6) rank-2; callee `s(x, k, v, w)` with locals `i`(1), `t`(7):
`do i = 1, 3; v(i) = k + i; enddo; t = w(2, k); x = x + t`
called as `call s(a(i), n, a, m)` with `a(0:10)`, `m(0:5, 2:7)`, `v(:)`, `w(:,:)`.
(names: x=2 k=3 v=8 w=9) -/
def exOK : Call :=
  { localNames := [0, 1, 4, 6], outerNames := [10], params := [⟨2, 0, 1, 1⟩, ⟨3, 0, 1, 1⟩, ⟨8, 1, 1, 1⟩, ⟨9, 2, 1, 1⟩],
    locals := [1, 7], statics := [],
    body := .seq (.loop 1 (.lit 1) (.lit 3) (.lit 1) (.store1 8 (.var 1) (.bin .add (.var 3) (.var 1))))
      (.seq (.assign 7 (.idx2 9 (.lit 2) (.var 3))) (.assign 2 (.bin .add (.var 2) (.var 7)))),
    actuals := [.elem1 0 (.var 1), .var 4, .sec1 0 (.lit 0) true, .sec2 6 (.lit 0) (.lit 2) true] }

example : validate exOK = .ok () := by decide
example : Legal exOK ∧ IndexStable exOK ∧ WellScoped exOK := by decide
/-- the clashing local `i` is renamed (to 12), `t` keeps its name, indices are shifted -/
example : apply exOK =
    .seq (.loop 12 (.lit 1) (.lit 3) (.lit 1)
        (.store1 0 (.bin .add (.bin .sub (.var 12) (.lit 1)) (.lit 0)) (.bin .add (.var 4) (.var 12))))
      (.seq (.assign 7 (.idx2 6 (.bin .add (.bin .sub (.lit 2) (.lit 1)) (.lit 0))
          (.bin .add (.bin .sub (.var 4) (.lit 1)) (.lit 2))))
        (.store1 0 (.var 1) (.bin .add (.idx1 0 (.var 1)) (.var 7)))) := by decide
example : FreshFrame exOK (renOf exOK) := C07_inline_no_capture exOK
/-- refusals -/
example : validate { exOK with actuals := [.elem1 0 (.var 1), .var 4, .sec1 0 (.lit 0) true] } = .error .nargs := by decide
example : validate { exOK with actuals := [.elem1 0 (.var 1), .var 4, .sec1 0 (.lit 0) false, .sec2 6 (.lit 0) (.lit 2) true] }
    = .error .stride := by decide
example : validate { exOK with actuals := [.elem1 0 (.var 1), .var 4, .elem1 0 (.lit 1), .sec2 6 (.lit 0) (.lit 2) true] }
    = .error .rank := by decide
example : validate { exOK with statics := [7] } = .error .static := by decide
/-- RETURNs: a single trailing one is accepted; one nested RETURN plus a trailing one, a RETURN that
is not last, and two RETURNs are refused -/
example : validate { exOK with nReturns := 1, lastIsReturn := true } = .ok () := by decide
example : validate { exOK with nReturns := 2, lastIsReturn := true } = .error .earlyReturn := by decide
example : validate { exOK with nReturns := 1, lastIsReturn := false } = .error .earlyReturn := by decide
example : validate { exOK with nReturns := 3, lastIsReturn := false } = .error .earlyReturn := by decide
example : validate { exOK with locals := [1] } = .error .container := by decide
/-- the call and the inlined code agree on a concrete store (both evaluated by the kernel) -/
example : (exec (apply exOK) (storeOf [((1, 0, 0), 2), ((4, 0, 0), 3), ((6, 1, 4), 9), ((0, 2, 0), 5)])) (0, 2, 0)
    = (execCall (renOf exOK) exOK (storeOf [((1, 0, 0), 2), ((4, 0, 0), 3), ((6, 1, 4), 9), ((0, 2, 0), 5)])) (0, 2, 0) := by
  decide


/-! ### the index map for array actuals of any rank (`_update_actual_indices`) -/

/-- an explicit section start is used as it is: the `is_lower_bound` branch only replaces an
expression by a syntactically equal one -/
theorem actualStart_some (d : Int) (s : Expr) (stp : Int) : actualStart (.sec d (some s) stp) = s := by
  unfold actualStart
  simp only [AIdx.isLowerBound, AIdx.startExpr, AIdx.dlo]
  by_cases h : s = Expr.lit d
  · simp [h]
  · simp [h]

/-- an omitted start (`:`) becomes the declared lower bound of that dimension of the actual -/
theorem actualStart_none (d : Int) (stp : Int) : actualStart (.sec d none stp) = .lit d := by
  simp [actualStart, AIdx.isLowerBound, AIdx.dlo]

theorem eval_actualStart (d : Int) (st : Option Expr) (stp : Int) (σ : Store) :
    eval (actualStart (.sec d st stp)) σ = (match st with | none => d | some s => eval s σ) := by
  cases st with
  | none => rw [actualStart_none]; rfl
  | some s => rw [actualStart_some]

/-- **The index map is right, for every rank, every position of the sections and all bounds.**
If `_update_actual_indices` produces the indices `out` for the local reference `x(ks)`, and all
sections have unit stride (what `validate` guarantees), then in every store the element
`a(out)` of the caller is the element Fortran associates with `x(ks)`. -/
theorem C07_index_map_sound (σ : Store) :
    ∀ (as : List AIdx) (los : List Int) (ks out : List Expr),
      updateIdx as los ks = some out → unitSteps as = true →
      assocElem σ as los (ks.map (eval · σ)) = some (out.map (eval · σ)) := by
  intro as
  induction as with
  | nil =>
    intro los ks out h _
    cases los <;> cases ks <;> simp_all [updateIdx, assocElem]
  | cons a as ih =>
    intro los ks out h hu
    cases a with
    | ix d e =>
      simp only [updateIdx] at h
      cases hrec : updateIdx as los ks with
      | none => simp [hrec] at h
      | some o =>
        simp only [hrec, Option.some.injEq] at h
        subst h
        have := ih los ks o hrec (by simpa [unitSteps] using hu)
        simp only [assocElem, this, List.map]
    | sec d st stp =>
      cases los with
      | nil => simp [updateIdx] at h
      | cons lo los =>
        cases ks with
        | nil => simp [updateIdx] at h
        | cons k ks =>
          simp only [updateIdx] at h
          cases hrec : updateIdx as los ks with
          | none => simp [hrec] at h
          | some o =>
            simp only [hrec, Option.some.injEq] at h
            subst h
            simp only [unitSteps, Bool.and_eq_true, decide_eq_true_eq] at hu
            obtain ⟨hs, hu⟩ := hu
            subst hs
            have := ih los ks o hrec hu
            simp only [List.map, assocElem, this, eval_shiftIdx, eval_actualStart, Option.some.injEq,
              List.cons.injEq, and_true]
            cases st <;> simp <;> omega

/-- the map is defined exactly when the actual has as many sections as the formal has dimensions
and the local reference has indices (no reshaping — the `rank` refusal of `validate`) -/
theorem C07_index_map_defined (as : List AIdx) (los : List Int) (ks : List Expr) :
    (updateIdx as los ks).isSome = true ↔ (secCount as = los.length ∧ secCount as = ks.length) := by
  induction as generalizing los ks with
  | nil => cases los <;> cases ks <;> simp [updateIdx, secCount]
  | cons a as ih =>
    cases a with
    | ix d e =>
      have := ih los ks
      simp only [updateIdx, secCount]
      cases h : updateIdx as los ks <;> simp [h] at this ⊢ <;> omega
    | sec d st stp =>
      cases los with
      | nil => simp [updateIdx, secCount]
      | cons lo los =>
        cases ks with
        | nil => simp [updateIdx, secCount]
        | cons k ks =>
          have := ih los ks
          simp only [updateIdx, secCount, List.length_cons]
          cases h : updateIdx as los ks <;> simp [h] at this ⊢ <;> omega

/-- the output has one index per position of the actual, and scalar positions are untouched -/
theorem C07_index_map_length (as : List AIdx) (los : List Int) (ks out : List Expr)
    (h : updateIdx as los ks = some out) : out.length = as.length := by
  induction as generalizing los ks out with
  | nil => cases los <;> cases ks <;> simp_all [updateIdx]
  | cons a as ih =>
    cases a with
    | ix d e =>
      simp only [updateIdx] at h
      cases hrec : updateIdx as los ks with
      | none => simp [hrec] at h
      | some o => simp only [hrec, Option.some.injEq] at h; subst h; simp [ih los ks o hrec]
    | sec d st stp =>
      cases los with
      | nil => simp [updateIdx] at h
      | cons lo los =>
        cases ks with
        | nil => simp [updateIdx] at h
        | cons k ks =>
          simp only [updateIdx] at h
          cases hrec : updateIdx as los ks with
          | none => simp [hrec] at h
          | some o => simp only [hrec, Option.some.injEq] at h; subst h; simp [ih los ks o hrec]

/-- **The stride refusal is necessary**: for `call s(a(2:8:2))` with `x(1:)`, the element `x(3)` is
`a(6)`, but the index map (which ignores the step) yields `a(4)` -/
theorem C07_index_map_stride_counterexample :
    ∃ as los ks out, updateIdx as los ks = some out ∧ unitSteps as = false ∧
      assocElem (storeOf []) as los (ks.map (eval · (storeOf []))) ≠ some (out.map (eval · (storeOf []))) :=
  ⟨[.sec 0 (some (.lit 2)) 2], [1], [.lit 3], _, rfl, rfl, by decide⟩

/-! #### the four fixed shapes of `Model/Inline.lean` are instances of the general map -/

theorem C07_sec1_is_index_map (p : Param) (a : Nat) (st : Expr) (u : Bool) (x : Nat) (e : Expr) (d1 d2 : Int) :
    ∃ i, updateIdx (aidxOf d1 d2 (.sec1 a st u)) [p.lo1] [e] = some [i] ∧
      substRef1 (.formal p (.sec1 a st u)) x e = .idx1 a i :=
  ⟨_, by simp only [aidxOf, updateIdx, actualStart_some], rfl⟩

theorem C07_row_is_index_map (p : Param) (a : Nat) (i st : Expr) (u : Bool) (x : Nat) (e : Expr) (d1 d2 : Int) :
    ∃ i' j', updateIdx (aidxOf d1 d2 (.row a i st u)) [p.lo1] [e] = some [i', j'] ∧
      substRef1 (.formal p (.row a i st u)) x e = .idx2 a i' j' :=
  ⟨_, _, by simp only [aidxOf, updateIdx, actualStart_some], rfl⟩

theorem C07_col_is_index_map (p : Param) (a : Nat) (st j : Expr) (u : Bool) (x : Nat) (e : Expr) (d1 d2 : Int) :
    ∃ i' j', updateIdx (aidxOf d1 d2 (.col a st j u)) [p.lo1] [e] = some [i', j'] ∧
      substRef1 (.formal p (.col a st j u)) x e = .idx2 a i' j' :=
  ⟨_, _, by simp only [aidxOf, updateIdx, actualStart_some], rfl⟩

theorem C07_sec2_is_index_map (p : Param) (a : Nat) (st1 st2 : Expr) (u : Bool) (x : Nat) (e1 e2 : Expr) (d1 d2 : Int) :
    ∃ i' j', updateIdx (aidxOf d1 d2 (.sec2 a st1 st2 u)) [p.lo1, p.lo2] [e1, e2] = some [i', j'] ∧
      substRef2 (.formal p (.sec2 a st1 st2 u)) x e1 e2 = .idx2 a i' j' :=
  ⟨_, _, by simp only [aidxOf, updateIdx, actualStart_some], rfl⟩

/-- … and the CALL semantics `bindActual` of those shapes is `assocElem` (unit stride): the location a
formal element denotes during the call is the one Fortran's association rule gives -/
theorem C07_bindActual_is_assoc (σ₀ : Store) (p : Param) (a : Nat) (i st : Expr) (k : Int) (d1 d2 : Int) :
    (∃ f, bindActual σ₀ p (.row a i st true) = .ref f ∧
      assocElem σ₀ (aidxOf d1 d2 (.row a i st true)) [p.lo1] [k] = some [(f k 0).2.1, (f k 0).2.2]) ∧
    (∃ f, bindActual σ₀ p (.col a st i true) = .ref f ∧
      assocElem σ₀ (aidxOf d1 d2 (.col a st i true)) [p.lo1] [k] = some [(f k 0).2.1, (f k 0).2.2]) ∧
    (∃ f, bindActual σ₀ p (.sec1 a st true) = .ref f ∧
      assocElem σ₀ (aidxOf d1 d2 (.sec1 a st true)) [p.lo1] [k] = some [(f k 0).2.1]) := by
  refine ⟨⟨_, rfl, ?_⟩, ⟨_, rfl, ?_⟩, ⟨_, rfl, ?_⟩⟩ <;>
    simp [aidxOf, assocElem] <;> omega

/-! #### non-vacuity and sanity evaluations (rank 3, sections in non-leading positions) -/

/-- `call s(t3(0, 3:5, j))` with `t3(0:3, 2:5, 1:4)`, `x(2:)`: `x(l)` becomes `t3(0, l - 2 + 3, j)`
(the scalar index `0` equals the declared lower bound of ITS dimension — irrelevant for the section) -/
example : updateIdx [.ix 0 (.lit 0), .sec 2 (some (.lit 3)) 1, .ix 1 (.var 5)] [2] [.var 9]
    = some [.lit 0, .bin .add (.bin .sub (.var 9) (.lit 2)) (.lit 3), .var 5] := by decide
/-- `call s(t3(:, 2, 2:3))`, `x(:, 0:)`: `x(l, 1)` becomes `t3(l - 1 + 0, 2, 1 - 0 + 2)` -/
example : updateIdx [.sec 0 none 1, .ix 2 (.lit 2), .sec 1 (some (.lit 2)) 1] [1, 0] [.var 9, .lit 1]
    = some [.bin .add (.bin .sub (.var 9) (.lit 1)) (.lit 0), .lit 2,
            .bin .add (.bin .sub (.lit 1) (.lit 0)) (.lit 2)] := by decide
/-- a section starting at the declared lower bound of a dimension declared from 1, formal `x(:)`: no shift -/
example : updateIdx [.ix 0 (.var 1), .sec 1 none 1] [1] [.var 9] = some [.var 1, .var 9] := by decide
example : updateIdx [.ix 0 (.var 1), .sec 1 none 1] [1, 1] [.var 9, .var 9] = none := by decide
example : assocElem (storeOf [((5, 0, 0), 4)]) [.ix 0 (.lit 0), .sec 2 (some (.lit 3)) 1, .ix 1 (.var 5)] [2] [3]
    = some [0, 4, 4] := by decide
example : unitSteps [.ix 0 (.lit 0), .sec 2 (some (.lit 3)) 1] = true ∧ unitSteps [.sec 2 none 2] = false := by decide

/-- what the array-argument checks of `validate` establish for an actual of any rank -/
theorem C07_checkIdx_ok (frank : Nat) (as : List AIdx) (h : checkIdx frank as = none) :
    secCount as = frank ∧ unitSteps as = true ∧ opIndices as = false := by
  unfold checkIdx at h
  split at h
  · cases h
  · rename_i hop
    split at h
    · cases h
    · rename_i hr
      split at h
      · rename_i hu; exact ⟨by omega, hu, by simpa using hop⟩
      · cases h

/-- **Accepted ⇒ the index map exists and is right** (any rank, any position of the sections): if
`validate`'s checks pass for the actual `a(as)` against a formal with declared lower bounds `los`, every
element reference `x(ks)` of matching rank is mapped, and to the element Fortran associates with it -/
theorem C07_validate_index_map (as : List AIdx) (los : List Int) (ks : List Expr)
    (h : checkIdx los.length as = none) (hk : ks.length = los.length) (σ : Store) :
    ∃ out, updateIdx as los ks = some out ∧ out.length = as.length ∧
      assocElem σ as los (ks.map (eval · σ)) = some (out.map (eval · σ)) := by
  obtain ⟨hc, hu, _⟩ := C07_checkIdx_ok _ _ h
  have hd := (C07_index_map_defined as los ks).mpr ⟨hc, by omega⟩
  cases hout : updateIdx as los ks with
  | none => simp [hout] at hd
  | some out => exact ⟨out, rfl, C07_index_map_length as los ks out hout, C07_index_map_sound σ as los ks out hout hu⟩

/-- on the four fixed shapes the per-argument check of `Model/Inline.lean` is the general one -/
theorem C07_checkArg_is_checkIdx (p : Param) (a : Actual) (d1 d2 : Int) (hp : p.rank ≠ 0)
    (ha : (∃ x st u, a = .sec1 x st u) ∨ (∃ x s1 s2 u, a = .sec2 x s1 s2 u) ∨ (∃ x st j u, a = .col x st j u) ∨
      (∃ x i st u, a = .row x i st u)) :
    checkArg p a = checkIdx p.rank (aidxOf d1 d2 a) := by
  rcases ha with ⟨x, st, u, rfl⟩ | ⟨x, s1, s2, u, rfl⟩ | ⟨x, st, j, u, rfl⟩ | ⟨x, i, st, u, rfl⟩ <;>
    cases u <;>
    simp [checkArg, checkIdx, hp, aidxOf, opIndexed, opIndices, actualRank, secCount, unitStride, unitSteps]

example : checkIdx 1 [.ix 0 (.lit 0), .sec 2 (some (.lit 3)) 1, .ix 1 (.var 5)] = none := by decide
example : checkIdx 1 [.ix 0 (.bin .sub (.var 3) (.lit 1)), .sec 2 none 1] = some .unknownType := by decide
example : checkIdx 2 [.ix 0 (.lit 0), .sec 2 none 1] = some .rank := by decide
example : checkIdx 2 [.sec 0 none 1, .ix 0 (.lit 0), .sec 2 none 2] = some .stride := by decide
/-- non-vacuity of `C07_validate_index_map` on a rank-3 actual with two sections -/
example : checkIdx [1, 0].length [.sec 0 none 1, .ix 2 (.lit 2), .sec 1 (some (.lit 2)) 1] = none := by decide


end C07
